/-
C11 driver, op "wire": the real `runTestCasesForServer` fed with the bytes its peers put on their
stdout.  The script of the model is built from those bytes: the server's response is
`Resp.stream bytes body`, the per-case behaviour behind the real client runner is
`casesOfClientStream`; both go through the model of the length-prefixed reader at the call site.

`agree` := outcome class per name, abort count, started = `runBatch`;
`holds` := the process survived, returned in time, exactly the batch names have an outcome, every
           class satisfies `Spec.expectedOK`, `Spec.stoppedOK`.
-/
import ConfModel.Driver.Common
import ConfModel.Spec.ServerRunner
namespace ConfModel.Driver.C11Wire
open Lean ConfModel.Driver ConfModel.ServerRunner

def className : Class → String
  | .pass => "pass" | .fail => "fail" | .setup => "setup" | .norun => "norun" | .noresult => "noresult"

def parseClass (c : String) : Option Class :=
  match c with
  | "pass" => some .pass | "fail" => some .fail | "setup" => some .setup | "norun" => some .norun
  | "noresult" => some .noresult | _ => none

def pairs (j : Json) : List (String × String) :=
  (arr j).map fun p => match strList p with | [a, b] => (a, b) | _ => ("?", "?")

def stream (inp : Json) (hexKey fillKey : String) : List UInt8 :=
  unhex (str (field inp hexKey)) ++ List.replicate (nat (field inp fillKey)) 0

def handle (inp impl : Json) : Verdict :=
  let names := strList (field inp "names")
  let n := names.length
  if names.eraseDups.length != n then bad "batch names not distinct" else
  if bool (field impl "crashed") then
    { agree := false, holds := false, cls := "crashed",
      why := s!"the runner died ({str (field impl "how")}: {str (field impl "detail")}): none of the {n} cases of the batch — nor of any other batch of the run — gets an outcome" } else
  if !(isNull (field impl "panic")) then
    { agree := false, holds := false, why := "panic: " ++ str (field impl "panic") } else
  -- the process was not scheduled for seconds while the scenario ran (twice): set aside
  if nat (field impl "frozenMs") > 0 then
    { agree := true, holds := true, nontrivial := false, cls := "wire-set-aside" } else
  let sOut := stream inp "serverOut" "serverFill"
  let body : Option Bool := match str (field inp "serverBody") with
    | "plain" => some false | "empty" => some false | "cert" => some true | _ => none
  let real := str (field inp "client") == "real"
  let cases := if real then casesOfClientStream n (nat (field inp "clientValid")) (stream inp "clientOut" "clientFill")
    else List.replicate n (Case.answer .pass false)
  let s : Script := {
    cases := cases, isRef := bool (field inp "isRef"), useTLS := bool (field inp "useTLS"),
    startErr := false, writeErr := false, closeErr := false, resp := .stream sOut body,
    dies := none, names := names.map String.toList, stderr := [] }
  let out := runBatch s
  let mFinal : List (String × String) := (List.range n).filterMap fun i =>
    (out.log.reverse.find? (·.1 == i)).map fun e => (names.getD i "?", className e.2)
  let mOutcomes := (mFinal.toArray.qsort (fun a b => a.1 < b.1)).toList
  let iOutcomes := pairs (field impl "outcomes")
  let iAborts := nat (field impl "aborts")
  let iStarted := bool (field impl "started")
  let hang := bool (field impl "hang")
  let agree := !hang && iOutcomes == mOutcomes && iAborts == out.aborts && iStarted == out.started
  let keysOK := asSet (iOutcomes.map (·.1)) == asSet names && iOutcomes.length == n
  let perCase := (List.range n).all fun i =>
    match (iOutcomes.find? (·.1 == names.getD i "?")).bind (fun p => parseClass p.2) with
    | some c => Spec.expectedOK s i c
    | none => false
  let stopped := Spec.stoppedOK iStarted iAborts
  let why :=
    if hang then "runTestCasesForServer did not return within 15 s"
    else if !keysOK then "outcomes recorded for " ++ toString (iOutcomes.map (·.1)) ++ ", batch is " ++ toString names
    else if !perCase then "outcome classes " ++ toString iOutcomes ++ " contradict what the peers wrote (unreadable server response ⇒ all set-up errors; answered ⇒ own verdict; not answered ⇒ set-up error)"
    else if !stopped then s!"server started={iStarted} but abort was called {iAborts} time(s)"
    else ""
  let holds := why == ""
  { agree := agree, holds := holds, nontrivial := true,
    model := Json.mkObj [("outcomes", toJson (mOutcomes.map fun (a, b) => [a, b])), ("aborts", toJson out.aborts)],
    why := if holds && !agree then "implementation differs from the model" else why,
    cls := if Spec.setupFault s then "wire-setup-fault"
      else if cases.any (fun c => match c with | .answer .noresult _ => true | _ => false) then "wire-client-gave-up"
      else "wire-complete" }

end ConfModel.Driver.C11Wire
