/-
C14 — the DATA frame between the wire and the per-stream `dataTracer`
(`internal/tracer/http2.go`: `http2FrameTracer.emitFrame` hands the buffered frame to an
`http2.Framer`; `handleFrame` feeds `frame.Data()` to the stream's tracer;
`golang.org/x/net/http2`: `parseDataFrame`, `readByte`, `Framer.WriteDataPadded`).

A DATA frame with the PADDED flag (0x8) carries, behind the 9-byte frame header, a Pad Length
octet, the data and that many padding octets (RFC 9113 §6.1).  Neither the Pad Length octet nor
the padding is part of the body: what reaches the envelope state machine is `DataFrame.Data()`.

* `DFrame` / `DFrame.data`: the frame as buffered (flag + payload) and `parseDataFrame` on it
  (`none`: the framer returns a connection error — the frame tracer of that direction is broken).
* `PData` / `PData.wire`: what a sender chooses (data, optional padding of any content) and
  `WriteDataPadded` on it.
* `WOp` / `decodeOps`: a stream's life with frames as they are on the wire, lowered to the `HOp`s of
  `Model/H2Body.lean`; `PadOp`: the same life as the sender describes it.
Core Lean only.
-/
import ConfModel.Model.H2Body
namespace ConfModel.DataTracer

/-- a DATA frame as the frame tracer has buffered it, behind the 9-byte header -/
structure DFrame where
  padded : Bool      -- http2.FlagDataPadded
  payload : Bytes
deriving DecidableEq, Repr

/-- `readByte` (x/net/http2/frame.go) -/
def readByte : Bytes → Option (Bytes × UInt8)
  | [] => none
  | b :: rest => some (rest, b)

/-- `parseDataFrame`: the bytes `DataFrame.Data()` returns, `none` for the two connection errors
(PADDED without a Pad Length octet; pad size larger than what is left of the payload) -/
def DFrame.data (f : DFrame) : Option Bytes :=
  let r : Option (Bytes × Nat) :=
    if f.padded then (readByte f.payload).map (fun x => (x.1, x.2.toNat)) else some (f.payload, 0)
  match r with
  | none => none
  | some (payload, padSize) =>
    if padSize > payload.length then none else some (payload.take (payload.length - padSize))

/-- what the sender of one DATA frame chooses: the body bytes and, optionally, padding octets
(`some []` = PADDED flag with Pad Length 0; the octets need not be zero for a receiver) -/
structure PData where
  data : Bytes
  pad : Option Bytes
deriving DecidableEq, Repr

/-- the Pad Length field is one octet -/
def PData.wellFormed (d : PData) : Bool :=
  match d.pad with
  | none => true
  | some p => p.length < 256

/-- `Framer.WriteDataPadded` (flag set iff `pad != nil`; Pad Length octet, data, padding) -/
def PData.wire (d : PData) : DFrame :=
  match d.pad with
  | none => ⟨false, d.data⟩
  | some p => ⟨true, UInt8.ofNat p.length :: (d.data ++ p)⟩

/-- a stream's life as the connection tracer meets it: DATA frames as they are on the wire -/
inductive WOp
  | reqFrame (f : DFrame)
  | reqEnd
  | reqAbort
  | respFrame (f : DFrame)
  | respEnd
deriving DecidableEq, Repr

/-- `framer.ReadFrame` + `handleFrame`'s DataFrame branch: the tracer is fed `frame.Data()` -/
def WOp.decode : WOp → Option HOp
  | .reqFrame f => f.data.map HOp.reqData
  | .reqEnd => some .reqEnd
  | .reqAbort => some .reqAbort
  | .respFrame f => f.data.map HOp.respData
  | .respEnd => some .respEnd

/-- all frames of the life parse (`none`: some DATA frame is a connection error) -/
def decodeOps : List WOp → Option (List HOp)
  | [] => some []
  | o :: t =>
    match o.decode, decodeOps t with
    | some h, some hs => some (h :: hs)
    | _, _ => none

/-- the same life as the sender describes it -/
inductive PadOp
  | reqData (d : PData)
  | reqEnd
  | reqAbort
  | respData (d : PData)
  | respEnd
deriving DecidableEq, Repr

def PadOp.wellFormed : PadOp → Bool
  | .reqData d => d.wellFormed
  | .respData d => d.wellFormed
  | _ => true

/-- on the wire -/
def PadOp.wire : PadOp → WOp
  | .reqData d => .reqFrame d.wire
  | .reqEnd => .reqEnd
  | .reqAbort => .reqAbort
  | .respData d => .respFrame d.wire
  | .respEnd => .respEnd

/-- the body's share: the data, whatever the padding -/
def PadOp.plain : PadOp → HOp
  | .reqData d => .reqData d.data
  | .reqEnd => .reqEnd
  | .reqAbort => .reqAbort
  | .respData d => .respData d.data
  | .respEnd => .respEnd

/-- the same frames sent without any padding -/
def PadOp.unpadded : PadOp → PadOp
  | .reqData d => .reqData ⟨d.data, none⟩
  | .respData d => .respData ⟨d.data, none⟩
  | o => o

/-- what the stream's builder receives for a life given by its frames on the wire
(`none`: a DATA frame the framer rejects) -/
def wrunH (cq cp : Cfg) (ops : List WOp) : Option (List HOut) :=
  (decodeOps ops).map (fun hs => (hrun cq cp hinit hs).2)

end ConfModel.DataTracer
