/-
C02 — Derived expectations agree with the reference peers on any well-formed test case.

`expected` is the model of the runner's generator, `actual` the model of the reference peers'
handlers composed with the clients' observers, over a transport `Wire`.  The theorem is relative
to `WireLaw`: what the protocol stacks (connect-go, grpc-go, net/http — outside any model) are
assumed to do to metadata; the end-to-end half of the correspondence checks that on every run.
-/
import ConfModel.Lemmas.Echo
import ConfModel.Lemmas.EchoLoad
import ConfModel.Spec.EchoExplicit
import ConfModel.Spec.EchoExpand
namespace ConfModel.Props.C02
open ConfModel.Echo

/-- What the transport is assumed to preserve for this test case: every request header the
test sets reaches the server (`seen`), every response header / trailer the definition sets
reaches the client — each possibly under another letter case, joined with commas, or among
extra entries (`subsumed`), and on a unary / client-stream error possibly as one bag.  Connect
GET: whenever the test asks for GET and the server's library presents query parameters at all,
`encoding=<codec>` and `connect=v1` are among them (what else is there — "message", "base64",
"compression" — is the client's choice). -/
def WireLaw (tc : TC) (w : Wire) : Bool :=
  subsumed tc.reqHdrs w.seen && queryAgree (getQuery tc) w.query &&
  (match tc.udef with
   | some d => subsumed d.hdrs (w.hdrs d.hdrs) && subsumed d.trls (w.trls d.trls) &&
               subsumed (mergeHeaders d.hdrs d.trls) (w.merged d.hdrs d.trls)
   | none => true) &&
  (match tc.sdef with
   | some d => subsumed d.hdrs (w.hdrs d.hdrs) && subsumed d.trls (w.trls d.trls)
   | none => true)

/-- error details given in a definition are arbitrary registered messages other than
`RequestInfo` (a `RequestInfo` detail is what the peers append themselves) -/
def DetailsOpaque (tc : TC) : Bool :=
  (match tc.udef with
   | some d => (match d.resp with | .error e => opaqueOnly e.details | _ => true)
   | none => true) &&
  (match tc.sdef with
   | some d => (match d.err with | some e => opaqueOnly e.details | none => true)
   | none => true)

/-- unary and client-stream: any number of requests (client stream: including none), data or
error or nothing, whichever way error metadata is delivered -/
theorem unary_agrees (tc : TC) (w : Wire) (m : Bool) (hst : tc.st = .unary ∨ tc.st = .clientStream)
    (hm : tc.method ≠ .unimplemented)
    (hw : WireLaw tc w = true) (hd : DetailsOpaque tc = true) :
    agree tc.st (expected tc) (actual tc w m) = true := by
  have hexp : expected tc = expectedUnary tc := by rcases hst with h | h <;> simp [expected, h]
  have hact : actual tc w m = actualUnary tc w m := by rcases hst with h | h <;> simp [actual, h, hm]
  have hstb : (tc.st == ST.unary || tc.st == ST.clientStream) = true := by rcases hst with h | h <;> simp [h]
  rw [hexp, hact]
  simp only [WireLaw, Bool.and_eq_true] at hw
  obtain ⟨⟨⟨hseen, hq⟩, hu⟩, _⟩ := hw
  cases hdef : (if tc.reqs.isEmpty then none else tc.udef) with
  | none =>
    simp only [expectedUnary, actualUnary, hdef]
    simp [agree, errAgree, payloadsAgreeFrom, infoAgree, hseen, hq, subsumed_nil]
  | some d =>
    have hud : tc.udef = some d := by
      by_cases he : tc.reqs.isEmpty = true <;> simp [he] at hdef; exact hdef
    simp only [hud, Bool.and_eq_true] at hu
    obtain ⟨⟨hh, ht⟩, hm⟩ := hu
    cases hr : d.resp with
    | none =>
      simp only [expectedUnary, actualUnary, hdef, hr]
      simp [agree, errAgree, payloadsAgreeFrom, infoAgree, hseen, hq, hh, ht]
    | data b =>
      simp only [expectedUnary, actualUnary, hdef, hr]
      simp [agree, errAgree, payloadsAgreeFrom, infoAgree, hseen, hq, hh, ht]
    | error e =>
      have hop : opaqueOnly e.details = true := by
        simp only [DetailsOpaque, hud, hr, Bool.and_eq_true] at hd; exact hd.1
      have he := errAgree_addInfo e hop tc.reqHdrs w.seen tc.reqs (getQuery tc) w.query hseen hq
      simp only [expectedUnary, actualUnary, hdef, hr]
      cases m
      · simp [agree, he, payloadsAgreeFrom, hstb, hh, ht]
      · simp [agree, he, payloadsAgreeFrom, hstb, hm]

/-- server stream, half-duplex and full-duplex bidi: any number `N` of requests and `M` of
responses in any order relation (`M < N`, `M = N`, `M > N`), with or without a final error -/
theorem stream_agrees (tc : TC) (w : Wire) (m : Bool)
    (hst : tc.st = .serverStream ∨ tc.st = .halfDuplex ∨ tc.st = .fullDuplex)
    (hm : tc.method ≠ .unimplemented)
    (hwf : WellFormed tc = true) (hw : WireLaw tc w = true) (hd : DetailsOpaque tc = true)
    (hf : isF07 tc = false) :
    agree tc.st (expected tc) (actual tc w m) = true := by
  have hexp : expected tc = expectedStream tc := by rcases hst with h | h | h <;> simp [expected, h]
  have hact : actual tc w m = actualStream tc w := by rcases hst with h | h | h <;> simp [actual, h, hm]
  have hstb : (tc.st == ST.unary || tc.st == ST.clientStream) = false := by rcases hst with h | h | h <;> simp [h]
  rw [hexp, hact]
  simp only [WireLaw, Bool.and_eq_true] at hw
  obtain ⟨⟨⟨hseen, _⟩, _⟩, hs⟩ := hw
  have hfd : tc.fdFlag = (tc.st == .fullDuplex) := by
    simp only [WellFormed, Bool.and_eq_true, beq_iff_eq] at hwf; exact hwf.1.2
  unfold expectedStream actualStream
  cases hdef : (if tc.reqs.isEmpty then none else tc.sdef) with
  | none => simp [agree, errAgree, payloadsAgreeFrom, subsumed_nil]
  | some d =>
    have hsd : tc.sdef = some d := by
      by_cases he : tc.reqs.isEmpty = true <;> simp [he] at hdef; exact hdef
    simp only [hsd, Bool.and_eq_true] at hs
    obtain ⟨hh, ht⟩ := hs
    have hop : ∀ x, d.err = some x → opaqueOnly x.details = true := by
      intro x hx
      simp only [DetailsOpaque, hsd, hx, Bool.and_eq_true] at hd; exact hd.2
    by_cases hfull : tc.st = .fullDuplex
    · -- full duplex
      have hflag : tc.fdFlag = true := by rw [hfd]; simp [hfull]
      have hp := payloads_pingPong tc hfull w.seen w.query hseen d.data 0 tc.reqs (by simp)
      simp only [hflag, if_true, hfull]
      have herr : errAgree
          (if d.data.isEmpty then d.err.map (·.addDetail (.info ⟨tc.reqHdrs, tc.reqs, []⟩)) else d.err)
          (if d.data.isEmpty then d.err.map (·.addDetail (.info ⟨w.seen, tc.reqs.take 1, w.query⟩)) else d.err) = true := by
        by_cases hde : d.data.isEmpty = true
        · simp only [hde, if_true]
          cases hx : d.err with
          | none => rfl
          | some x =>
            -- outside the F07 shape there is at most one request, so `take 1` is everything
            have hlen : tc.reqs.length < 2 := by
              simp only [isF07, hfull, hsd, hde, hx, beq_self_eq_true, Bool.true_and, Option.isSome_some,
                Bool.and_true, decide_eq_false_iff_not] at hf
              omega
            have htake : tc.reqs.take 1 = tc.reqs := List.take_of_length_le (by omega)
            rw [htake]
            exact errAgree_addInfo x (hop x hx) _ _ _ _ _ hseen (queryAgree_nil_left _)
        · simp only [hde]; exact errAgree_refl _ hop
      simp only [agree, herr, hp, Bool.true_and]
      simp [hh, ht]
    · -- server stream / half duplex
      have hflag : tc.fdFlag = false := by rw [hfd]; simp [hfull]
      have hp := payloads_flush tc hfull w.seen w.query hseen d.data 0
      simp only [hflag, Bool.false_eq_true, if_false, hfull]
      have herr : errAgree
          (if d.data.isEmpty then d.err.map (·.addDetail (.info ⟨tc.reqHdrs, tc.reqs, []⟩)) else d.err)
          (if d.data.isEmpty then d.err.map (·.addDetail (.info ⟨w.seen, tc.reqs, w.query⟩)) else d.err) = true := by
        by_cases hde : d.data.isEmpty = true
        · simp only [hde, if_true]
          cases hx : d.err with
          | none => rfl
          | some x => exact errAgree_addInfo x (hop x hx) _ _ _ _ _ hseen (queryAgree_nil_left _)
        · simp only [hde]; exact errAgree_refl _ hop
      simp only [agree, herr, hp, Bool.true_and]
      have : (tc.st == ST.unary || tc.st == ST.clientStream) = false := hstb
      simp [hh, ht, this]

/-- Headline.  FULL STATEMENT (what C02 asks): for every well-formed test case of the fragment and
every transport obeying `WireLaw`, `agree tc.st (expected tc) (actual tc w m) = true`.  It is FALSE
of the code as it stands (`f07_witness` below): for a full-duplex stream with no responses, an
error and two or more requests the generator lists every request in the error's request info
while both reference servers have read exactly one (known finding F07; the repository's own unit
test pins the generator's behaviour, so it is recorded, not repaired).  Proved: the statement for
every case outside that shape (`isF07 tc = false`). -/
theorem expected_agrees_partial (tc : TC) (w : Wire) (m : Bool)
    (hwf : WellFormed tc = true) (hw : WireLaw tc w = true) (hd : DetailsOpaque tc = true)
    (hf : isF07 tc = false) (hm : tc.method ≠ .unimplemented) :
    agree tc.st (expected tc) (actual tc w m) = true := by
  cases hst : tc.st with
  | unary => rw [← hst]; exact unary_agrees tc w m (Or.inl hst) hm hw hd
  | clientStream => rw [← hst]; exact unary_agrees tc w m (Or.inr hst) hm hw hd
  | serverStream => rw [← hst]; exact stream_agrees tc w m (Or.inl hst) hm hwf hw hd hf
  | halfDuplex => rw [← hst]; exact stream_agrees tc w m (Or.inr (Or.inl hst)) hm hwf hw hd hf
  | fullDuplex => rw [← hst]; exact stream_agrees tc w m (Or.inr (Or.inr hst)) hm hwf hw hd hf

/-- **Connect GET** (corollary of `unary_agrees`, stated explicitly): a unary call of the
idempotent method with `use_get_http_method`, under either codec.  Whatever the client puts into
the query string besides — the message, `base64`, `compression` — the expectation, which lists
`encoding=<codec>` and `connect=v1` only, agrees with what the reference server echoes, whichever
way the response is defined (data, nothing, error with details) and however error metadata is
delivered. -/
theorem expected_agrees_get (tc : TC) (w : Wire) (m : Bool) (hst : tc.st = .unary) (hg : tc.get = true)
    (hm : tc.method = .idempotent) (hw : WireLaw tc w = true) (hd : DetailsOpaque tc = true) :
    agree .unary (expected tc) (actual tc w m) = true ∧
    getQuery tc = [⟨"encoding", [tc.codec.encoding]⟩, ⟨"connect", ["v1"]⟩] := by
  refine ⟨?_, by simp [getQuery, hg]⟩
  have h := unary_agrees tc w m (Or.inl hst) (by simp [hm]) hw hd
  rwa [hst] at h

/-- Which request infos of a derived expectation list query parameters: for unary and
client-stream cases every one of them (the payload's, or the detail appended to the error) lists
exactly `getQuery` — `encoding` and `connect` for a GET test, nothing otherwise … -/
theorem expected_unary_query (tc : TC) (hst : tc.st = .unary ∨ tc.st = .clientStream)
    (hd : DetailsOpaque tc = true) :
    ∀ ri ∈ infosOf (expected tc), ri.query = getQuery tc := by
  have hexp : expected tc = expectedUnary tc := by rcases hst with h | h <;> simp [expected, h]
  rw [hexp]
  intro ri hri
  cases hdef : (if tc.reqs.isEmpty then none else tc.udef) with
  | none =>
    have hres : expectedUnary tc = ⟨[], [], [⟨"", some ⟨tc.reqHdrs, tc.reqs, getQuery tc⟩⟩], none⟩ := by
      simp only [expectedUnary, hdef]
    rw [hres] at hri
    simp [infosOf] at hri; simp [hri]
  | some d =>
    have hud : tc.udef = some d := by
      by_cases he : tc.reqs.isEmpty = true <;> simp [he] at hdef; exact hdef
    cases hr : d.resp with
    | none =>
      have hres : expectedUnary tc = ⟨d.hdrs, d.trls, [⟨"", some ⟨tc.reqHdrs, tc.reqs, getQuery tc⟩⟩], none⟩ := by
        simp only [expectedUnary, hdef, hr]
      rw [hres] at hri
      simp [infosOf] at hri; simp [hri]
    | data b =>
      have hres : expectedUnary tc = ⟨d.hdrs, d.trls, [⟨b, some ⟨tc.reqHdrs, tc.reqs, getQuery tc⟩⟩], none⟩ := by
        simp only [expectedUnary, hdef, hr]
      rw [hres] at hri
      simp [infosOf] at hri; simp [hri]
    | error e =>
      have hop : opaqueOnly e.details = true := by
        simp only [DetailsOpaque, hud, hr, Bool.and_eq_true] at hd; exact hd.1
      have hres : expectedUnary tc = ⟨d.hdrs, d.trls, [], some (e.addDetail (.info ⟨tc.reqHdrs, tc.reqs, getQuery tc⟩))⟩ := by
        simp only [expectedUnary, hdef, hr]
      rw [hres] at hri
      simp only [infosOf, Err.addDetail, List.filterMap_nil, List.nil_append,
        detailInfos_append_info _ hop, List.mem_singleton] at hri
      simp [hri]

/-- … and for server, half- and full-duplex streams none does (`use_get_http_method` is not
looked at there) -/
theorem expected_stream_no_query (tc : TC) (hst : tc.st = .serverStream ∨ tc.st = .halfDuplex ∨ tc.st = .fullDuplex)
    (hd : DetailsOpaque tc = true) :
    ∀ ri ∈ infosOf (expected tc), ri.query = [] := by
  have hexp : expected tc = expectedStream tc := by rcases hst with h | h | h <;> simp [expected, h]
  rw [hexp]
  have hpay : ∀ (data : List String) (idx : Nat), ∀ ri ∈ (expectedStreamPayloads tc idx data).filterMap (·.info), ri.query = [] := by
    intro data
    induction data with
    | nil => intro idx ri h; simp [expectedStreamPayloads] at h
    | cons b bs ih =>
      intro idx ri h
      simp only [expectedStreamPayloads, List.filterMap_cons] at h
      split at h
      · exact ih _ ri h
      · next x hx =>
        rcases List.mem_cons.mp h with rfl | h'
        · revert hx
          split
          · split <;> simp <;> intro h <;> simp [← h]
          · split <;> simp <;> intro h <;> simp [← h]
        · exact ih _ ri h'
  intro ri hri
  cases hdef : (if tc.reqs.isEmpty then none else tc.sdef) with
  | none =>
    have hres : expectedStream tc = ⟨[], [], [], none⟩ := by simp only [expectedStream, hdef]
    rw [hres] at hri
    simp [infosOf] at hri
  | some d =>
    have hsd : tc.sdef = some d := by
      by_cases he : tc.reqs.isEmpty = true <;> simp [he] at hdef; exact hdef
    have hop : ∀ x, d.err = some x → opaqueOnly x.details = true := by
      intro x hx
      simp only [DetailsOpaque, hsd, hx, Bool.and_eq_true] at hd; exact hd.2
    have hres : expectedStream tc = ⟨d.hdrs, d.trls, expectedStreamPayloads tc 0 d.data,
        if d.data.isEmpty then d.err.map (·.addDetail (.info ⟨tc.reqHdrs, tc.reqs, []⟩)) else d.err⟩ := by
      simp only [expectedStream, hdef]
    rw [hres] at hri
    simp only [infosOf, List.mem_append] at hri
    rcases hri with h | h
    · exact hpay _ _ ri h
    · cases hx : d.err with
      | none => simp [hx] at h
      | some x =>
        have hox := hop x hx
        by_cases hde : d.data.isEmpty = true
        · simp only [hx, hde, if_true, Option.map_some, Err.addDetail, detailInfos_append_info _ hox,
            List.mem_singleton] at h
          simp [h]
        · have hde' : d.data.isEmpty = false := by simpa using hde
          simp only [hx, hde', Bool.false_eq_true, if_false] at h
          rw [detailInfos_opaque _ hox] at h
          simp at h

/-- The leniency of the query-parameter comparison is not a blank cheque: when the server does echo
query parameters of a GET call (`w.query ≠ []`) and they do not contain what the expectation lists
(a wrong `encoding`, a missing `connect=v1`), the case FAILS — for a response with data or without
a definition alike.  (So a generator that wrote another codec name into the expectation, or a
server that dropped or renamed a parameter, cannot go unnoticed behind the "both sides non-empty"
rule.) -/
theorem get_query_sharp (tc : TC) (w : Wire) (m : Bool) (hst : tc.st = .unary) (hg : tc.get = true)
    (hm : tc.method ≠ .unimplemented)
    (hne : w.query ≠ []) (hbad : subsumed (getQuery tc) w.query = false)
    (hnoerr : ∀ d e, tc.udef = some d → d.resp ≠ .error e) :
    agree .unary (expected tc) (actual tc w m) = false := by
  have hexp : expected tc = expectedUnary tc := by simp [expected, hst]
  have hact : actual tc w m = actualUnary tc w m := by simp [actual, hst, hm]
  rw [hexp, hact]
  have hq : queryAgree (getQuery tc) w.query = false := by
    have h1 : (getQuery tc).isEmpty = false := by simp [getQuery, hg]
    have h2 : w.query.isEmpty = false := by cases hw : w.query <;> simp_all
    simp [queryAgree, h1, h2, hbad]
  cases hdef : (if tc.reqs.isEmpty then none else tc.udef) with
  | none =>
    simp only [expectedUnary, actualUnary, hdef]
    simp [agree, payloadsAgreeFrom, infoAgree, hq]
  | some d =>
    have hud : tc.udef = some d := by
      by_cases he : tc.reqs.isEmpty = true <;> simp [he] at hdef; exact hdef
    cases hr : d.resp with
    | none =>
      simp only [expectedUnary, actualUnary, hdef, hr]
      simp [agree, payloadsAgreeFrom, infoAgree, hq]
    | data b =>
      simp only [expectedUnary, actualUnary, hdef, hr]
      simp [agree, payloadsAgreeFrom, infoAgree, hq]
    | error e => exact absurd hr (hnoerr d e hud)

/-- **The unimplemented method.**  Nothing can be derived for it (`populate_rejects_iff`); with the
expectation the corpus gives — an error with code `unimplemented` (12), no message, no details, no
metadata — the case passes against either server's wording of the error, under any stream type's
leniency and either delivery of error metadata. -/
theorem unimplemented_agrees (tc : TC) (w : Wire) (m : Bool) (hm : tc.method = .unimplemented)
    (hex : tc.explicit = some ⟨[], [], [], some ⟨12, none, []⟩⟩) :
    populate tc = some ⟨[], [], [], some ⟨12, none, []⟩⟩ ∧
    agree tc.st ⟨[], [], [], some ⟨12, none, []⟩⟩ (actual tc w m) = true := by
  refine ⟨by simp [populate, hex], ?_⟩
  simp only [actual, hm, if_true, actualUnimpl]
  cases m <;> simp [agree, errAgree, detailsAgree, payloadsAgreeFrom, subsumed_nil, mergeHeaders] <;>
    cases tc.st <;> simp [subsumed_nil, subsumed]

/-- an expected response given by the suite is left alone, whatever the request looks like -/
theorem populate_explicit (tc : TC) (e : Result) (h : tc.explicit = some e) : populate tc = some e := by
  simp [populate, h]

/-- **Which cases the generator rejects** (in this fragment): exactly those that give no expected
response themselves and whose first request message carries no response definition — the
`Unimplemented` method with a request message. -/
theorem populate_rejects_iff (tc : TC) :
    populate tc = none ↔ (tc.explicit = none ∧ tc.method = .unimplemented ∧ tc.reqs ≠ []) := by
  unfold populate derivable
  cases hex : tc.explicit with
  | some e => simp
  | none =>
    cases hm : tc.method <;> cases hr : tc.reqs <;> simp

/-- Headline in terms of `populate` (what the library stores): for a well-formed case that gives no
expected response itself, whenever the generator produces an expectation it agrees with the peers
(outside the F07 shape) — in particular a well-formed case of the unimplemented method is never
silently given a derived expectation. -/
theorem populated_agrees_partial (tc : TC) (w : Wire) (m : Bool) (e : Result)
    (hwf : WellFormed tc = true) (hw : WireLaw tc w = true) (hd : DetailsOpaque tc = true)
    (hf : isF07 tc = false) (hex : tc.explicit = none) (hp : populate tc = some e) :
    agree tc.st e (actual tc w m) = true := by
  have hm : tc.method ≠ .unimplemented := by
    intro hm
    have hst : tc.st = .unary := by
      simp only [WellFormed, Bool.and_eq_true, Bool.or_eq_true, beq_iff_eq] at hwf
      rcases hwf.2 with h | h
      · rw [hm] at h; cases h
      · exact h
    have hlen : tc.reqs.length = 1 := by
      simp only [WellFormed, hst, Bool.and_eq_true, beq_iff_eq] at hwf; exact hwf.1.1
    have : populate tc = none := (populate_rejects_iff tc).2 ⟨hex, hm, by intro h; simp [h] at hlen⟩
    rw [this] at hp; cases hp
  have : e = expected tc := by
    simp only [populate, hex] at hp
    split at hp
    · exact (Option.some.inj hp).symm
    · cases hp
  rw [this]
  exact expected_agrees_partial tc w m hwf hw hd hf hm

/-- The number of expected payloads is the number of responses defined — the derivation never
drops or invents a response, whatever the number of requests (the unrepaired generator indexed
the request list out of range here, F06). -/
theorem expected_payload_count (tc : TC) (d : StreamDef) (idx : Nat) :
    (expectedStreamPayloads tc idx d.data).length = d.data.length := by
  generalize d.data = l
  induction l generalizing idx with
  | nil => rfl
  | cons b bs ih => simp [expectedStreamPayloads, ih]

/-- the identity transport obeys `WireLaw` whenever header names are distinct up to case in each
list (so the law is satisfiable: non-vacuity of `expected_agrees`) -/
def idWire (tc : TC) : Wire := ⟨tc.reqHdrs, id, id, fun h t => mergeHeaders h t, [], "not implemented"⟩

/-! Non-vacuity: concrete well-formed cases meeting every hypothesis. -/
private def ex1 : TC :=
  { st := .fullDuplex, reqHdrs := [⟨"X-A", ["1", "2"]⟩], reqs := [7, 8], fdFlag := true, udef := none,
    get := false, codec := .proto, method := .std, explicit := none,
    sdef := some ⟨[⟨"x-h", ["v"]⟩], [⟨"x-t", ["w"]⟩], ["aa", "bb", "cc"], some ⟨13, some "boom", [.other 3]⟩⟩ }
example : WellFormed ex1 = true ∧ WireLaw ex1 (idWire ex1) = true ∧ DetailsOpaque ex1 = true ∧ isF07 ex1 = false := by decide
example : (expected ex1).payloads = [⟨"aa", some ⟨[⟨"X-A", ["1", "2"]⟩], [7], []⟩⟩, ⟨"bb", some ⟨[], [8], []⟩⟩, ⟨"cc", none⟩] := by decide
def ex2 : TC :=
  { st := .fullDuplex, reqHdrs := [], reqs := [1, 2, 3], fdFlag := true, udef := none,
    get := false, codec := .proto, method := .std, explicit := none,
    sdef := some ⟨[], [], [], some ⟨5, none, []⟩⟩ }
/-- F07: a well-formed case obeying every hypothesis of the headline on which expectation and
peers disagree (the negation of the full statement, on a concrete witness). -/
theorem f07_witness :
    WellFormed ex2 = true ∧ WireLaw ex2 (idWire ex2) = true ∧ DetailsOpaque ex2 = true ∧ isF07 ex2 = true ∧
    agree ex2.st (expected ex2) (actual ex2 (idWire ex2) false) = false := by decide
private def ex3 : TC :=
  { st := .unary, reqHdrs := [⟨"k", ["a, b"]⟩], reqs := [1], fdFlag := false, sdef := none,
    get := false, codec := .proto, method := .std, explicit := none,
    udef := some ⟨[⟨"H", ["1"]⟩], [⟨"T", ["2"]⟩], .error ⟨3, some "m", []⟩⟩ }
example : WellFormed ex3 = true ∧ WireLaw ex3 (idWire ex3) = true ∧ agree .unary (expected ex3) (actual ex3 (idWire ex3) true) = true := by decide

/-! ## Loading: which shapes are rejected

`EchoLoad.load` is the model of `parseTestSuites` followed by `newTestCaseLibrary` (with
`expandRequestData`, `expandSuite`, `expandCases`, `populateExpectedResponse`) over the part of the
suite schema C02 quantifies over; `applies` says whether the configuration has cases for a suite at
all.  That the model returns an error or a library and nothing else is totality; the theorems say
WHICH inputs get the error. -/
section Load
open ConfModel.EchoLoad

/-- **Which shapes are rejected.**  `parseTestSuites` followed by `newTestCaseLibrary` accepts a set
of suites exactly when it is `Loadable`; everything else is answered with an error (and the model,
like the code, has no third outcome). -/
theorem load_accepts_iff (applies : Suite → Bool) (mode : Nat) (ss : List Suite) :
    load applies mode ss = .ok () ↔ Loadable applies mode ss := by
  unfold load Loadable
  cases hp : firstSome (fun s => firstSome (parseCase s) s.cases) ss with
  | some e =>
    simp only [reduceCtorEq, false_iff]
    intro h
    have : firstSome (fun s => firstSome (parseCase s) s.cases) ss = none :=
      (firstSome_none_iff _ ss).2 (fun s hs => (firstSome_none_iff _ s.cases).2
        (fun c hc => (parseCase_none_iff s c).2 (h.1 s hs c hc)))
    rw [hp] at this; cases this
  | none =>
    have hp' : ∀ s ∈ ss, ∀ c ∈ s.cases, ParseOk s c := fun s hs c hc =>
      (parseCase_none_iff s c).1 ((firstSome_none_iff _ s.cases).1 ((firstSome_none_iff _ ss).1 hp s hs) c hc)
    simp only []
    cases hl : libLoop applies mode [] 0 ss with
    | error e =>
      simp only [reduceCtorEq, false_iff]
      rintro ⟨_, h2, h3, h4, _⟩
      have : LoopOk applies mode [] 0 (0 + (ss.map (contrib applies mode)).sum) ss :=
        ⟨h2, ⟨h3, fun _ _ => by simp⟩, fun s hs ha => ⟨(h4 s hs ha).1, fun hap =>
          ⟨fun c hc => ⟨(((h4 s hs ha).2 hap).1 c hc).1, (((h4 s hs ha).2 hap).1 c hc).2.1,
            fun hr => ((((h4 s hs ha).2 hap).1 c hc).2.2 hr).1⟩, ((h4 s hs ha).2 hap).2⟩⟩, rfl⟩
      have := (libLoop_ok_iff applies mode ss [] 0 _).2 this
      rw [hl] at this; cases this
    | ok n =>
      obtain ⟨h2, ⟨h3, _⟩, h4, hn⟩ := (libLoop_ok_iff applies mode ss [] 0 n).1 hl
      simp only [Nat.zero_add] at hn
      simp only []
      by_cases h0 : n = 0
      · simp only [h0, beq_self_eq_true, ↓reduceIte, reduceCtorEq, false_iff]
        rintro ⟨_, _, _, _, h5⟩
        have := (sum_contrib_pos applies mode ss).2 h5
        omega
      · have h0b : (n == 0) = false := by simpa using h0
        have h5 := (sum_contrib_pos applies mode ss).1 (by omega)
        simp only [h0b, Bool.false_eq_true, ↓reduceIte]
        cases hq : firstSome (fun s => if admitted mode s && applies s then firstSome populateCheck (s.cases.filter runnable) else none) ss with
        | some e =>
          simp only [reduceCtorEq, false_iff]
          rintro ⟨_, _, _, h4', _⟩
          have : firstSome (fun s => if admitted mode s && applies s then firstSome populateCheck (s.cases.filter runnable) else none) ss = none := by
            apply (firstSome_none_iff _ ss).2
            intro s hs
            cases hb : (admitted mode s && applies s) with
            | false => simp
            | true =>
              simp only [↓reduceIte]
              simp only [Bool.and_eq_true] at hb
              apply (firstSome_none_iff _ _).2
              intro c hc
              have hcm := List.mem_filter.mp hc
              exact (populateCheck_none_iff c).2
                (((((h4' s hs ((admitted_iff mode s).1 hb.1)).2 hb.2).1 c hcm.1).2.2 ((runnable_iff c).1 hcm.2)).2)
          rw [hq] at this; cases this
        | none =>
          simp only [true_iff]
          refine ⟨hp', h2, h3, fun s hs ha => ⟨(h4 s hs ha).1, fun hap => ⟨fun c hc => ?_, ((h4 s hs ha).2 hap).2⟩⟩, h5⟩
          obtain ⟨hc1, hc2, hc3⟩ := ((h4 s hs ha).2 hap).1 c hc
          refine ⟨hc1, hc2, fun hr => ⟨hc3 hr, ?_⟩⟩
          have hs' := (firstSome_none_iff _ ss).1 hq s hs
          simp only [(admitted_iff mode s).2 ha, hap, Bool.and_self, ↓reduceIte] at hs'
          exact (populateCheck_none_iff c).1
            ((firstSome_none_iff _ _).1 hs' c (List.mem_filter.mpr ⟨hc, (runnable_iff c).2 hr⟩))

/-- the reading the property asks for: a set of suites is REJECTED (some error — which one depends
on the order the files are visited in) exactly when it is not `Loadable` -/
theorem load_rejects_iff (applies : Suite → Bool) (mode : Nat) (ss : List Suite) :
    (∃ e, load applies mode ss = .error e) ↔ ¬ Loadable applies mode ss := by
  rw [← load_accepts_iff]
  cases h : load applies mode ss with
  | error e => simp
  | ok u => cases u; simp


/-- the expectation generator called directly (also on stream types the library never passes on):
it accepts a case exactly when the expectation is given, or the stream type is one of the five and
the first request message — if there is one — is of the family that stream type's generator reads -/
theorem populate_direct_accepts_iff (c : EchoLoad.Case) :
    populateDirect c = none ↔ (c.explicit = true ∨ (Runnable c ∧ PopulateOk c)) :=
  populateDirect_none_iff c

/-! non-vacuity: a loadable pair of suites; single departures from it that are rejected -/
private def lcase : EchoLoad.Case := ⟨"a", 1, false, false, [.unary], false, false, false, []⟩
private def lsuite : EchoLoad.Suite := ⟨"S", 0, [], [], false, false, false, 0, [lcase, { lcase with name := "b", st := 5, msgs := [.bidi, .bidi] }]⟩
private def lget : EchoLoad.Suite := ⟨"G", 1, [1], [1], false, false, true, 0, [{ lcase with msgs := [.idempotent], expand := [.fits] }]⟩
example : loadErr cfgApplies 1 [lsuite, lget] = none := by decide
example : Loadable cfgApplies 1 [lsuite, lget] := (load_accepts_iff _ _ _).1 (by
  have : loadErr cfgApplies 1 [lsuite, lget] = none := by decide
  unfold loadErr at this
  split at this
  · next u h => cases u; exact h
  · cases this)
example : loadErr cfgApplies 1 [lsuite, { lget with name := "S" }] = some .suiteDuplicate := by decide
example : loadErr cfgApplies 2 [{ lsuite with mode := 1 }, lget] = some .noCases := by decide
example : loadErr cfgApplies 1 [{ lsuite with cases := [{ lcase with msgs := [.bidi] }] }] = some .populateNotUnary := by decide
example : loadErr cfgApplies 1 [{ lsuite with cases := [{ lcase with msgs := [.clientStream, .other] }] }] = none := by decide
example : loadErr cfgApplies 1 [{ lget with protos := [1, 2] }] = some .misconfigured := by decide
example : loadErr cfgApplies 1 [{ lget with codecs := [1, 2] }] = some .expandCodecs := by decide
example : loadErr cfgApplies 1 [{ lsuite with tls := true, cases := [{ lcase with name := "" }] }, lget] = none := by decide
example : populateDirect { lcase with st := 0 } = some .streamTypeRequired ∧ populateDirect { lcase with st := 9 } = some .streamTypeUnsupported ∧
    populateDirect { lcase with st := 9, explicit := true } = none ∧ populateDirect { lcase with msgs := [.broken] } = some .populateUnmarshal := by decide

end Load

/-! Non-vacuity of the Connect GET and unimplemented-method theorems. -/
/-- the transport of a GET call as connect-go makes it (proto codec): `base64`, `connect`,
`encoding`, `message` in the query string -/
def getWire (tc : TC) : Wire :=
  ⟨tc.reqHdrs, id, id, fun h t => mergeHeaders h t,
   [⟨"base64", ["1"]⟩, ⟨"connect", ["v1"]⟩, ⟨"encoding", [tc.codec.encoding]⟩, ⟨"message", ["CgA"]⟩], "not implemented"⟩
private def exGet (c : Codec) : TC :=
  { st := .unary, reqHdrs := [⟨"X-A", ["1"]⟩], reqs := [5], fdFlag := false, sdef := none,
    get := true, codec := c, method := .idempotent, explicit := none,
    udef := some ⟨[⟨"x-h", ["v"]⟩], [⟨"x-t", ["w"]⟩], .data "aa"⟩ }
example : ∀ c, WellFormed (exGet c) = true ∧ WireLaw (exGet c) (getWire (exGet c)) = true ∧ DetailsOpaque (exGet c) = true := by
  intro c; cases c <;> decide
example : (expected (exGet .json)).payloads = [⟨"aa", some ⟨[⟨"X-A", ["1"]⟩], [5], [⟨"encoding", ["json"]⟩, ⟨"connect", ["v1"]⟩]⟩⟩] := by decide
/-- `get_query_sharp`: the server echoes the query string of a proto GET call while the test expects json -/
example : (getWire (exGet .proto)).query ≠ [] ∧ subsumed (getQuery (exGet .json)) (getWire (exGet .proto)).query = false ∧
    agree .unary (expected (exGet .json)) (actual (exGet .json) (getWire (exGet .proto)) false) = false := by decide
private def exUnimpl : TC :=
  { st := .unary, reqHdrs := [], reqs := [1], fdFlag := false, sdef := none, udef := none,
    get := false, codec := .proto, method := .unimplemented, explicit := some ⟨[], [], [], some ⟨12, none, []⟩⟩ }
example : WellFormed exUnimpl = true ∧ populate exUnimpl = some ⟨[], [], [], some ⟨12, none, []⟩⟩ ∧
    populate { exUnimpl with explicit := none } = none ∧
    agree .unary ⟨[], [], [], some ⟨12, none, []⟩⟩ (actual exUnimpl (idWire exUnimpl) true) = true := by decide
example : WellFormed ex1 = true ∧ ex1.explicit = none ∧ populate ex1 = some (expected ex1) := by decide

/-! ## Explicit expectations: kept, never overwritten, never merged — and what they can switch on

`populateX` is `populateExpectedResponse` on the full test case (`expected_response` with its
`http_status_code`, `other_allowed_error_codes`); `agreeX` is the whole of `assert`. -/

/-- the model of round 1 is the `result` component of the full one -/
theorem populateX_result (x : XTC) : (populateX x).map (·.result) = populate x.tc := by
  unfold populateX populate
  cases x.tc.explicit with
  | some e => rfl
  | none =>
    show Option.map _ (if derivable x.tc = true then _ else _) = (if derivable x.tc = true then _ else _)
    cases derivable x.tc <;> rfl

/-- **kept.** An expected response given by the suite is what the library stores, for every test
case whatsoever (any stream type, method, well-formed or not): the result, its HTTP status and the
other allowed codes exactly as written — nothing derived replaces or is merged into it. -/
theorem populateX_explicit_kept (x : XTC) (e : Result) (h : x.tc.explicit = some e) :
    populateX x = some ⟨e, x.status, x.otherCodes⟩ := by
  unfold populateX; rw [h]

/-- the derivation does not read what it does not keep: two test cases that differ only in request,
definition, method, GET flag, codec … but give the same expectation store the same expectation -/
theorem populateX_explicit_ignores_request (x y : XTC) (e : Result)
    (hx : x.tc.explicit = some e) (hy : y.tc.explicit = some e)
    (hs : x.status = y.status) (ho : x.otherCodes = y.otherCodes) : populateX x = populateX y := by
  rw [populateX_explicit_kept x e hx, populateX_explicit_kept y e hy, hs, ho]

/-- **derived.** Without a given expectation the stored one is exactly the derived result, never
carries an HTTP status, and the other allowed codes of the test case stay beside it. -/
theorem populateX_derived (x : XTC) (ex : Expectation) (h : x.tc.explicit = none)
    (hp : populateX x = some ex) :
    ex.result = expected x.tc ∧ ex.status = none ∧ ex.otherCodes = x.otherCodes := by
  unfold populateX at hp; rw [h] at hp
  by_cases hd : derivable x.tc = true
  · rw [if_pos hd] at hp; cases hp; exact ⟨rfl, rfl, rfl⟩
  · rw [if_neg hd] at hp; cases hp

/-- the other allowed codes are never touched, whichever branch is taken -/
theorem populateX_other_codes (x : XTC) (ex : Expectation) (hp : populateX x = some ex) :
    ex.otherCodes = x.otherCodes := by
  cases h : x.tc.explicit with
  | some e => rw [populateX_explicit_kept x e h] at hp; cases hp; rfl
  | none => exact (populateX_derived x ex h hp).2.2

/-- **rejected** exactly when nothing is given and nothing can be derived (status and other codes
do not count as an expectation) -/
theorem populateX_rejects_iff (x : XTC) :
    populateX x = none ↔ x.tc.explicit = none ∧ x.tc.method = .unimplemented ∧ x.tc.reqs ≠ [] := by
  rw [← populate_rejects_iff, ← populateX_result]
  cases populateX x <;> simp

/-- `agreeX` extends `agree`: without other codes and without a status it is the comparison the
round-1 theorems speak about -/
theorem agreeX_conservative (st : ST) (e a : Result) (s : Option Nat) :
    agreeX st ⟨e, none, []⟩ a s = agree st e a := by
  have herr : errAgreeX [] e.err a.err = errAgree e.err a.err := by
    unfold errAgreeX errAgree
    cases e.err <;> cases a.err <;> simp [codeAgree, msgAgree]
    rename_i e' a'
    cases e'.msg <;> rfl
  unfold agreeX agree
  rw [herr]
  simp [restAgree, statusAgree, Bool.and_assoc]

/-- other allowed codes only ever loosen, and an expectation without a status is indifferent to the
status the client reports -/
theorem agreeX_of_agree (st : ST) (e a : Result) (other : List Nat) (s : Option Nat)
    (h : agree st e a = true) : agreeX st ⟨e, none, other⟩ a s = true := by
  rw [← agreeX_conservative st e a s] at h
  unfold agreeX at h ⊢
  simp only [Bool.and_eq_true] at h ⊢
  refine ⟨⟨?_, h.1.2⟩, by simp [statusAgree]⟩
  have h1 := h.1.1
  unfold errAgreeX at h1 ⊢
  cases he : e.err <;> cases ha : a.err <;> simp only [he, ha] at h1 ⊢
  · cases h1
  · cases h1
  · simp only [Bool.and_eq_true, codeAgree, Bool.or_eq_true] at h1 ⊢
    exact ⟨⟨Or.inl (by simpa using h1.1.1), h1.1.2⟩, h1.2⟩

/-- **headline, full test case.** What the library stores for a well-formed case without a given
expectation agrees with the reference peers under the whole of `assert` — whatever other allowed
codes the case lists and whatever HTTP status the client reports. -/
theorem populatedX_agrees_partial (x : XTC) (w : Wire) (m : Bool) (ex : Expectation) (s : Option Nat)
    (hwf : WellFormed x.tc = true) (hw : WireLaw x.tc w = true) (hd : DetailsOpaque x.tc = true)
    (hf : isF07 x.tc = false) (hex : x.tc.explicit = none) (hp : populateX x = some ex) :
    agreeX x.tc.st ex (actual x.tc w m) s = true := by
  obtain ⟨hr, hs, _⟩ := populateX_derived x ex hex hp
  have hpop : populate x.tc = some ex.result := by
    rw [← populateX_result, hp]; rfl
  have := populated_agrees_partial x.tc w m ex.result hwf hw hd hf hex hpop
  have h2 := agreeX_of_agree x.tc.st ex.result (actual x.tc w m) ex.otherCodes s this
  cases ex with
  | mk r st' oc => cases hs; exact h2

/-- an explicit expectation that restates what would be derived (e.g. an error definition with
details: the given details followed by the request info) passes against the reference peers,
provided its HTTP status — if it names one — is the one the client reports (or the client reports none) -/
theorem explicit_restating_derived_agrees (x : XTC) (w : Wire) (m : Bool) (s : Option Nat)
    (hwf : WellFormed x.tc = true) (hw : WireLaw x.tc w = true) (hd : DetailsOpaque x.tc = true)
    (hf : isF07 x.tc = false) (hm : x.tc.method ≠ .unimplemented)
    (hex : x.tc.explicit = some (expected x.tc)) (hs : statusAgree x.status s = true) :
    ∃ ex, populateX x = some ex ∧ agreeX x.tc.st ex (actual x.tc w m) s = true := by
  refine ⟨_, populateX_explicit_kept x _ hex, ?_⟩
  have h := agreeX_of_agree x.tc.st (expected x.tc) (actual x.tc w m) x.otherCodes s
    (expected_agrees_partial x.tc w m hwf hw hd hf hm)
  unfold agreeX at h ⊢
  simp only [Bool.and_eq_true] at h ⊢
  exact ⟨h.1, hs⟩

/-- **status is sharp**: an expectation naming a status fails against a result reporting another one,
whatever else agrees -/
theorem status_sharp (st : ST) (ex : Expectation) (a : Result) (s s' : Nat)
    (h : ex.status = some s) (hne : s ≠ s') : agreeX st ex a (some s') = false := by
  unfold agreeX; rw [h]
  simp [statusAgree, hne]

/-- … and is compared only when both sides carry one -/
theorem status_lenient (st : ST) (ex : Expectation) (a : Result) (s : Option Nat)
    (h : ex.status = none ∨ s = none) :
    agreeX st ex a s = agreeX st ⟨ex.result, none, ex.otherCodes⟩ a none := by
  unfold agreeX
  rcases h with h | h
  · rw [h]; simp [statusAgree]
  · rw [h]; cases ex.status <;> simp [statusAgree]

/-- **other allowed codes, exactly**: with both errors present the code clause holds iff the actual
code is the expected one or one of the others; message and details are compared as always -/
theorem other_codes_iff (other : List Nat) (e a : Err) :
    errAgreeX other (some e) (some a) = true ↔
      (a.code = e.code ∨ a.code ∈ other) ∧ msgAgree e.msg a.msg = true ∧ detailsAgree e.details a.details = true := by
  unfold errAgreeX
  simp only [Bool.and_eq_true, codeAgree, Bool.or_eq_true, beq_iff_eq, List.contains_iff_mem, and_assoc]
  constructor
  · rintro ⟨h | h, h2, h3⟩
    · exact ⟨Or.inl h.symm, h2, h3⟩
    · exact ⟨Or.inr h, h2, h3⟩
  · rintro ⟨h | h, h2, h3⟩
    · exact ⟨Or.inl h.symm, h2, h3⟩
    · exact ⟨Or.inr h, h2, h3⟩

/-- other allowed codes are no blank cheque: they never excuse an error where none is expected, nor
a missing error -/
theorem other_codes_need_both (other : List Nat) (e : Err) :
    errAgreeX other none (some e) = false ∧ errAgreeX other (some e) none = false := ⟨rfl, rfl⟩

/-! Non-vacuity of the explicit-expectation theorems. -/
private def exErrDet : TC :=
  { st := .unary, reqHdrs := [⟨"X-A", ["1"]⟩], reqs := [4], fdFlag := false, sdef := none,
    get := false, codec := .proto, method := .std, explicit := none,
    udef := some ⟨[⟨"H", ["1"]⟩], [⟨"T", ["2"]⟩], .error ⟨9, some "m", [.other 3, .other 5]⟩⟩ }
private def xErrDet : XTC := ⟨{ exErrDet with explicit := some (expected exErrDet) }, some 400, [2, 13]⟩
-- the restating expectation lists the given details and then the request info
example : (expected exErrDet).err = some ⟨9, some "m", [.other 3, .other 5, .info ⟨[⟨"X-A", ["1"]⟩], [4], []⟩]⟩ := by decide
example : WellFormed xErrDet.tc = true ∧ WireLaw xErrDet.tc (idWire xErrDet.tc) = true ∧ DetailsOpaque xErrDet.tc = true ∧
    isF07 xErrDet.tc = false ∧ xErrDet.tc.explicit = some (expected xErrDet.tc) ∧ statusAgree xErrDet.status (some 400) = true := by decide
example : populateX xErrDet = some ⟨expected exErrDet, some 400, [2, 13]⟩ := by decide
-- kept, not merged: the same case with a weaker given expectation (no details) stores that one — and fails
example : populateX ⟨{ exErrDet with explicit := some ⟨[], [], [], some ⟨9, none, []⟩⟩ }, none, []⟩
      = some ⟨⟨[], [], [], some ⟨9, none, []⟩⟩, none, []⟩ ∧
    agreeX .unary ⟨⟨[], [], [], some ⟨9, none, []⟩⟩, none, []⟩ (actual exErrDet (idWire exErrDet) false) none = false := by decide
-- derived: no status, other codes beside it, agrees whatever the client reports
example : populateX ⟨exErrDet, none, [1]⟩ = some ⟨expected exErrDet, none, [1]⟩ ∧
    agreeX .unary ⟨expected exErrDet, none, [1]⟩ (actual exErrDet (idWire exErrDet) true) (some 409) = true := by decide
-- a wrong code passes only through the other allowed codes; a wrong status fails
example : let wrong : Result := { expected exErrDet with err := (expected exErrDet).err.map (fun e => { e with code := 2 }) }
    agreeX .unary ⟨wrong, none, []⟩ (actual exErrDet (idWire exErrDet) false) none = false ∧
    agreeX .unary ⟨wrong, none, [13, 9]⟩ (actual exErrDet (idWire exErrDet) false) none = true ∧
    agreeX .unary ⟨wrong, some 409, [13, 9]⟩ (actual exErrDet (idWire exErrDet) false) (some 409) = true ∧
    agreeX .unary ⟨wrong, some 400, [13, 9]⟩ (actual exErrDet (idWire exErrDet) false) (some 409) = false := by decide

/-! ## The error of a derived expectation is the definition's, verbatim -/

/-- the derived expectation's error is the definition's error: code and message verbatim — whatever
bytes the message is made of, the generator never looks inside — and details extended at the end only -/
theorem expectedUnary_error_verbatim (tc : TC) (ex : Err) (h : (expectedUnary tc).err = some ex) :
    ∃ d e, tc.udef = some d ∧ d.resp = .error e ∧ ex.code = e.code ∧ ex.msg = e.msg ∧ e.details <+: ex.details := by
  unfold expectedUnary at h
  by_cases hr : tc.reqs.isEmpty = true
  · simp [hr] at h
  · simp only [hr] at h
    cases hu : tc.udef with
    | none => simp [hu] at h
    | some d =>
      simp only [hu] at h
      cases hresp : d.resp with
      | none => simp [hresp] at h
      | data b => simp [hresp] at h
      | error e =>
        refine ⟨d, e, rfl, hresp, ?_⟩
        simp [hresp] at h
        subst h
        exact ⟨rfl, rfl, by simp [Err.addDetail]⟩

theorem expectedStream_error_verbatim (tc : TC) (ex : Err) (h : (expectedStream tc).err = some ex) :
    ∃ d e, tc.sdef = some d ∧ d.err = some e ∧ ex.code = e.code ∧ ex.msg = e.msg ∧ e.details <+: ex.details := by
  unfold expectedStream at h
  by_cases hr : tc.reqs.isEmpty = true
  · simp [hr] at h
  · simp only [hr] at h
    cases hs : tc.sdef with
    | none => simp [hs] at h
    | some d =>
      simp only [hs] at h
      cases he : d.err with
      | none => simp [he] at h
      | some e =>
        refine ⟨d, e, rfl, he, ?_⟩
        by_cases hd : d.data.isEmpty = true
        · simp [he, hd] at h
          subst h
          exact ⟨rfl, rfl, by simp [Err.addDetail]⟩
        · simp [he, hd] at h
          subst h
          exact ⟨rfl, rfl, List.prefix_refl _⟩

theorem expected_error_verbatim (tc : TC) (ex : Err) (h : (expected tc).err = some ex) :
    (∃ d e, tc.udef = some d ∧ d.resp = .error e ∧ ex.code = e.code ∧ ex.msg = e.msg ∧ e.details <+: ex.details) ∨
    (∃ d e, tc.sdef = some d ∧ d.err = some e ∧ ex.code = e.code ∧ ex.msg = e.msg ∧ e.details <+: ex.details) := by
  unfold expected at h
  cases hst : tc.st <;> simp only [hst] at h
  · exact Or.inl (expectedUnary_error_verbatim tc ex h)
  · exact Or.inl (expectedUnary_error_verbatim tc ex h)
  · exact Or.inr (expectedStream_error_verbatim tc ex h)
  · exact Or.inr (expectedStream_error_verbatim tc ex h)
  · exact Or.inr (expectedStream_error_verbatim tc ex h)

-- a message of every byte class goes through verbatim
example : ((expected { exErrDet with udef := some ⟨[⟨"H", ["1"]⟩], [], .error ⟨9, some "\t%\n 100%\x7f\x00é☃", []⟩⟩ }).err.map (·.msg))
    = some (some "\t%\n 100%\x7f\x00é☃") := by decide

/-! ## C02 ∘ C19: the fits / misfit abstraction of `expandRequestData` is C19's arithmetic

`dirOf` maps a directive of C19's model to the three values C02's load model distinguishes. -/
section ExpandCompose
open ConfModel ConfModel.EchoLoad

/-- the `any`-clause of `expandCheck` is clean exactly when C19's loop over the messages succeeds
(messages that all carry a `request_data` field) -/
theorem expandMsgs_iff_no_misfit (limit : Nat) (ds : List Expand.Directive) :
    ∀ ms : List EchoLoad.Msg, ms.length = ds.length → (∀ m ∈ ms, m.hasData = true) →
    (((ds.map (dirOf limit)).zip ms).any (fun dm => dm.1 == .misfit || (dm.1 == .fits && !dm.2.hasData)) = false ↔
      (Expand.expandMsgs limit ds).isSome = true) := by
  induction ds with
  | nil => intro ms _ _; simp [Expand.expandMsgs]
  | cons d ds ih =>
    intro ms hl hd
    cases ms with
    | nil => simp at hl
    | cons m ms =>
      have hm : m.hasData = true := hd m (by simp)
      have ih' := ih ms (by simpa using hl) (fun x hx => hd x (by simp [hx]))
      simp only [List.map_cons, List.zip_cons_cons, List.any_cons, Bool.or_eq_false_iff]
      unfold Expand.expandMsgs
      cases hoff : d.off with
      | none =>
        simp only [dirOf, hoff, Option.isSome_map]
        rw [← ih']; simp
      | some off =>
        simp only [dirOf, hoff]
        cases hres : Expand.expand limit d.r d.l0 off <;>
          simp only [Expand.Out.isOk, if_true, if_false, Bool.false_eq_true, Option.isSome_map] <;>
          first
            | (rw [← ih']; simp [hm])
            | simp

/-- `EchoLoad.expandCheck` (C02) accepts a case exactly when `Expand.expandCase` (C19) pads every
message: the abstraction to fits / misfit loses nothing the load verdict depends on -/
theorem expandCheck_iff_expandCase (limit : Nat) (c : EchoLoad.Case) (ds : List Expand.Directive)
    (hx : c.expand = ds.map (dirOf limit)) (hl : c.msgs.length = ds.length)
    (hd : ∀ m ∈ c.msgs, m.hasData = true) :
    EchoLoad.expandCheck c = none ↔ (Expand.expandCase limit ⟨ds.length, ds⟩).isSome = true := by
  have hlen : ¬ c.expand.length > c.msgs.length := by rw [hx, List.length_map, hl]; exact Nat.lt_irrefl _
  have hnot : (⟨ds.length, ds⟩ : Expand.SuiteCase).tooMany = false := by simp [Expand.SuiteCase.tooMany]
  unfold EchoLoad.expandCheck Expand.expandCase
  rw [if_neg hlen, hnot]
  simp only [Bool.false_eq_true, if_false]
  rw [← expandMsgs_iff_no_misfit limit ds c.msgs hl hd, hx]
  cases h : ((ds.map (dirOf limit)).zip c.msgs).any (fun dm => dm.1 == .misfit || (dm.1 == .fits && !dm.2.hasData)) <;> simp

-- non-vacuity: a message with 10 other bytes and no data padded to limit+5 fits; to limit-300000 it does not
example : dirOf 204800 ⟨10, 0, some 5⟩ = .fits ∧ dirOf 204800 ⟨10, 0, some (-300000)⟩ = .misfit ∧ dirOf 204800 ⟨10, 0, none⟩ = .absent := by decide
end ExpandCompose

/-! ## F34: a delivery that trims optional white space around the error message

Full statement (kept visible; proved as `expected_agrees_partial` / `populatedX_agrees_partial`):
for every well-formed `tc` outside F07 and every transport `w` with `WireLaw tc w`,
`agree tc.st (expected tc) (actual tc w m)`.  Its hypothesis about the transport is `WireLaw` (hypothesis
`hw`) TOGETHER WITH the shape of the conclusion: the peers' result is `actual tc w m`, whose error is the
definition's code / message / details whatever `w` is — the clause "error message unchanged" of the
WireLaw assumption in checks/C02.json is built into `actual`.  gRPC-Web breaks exactly that clause for
a message with a boundary space: `f34_witness` (agreement holds for the intact delivery, fails for the
trimmed one, holds again for the same text without boundary spaces), `f34_outside_wire` (no transport
`w` makes `actual` produce the trimmed delivery). -/
/-- a gRPC-Web-like delivery: the peers' result with the optional white space around the error
message gone (what a header-line parser makes of `grpc-message: <value>`) -/
def trimOWS (s : String) : String := String.ofList ((s.toList.dropWhile (· == ' ')).reverse.dropWhile (· == ' ')).reverse
def trimmedDelivery (r : Result) : Result := { r with err := r.err.map (fun e => { e with msg := e.msg.map trimOWS }) }

def exF34 : TC :=
  { st := .serverStream, reqHdrs := [], reqs := [101], fdFlag := false, udef := none,
    get := false, codec := .proto, method := .std, explicit := none,
    sdef := some ⟨[⟨"x-hdr-f34", ["v1"]⟩], [⟨"x-trl-f34", ["t1"]⟩], ["aa"], some ⟨9, some " lead and trail ", []⟩⟩ }

theorem f34_witness :
    WellFormed exF34 = true ∧ WireLaw exF34 (idWire exF34) = true ∧ DetailsOpaque exF34 = true ∧ isF07 exF34 = false ∧
    agree exF34.st (expected exF34) (actual exF34 (idWire exF34) false) = true ∧
    agree exF34.st (expected exF34) (trimmedDelivery (actual exF34 (idWire exF34) false)) = false ∧
    agree exF34.st (expected { exF34 with sdef := some ⟨[], [], ["aa"], some ⟨9, some "lead and trail", []⟩⟩ })
      (trimmedDelivery (actual { exF34 with sdef := some ⟨[], [], ["aa"], some ⟨9, some "lead and trail", []⟩⟩ } (idWire exF34) false)) = true := by decide
/-- … and that delivery is outside what `expected_agrees_partial` quantifies over: its conclusion speaks
about `actual tc w m`, in which — for EVERY transport `w` — the error message is the definition's (the
"error code / message / details unchanged" clause of the WireLaw assumption is built into `actual`) -/
theorem f34_outside_wire (w : Wire) (m : Bool) :
    (actual exF34 w m).err = some ⟨9, some " lead and trail ", []⟩ ∧
    (actual exF34 w m).err ≠ (trimmedDelivery (actual exF34 (idWire exF34) false)).err := by
  have h : (actual exF34 w m).err = some ⟨9, some " lead and trail ", []⟩ := by
    simp [actual, actualStream, exF34]
  refine ⟨h, ?_⟩
  rw [h]; decide

end ConfModel.Props.C02
