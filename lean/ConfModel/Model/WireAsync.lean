/-
The reference client's per-call hand-off reached through the REAL client-side glue
(`newWireCaptureTransport` → `tracer.TracingRoundTripper` → `builder` → `wireTracer.Complete` →
`setWireTrace`, wire_details.go + internal/tracer/middleware.go, reader.go, builder.go).

What completes the trace of a call is no longer a scripted `Complete`: it is the first finishing
event that reaches the call's builder —
* the round trip fails (`ResponseError`),
* the response body is read to its end (`ResponseBodyEnd`, nil error),
* the response body is closed before its end (`ResponseBodyEnd`, "closed before fully consumed"),
* the call's context is done: the middleware's goroutine (`<-ctx.Done(); builder.add(&RequestCanceled{})`)
  wakes up and — ASYNCHRONOUSLY, at some later point `fire` — adds `RequestCanceled`.
The builder lets exactly the first of them through (`getAndClearLocked`: afterwards `TestName == ""`).
The goroutine also wakes when the body is finished or the round trip failed (`cancel()`); its
`add` is a no-op then.

One call: `RT` (the gate in front of the collector).  A script over any number of calls is
*lowered* to a script of the hand-off model `WireHandoff` (`lowerAll`): an event that passes the
gate becomes `complete k (tr k cause)`, every other transport/context event becomes the hand-off
model's neutral event (`ctxDone k`: recorded, never consulted), waiter operations stay.
-/
import ConfModel.Model.WireHandoff
namespace ConfModel.WireAsync
open ConfModel.WireHandoff

inductive Phase
  | none   -- TracingRoundTripper not entered yet
  | inRT   -- builder and goroutine exist, inner RoundTrip has not returned
  | body   -- ResponseStart added, response handed to the caller, body not finished
  | done   -- body finished (tracingReader.closed) or the round trip failed
deriving DecidableEq, Repr

/-- the middleware's goroutine -/
inductive Gor
  | idle    -- blocked in `<-ctx.Done()`
  | armed   -- its context is done; `builder.add(&RequestCanceled{})` not executed yet
  | spent   -- it has executed its `add`
deriving DecidableEq, Repr

structure RT where
  phase : Phase
  /-- the builder has handed its trace over (`b.trace.TestName == ""`) -/
  closed : Bool
  /-- the caller's context is done -/
  ctxDone : Bool
  gor : Gor
deriving DecidableEq, Repr

def RT.init : RT := ⟨.none, false, false, .idle⟩

inductive Ev
  | rtBegin            -- TracingRoundTripper entered: newBuilder, WithCancel, go func(){…}
  | rtEnd (ok : Bool)  -- the inner transport returned: ResponseStart, or ResponseError + cancel()
  | ctxDone            -- the caller's context is cancelled / past its deadline
  | fire               -- the goroutine executes builder.add(&RequestCanceled{})
  | readEnd            -- the body is read to EOF: tryFinish(nil) (+ whenDone = cancel())
  | close              -- the body is closed: tryFinish("closed before fully consumed")
deriving DecidableEq, Repr

/-- causes: 1 read to its end, 2 closed, 3 cancelled (response present), 4 round trip failed,
5 cancelled before the response.  The trace of call `k` completed by cause `c`: -/
def tr (k c : Nat) : Nat := 8 * k + c

def arm : Gor → Gor
  | .idle => .armed
  | g => g

/-- `builder.add` of a finishing event: the first one gets through -/
def finish (r : RT) (c : Nat) : RT × Option Nat :=
  if r.closed then (r, Option.none) else (⟨r.phase, true, r.ctxDone, r.gor⟩, some c)

def gate (r : RT) : Ev → RT × Option Nat
  | .rtBegin =>
    if r.phase = .none then (⟨.inRT, r.closed, r.ctxDone, if r.ctxDone then .armed else .idle⟩, Option.none)
    else (r, Option.none)
  | .rtEnd ok =>
    if r.phase = .inRT then
      if ok then (⟨.body, r.closed, r.ctxDone, r.gor⟩, Option.none)
      else
        let f := finish r 4
        (⟨.done, f.1.closed, f.1.ctxDone, arm f.1.gor⟩, f.2)
    else (r, Option.none)
  | .ctxDone => (⟨r.phase, r.closed, true, if r.phase = .none then r.gor else arm r.gor⟩, Option.none)
  | .fire =>
    if r.gor = .armed then
      let f := finish r (if r.phase = .inRT then 5 else 3)
      (⟨f.1.phase, f.1.closed, f.1.ctxDone, .spent⟩, f.2)
    else (r, Option.none)
  | .readEnd =>
    if r.phase = .body then
      let f := finish r 1
      (⟨.done, f.1.closed, f.1.ctxDone, arm f.1.gor⟩, f.2)
    else (r, Option.none)
  | .close =>
    if r.phase = .body then
      let f := finish r 2
      (⟨.done, f.1.closed, f.1.ctxDone, arm f.1.gor⟩, f.2)
    else (r, Option.none)

inductive AOp
  | ev (k : Nat) (e : Ev)
  | begin (k : Nat) | grace (k : Nat) | join (k : Nat) | peek (k : Nat)
deriving DecidableEq, Repr

def updR (f : Nat → RT) (k : Nat) (r : RT) : Nat → RT := fun x => if x = k then r else f x

def init0 : Nat → RT := fun _ => RT.init

/-- what an event of call `k` is for the hand-off -/
def lowerEv (k : Nat) : Option Nat → Op
  | some c => .complete k (tr k c)
  | Option.none => .ctxDone k

def lowerAll : (Nat → RT) → List AOp → List Op
  | _, [] => []
  | r, .ev k e :: os => lowerEv k (gate (r k) e).2 :: lowerAll (updR r k (gate (r k) e).1) os
  | r, .begin k :: os => .begin k :: lowerAll r os
  | r, .grace k :: os => .grace k :: lowerAll r os
  | r, .join k :: os => .join k :: lowerAll r os
  | r, .peek k :: os => .peek k :: lowerAll r os

/-- the gates after a script -/
def gateAll : (Nat → RT) → List AOp → (Nat → RT)
  | r, [] => r
  | r, .ev k e :: os => gateAll (updR r k (gate (r k) e).1) os
  | r, .begin _ :: os => gateAll r os
  | r, .grace _ :: os => gateAll r os
  | r, .join _ :: os => gateAll r os
  | r, .peek _ :: os => gateAll r os

/-- the whole thing: the hand-off model run on the lowered script -/
def execA (bare : List Nat) (ops : List AOp) : St × List Obs :=
  exec (WireHandoff.init bare) (lowerAll init0 ops)

/-- the event `e` of call `k` certainly completes the trace (if nothing did before) -/
def completing (r : RT) : Ev → Bool
  | .fire => r.gor == .armed
  | .readEnd | .close => r.phase == .body
  | .rtEnd false => r.phase == .inRT
  | _ => false

/-- A BODILESS response (http.NoBody: 204 / 304, the answer to a HEAD, `Content-Length: 0`, END_STREAM
on the HTTP/2 HEADERS frame; or a reader whose first Read is EOF).  `TracingRoundTripper` wraps it
like every other body (middleware.go: `resp.Body = newReader(…, cancel)`, no test of the body), so
the response is in phase `body` when the caller gets it, and there is no data to read first: the
caller's first touch of the body IS a finishing event — a Read returns EOF at once (`readEnd`), a
Close is `close`. -/
def touch (read : Bool) : Ev := if read then .readEnd else .close

end ConfModel.WireAsync
