package main

import (
	"encoding/json"

	cc "connectrpc.com/conformance/internal/app/connectconformance"
	"connectrpc.com/conformance/internal/verifharness/gen"
)

// Real OS processes (/bin/sh scripts started through the repository's runCommand) behind the
// client multiplexer (C10 op "oscmd"), the server batch runner (C11 op "oscmd") and the
// "every started server is stopped" clause of C05 (op "osserver").

// a valid ServerCompatResponse {host: "127.0.0.1", port: 9}, length-prefixed
const oscmdServerResponse = `printf '\000\000\000\015\012\011127.0.0.1\020\011'`

type oscmdClientIn struct {
	Kind string `json:"kind"`
	cc.VerifOSClientSpec
}
type oscmdServerIn struct {
	Kind string `json:"kind"`
	cc.VerifOSServerSpec
}

func init() {
	gen.RegisterOp("c10", "oscmd", func(_ *gen.Ctx, raw json.RawMessage) any {
		return cc.VerifOSClient(gen.Into[oscmdClientIn](raw).VerifOSClientSpec)
	})
	for _, area := range []string{"c11", "c05"} {
		gen.RegisterOp(area, map[string]string{"c11": "oscmd", "c05": "osserver"}[area], func(_ *gen.Ctx, raw json.RawMessage) any {
			return cc.VerifOSServerBatch(gen.Into[oscmdServerIn](raw).VerifOSServerSpec)
		})
	}
}

// C05 op "fill": what the batch runner fills into every request it hands to the client (test name in
// the request headers — also in the headers of a raw HTTP request —, the server's host, port and
// certificate), for reference and non-reference servers, with and without raw requests.
type c05FillIn struct {
	N      int  `json:"n"`
	IsRef  bool `json:"isRef"`
	RawReq bool `json:"rawReq"`
	UseTLS bool `json:"useTLS"`
}

func init() {
	gen.RegisterOp("c05", "fill", func(_ *gen.Ctx, raw json.RawMessage) any {
		in := gen.Into[c05FillIn](raw)
		names := make([]string, in.N)
		cases := make([]cc.VerifC11Case, in.N)
		for i := range names {
			names[i] = "Suite/fill/case" + string(rune('0'+i))
			cases[i] = cc.VerifC11Case{K: "pass"}
		}
		resp := "ok"
		if in.UseTLS {
			resp = "okcert"
		}
		obs := cc.VerifC11Run(cc.VerifC11Spec{Names: names, Cases: cases, Start: "ok", Write: "ok", Close: "ok", Resp: resp, Dies: -1,
			RespLen: cc.VerifC11RespLen(), IsRef: in.IsRef, RawReq: in.RawReq, UseTLS: in.UseTLS})
		return map[string]any{"reqs": obs.Reqs, "hang": obs.Hang}
	})
}

func c05FillScenarios() []any {
	var ins []any
	for _, isRef := range []bool{false, true} {
		for _, raw := range []bool{false, true} {
			for _, tls := range []bool{false, true} {
				ins = append(ins, c05FillIn{N: 2, IsRef: isRef, RawReq: raw, UseTLS: tls})
			}
		}
	}
	return ins
}

func oscmdClientScenarios(c *gen.Ctx) []any {
	ins := []any{
		oscmdClientIn{"exit0-at-once", cc.VerifOSClientSpec{Script: "exit 0", Small: 3, TimeoutS: 20}},
		oscmdClientIn{"exit3-after-reading-a-bit", cc.VerifOSClientSpec{Script: "head -c 6 >/dev/null; exit 3", Small: 3, TimeoutS: 20}},
		// the same two with a sender that is certainly late: the process is gone when the (next)
		// request is written to it
		oscmdClientIn{"exit0-at-once-late-sender", cc.VerifOSClientSpec{Script: "exit 0", Small: 3, TimeoutS: 20, DelayMs: 300}},
		oscmdClientIn{"exit3-after-reading-a-bit-slow-sender", cc.VerifOSClientSpec{Script: "head -c 6 >/dev/null; exit 3", Small: 3, TimeoutS: 20, GapMs: 250}},
		// a client that ignores SIGTERM, writes garbage and never drains its stdin while a large
		// request is being written: the runner must still terminate everything (SIGKILL after the
		// grace period) — costs about 6 s
		oscmdClientIn{"ignores-term-garbage-blocked-writer", cc.VerifOSClientSpec{Script: "trap '' TERM; sleep 1; printf 'garbage!'; exec sleep 40", Small: 1, BigBytes: 1 << 20, TimeoutS: 20}},
	}
	// a client that has taken its requests, writes garbage and then lingers (ignores SIGTERM until
	// it is killed 5 s later): the failure is reported to the three pending requests at once, and
	// from that moment on the runner must say that the client is not running — about 6 s
	ins = append(ins, oscmdClientIn{"ignores-term-garbage-lingers", cc.VerifOSClientSpec{Script: "trap '' TERM; sleep 0.5; printf 'garbage!'; exec sleep 40", Small: 3, TimeoutS: 25}})
	if c.Thorough() {
		ins = append(ins,
			oscmdClientIn{"closes-stdout-keeps-reading", cc.VerifOSClientSpec{Script: "exec 1>&-; cat >/dev/null", Small: 3, TimeoutS: 25}},
			oscmdClientIn{"exit0-blocked-writer", cc.VerifOSClientSpec{Script: "sleep 0.5; exit 0", Small: 0, BigBytes: 1 << 20, TimeoutS: 20}},
		)
	}
	return ins
}

func oscmdServerScenarios(c *gen.Ctx) []any {
	ins := []any{
		// the server dies while its (large, TLS) request is still being written
		oscmdServerIn{"dies-during-request-write", cc.VerifOSServerSpec{Script: "sleep 0.3; exit 3", N: 3, UseTLS: true, CredBytes: 4 << 20, TimeoutS: 20}},
		oscmdServerIn{"answers-then-exits-0", cc.VerifOSServerSpec{Script: oscmdServerResponse + "; exit 0", N: 3, TimeoutS: 20}},
		// a server that answers and then ignores SIGTERM must still be gone when the batch returns
		oscmdServerIn{"ignores-term", cc.VerifOSServerSpec{Script: "trap '' TERM; " + oscmdServerResponse + "; exec sleep 40", N: 2, TimeoutS: 25}},
	}
	if c.Thorough() {
		ins = append(ins, oscmdServerIn{"garbage-then-ignores-term", cc.VerifOSServerSpec{Script: "trap '' TERM; printf 'garbage!!'; exec sleep 40", N: 2, TimeoutS: 25}})
	}
	return ins
}
