/-
C15 layer 3 — `http2RetryCollector` (internal/tracer/http2.go): traces that ended with a
retryable error are held back in `waiting` (keyed by test name) until a retry starts
(`newAttempt`: dropped), the retry timer fires (`timesUp`: delivered) or the connection ends
(`cancel`: all delivered).  Each method is one atomic operation (it runs under `h.mu`; the
downstream `Complete` calls of `timesUp`/`cancel` happen right after the unlock).
-/
import ConfModel.Model.H2Trace
namespace ConfModel.H2

structure Coll where
  waiting : List (String × Trace)    -- the map `waiting` (at most one entry per name)
  out : List Trace                   -- what the downstream collector received, in order
deriving DecidableEq, Repr, Inhabited

def Coll.init : Coll := { waiting := [], out := [] }

def dropName (n : String) (w : List (String × Trace)) : List (String × Trace) := w.filter (fun p => p.1 != n)

def findName (n : String) : List (String × Trace) → Option Trace
  | [] => none
  | p :: w => if p.1 == n then some p.2 else findName n w

inductive COp
  | complete (t : Trace)
  | newAttempt (n : String)
  | timesUp (n : String)
  | cancel
deriving DecidableEq, Repr, Inhabited

def Coll.complete (c : Coll) (t : Trace) : Coll :=
  if t.err.retryable then { c with waiting := (t.name, t) :: dropName t.name c.waiting }
  else if (findName t.name c.waiting).isSome then c
  else { c with out := c.out ++ [t] }

def Coll.newAttempt (c : Coll) (n : String) : Coll := { c with waiting := dropName n c.waiting }

def Coll.timesUp (c : Coll) (n : String) : Coll :=
  match findName n c.waiting with
  | some t => { waiting := dropName n c.waiting, out := c.out ++ [t] }
  | none => c

def Coll.cancel (c : Coll) : Coll := { waiting := [], out := c.out ++ c.waiting.map (·.2) }

def Coll.step (c : Coll) : COp → Coll
  | .complete t => c.complete t
  | .newAttempt n => c.newAttempt n
  | .timesUp n => c.timesUp n
  | .cancel => c.cancel

def Coll.run (c : Coll) (ops : List COp) : Coll := ops.foldl Coll.step c

/-- the traces delivered downstream for test name `n` -/
def Coll.outFor (c : Coll) (n : String) : List Trace := c.out.filter (fun t => t.name == n)

end ConfModel.H2
