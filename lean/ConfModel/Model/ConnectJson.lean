/-
Model of the Connect JSON examiners of the reference client
(`internal/app/referenceclient/wire_details.go`: `examineJSON`, `checkNoDuplicateKeys`,
`examineConnectError`, `examineConnectErrorDetail`, `examineConnectEndStream`) at the level of an
already-parsed JSON value in which duplicate keys ARE representable, and of the JSON documents
connect-go's error writer produces (`connectWireError`, `connectWireDetail`,
`connectEndStreamMessage` in protocol_connect.go).

Strings and keys are the bytes of the Go string `encoding/json` produces for the literal.
Feedback is one constructor per `printer.Printf` site (the three `examineJSON` sites are shared
by the three examiners, as their texts are).  Library functions are transcribed:
`encoding/json`'s struct decoding as far as it matters (a member is matched to a struct field
when `foldName` of the key equals that of the field name, the last such member wins, `null`
clears a pointer / slice, a value of the wrong JSON type is an `UnmarshalTypeError`),
`protoreflect.FullName.IsValid`, `base64.RawStdEncoding.DecodeString` (CR and LF are skipped;
the rest is `Base64.decodeRaw` of C18).  Not modelled: `encoding/json` syntax (a document that
does not tokenize never reaches this model) and the protobuf libraries behind the comparison of a
detail's `debug` member with its `value` (`examineConnectErrorDetailDebugData`): the examiners are
parametrised by an oracle `dbg` for that comparison; `debugDataFb` is the model of the function
itself, with the outcome of each library call (`DebugSteps`) as its input - which call follows
which, and which type name a type URL stands for, is decided here.
-/
import ConfModel.Model.WireChecks
import ConfModel.Model.Base64
namespace ConfModel.ConnectJson
open ConfModel.WireChecks (bs validFieldName validFieldValue toUpperByte)
open ConfModel.ServerTimeout (Bytes)

/-- a parsed JSON document; the members of an object are kept in document order, duplicates
included; numbers carry no value (no check looks at one) -/
inductive Json where
  | null
  | bool (b : Bool)
  | num
  | str (s : Bytes)
  | arr (xs : List Json)
  | obj (fs : List (Bytes × Json))
  deriving Repr, Inhabited

abbrev Fields := List (Bytes × Json)

def keysOf (fs : Fields) : List Bytes := fs.map (·.1)

mutual
def Json.beq : Json → Json → Bool
  | .null, .null => true
  | .bool a, .bool b => a == b
  | .num, .num => true
  | .str a, .str b => a == b
  | .arr a, .arr b => Json.beqList a b
  | .obj a, .obj b => Json.beqFields a b
  | _, _ => false
def Json.beqList : List Json → List Json → Bool
  | [], [] => true
  | a :: as, b :: bs' => Json.beq a b && Json.beqList as bs'
  | _, _ => false
def Json.beqFields : Fields → Fields → Bool
  | [], [] => true
  | (k, a) :: as, (k', b) :: bs' => k == k' && Json.beq a b && Json.beqFields as bs'
  | _, _ => false
end

/-! ### feedback -/

/-- the five messages of `examineConnectErrorDetailDebugData` -/
inductive DebugFb
  | unresolved | value | json | type | mismatch
  deriving DecidableEq, Repr

inductive CFb
  -- examineJSON (shared by the three examiners)
  | jsonType       -- json.Unmarshal into the struct fails (UnmarshalTypeError)
  | jsonNull       -- "expecting an object but got <nil>"
  | dupKey         -- "contains duplicate key"
  -- examineConnectError
  | codeType | codeUnknown | messageType | detailsType | invalidKey | missingCode
  -- examineConnectErrorDetail
  | dTypeType | dTypeInvalid | dValueType | dValueBase64 | dInvalidKey | dMissingType | dMissingValue
  | dDebug (f : DebugFb)
  -- examineConnectEndStream
  | sErrorType | sMetadataType | sMetaName | sMetaArray | sMetaValueType | sMetaValue | sInvalidKey
  deriving DecidableEq, Repr

/-- what the protojson comparison says about the `debug` member of detail `i`, given the type
name and the decoded value it is called with -/
abbrev DebugOracle := Nat → Bytes → Bytes → Option DebugFb

/-! ### `examineConnectErrorDetailDebugData` -/

/-- the outcome of every library call `examineConnectErrorDetailDebugData` can make on
`(msgName, data, debugJSON)`; the harness computes each on its own with the real libraries -/
structure DebugSteps where
  /-- `protoregistry.GlobalTypes.FindMessageByName(msgName)` succeeds -/
  resolved : Bool
  /-- `proto.Unmarshal(data, msgFromValue)` succeeds -/
  valueOK : Bool
  /-- `protojson.Unmarshal(debugJSON, msgFromDebug)` (into the detail's type) succeeds -/
  directOK : Bool
  /-- … and that message equals the one of the value -/
  eqDirect : Bool
  /-- `protojson.Unmarshal(debugJSON, &anyMsg)` (into a `google.protobuf.Any`) succeeds: `anyMsg.TypeUrl` -/
  anyUrl : Option Bytes
  /-- `anyMsg.UnmarshalNew()` succeeds -/
  newOK : Bool
  /-- … and that message equals the one of the value -/
  eqAny : Bool
  deriving Repr

/-- `TypeUrl[strings.LastIndexByte(TypeUrl, '/')+1:]`: what follows the last slash; the whole
URL when it has none -/
def typeNameOfUrl (url : Bytes) : Bytes := (url.reverse.takeWhile (fun c => c != 47)).reverse

/-- `examineConnectErrorDetailDebugData`: the one message it prints, if any -/
def debugDataFb (msgName : Bytes) (s : DebugSteps) : Option DebugFb :=
  if !s.resolved then some .unresolved
  else if !s.valueOK then some .value
  else if s.directOK then (if s.eqDirect then none else some .mismatch)
  else
    -- the fallback: the debug data may be the message rendered as a google.protobuf.Any
    match s.anyUrl with
    | none => some .json
    | some url =>
      if typeNameOfUrl url != msgName then some .type
      else if !s.newOK then some .json
      else if s.eqAny then none else some .mismatch

/-- the library outcomes for the comparison of detail `i`, by type name and decoded value -/
abbrev StepsOracle := Nat → Bytes → Bytes → DebugSteps

/-- the comparison oracle of the examiners, derived from the library outcomes -/
def stepsOracle (st : StepsOracle) : DebugOracle := fun i t d => debugDataFb t (st i t d)

/-! ### keys -/

def jkCode : Bytes := bs "code"
def jkMessage : Bytes := bs "message"
def jkDetails : Bytes := bs "details"
def jkType : Bytes := bs "type"
def jkValue : Bytes := bs "value"
def jkDebug : Bytes := bs "debug"
def jkError : Bytes := bs "error"
def jkMetadata : Bytes := bs "metadata"

/-- `encoding/json` `foldName`: ASCII letters to upper case; of the non-ASCII runes only U+017F
(long s, `C5 BF`) and U+212A (Kelvin sign, `E2 84 AA`) fold to an ASCII letter, every other one
folds to a non-ASCII rune (left as it is here: it can never equal an ASCII field name).  Keys
are valid UTF-8 (`encoding/json` replaces anything else by U+FFFD). -/
def foldKey : Bytes → Bytes
  | [] => []
  | c :: t =>
    -- the continuation bytes of the two special runes are left alone by the fold of the tail
    let r := foldKey t
    if c.toNat == 0xC5 && t.head? == some 0xBF then 83 :: r.drop 1
    else if c.toNat == 0xE2 && t.head? == some 0x84 && (t.drop 1).head? == some 0xAA then
      75 :: r.drop 2
    else toUpperByte c :: r

def fCODE : Bytes := bs "CODE"
def fMESSAGE : Bytes := bs "MESSAGE"
def fDETAILS : Bytes := bs "DETAILS"
def fTYPE : Bytes := bs "TYPE"
def fVALUE : Bytes := bs "VALUE"
def fERROR : Bytes := bs "ERROR"
def fMETADATA : Bytes := bs "METADATA"

/-- the member the map `asAny` holds for a key (members are distinct when this is used) -/
def lookup (fs : Fields) (k : Bytes) : Option Json := (fs.find? (·.1 == k)).map (·.2)

def hasKey (fs : Fields) (k : Bytes) : Bool := fs.any (·.1 == k)

/-- the member a struct field is decoded from: the last one whose key folds to the field's name -/
def typedLast (fs : Fields) (folded : Bytes) : Option Json :=
  ((fs.filter (fun kv => foldKey kv.1 == folded)).getLast?).map (·.2)

def bytesLt : Bytes → Bytes → Bool
  | [], [] => false
  | [], _ :: _ => true
  | _ :: _, [] => false
  | a :: as, b :: bs' => a.toNat < b.toNat || (a.toNat == b.toNat && bytesLt as bs')

def insertField (x : Bytes × Json) : Fields → Fields
  | [] => [x]
  | y :: ys => if bytesLt x.1 y.1 then x :: y :: ys else y :: insertField x ys

/-- `sortedKeys(asAny)`: the members in the order `examineJSON` hands them to the callback -/
def sortFields (fs : Fields) : Fields := fs.foldr insertField []

/-! ### `checkNoDuplicateKeys` -/

mutual
/-- no object at any depth has two members with the same key -/
def dupFree : Json → Bool
  | .arr xs => dupFreeList xs
  | .obj fs => decide (keysOf fs).Nodup && dupFreeFields fs
  | _ => true
def dupFreeList : List Json → Bool
  | [] => true
  | x :: xs => dupFree x && dupFreeList xs
def dupFreeFields : Fields → Bool
  | [] => true
  | (_, v) :: fs => dupFree v && dupFreeFields fs
end

/-! ### `examineJSON` -/

def nullOrStr : Json → Bool
  | .null | .str _ => true
  | _ => false

def nullOrArr : Json → Bool
  | .null | .arr _ => true
  | _ => false

/-- outcome of `json.Unmarshal(rawJSON, dest)` with `dest : **T`, `T` a struct -/
inductive Typed
  | typeError
  | null
  | obj (fs : Fields)

def typedObject (fieldOK : Bytes → Json → Bool) : Json → Typed
  | .null => .null
  | .obj fs => if fs.all (fun kv => fieldOK kv.1 kv.2) then .obj fs else .typeError
  | _ => .typeError

/-- `examineJSON`: the message it prints when it returns false, or the members of the object
(the callback is run on `sortFields` of them) -/
def examineJSON (fieldOK : Bytes → Json → Bool) (doc : Json) : Except CFb Fields :=
  match typedObject fieldOK doc with
  | .typeError => .error .jsonType
  | .null => .error .jsonNull
  | .obj fs => if dupFree doc then .ok fs else .error .dupKey

/-- the object passes the generic layer of `examineJSON`: it decodes into the struct and has no
duplicate key at any depth -/
def passesJSON (fieldOK : Bytes → Json → Bool) (fs : Fields) : Bool :=
  fs.all (fun kv => fieldOK kv.1 kv.2) && dupFree (.obj fs)

/-! ### `examineConnectErrorDetail` -/

def isLetter (c : UInt8) : Bool :=
  c.toNat == 95 || (97 ≤ c.toNat && c.toNat ≤ 122) || (65 ≤ c.toNat && c.toNat ≤ 90)

def isLetterDigit (c : UInt8) : Bool := isLetter c || (48 ≤ c.toNat && c.toNat ≤ 57)

/-- the loop of `protoreflect.FullName.IsValid`; `start`: an identifier has to begin here -/
def validNameLoop : Bytes → Bool → Bool
  | [], start => !start
  | c :: t, true => isLetter c && validNameLoop t false
  | c :: t, false => if c.toNat == 46 then validNameLoop t true else isLetterDigit c && validNameLoop t false

def validFullName (s : Bytes) : Bool := validNameLoop s true

/-- `base64.RawStdEncoding.DecodeString` (not strict): CR and LF are skipped anywhere -/
def rawStdDecode (v : Bytes) : Option Bytes :=
  Base64.decodeRaw (v.filter (fun c => !(c.toNat == 10 || c.toNat == 13)))

/-- struct `connectErrorDetail{Type *string; Value *string; Debug json.RawMessage}` -/
def detailFieldOK (k : Bytes) (v : Json) : Bool :=
  let f := foldKey k
  if f == fTYPE || f == fVALUE then nullOrStr v else true

/-- the callback of `examineConnectErrorDetail` on one member -/
def detailKeyFb (k : Bytes) (v : Json) : List CFb :=
  if k == jkType then
    match v with
    | .str s => if validFullName s then [] else [.dTypeInvalid]
    | _ => [.dTypeType]
  else if k == jkValue then
    match v with
    | .str s => if (rawStdDecode s).isSome then [] else [.dValueBase64]
    | _ => [.dValueType]
  else if k == jkDebug then []
  else [.dInvalidKey]

def strOf : Option Json → Option Bytes
  | some (.str s) => some s
  | _ => none

/-- the call of `examineConnectErrorDetailDebugData`, if it is reached: `detail.Type` and
`detail.Value` (struct decoding; the callback clears `Value` when the member `"value"` is not
base64) are non-nil and `hasDebug`; `decodedVal` is what the callback decoded (nil otherwise) -/
def detailDebugFb (dbg : DebugOracle) (i : Nat) (fs : Fields) : List CFb :=
  let exactVal := strOf (lookup fs jkValue)
  let decoded : Option Bytes := exactVal.bind rawStdDecode
  let cleared := exactVal.isSome && decoded.isNone
  match strOf (typedLast fs fTYPE) with
  | some t =>
    if (strOf (typedLast fs fVALUE)).isSome && !cleared && hasKey fs jkDebug then
      match dbg i t (decoded.getD []) with
      | some f => [.dDebug f]
      | none => []
    else []
  | none => []

def examineDetail (dbg : DebugOracle) (i : Nat) (d : Json) : List CFb :=
  match examineJSON detailFieldOK d with
  | .error f => [f]
  | .ok fs =>
    (sortFields fs).flatMap (fun kv => detailKeyFb kv.1 kv.2)
    ++ (if hasKey fs jkType then [] else [.dMissingType])
    ++ (if hasKey fs jkValue then [] else [.dMissingValue])
    ++ detailDebugFb dbg i fs

/-! ### `examineConnectError` -/

/-- `connect.Code(1..16).String()` -/
def codeNames : List Bytes :=
  [bs "canceled", bs "unknown", bs "invalid_argument", bs "deadline_exceeded", bs "not_found",
   bs "already_exists", bs "permission_denied", bs "resource_exhausted", bs "failed_precondition",
   bs "aborted", bs "out_of_range", bs "unimplemented", bs "internal", bs "unavailable",
   bs "data_loss", bs "unauthenticated"]

/-- struct `connectError{Code *string; Message *string; Details []json.RawMessage}` -/
def errorFieldOK (k : Bytes) (v : Json) : Bool :=
  let f := foldKey k
  if f == fCODE || f == fMESSAGE then nullOrStr v
  else if f == fDETAILS then nullOrArr v
  else true

/-- the callback of `examineConnectError` on one member -/
def errorKeyFb (k : Bytes) (v : Json) : List CFb :=
  if k == jkCode then
    match v with
    | .str s => if codeNames.contains s then [] else [.codeUnknown]
    | _ => [.codeType]
  else if k == jkMessage then
    match v with
    | .str _ => []
    | _ => [.messageType]
  else if k == jkDetails then
    match v with
    | .arr _ => []
    | _ => [.detailsType]
  else [.invalidKey]

/-- `connErr.Details` after struct decoding -/
def typedDetails (fs : Fields) : List Json :=
  match typedLast fs fDETAILS with
  | some (.arr xs) => xs
  | _ => []

def examineDetails (dbg : DebugOracle) : Nat → List Json → List CFb
  | _, [] => []
  | i, d :: ds => examineDetail dbg i d ++ examineDetails dbg (i + 1) ds

def examineConnectError (dbg : DebugOracle) (doc : Json) : List CFb :=
  match examineJSON errorFieldOK doc with
  | .error f => [f]
  | .ok fs =>
    (sortFields fs).flatMap (fun kv => errorKeyFb kv.1 kv.2)
    ++ (if hasKey fs jkCode then [] else [.missingCode])
    ++ (if hasKey fs jkDetails then examineDetails dbg 0 (typedDetails fs) else [])

/-! ### `examineConnectEndStream` -/

/-- `map[string][]string` -/
def metadataTypedOK : Json → Bool
  | .null => true
  | .obj ms => ms.all (fun kv =>
      match kv.2 with
      | .null => true
      | .arr vs => vs.all nullOrStr
      | _ => false)
  | _ => false

/-- struct `connectEndStream{Error json.RawMessage; Metadata map[string][]string}` -/
def endFieldOK (k : Bytes) (v : Json) : Bool :=
  if foldKey k == fMETADATA then metadataTypedOK v else true

def metaValueFb : Json → List CFb
  | .str s => if validFieldValue s then [] else [.sMetaValue]
  | _ => [.sMetaValueType]

/-- one iteration of `for name, values := range mapVal` (Go's map order is random; the model
goes through the members in document order) -/
def metaEntryFb (name : Bytes) (values : Json) : List CFb :=
  (if validFieldName name then [] else [.sMetaName])
  ++ (match values with
      | .arr vs => vs.flatMap metaValueFb
      | _ => [.sMetaArray])

/-- the callback of `examineConnectEndStream` on one member -/
def endKeyFb (k : Bytes) (v : Json) : List CFb :=
  if k == jkError then
    match v with
    | .obj _ => []
    | _ => [.sErrorType]
  else if k == jkMetadata then
    match v with
    | .obj ms => ms.flatMap (fun kv => metaEntryFb kv.1 kv.2)
    | _ => [.sMetadataType]
  else [.sInvalidKey]

def examineConnectEndStream (dbg : DebugOracle) (doc : Json) : List CFb :=
  match examineJSON endFieldOK doc with
  | .error f => [f]
  | .ok fs =>
    (sortFields fs).flatMap (fun kv => endKeyFb kv.1 kv.2)
    ++ (match lookup fs jkError with
        | some (.obj _) => examineConnectError dbg ((typedLast fs fERROR).getD .null)
        | _ => [])

/-! ### the documents connect-go writes -/

/-- an error detail as connect-go holds it: type name (after the last `/` of the type URL),
serialized message, and the protojson rendering of the message when it can be produced -/
structure Detail where
  type : Bytes
  value : Bytes
  debug : Option Json

/-- `connectWireDetail.MarshalJSON` -/
def encodeDetail (d : Detail) : Json :=
  .obj ([(jkType, .str d.type), (jkValue, .str (Base64.encode d.value))]
    ++ (match d.debug with | some j => [(jkDebug, j)] | none => []))

def codeName (code : Nat) : Bytes := codeNames.getD (code - 1) []

/-- `json.Marshal(connectWireError{Code, Message (omitempty), Details (omitempty)})` for a code
in 1..16 -/
def encodeError (code : Nat) (msg : Bytes) (details : List Detail) : Json :=
  .obj ([(jkCode, .str (codeName code))]
    ++ (if msg.isEmpty then [] else [(jkMessage, .str msg)])
    ++ (if details.isEmpty then [] else [(jkDetails, .arr (details.map encodeDetail))]))

def encodeMetadata (md : List (Bytes × List Bytes)) : Json :=
  .obj (md.map (fun kv => (kv.1, .arr (kv.2.map .str))))

/-- `json.Marshal(connectEndStreamMessage{Error (omitempty), Trailer (omitempty)})` -/
def encodeEndStream (err : Option (Nat × Bytes × List Detail)) (md : List (Bytes × List Bytes)) : Json :=
  .obj ((match err with
          | some (code, msg, details) => [(jkError, encodeError code msg details)]
          | none => [])
    ++ (if md.isEmpty then [] else [(jkMetadata, encodeMetadata md)]))

end ConfModel.ConnectJson
