package main

// C18 — error, metadata and message conversions are lossless.
// The conversion functions are exported: they are called directly.

import (
	"bytes"
	"context"
	"encoding/hex"
	"encoding/json"
	"errors"
	"fmt"
	"net/http"
	"net/url"
	"os"
	"sort"
	"strings"

	"connectrpc.com/conformance/internal"
	conformancev1 "connectrpc.com/conformance/internal/gen/proto/go/connectrpc/conformance/v1"
	"connectrpc.com/conformance/internal/grpcutil"
	"connectrpc.com/conformance/internal/verifharness/gen"
	"connectrpc.com/connect"
	"google.golang.org/grpc/metadata"
	"google.golang.org/grpc/status"
	"google.golang.org/protobuf/encoding/protowire"
	"google.golang.org/protobuf/proto"
	"google.golang.org/protobuf/reflect/protoreflect"
	"google.golang.org/protobuf/reflect/protoregistry"
	"google.golang.org/protobuf/types/known/anypb"
)

func init() {
	areas["c18"] = runC18
	areas["c18facts"] = runC18Facts
	gen.RegisterOp("c18", "err", func(_ *gen.Ctx, raw json.RawMessage) any { return c18Err(gen.Into[c18ErrIn](raw)) })
	gen.RegisterOp("c18", "anyerr", func(_ *gen.Ctx, raw json.RawMessage) any { return c18AnyErr(gen.Into[c18AnyErrIn](raw)) })
	gen.RegisterOp("c18", "h2md", func(_ *gen.Ctx, raw json.RawMessage) any {
		in := gen.Into[c18HsIn](raw)
		return c18MDOut{MD: c18CanonMD(grpcutil.ConvertProtoHeaderToMetadata(c18Headers(in.Hs)))}
	})
	gen.RegisterOp("c18", "outgoing", func(_ *gen.Ctx, raw json.RawMessage) any {
		in := gen.Into[c18HsIn](raw)
		ctx := grpcutil.AppendToOutgoingContext(context.Background(), c18Headers(in.Hs))
		md, _ := metadata.FromOutgoingContext(ctx)
		return c18MDOut{MD: c18CanonMD(md)}
	})
	gen.RegisterOp("c18", "rt", func(_ *gen.Ctx, raw json.RawMessage) any {
		in := gen.Into[c18HsIn](raw)
		return c18HsOut{Hs: c18CanonHs(grpcutil.ConvertMetadataToProtoHeader(grpcutil.ConvertProtoHeaderToMetadata(c18Headers(in.Hs))))}
	})
	gen.RegisterOp("c18", "md2h", func(_ *gen.Ctx, raw json.RawMessage) any {
		in := gen.Into[c18MDIn](raw)
		md := metadata.MD{}
		for _, e := range in.MD {
			md[e.K] = c18Unhex(e.V)
		}
		first := c18CanonHs(grpcutil.ConvertMetadataToProtoHeader(md)) // snapshot before the second call
		second := c18CanonHs(grpcutil.ConvertMetadataToProtoHeader(md))
		return c18TwiceOut{First: first, Second: second, After: c18CanonMD(md)}
	})
	gen.RegisterOp("c18", "addh", func(_ *gen.Ctx, raw json.RawMessage) any {
		in := gen.Into[c18AddIn](raw)
		dest := http.Header{}
		if in.Trailer {
			internal.AddTrailers(c18Headers(in.Hs), dest)
		} else {
			internal.AddHeaders(c18Headers(in.Hs), dest)
		}
		return c18HsOut{Hs: c18CanonHs(internal.ConvertToProtoHeader(dest))}
	})
	gen.RegisterOp("c18", "percent", func(_ *gen.Ctx, raw json.RawMessage) any {
		in := gen.Into[c18PercentIn](raw)
		msg, _ := hex.DecodeString(in.Msg)
		out := grpcutil.PercentEncodeMessage(string(msg))
		res := c18PercentOut{Out: gen.Hex([]byte(out))}
		if u, err := url.PathUnescape(out); err == nil {
			h := gen.Hex([]byte(u))
			res.Unesc = &h
		}
		return res
	})
	gen.RegisterOp("c18", "codec", func(_ *gen.Ctx, raw json.RawMessage) any { return c18Codec(gen.Into[c18CodecIn](raw)) })
}

// ---------------------------------------------------------------- line formats

type c18Detail struct {
	URL string `json:"url"`
	Val string `json:"val"` // hex
}
type c18PErr struct {
	Code    int32       `json:"code"`
	Msg     *string     `json:"msg"`
	Details []c18Detail `json:"details"`
}
type c18ErrIn struct {
	c18PErr
	Via string `json:"via"` // connect | grpc | cg | gc
}
type c18Mid struct {
	Code  int64    `json:"code"`
	Msg   string   `json:"msg"`
	Types []string `json:"types"`
}
type c18ErrOut struct {
	Mid *c18Mid  `json:"mid"`
	Out *c18PErr `json:"out"`
}
type c18AnyErrIn struct {
	Kind string  `json:"kind"` // nil | plain | connect | wrapped
	Text string  `json:"text"`
	Err  c18PErr `json:"err"`
}
type c18H struct {
	N string   `json:"n"`
	V []string `json:"v"` // hex
}
type c18KV struct {
	K string   `json:"k"`
	V []string `json:"v"` // hex
}
type c18HsIn struct {
	Hs []c18H `json:"hs"`
}
type c18AddIn struct {
	Hs      []c18H `json:"hs"`
	Trailer bool   `json:"trailer"`
}
type c18MDIn struct {
	MD []c18KV `json:"md"`
}
type c18MDOut struct {
	MD []c18KV `json:"md"`
}
type c18HsOut struct {
	Hs []c18H `json:"hs"`
}
type c18TwiceOut struct {
	First  []c18H  `json:"first"`
	Second []c18H  `json:"second"`
	After  []c18KV `json:"after"`
}
type c18PercentIn struct {
	Msg string `json:"msg"`
}
type c18PercentOut struct {
	Out   string  `json:"out"`
	Unesc *string `json:"unesc"`
}
type c18CodecIn struct {
	Codec string `json:"codec"` // proto | json
	Type  string `json:"type"`
	Msg   string `json:"msg"` // hex, binary encoding of the message
	Unk   string `json:"unk"` // "" | varint | fixed32 | fixed64 | bytes | group
}
type c18CodecOut struct {
	MarshalOK bool `json:"marshalOk"`
	RT        bool `json:"rt"`       // Unmarshal(Marshal(m)) equals m
	StableRT  bool `json:"stableRt"` // Unmarshal(MarshalStable(m)) equals m
	AppendOK  bool `json:"appendOk"` // MarshalAppend(prefix, m) = prefix ++ Marshal(m)
	Rejected  bool `json:"rejected"` // Unmarshal of the encoding with one unknown field fails
	Shorter   bool `json:"shorter"`  // … or it succeeded (a silently shorter message)
}

func c18Unhex(hs []string) []string {
	out := make([]string, len(hs))
	for i, h := range hs {
		b, _ := hex.DecodeString(h)
		out[i] = string(b)
	}
	return out
}

func c18HexAll(vs []string) []string {
	out := make([]string, len(vs))
	for i, v := range vs {
		out[i] = gen.Hex([]byte(v))
	}
	return out
}

func c18Headers(hs []c18H) []*conformancev1.Header {
	out := make([]*conformancev1.Header, len(hs))
	for i, h := range hs {
		out[i] = &conformancev1.Header{Name: h.N, Value: c18Unhex(h.V)}
	}
	return out
}

func c18CanonMD(md map[string][]string) []c18KV {
	out := make([]c18KV, 0, len(md))
	for k, v := range md {
		out = append(out, c18KV{K: k, V: c18HexAll(v)})
	}
	sort.Slice(out, func(i, j int) bool { return out[i].K < out[j].K })
	return out
}

func c18CanonHs(hs []*conformancev1.Header) []c18H {
	out := make([]c18H, 0, len(hs))
	for _, h := range hs {
		out = append(out, c18H{N: h.Name, V: c18HexAll(h.Value)})
	}
	sort.SliceStable(out, func(i, j int) bool { return out[i].N < out[j].N })
	return out
}

func c18Proto(e c18PErr) *conformancev1.Error {
	pe := &conformancev1.Error{Code: conformancev1.Code(e.Code), Message: e.Msg}
	for _, d := range e.Details {
		v, _ := hex.DecodeString(d.Val)
		pe.Details = append(pe.Details, &anypb.Any{TypeUrl: d.URL, Value: v})
	}
	return pe
}

func c18FromProto(pe *conformancev1.Error) *c18PErr {
	if pe == nil {
		return nil
	}
	out := &c18PErr{Code: int32(pe.Code), Msg: pe.Message, Details: []c18Detail{}}
	for _, d := range pe.Details {
		out.Details = append(out.Details, c18Detail{URL: d.GetTypeUrl(), Val: gen.Hex(d.GetValue())})
	}
	return out
}

func c18MidConnect(ce *connect.Error) *c18Mid {
	if ce == nil {
		return nil
	}
	m := &c18Mid{Code: int64(ce.Code()), Msg: ce.Message(), Types: []string{}}
	for _, d := range ce.Details() {
		m.Types = append(m.Types, d.Type())
	}
	return m
}

func c18MidGrpc(err error) *c18Mid {
	if err == nil {
		return nil
	}
	st, _ := status.FromError(err)
	m := &c18Mid{Code: int64(st.Code()), Msg: st.Message(), Types: []string{}}
	for _, d := range st.Proto().GetDetails() {
		m.Types = append(m.Types, d.GetTypeUrl())
	}
	return m
}

func c18Err(in c18ErrIn) c18ErrOut {
	pe := c18Proto(in.c18PErr)
	var out c18ErrOut
	viaConnect := func(p *conformancev1.Error, first bool) *conformancev1.Error {
		ce := internal.ConvertProtoToConnectError(p)
		if first {
			out.Mid = c18MidConnect(ce)
		}
		return internal.ConvertConnectToProtoError(ce)
	}
	viaGrpc := func(p *conformancev1.Error, first bool) *conformancev1.Error {
		ge := grpcutil.ConvertProtoToGrpcError(p)
		if first {
			out.Mid = c18MidGrpc(ge)
		}
		return grpcutil.ConvertGrpcToProtoError(ge)
	}
	var res *conformancev1.Error
	switch in.Via {
	case "connect":
		res = viaConnect(pe, true)
	case "grpc":
		res = viaGrpc(pe, true)
	case "cg":
		res = viaGrpc(viaConnect(pe, true), false)
	case "gc":
		res = viaConnect(viaGrpc(pe, true), false)
	}
	out.Out = c18FromProto(res)
	return out
}

func c18AnyErr(in c18AnyErrIn) *c18PErr {
	var err error
	switch in.Kind {
	case "nil":
	case "plain":
		err = errors.New(in.Text)
	case "connect":
		err = internal.ConvertProtoToConnectError(c18Proto(in.Err))
	case "wrapped":
		err = fmt.Errorf("%s: %w", in.Text, internal.ConvertProtoToConnectError(c18Proto(in.Err)))
	}
	return c18FromProto(internal.ConvertErrorToProtoError(err))
}

// ---------------------------------------------------------------- codecs

func c18NewMsg(name string) proto.Message {
	mt, err := protoregistry.GlobalTypes.FindMessageByName(protoreflect.FullName(name))
	if err != nil {
		panic(err)
	}
	return mt.New().Interface()
}

func c18UnknownField(kind string) []byte {
	const num = 1999
	var b []byte
	switch kind {
	case "varint":
		b = protowire.AppendTag(b, num, protowire.VarintType)
		b = protowire.AppendVarint(b, 7)
	case "fixed32":
		b = protowire.AppendTag(b, num, protowire.Fixed32Type)
		b = protowire.AppendFixed32(b, 7)
	case "fixed64":
		b = protowire.AppendTag(b, num, protowire.Fixed64Type)
		b = protowire.AppendFixed64(b, 7)
	case "bytes":
		b = protowire.AppendTag(b, num, protowire.BytesType)
		b = protowire.AppendBytes(b, []byte("zz"))
	case "group":
		b = protowire.AppendTag(b, num, protowire.StartGroupType)
		b = protowire.AppendTag(b, num, protowire.EndGroupType)
	}
	return b
}

func c18Codec(in c18CodecIn) c18CodecOut {
	var codec interface {
		connect.Codec
		MarshalAppend([]byte, any) ([]byte, error)
		MarshalStable(any) ([]byte, error)
	}
	if in.Codec == "json" {
		codec = internal.StrictJSONCodec{}
	} else {
		codec = internal.StrictProtoCodec{}
	}
	msg := c18NewMsg(in.Type)
	raw, _ := hex.DecodeString(in.Msg)
	if err := proto.Unmarshal(raw, msg); err != nil {
		panic("generator produced an undecodable message: " + err.Error())
	}
	var out c18CodecOut
	data, err := codec.Marshal(msg)
	out.MarshalOK = err == nil
	if err != nil {
		return out
	}
	back := c18NewMsg(in.Type)
	out.RT = codec.Unmarshal(data, back) == nil && proto.Equal(msg, back)
	if st, err := codec.MarshalStable(msg); err == nil {
		back2 := c18NewMsg(in.Type)
		out.StableRT = codec.Unmarshal(st, back2) == nil && proto.Equal(msg, back2)
	}
	if ap, err := codec.MarshalAppend([]byte("PFX"), msg); err == nil && bytes.HasPrefix(ap, []byte("PFX")) {
		back3 := c18NewMsg(in.Type)
		out.AppendOK = codec.Unmarshal(ap[3:], back3) == nil && proto.Equal(msg, back3)
	}
	if in.Unk != "" {
		var bad []byte
		if in.Codec == "json" {
			// add a member no conformance message has
			trimmed := bytes.TrimRight(data, " \n\t")
			if len(trimmed) >= 2 && trimmed[0] == '{' && trimmed[len(trimmed)-1] == '}' {
				inner := bytes.TrimSpace(trimmed[1 : len(trimmed)-1])
				if len(inner) == 0 {
					bad = []byte(`{"zzUnknown` + in.Unk + `":1}`)
				} else {
					bad = append(append([]byte{}, trimmed[:len(trimmed)-1]...), []byte(`,"zzUnknown`+in.Unk+`":1}`)...)
				}
			} else {
				bad = []byte(`{"zzUnknown":1}`)
			}
		} else {
			bad = append(append([]byte{}, data...), c18UnknownField(in.Unk)...)
		}
		back4 := c18NewMsg(in.Type)
		err := codec.Unmarshal(bad, back4)
		out.Rejected = err != nil
		out.Shorter = err == nil
	}
	return out
}

// c18RandMsg fills a message of the given type with random content (depth-limited).
func c18RandMsg(r *gen.Rand, m protoreflect.Message, depth int) {
	fds := m.Descriptor().Fields()
	for i := 0; i < fds.Len(); i++ {
		fd := fds.Get(i)
		if !r.Chance(2, 5) {
			continue
		}
		switch {
		case fd.IsMap():
			if depth <= 0 {
				continue
			}
			mp := m.Mutable(fd).Map()
			for k := r.Intn(3); k > 0; k-- {
				key := c18RandScalar(r, fd.MapKey()).MapKey()
				if fd.MapValue().Message() != nil {
					v := mp.NewValue()
					c18FillMsg(r, v.Message(), depth-1)
					mp.Set(key, v)
				} else {
					mp.Set(key, c18RandScalar(r, fd.MapValue()))
				}
			}
		case fd.IsList():
			if fd.Message() != nil && depth <= 0 {
				continue
			}
			l := m.Mutable(fd).List()
			for k := r.Intn(3); k > 0; k-- {
				if fd.Message() != nil {
					v := l.NewElement()
					c18FillMsg(r, v.Message(), depth-1)
					l.Append(v)
				} else {
					l.Append(c18RandScalar(r, fd))
				}
			}
		case fd.Message() != nil:
			if depth <= 0 {
				continue
			}
			c18FillMsg(r, m.Mutable(fd).Message(), depth-1)
		default:
			m.Set(fd, c18RandScalar(r, fd))
		}
	}
}

var c18AnyTypes = []string{
	"connectrpc.conformance.v1.Header", "connectrpc.conformance.v1.UnaryRequest",
	"connectrpc.conformance.v1.ConformancePayload.RequestInfo", "connectrpc.conformance.v1.Error",
}

func c18FillMsg(r *gen.Rand, m protoreflect.Message, depth int) {
	switch m.Descriptor().FullName() {
	case "google.protobuf.Any":
		inner := c18NewMsg(gen.Pick(r, c18AnyTypes)).ProtoReflect()
		c18RandMsg(r, inner, depth-1)
		b, _ := proto.MarshalOptions{Deterministic: true}.Marshal(inner.Interface())
		fds := m.Descriptor().Fields()
		m.Set(fds.ByName("type_url"), protoreflect.ValueOfString("type.googleapis.com/"+string(inner.Descriptor().FullName())))
		m.Set(fds.ByName("value"), protoreflect.ValueOfBytes(b))
	case "google.protobuf.Struct", "google.protobuf.Value", "google.protobuf.ListValue":
		// not used by the conformance messages
	default:
		c18RandMsg(r, m, depth)
	}
}

func c18RandScalar(r *gen.Rand, fd protoreflect.FieldDescriptor) protoreflect.Value {
	switch fd.Kind() {
	case protoreflect.BoolKind:
		return protoreflect.ValueOfBool(r.Bool())
	case protoreflect.EnumKind:
		vals := fd.Enum().Values()
		return protoreflect.ValueOfEnum(vals.Get(r.Intn(vals.Len())).Number())
	case protoreflect.Int32Kind, protoreflect.Sint32Kind, protoreflect.Sfixed32Kind:
		return protoreflect.ValueOfInt32(int32(r.Uint64()) >> uint(r.Intn(32)))
	case protoreflect.Uint32Kind, protoreflect.Fixed32Kind:
		return protoreflect.ValueOfUint32(uint32(r.Uint64()) >> uint(r.Intn(32)))
	case protoreflect.Int64Kind, protoreflect.Sint64Kind, protoreflect.Sfixed64Kind:
		return protoreflect.ValueOfInt64(int64(r.Uint64()) >> uint(r.Intn(64)))
	case protoreflect.Uint64Kind, protoreflect.Fixed64Kind:
		return protoreflect.ValueOfUint64(r.Uint64() >> uint(r.Intn(64)))
	case protoreflect.FloatKind:
		return protoreflect.ValueOfFloat32(float32(r.Intn(2000)-1000) / 8)
	case protoreflect.DoubleKind:
		return protoreflect.ValueOfFloat64(float64(r.Intn(200000)-100000) / 64)
	case protoreflect.StringKind:
		return protoreflect.ValueOfString(c18RandText(r, 8))
	case protoreflect.BytesKind:
		return protoreflect.ValueOfBytes(r.Bytes(r.Intn(12)))
	}
	panic("kind " + fd.Kind().String())
}

var c18Runes = []rune("abcXYZ019 -_%/+=~\"\\<>&\n\té€日😀")

func c18RandText(r *gen.Rand, max int) string {
	n := r.Intn(max + 1)
	var sb strings.Builder
	for i := 0; i < n; i++ {
		if r.Chance(3, 4) {
			sb.WriteRune(c18Runes[r.Intn(10)])
		} else {
			sb.WriteRune(gen.Pick(r, c18Runes))
		}
	}
	return sb.String()
}

func c18MessageTypes() []string {
	var names []string
	var walk func(mds protoreflect.MessageDescriptors)
	walk = func(mds protoreflect.MessageDescriptors) {
		for i := 0; i < mds.Len(); i++ {
			md := mds.Get(i)
			if md.IsMapEntry() {
				continue
			}
			names = append(names, string(md.FullName()))
			walk(md.Messages())
		}
	}
	for _, fd := range []protoreflect.FileDescriptor{
		conformancev1.File_connectrpc_conformance_v1_client_compat_proto,
		conformancev1.File_connectrpc_conformance_v1_config_proto,
		conformancev1.File_connectrpc_conformance_v1_server_compat_proto,
		conformancev1.File_connectrpc_conformance_v1_service_proto,
		conformancev1.File_connectrpc_conformance_v1_suite_proto,
	} {
		walk(fd.Messages())
	}
	sort.Strings(names)
	return names
}

// ---------------------------------------------------------------- generators

var c18URLShapes = []string{
	"type.googleapis.com/connectrpc.conformance.v1.Header",
	"type.googleapis.com/google.protobuf.Any",
	"type.googleapis.com/a.B",
	"type.googleapis.com/",
	"type.googleapis.com/a/b.C",
	"example.com/x/a.B",
	"a.B",
	"/a.B",
	"",
	"type.googleapis.com",
	"Type.googleapis.com/a.B",
}

func c18RandURL(r *gen.Rand) string {
	names := []string{"a.B", "connectrpc.conformance.v1.Error", "x", "google.rpc.RetryInfo", "é.T"}
	switch r.Intn(8) {
	case 0:
		return gen.Pick(r, c18URLShapes)
	case 1:
		// any prefix: another host, a path, several slashes, a scheme, nothing but the slash (c13json.go)
		return c13RandURLPrefix(r) + gen.Pick(r, names)
	}
	return "type.googleapis.com/" + gen.Pick(r, names)
}

func c18RandErr(r *gen.Rand) c18PErr {
	e := c18PErr{Details: []c18Detail{}}
	switch {
	case r.Chance(5, 6):
		e.Code = int32(r.Range(1, 16))
	case r.Bool():
		e.Code = int32(r.Range(0, 20))
	default:
		e.Code = int32(r.Intn(1 << 20))
	}
	switch r.Intn(5) {
	case 0:
	case 1:
		s := ""
		e.Msg = &s
	default:
		s := c18RandText(r, 24)
		e.Msg = &s
	}
	for k := r.Intn(4); k > 0; k-- {
		e.Details = append(e.Details, c18Detail{URL: c18RandURL(r), Val: gen.Hex(r.Bytes(r.Intn(16)))})
	}
	return e
}

var (
	c18Names    = []string{"x-a", "X-A", "X-a", "x-b", "x-bin", "X-Bin", "x-BIN", "y-bin", "bin", "-bin", "x-bin-x", "grpc-x-bin", "a", "Content-Type", "x-bin "}
	c18AddNames = []string{"x-a", "X-A", "x-a-b", "X-a-B", "x a", "X A", "x_a", "x:a", "", "-", "-a", "a-", "x--y", "é", "0a-1b", "Trailer:x", "x-bin"}
)

func c18B64Value(r *gen.Rand) string {
	raw := r.Bytes(r.Intn(7))
	switch r.Intn(10) {
	case 0:
		return gen.Hex([]byte(gen.Pick(r, []string{"!!!", "A", "AB=C", "A===", "====", "AAAAA", "AA=", "=", "AAAA====", "ab cd", "Zm9v!"})))
	case 1:
		// valid, padded
		s := connect.EncodeBinaryHeader(raw)
		for len(s)%4 != 0 {
			s += "="
		}
		return gen.Hex([]byte(s))
	case 2:
		// valid base64 whose trailing bits are not zero (decodes, re-encodes differently)
		return gen.Hex([]byte(gen.Pick(r, []string{"AB", "AAF", "QUJ", "//", "+/9"})))
	default:
		return gen.Hex([]byte(connect.EncodeBinaryHeader(raw)))
	}
}

func c18TextValue(r *gen.Rand) string {
	return gen.Hex([]byte(gen.Pick(r, []string{"", "v", "v1", "v2", "AAEC", "a, b", "QUFFQw", "Zm9v", "x=y", "é"})))
}

func c18RandHeaders(r *gen.Rand, names []string, maxEntries int) []c18H {
	hs := make([]c18H, r.Intn(maxEntries+1))
	for i := range hs {
		n := gen.Pick(r, names)
		if i > 0 && r.Chance(1, 3) {
			// repeat an earlier key, possibly in another letter case
			n = hs[r.Intn(i)].N
			switch r.Intn(3) {
			case 0:
				n = strings.ToUpper(n)
			case 1:
				n = strings.ToLower(n)
			}
		}
		vs := make([]string, r.Intn(4))
		for k := range vs {
			if strings.HasSuffix(strings.ToLower(n), "-bin") && r.Chance(9, 10) {
				vs[k] = c18B64Value(r)
			} else {
				vs[k] = c18TextValue(r)
			}
		}
		hs[i] = c18H{N: n, V: vs}
	}
	return hs
}

func runC18(c *gen.Ctx) error {
	r := c.R
	e := c.E
	th := c.Thorough()

	// ---- headers <-> metadata: bounded-exhaustive small domain
	enc := func(b ...byte) string { return gen.Hex([]byte(connect.EncodeBinaryHeader(b))) }
	smallNames := []string{"x-a", "X-A", "x-bin", "X-BIN", "y"}
	valueLists := func(name string, pos int) [][]string {
		if strings.HasSuffix(strings.ToLower(name), "-bin") {
			return [][]string{{}, {enc(byte(pos))}, {enc(0, 1, byte(pos)), enc()}}
		}
		t := gen.Hex([]byte(fmt.Sprintf("v%d", pos)))
		return [][]string{{}, {t}, {t, gen.Hex([]byte("AAEC"))}}
	}
	var entries func(pos int) []c18H
	entries = func(pos int) []c18H {
		var out []c18H
		for _, n := range smallNames {
			for _, vl := range valueLists(n, pos) {
				out = append(out, c18H{N: n, V: vl})
			}
		}
		return out
	}
	var lists [][]c18H
	lists = append(lists, []c18H{})
	for _, a := range entries(0) {
		lists = append(lists, []c18H{a})
		for _, b := range entries(1) {
			lists = append(lists, []c18H{a, b})
			if th {
				for _, d := range entries(2) {
					lists = append(lists, []c18H{a, b, d})
				}
			}
		}
	}
	for _, hs := range lists {
		c.Do("h2md", c18HsIn{hs})
		c.Do("outgoing", c18HsIn{hs})
		c.Do("rt", c18HsIn{hs})
	}
	e.Add("headers-exhaustive-lists", len(lists))
	nRand := 12000
	if th {
		nRand = 120000
	}
	for i := 0; i < nRand; i++ {
		hs := c18RandHeaders(r, c18Names, 5)
		c.Do("h2md", c18HsIn{hs})
		c.Do("outgoing", c18HsIn{hs})
		c.Do("rt", c18HsIn{hs})
		ah := c18RandHeaders(r, c18AddNames, 5)
		c.Do("addh", c18AddIn{Hs: ah, Trailer: i%2 == 1})
		// metadata with distinct keys
		seen := map[string]bool{}
		var md []c18KV
		for k := r.Intn(5); k > 0; k-- {
			key := gen.Pick(r, c18Names)
			if r.Chance(4, 5) {
				key = strings.ToLower(key)
			}
			if seen[key] {
				continue
			}
			seen[key] = true
			vs := make([]string, r.Intn(4))
			for j := range vs {
				if r.Bool() {
					vs[j] = gen.Hex(r.Bytes(r.Intn(7)))
				} else {
					vs[j] = c18TextValue(r)
				}
			}
			md = append(md, c18KV{K: key, V: vs})
		}
		if md == nil {
			md = []c18KV{}
		}
		c.Do("md2h", c18MDIn{md})
	}

	// ---- errors: every code 0..17 x message shapes x detail shapes x route
	msgs := []*string{nil, new(string), func() *string { s := "m é %"; return &s }()}
	detailSets := [][]c18Detail{{}}
	for _, u := range c18URLShapes {
		detailSets = append(detailSets, []c18Detail{{URL: u, Val: "0a01"}})
	}
	detailSets = append(detailSets, []c18Detail{{URL: c18URLShapes[0], Val: ""}, {URL: c18URLShapes[2], Val: "ff"}, {URL: c18URLShapes[0], Val: "00"}})
	for code := int32(0); code <= 17; code++ {
		for _, m := range msgs {
			for _, ds := range detailSets {
				for _, via := range []string{"connect", "grpc", "cg", "gc"} {
					c.Do("err", c18ErrIn{c18PErr{Code: code, Msg: m, Details: ds}, via})
				}
			}
		}
	}
	c.Do("nilconv", struct{}{})
	nErr := 10000
	if th {
		nErr = 100000
	}
	for i := 0; i < nErr; i++ {
		c.Do("err", c18ErrIn{c18RandErr(r), gen.Pick(r, []string{"connect", "grpc", "cg", "gc"})})
		if i%4 == 0 {
			ae := c18AnyErrIn{Kind: gen.Pick(r, []string{"nil", "plain", "connect", "wrapped", "connect", "wrapped"}), Text: c18RandText(r, 12), Err: c18RandErr(r)}
			c.Do("anyerr", ae)
			c.Do("anyconn", ae)
		}
	}

	// ---- the reference server's own status trailers, and the real server end to end (c18srv.go)
	c18SrvGen(c)

	// ---- round trips through the repository's own decoders (c18rt.go)
	c18StatusRTGen(c)
	c18MDRTGen(c)
	c18HdrRTGen(c)
	c18GetRTGen(c)
	c18GetWireGen(c)

	// ---- percent-encoding: every byte, pairs, random strings
	for b := 0; b < 256; b++ {
		c.Do("percent", c18PercentIn{gen.Hex([]byte{byte(b)})})
	}
	special := []byte{0, 1, 0x1f, 0x20, 0x21, '%', '$', '&', '0', '9', 'A', 'F', 'G', 'a', 'f', 'g', '~', 0x7f, 0x80, 0xc3, 0xa9, 0xff, '+', '/', '\n', '\r'}
	if th {
		for a := 0; a < 256; a++ {
			for b := 0; b < 256; b++ {
				c.Do("percent", c18PercentIn{gen.Hex([]byte{byte(a), byte(b)})})
			}
		}
	} else {
		for _, a := range special {
			for _, b := range special {
				c.Do("percent", c18PercentIn{gen.Hex([]byte{a, b})})
			}
		}
	}
	nPct := 8000
	if th {
		nPct = 60000
	}
	for i := 0; i < nPct; i++ {
		var b []byte
		switch r.Intn(3) {
		case 0:
			b = r.Bytes(r.Intn(40))
		case 1:
			b = []byte(c18RandText(r, 30))
		default:
			n := r.Intn(30)
			for k := 0; k < n; k++ {
				b = append(b, gen.Pick(r, special))
			}
		}
		c.Do("percent", c18PercentIn{gen.Hex(b)})
	}

	// ---- strict codecs on random conformance messages of every message type
	types := c18MessageTypes()
	e.Add("codec-message-types", len(types))
	perType := 8
	if th {
		perType = 60
	}
	unks := []string{"", "", "varint", "fixed32", "fixed64", "bytes", "group"}
	for _, tn := range types {
		for k := 0; k < perType; k++ {
			m := c18NewMsg(tn).ProtoReflect()
			if k > 0 {
				c18RandMsg(r, m, 3)
			}
			b, err := proto.MarshalOptions{Deterministic: true}.Marshal(m.Interface())
			if err != nil {
				return err
			}
			for _, codec := range []string{"proto", "json"} {
				for ui, unk := range unks {
					if ui == 1 {
						continue
					}
					if !th && k > 0 && ui > 1 && ui != 2+(k%5) {
						continue
					}
					c.Do("codec", c18CodecIn{Codec: codec, Type: tn, Msg: gen.Hex(b), Unk: unk})
				}
			}
		}
	}
	// ---- the malformed stream of the strict codecs (c18bad.go)
	c18BadGen(c)
	// ---- strict codecs over sequences of calls (c18seq.go)
	if err := c18SeqGen(c); err != nil {
		return err
	}
	// ---- strict codecs over the history of one message object (c18hist.go)
	return c18HistGen(c)
}

// runC18Facts writes ConfModel/Generated/C18Facts.lean from the tree.
func runC18Facts(c *gen.Ctx) error {
	var sb strings.Builder
	sb.WriteString("-- GENERATED by `verifharness c18facts` from the repository tree; do not edit.\n")
	sb.WriteString("namespace ConfModel.Generated.C18Facts\n\n")
	sb.WriteString("/-- internal.DefaultAnyResolverPrefix -/\n")
	fmt.Fprintf(&sb, "def anyPrefix : String := %q\n\n", internal.DefaultAnyResolverPrefix)
	sb.WriteString("/-- grpcutil.ShouldEscapeByteInMessage called on every byte 0..255 -/\n")
	sb.WriteString("def shouldEscape : List Bool := [")
	for b := 0; b < 256; b++ {
		if b > 0 {
			sb.WriteString(", ")
		}
		fmt.Fprintf(&sb, "%v", grpcutil.ShouldEscapeByteInMessage(byte(b)))
	}
	sb.WriteString("]\n\n")
	c18GetFacts(&sb)
	sb.WriteString("end ConfModel.Generated.C18Facts\n")
	out := ""
	for i, a := range os.Args {
		if a == "--out" && i+1 < len(os.Args) {
			out = os.Args[i+1]
		}
	}
	if out == "" {
		fmt.Print(sb.String())
		return nil
	}
	return os.WriteFile(out, []byte(sb.String()), 0o644)
}
