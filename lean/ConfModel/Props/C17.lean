/-
C17 — raw HTTP payloads reach the wire exactly as specified.
Property theorems only; helper lemmas live in `ConfModel.Lemmas.RawBody`.

`compress : Nat → Bytes → Option Bytes` (enum value, data ↦ encoded data, `none` for an
unsupported value) is a parameter — the compressions are C20's subject.  All statements are
for every item list / operation sequence (no bound on sizes).
-/
import ConfModel.Lemmas.RawBody
import ConfModel.Lemmas.RawMerge
import ConfModel.Lemmas.RawSeq
import ConfModel.Lemmas.RawStack
import ConfModel.Lemmas.RawRace
import ConfModel.Spec.RawStack
import ConfModel.Spec.RawSeq
import ConfModel.Model.RawRetry
import ConfModel.Generated.C17Facts
namespace ConfModel.Props.C17
open ConfModel.RawBody ConfModel.RawBodySpec

/-- A message is written as its data under the requested compression — nothing else. -/
theorem message_exact (compress : Compress) (p : Option Contents) :
    writeMessage compress p = payloadOf compress p :=
  writeMessage_eq compress p

/-- An absent payload (a nil `MessageContents`, or one without data) writes zero bytes and
never fails — whatever compression it names; a stream item without payload is its five prefix
bytes (flags, the given length or 0). -/
theorem absent_payload_empty (compress : Compress) (k : Nat) (it : Item) (hf : it.flags ≤ 255)
    (hp : it.payload = none ∨ ∃ c, it.payload = some ⟨none, c⟩) :
    writeMessage compress none = some [] ∧ writeMessage compress (some ⟨none, k⟩) = some [] ∧
    writeStream compress [it] = ⟨UInt8.ofNat it.flags :: be32 (it.length.getD 0), false⟩ := by
  refine ⟨rfl, rfl, ?_⟩
  have hpay : payloadOf compress it.payload = some [] := by
    rcases hp with h | ⟨c, h⟩ <;> rw [h] <;> rfl
  have hok : itemOk compress it = true := by simp [itemOk, hf, hpay]
  rw [writeStream_all_ok compress [it] (by simp [hok])]
  simp [streamBytes, itemBytes, hpay]

example : (⟨2, none, none⟩ : Item).flags ≤ 255 := by decide

/-- For well-formed items (flags ≤ 255, existing compressions) the stream body is exactly the
concatenation of: the given flags byte, the big-endian length — *as given* when explicit, even
if it differs from the payload, else the encoded payload's length — and the encoded payload. -/
theorem prefix_exact (compress : Compress) (items : List Item)
    (h : items.all (itemOk compress) = true) :
    writeStream compress items = ⟨streamBytes compress items, false⟩ :=
  writeStream_all_ok compress items h

/-- the loop fails exactly when some item is malformed (flags > 255 or an unsupported
compression), and then everything in front of the first malformed item is on the wire -/
theorem stream_failure (compress : Compress) (items : List Item) :
    (writeStream compress items).failed = !(items.all (itemOk compress)) ∧
    streamBytes compress (goodPrefix compress items) <+: (writeStream compress items).bytes :=
  ⟨writeStream_failed_iff compress items, writeStream_prefix compress items⟩

/-- The encoder is invertible: decoding what it wrote returns the specified frames (flags,
specified-or-computed lengths, encoded payloads) — whenever explicit lengths are the true
lengths (and lengths fit a `uint32`). -/
theorem decode_encode (compress : Compress) (items : List Item)
    (hok : items.all (itemOk compress) = true) (hl : lengthsHonest compress items = true) :
    decodeStream (writeStream compress items).bytes = some (framesOf compress items) := by
  rw [writeStream_all_ok compress items hok]
  exact decodeF_stream compress items _ (length_streamBytes compress items) hok hl

/-- non-vacuity: identity "compression" only for enum 1; a flagged item with an explicit true
length, an item without payload, an item whose length is computed -/
def toyCompress : Compress := fun e d => if e == 1 then some d else none

example :
    let items : List Item := [⟨2, some 3, some ⟨some [7, 8, 9], 1⟩⟩, ⟨255, none, none⟩, ⟨0, none, some ⟨some [1], 1⟩⟩]
    items.all (itemOk toyCompress) = true ∧ lengthsHonest toyCompress items = true ∧
    (writeStream toyCompress items).bytes = [2, 0, 0, 0, 3, 7, 8, 9, 255, 0, 0, 0, 0, 0, 0, 0, 0, 1, 1] := by
  decide

/-- with a lying explicit length the prefix still carries exactly what was given -/
example : (writeStream toyCompress [⟨1, some 258, some ⟨some [5], 1⟩⟩]).bytes = [1, 0, 0, 1, 2, 5] := by decide

/-! ## raw response xor normal response -/

/-- In every sequence of handler operations and `setRawResponse` calls the wire is either
exactly the handler's output (every raw response refused) or exactly the (last) raw response
(every handler write, header and flush swallowed); the first operation decides. -/
theorem raw_xor_normal (ops : List Op) :
    finish (run {} ops).1 = wireSpec ops ∧ (run {} ops).2 = resultsSpec ops := by
  cases ops with
  | nil => simp [run, finish, wireSpec, resultsSpec]
  | cons o t =>
    cases o with
    | setRaw r =>
      have h := run_raw { started := false, raw := some r, wire := [] } rfl r rfl t
      simp only [run, step, Bool.false_eq_true, if_false, h, finish, wireSpec, resultsSpec, isHandler, evOf,
        lastRaw, List.map_cons, Option.isSome_none, List.nil_append]
      cases lastRaw t <;> simp [rawEvents]
    | write b =>
      have h := run_started { started := true, raw := none, wire := [Ev.body b] } rfl rfl t
      simp [run, step, emit, canSend, h, finish, wireSpec, resultsSpec, isHandler, evOf, handlerEvents]
    | writeHeader c =>
      have h := run_started { started := true, raw := none, wire := [Ev.header c] } rfl rfl t
      simp [run, step, emit, canSend, h, finish, wireSpec, resultsSpec, isHandler, evOf, handlerEvents]
    | flush =>
      have h := run_started { started := true, raw := none, wire := [Ev.flush] } rfl rfl t
      simp [run, step, emit, canSend, h, finish, wireSpec, resultsSpec, isHandler, evOf, handlerEvents]

/-- `startedResponse ∧ rawResp ≠ nil` is unreachable. -/
theorem raw_and_started_unreachable (ops : List Op) :
    ¬ ((run {} ops).1.started = true ∧ (run {} ops).1.raw.isSome = true) := by
  cases ops with
  | nil => simp [run]
  | cons o t =>
    cases o with
    | setRaw r =>
      have h := (run_raw { started := false, raw := some r, wire := [] } rfl r rfl t).1
      simp [run, step, h]
    | write b =>
      have h := (run_started { started := true, raw := none, wire := [Ev.body b] } rfl rfl t).1
      simp [run, step, emit, canSend, h]
    | writeHeader c =>
      have h := (run_started { started := true, raw := none, wire := [Ev.header c] } rfl rfl t).1
      simp [run, step, emit, canSend, h]
    | flush =>
      have h := (run_started { started := true, raw := none, wire := [Ev.flush] } rfl rfl t).1
      simp [run, step, emit, canSend, h]

/-- no handler byte in raw mode, no raw byte in normal mode — spelled out -/
theorem raw_mode_swallows (r : Raw) (t : List Op) :
    finish (run {} (.setRaw r :: t)).1 = rawEvents ((lastRaw t).getD r) := by
  have := (raw_xor_normal (.setRaw r :: t)).1
  rw [this]
  simp only [wireSpec, isHandler, evOf, Option.isSome_none, lastRaw]
  cases lastRaw t <;> simp

example : finish (run {} [.setRaw ⟨0, [1]⟩, .write [9], .flush, .setRaw ⟨503, [2]⟩, .writeHeader 200]).1 =
    [.header 503, .body [2]] := by decide

example : finish (run {} [.write [9], .setRaw ⟨503, [2]⟩, .flush]).1 = [.body [9], .flush] ∧
    (run {} [.write [9], .setRaw ⟨503, [2]⟩, .flush]).2 = [.passed, .refused, .passed] := by decide

/-! ## Two producers of raw responses: the prescribed one always wins -/

/-- **prescribed_raw_wins.**  Whatever the handler would do for the rest of the response
definition — write, flush, set headers, or install a raw response the server synthesises itself,
any number of them in any order — a raw response prescribed by the test case is exactly what is
sent: the recorder stores it and the handler never runs. -/
theorem prescribed_raw_wins (r : Raw) (handler : List Op) :
    finish (run {} (recorded (some r) handler)).1 = rawEvents r ∧
    (run {} (recorded (some r) handler)).2 = [.accepted] := by
  simp [recorded, run, step, finish, rawEvents]

/-- without a prescribed raw response nothing changes: the handler decides -/
theorem no_prescribed_raw_handler_decides (handler : List Op) :
    finish (run {} (recorded none handler)).1 = wireSpec handler :=
  (raw_xor_normal handler).1

/-- **prescribed_raw_order.**  Why the handler must not run, for every order of the two
`setRawResponse` calls: if the prescribed response `r` is stored at any point of an operation
sequence that starts in raw mode, it is the one sent iff no raw response is stored after it — a
synthesised one stored earlier loses, one stored later would replace it. -/
theorem prescribed_raw_order (first : Raw) (before after : List Op) (r : Raw) :
    finish (run {} (.setRaw first :: before ++ .setRaw r :: after)).1 = rawEvents ((lastRaw after).getD r) := by
  have h := raw_mode_swallows first (before ++ .setRaw r :: after)
  rw [List.cons_append] at *
  rw [h]
  have : ∀ (b : List Op), lastRaw (b ++ .setRaw r :: after) = some ((lastRaw after).getD r) := by
    intro b
    induction b with
    | nil => simp only [List.nil_append, lastRaw]; cases lastRaw after <;> simp
    | cons o t ih => cases o <;> simp [lastRaw, ih]
  simp [this]

/-- the two orders, concretely: synthesised (200) then prescribed (503) sends 503; prescribed then
synthesised sends the synthesised one — the hazard `recorded` excludes -/
example : finish (run {} [.setRaw ⟨200, [7]⟩, .write [9], .setRaw ⟨503, [2]⟩]).1 = [.header 503, .body [2]] ∧
    finish (run {} [.setRaw ⟨503, [2]⟩, .write [9], .setRaw ⟨200, [7]⟩]).1 = [.header 200, .body [7]] ∧
    finish (run {} (recorded (some ⟨503, [2]⟩) [.write [9], .setRaw ⟨200, [7]⟩])).1 = [.header 503, .body [2]] := by decide

/-! ## Merging a raw definition into what is already there: the request target, the response headers -/

section Merge
open ConfModel.RawMerge

/-- **raw_request_uri_verbatim.**  A raw request that lists no extra query parameters is sent to
exactly the given URI - byte for byte, whatever its query string looks like (parameter order,
escaping, bare keys, pairs `net/url` could not even parse): nothing is parsed or re-encoded. -/
theorem raw_request_uri_verbatim (parse : String → String × List (String × RawMerge.Bytes)) (uri : String) :
    requestTarget parse uri [] [] = uri := by
  simp [requestTarget]

/-- **raw_request_query_exact.**  With extra parameters the query that is sent carries, for every
name, exactly the values the URI already had for it, then the listed raw values, then the encoded
ones - each in the order given, none lost, none invented. -/
theorem raw_request_query_exact (inline : List (String × RawMerge.Bytes)) (raw : List (String × List RawMerge.Bytes))
    (enc : List (String × RawMerge.Bytes)) (k : String) :
    get (mergeQuery inline raw enc) k =
      (inline.filter (·.1 == k)).map (·.2) ++ listed raw k ++ (enc.filter (·.1 == k)).map (·.2) := by
  unfold mergeQuery
  rw [get_addAll, get_addAll, get_addAll, listed_single, listed_single]
  simp [RawMerge.get]

example :
    let m := mergeQuery [("b", [50]), ("a", [49])] [("a", [[120, 32, 121]])] [("m", [255])]
    RawMerge.get m "a" = [[49], [120, 32, 121]] ∧ RawMerge.get m "b" = [[50]] ∧ RawMerge.get m "m" = [[255]] ∧
    (queryEscape [120, 32, 121, 255]).toList = "x+y%FF".toList := by decide

/-- **raw_response_headers_exact.**  The header map a raw response is sent with holds, for every
name (other than the suppressed `Date` and the `Trailer` declaration), the values the middleware in
front of the raw responder had put there before the handler ran, followed by exactly the given
values in the given order - a given header whose name the middleware also uses is *added*, never
dropped or overwritten. -/
theorem raw_response_headers_exact (canon : String → String) (cur snap : Values String)
    (given trailers : List (String × List String)) (hd : keysDistinct snap = true) (k : String)
    (hDate : k ≠ "Date") (hTrailer : k ≠ "Trailer") :
    get (finishHeaders canon cur snap given trailers) k =
      get snap k ++ listed (given.map fun p => (canon p.1, p.2)) k := by
  have h1 : ("Date" == k) = false := by simpa using fun e => hDate e.symm
  have h2 : listed (trailers.map fun t => ("Trailer", [t.1])) k = [] := by
    have : ∀ ts : List (String × List String), listed (ts.map fun t => ("Trailer", [t.1])) k = [] := by
      intro ts
      induction ts with
      | nil => rfl
      | cons t rest ih =>
        have : ("Trailer" == k) = false := by simpa using fun e => hTrailer e.symm
        simpa [listed, this] using ih
    exact this trailers
  unfold finishHeaders
  simp only [get_addAll, get_set, h1, h2, List.append_nil, Bool.false_eq_true, if_false]
  rw [get_restore snap _ k hd]
  by_cases hk : hasKey snap k = true
  · simp [hk]
  · have hk' : hasKey snap k = false := by simpa using hk
    simp [hk', clear, RawMerge.get, get_of_not_hasKey snap k hk']

/-- **raw_response_no_handler_header.**  Nothing of the header map the handler left behind
survives: the headers of a raw response do not depend on it. -/
theorem raw_response_no_handler_header (canon : String → String) (cur snap : Values String)
    (given trailers : List (String × List String)) :
    finishHeaders canon cur snap given trailers = finishHeaders canon [] snap given trailers := rfl

/-- Non-vacuity: behind CORS (`Vary: Origin`, `Access-Control-Expose-Headers: *`) a raw response
that itself lists `Vary` and `Access-Control-Expose-Headers` keeps both; the handler's
`Content-Type` is gone. -/
example :
    let h := finishHeaders id [("Vary", ["Origin"]), ("Content-Type", ["application/json"])]
      [("Vary", ["Origin"]), ("Access-Control-Expose-Headers", ["*"])]
      [("Vary", ["Accept-Encoding", "Connect-Protocol-Version"]), ("Access-Control-Expose-Headers", ["X-Custom"])] []
    get h "Vary" = ["Origin", "Accept-Encoding", "Connect-Protocol-Version"] ∧
    get h "Access-Control-Expose-Headers" = ["*", "X-Custom"] ∧ get h "Content-Type" = [] := by decide

end Merge

/-! ## Histories: every raw body a process writes, whatever it wrote (or failed to write) before -/

section History
open ConfModel.RawSeq ConfModel.RawSeqSpec

/-- **failed_write_prefix.**  A stream body written to a destination that fails after `k` bytes —
for every `k`, wherever that falls (inside a prefix, inside a payload, between two items) — has put
exactly the first `k` bytes of the body on that destination, and the writer reports an error iff
something is missing (or the definition is malformed); whatever an earlier scratch buffer held. -/
theorem failed_write_prefix (compress : Compress) (s : RawBody.Bytes) (items : List Item) (k : Nat) :
    (runStep compress s ⟨.stream items, some k⟩).2 =
      ⟨(writeStream compress items).bytes.take k,
       (writeStream compress items).failed || decide (k < (writeStream compress items).bytes.length)⟩ := by
  rw [runStep_obs]; rfl

/-- … and for well-formed items these are the first `k` bytes of the specified envelopes; the
declarative predicate the correspondence run evaluates on the implementation's output holds. -/
theorem failed_write_prefix_exact (compress : Compress) (s : RawBody.Bytes) (items : List Item) (budget : Option Nat)
    (h : items.all (itemOk compress) = true) :
    stepHolds compress ⟨.stream items, budget⟩ (runStep compress s ⟨.stream items, budget⟩).2 = true := by
  rw [runStep_obs]
  simp only [obsOf, stepHolds, h, if_true, writeStream_all_ok compress items h]
  cases budget <;> simp [cut, cutHolds]

example : [(⟨2, none, some ⟨some [7, 8, 9], 1⟩⟩ : Item)].all (itemOk toyCompress) = true := by decide

/-- a destination that takes 6 of the 8 bytes: the prefix and one payload byte arrive; the scratch
buffer still holds the two unsent bytes — which no later write may show -/
example : runStep toyCompress [] ⟨.stream [⟨2, none, some ⟨some [7, 8, 9], 1⟩⟩], some 6⟩ =
    ([8, 9], ⟨[2, 0, 0, 0, 3, 7], true⟩) := by decide

/-- **history_independent.**  What a write shows is a function of that write alone: after any
history of earlier writes — streams and messages, to sound destinations and to destinations that
failed at any offset — and whatever the scratch buffer held at the start, the observations are
the per-write ones, one by one. -/
theorem history_independent (compress : Compress) (s : RawBody.Bytes) (hist : List Step) :
    (runHist compress s hist).2 = hist.map (obsOf compress) :=
  runHist_obs compress hist s

/-- spelled out for the write that follows a history: it shows exactly what it would show as the
first write of a fresh process -/
theorem write_after_any_history (compress : Compress) (s : RawBody.Bytes) (hist : List Step) (st : Step) :
    (runHist compress s (hist ++ [st])).2 = (runHist compress s hist).2 ++ (runHist compress [] [st]).2 := by
  rw [runHist_append, runHist_obs compress [st], runHist_obs compress [st]]

/-- … so a well-formed stream body that follows any history reaches a sound destination exactly
as specified -/
theorem stream_after_any_history_exact (compress : Compress) (s : RawBody.Bytes) (hist : List Step) (items : List Item)
    (h : items.all (itemOk compress) = true) :
    (runHist compress s (hist ++ [⟨.stream items, none⟩])).2 =
      hist.map (obsOf compress) ++ [⟨streamBytes compress items, false⟩] := by
  rw [runHist_obs]
  simp [obsOf, cut, writeStream_all_ok compress items h]

example : [(⟨0, none, some ⟨some [1], 1⟩⟩ : Item)].all (itemOk toyCompress) = true := by decide

/-- non-vacuity: a failed write (scratch left non-empty), then a computed-length item -/
example : (runHist toyCompress [] [⟨.stream [⟨2, none, some ⟨some [7, 8, 9], 1⟩⟩], some 6⟩,
      ⟨.unary (some ⟨some [4, 4], 1⟩), some 1⟩, ⟨.stream [⟨0, none, some ⟨some [1], 1⟩⟩], none⟩]).2 =
    [⟨[2, 0, 0, 0, 3, 7], true⟩, ⟨[4], true⟩, ⟨[0, 0, 0, 0, 1, 1], false⟩] := by decide

/-! ## The status of a raw response -/

/-- the arbitration automaton's `finish` sends the status of the rule below -/
theorem finish_sends_finishStatus (s : St) (r : Raw) (h : s.raw = some r) :
    finish s = s.wire ++ [.header (finishStatus r.status), .body r.body] := by
  simp [finish, h, finishStatus]

example : (run {} [.setRaw ⟨799, [1]⟩, .write [9]]).1.raw = some ⟨799, [1]⟩ ∧
    finish (run {} [.setRaw ⟨799, [1]⟩, .write [9]]).1 = [.header 799, .body [1]] := by decide

/-- **finish_status_table.**  The status rule of the real `rawResponseWriter.finish`, observed on
*every* prescribed value 0..1100 (regenerated from the tree on every run), is the model's: 200 for
an unset status, the prescribed value otherwise — no other value is replaced. -/
theorem finish_status_table (c : Nat) (h : c ≤ 1100) :
    evalRuns Generated.C17Facts.statusRuns c = some (finishStatus c) := by
  have : Generated.C17Facts.statusRuns = statusRuns := by decide
  rw [this]; exact evalRuns_statusRuns c h

example : (599 : Nat) ≤ 1100 ∧ (600 : Nat) ≤ 1100 ∧ (999 : Nat) ≤ 1100 := by decide

/-- … and on values far outside (a `uint32` field: no truncation, no wrap-around) -/
theorem finish_status_probes :
    Generated.C17Facts.statusProbes.all (fun p => finishStatus p.1 == p.2) = true := by decide

/-- **raw_status_exact.**  A prescribed code in the range HTTP can carry (100..999) is the code on
the wire, over HTTP/1.1 and HTTP/2: the final status — and nothing before it — for 200..999, an
informational response (or, for 101 over HTTP/1.1, the final status) for 100..199. -/
theorem raw_status_exact (p : Proto) (c : Nat) (h1 : 100 ≤ c) (h2 : c ≤ 999) :
    ∃ w, statusOnWire p c = some w ∧ statusHonoured c w.info w.final = true ∧
      (200 ≤ c → w.final = c ∧ w.info = []) := by
  have hc0 : (c == 0) = false := by simp; omega
  have hlo : ¬ c < 100 := by omega
  have hhi : ¬ c > 999 := by omega
  by_cases h200 : 200 ≤ c
  · have : ¬ c ≤ 199 := by omega
    refine ⟨⟨[], c, !(c ≤ 199 || c == 204 || c == 304)⟩, ?_, ?_, fun _ => ⟨rfl, rfl⟩⟩
    · simp [statusOnWire, finishStatus, writeHeaderLaw, hc0, hlo, hhi, this]
    · simp [statusHonoured, hc0, h200, h2]
  · have h199 : c ≤ 199 := by omega
    have hn : ¬ (200 ≤ c) := h200
    by_cases h101 : p = .h1 ∧ c = 101
    · obtain ⟨hp, hc⟩ := h101
      subst hp; subst hc
      exact ⟨⟨[], 101, false⟩, by decide, by decide, by decide⟩
    · refine ⟨⟨[c], 200, true⟩, ?_, ?_, fun h => absurd h hn⟩
      · have : (p == Proto.h1 && c == 101) = false := by
          cases p <;> simp_all
        simp [statusOnWire, finishStatus, writeHeaderLaw, hc0, hlo, hhi, h199, this]
      · simp [statusHonoured, hc0, hn, h1, h199]

example : statusOnWire .h2 799 = some ⟨[], 799, true⟩ ∧ statusOnWire .h1 600 = some ⟨[], 600, true⟩ ∧
    statusOnWire .h1 204 = some ⟨[], 204, false⟩ ∧ statusOnWire .h2 101 = some ⟨[101], 200, true⟩ := by decide

/-- an unset status is 200, nothing else precedes it; a value HTTP cannot carry aborts the exchange -/
theorem raw_status_default (p : Proto) :
    statusOnWire p 0 = some ⟨[], 200, true⟩ ∧ statusOnWire p 99 = none ∧ statusOnWire p 1000 = none := by
  cases p <;> decide

/-- distinct prescribed codes stay distinct on the wire -/
theorem raw_status_injective (p : Proto) (c d : Nat) (hc1 : 100 ≤ c) (hc2 : c ≤ 999) (hd1 : 100 ≤ d) (hd2 : d ≤ 999)
    (h : statusOnWire p c = statusOnWire p d) : c = d := by
  obtain ⟨w, hw, _, hwf⟩ := raw_status_exact p c hc1 hc2
  obtain ⟨v, hv, _, hvf⟩ := raw_status_exact p d hd1 hd2
  have hcz : (c == 0) = false := by simp; omega
  have hdz : (d == 0) = false := by simp; omega
  simp only [statusOnWire, finishStatus, hcz, hdz, writeHeaderLaw] at h
  have a1 : ¬ c < 100 := by omega
  have a2 : ¬ c > 999 := by omega
  have b1 : ¬ d < 100 := by omega
  have b2 : ¬ d > 999 := by omega
  simp only [a1, a2, b1, b2, decide_false, Bool.or_false, Bool.false_eq_true, if_false] at h
  split at h <;> split at h <;> simp at h <;> simp_all <;> omega

example : (100 : Nat) ≤ 600 ∧ (600 : Nat) ≤ 999 := by decide

end History

/-! ## Every attempt of a raw request -/

section Retry
open ConfModel.RawRetry

/-- **every_attempt_exact.**  If the substitute request has no other body source than the
prescribed body (`GetBody` is nil, or yields the prescribed body again), then every request body
the transport puts on the wire - the first attempt and every re-attempt, however many the peer
provokes, over HTTP/1.1 and HTTP/2, replayable or not - is the prescribed one. -/
theorem every_attempt_exact (e : Env) (r : SubReq) (faults : Nat)
    (h : r.getBody = none ∨ r.getBody = some r.body) :
    ∀ x ∈ wire e r faults, x = r.body := by
  have hl : ∀ (b : RawRetry.Bytes) (n : Nat), ∀ x ∈ later b n, x = b := by
    intro b n
    induction n with
    | zero => intro x hx; simp [later] at hx
    | succ k ih =>
      intro x hx
      simp only [later, List.mem_cons] at hx
      rcases hx with hx | hx
      · exact hx
      · exact ih x hx
  intro x hx
  simp only [wire, List.mem_cons] at hx
  rcases hx with hx | hx
  · exact hx
  · rcases h with h | h
    · simp [canReplay, h] at hx
    · split at hx
      · rw [h] at hx; exact hl _ _ x hx
      · simp at hx

example : (⟨[1, 2], some [1, 2], 0⟩ : SubReq).getBody = some (⟨[1, 2], some [1, 2], 0⟩ : SubReq).body := rfl

/-- **raw_request_every_attempt.**  The request `RoundTrip` hands to the transport carries no body
source but the pipe the raw body is written to: whatever the request the client library built
offers (body, rewind function), whatever the peer does, exactly one request body reaches the wire
and it is the prescribed one - a refused attempt is reported, never repeated with other bytes. -/
theorem raw_request_every_attempt (e : Env) (rawBody : RawRetry.Bytes) (clen : Nat) (o : Orig) (faults : Nat) :
    wire e (roundTripReq rawBody clen o) faults = [rawBody] ∧
    (roundTripReq rawBody clen o).getBody = none := by
  simp [wire, roundTripReq, substitute, canReplay]

/-- the hazard the theorem excludes: a substitute request cloned from the original keeps its
rewind function, and the re-attempt of a replayable raw request carries the original's body -/
example : wire ⟨false, true, false⟩ (substitute .clone [82, 65, 87] 0 ⟨[79, 82, 73, 71], true⟩) 1 =
    [[82, 65, 87], [79, 82, 73, 71]] := by decide

/-- **substitute_request_facts.**  Regenerated from the tree on every run: `RoundTrip` makes the
request with `http.NewRequestWithContext` (which gives a pipe body no `GetBody`) and assigns
neither `Body` nor `GetBody` afterwards; the request the real `RoundTrip` hands to a capturing
transport has `GetBody == nil` and the pipe as `Body`, for every probed verb / body shape /
original request with and without rewind function - the model's `Ctor.fresh`. -/
theorem substitute_request_facts :
    Generated.C17Facts.subReqCtor = "http.NewRequestWithContext" ∧
    Generated.C17Facts.subReqAssigned.contains "GetBody" = false ∧
    Generated.C17Facts.subReqAssigned.contains "Body" = false ∧
    Generated.C17Facts.subReqProbe.length = 12 ∧
    Generated.C17Facts.subReqProbe.all (fun p => p.2.1 == false && p.2.2 == true) = true := by decide

end Retry

/-! ## The complete reference server: sequences of exchanges with one process -/

section Stack
open ConfModel.RawMerge ConfModel.RawSeq ConfModel.RawSeqSpec ConfModel.RawStack

/-- **stack_history_independent.**  What the peer sees of an exchange with the complete
reference server (CORS, raw responder, recorder, handler, `finish`, the encoders) is a function of
that exchange alone: after any history of exchanges - raw responses with any headers, trailers and
bodies, cut by `net/http` at any offset, normal responses, responses the server synthesised -
and whatever scratch buffer, `rawResponseWriter` and header map the process still holds. -/
theorem stack_history_independent (compress : Compress) (canon : String → String) (p : Proc) (hist : List Exch) :
    (serveHist compress canon p hist).2 = hist.map (seenOf compress canon) :=
  serveHist_seen compress canon hist p

/-- spelled out for the exchange that follows a history: it shows exactly what it would show as
the first exchange of a fresh process -/
theorem stack_exchange_after_any_history (compress : Compress) (canon : String → String) (p : Proc)
    (hist : List Exch) (x : Exch) :
    (serveHist compress canon p (hist ++ [x])).2 =
      (serveHist compress canon p hist).2 ++ [(serve compress canon {} x).2] := by
  rw [serveHist_append, serveHist_seen compress canon [x]]; rfl

/-- **stack_prescribed_raw_exact.**  An exchange whose response definition prescribes a raw
response `d`, anywhere in any history, from any process state, whatever the handler would have
done and whatever headers it would have set: the response is the raw responder's, its status is
`d.status` (200 if unset), every header name other than `Date` / `Trailer` carries what CORS had
put there for this request's `Origin` followed by exactly the given values in order, the trailers
are the given ones, and the body is the specified one (cut where `net/http` stopped taking it). -/
theorem stack_prescribed_raw_exact (compress : Compress) (canon : String → String) (p : Proc)
    (hist : List Exch) (x : Exch) (d : RawDef) (h : x.prescribed = some d) :
    ∃ s, (serveHist compress canon p (hist ++ [x])).2 = hist.map (seenOf compress canon) ++ [s] ∧
      s.raw = true ∧ s.status = finishStatus d.status ∧ s.trailers = d.trailers ∧
      s.body = (obsOf compress ⟨d.body, x.budget⟩).out ∧
      (∀ k, k ≠ "Date" → k ≠ "Trailer" →
        get s.headers k = get (corsActual [] x.origin) k ++ listed (d.headers.map fun q => (canon q.1, q.2)) k) ∧
      s = seenOf compress canon { x with handler := [], handlerHdrs := [] } := by
  refine ⟨seenOf compress canon x, ?_, ?_⟩
  · rw [stack_history_independent]; simp
  · rw [seenOf_prescribed compress canon x d h,
        seenOf_prescribed compress canon { x with handler := [], handlerHdrs := [] } d h]
    refine ⟨rfl, rfl, rfl, rfl, ?_, rfl⟩
    intro k hD hT
    exact raw_response_headers_exact canon [] _ d.headers d.trailers (corsActual_distinct x.origin) k hD hT

/-- … so a well-formed stream body reaches the peer exactly as specified, after any history -/
theorem stack_prescribed_stream_exact (compress : Compress) (canon : String → String) (p : Proc)
    (hist : List Exch) (x : Exch) (d : RawDef) (items : List Item) (h : x.prescribed = some d)
    (hb : d.body = .stream items) (hw : items.all (itemOk compress) = true) (hs : x.budget = none) :
    ((serveHist compress canon p (hist ++ [x])).2.getLast?.map (·.body)) = some (streamBytes compress items) := by
  rw [stack_history_independent]
  simp [seenOf_prescribed compress canon x d h, hb, hs, obsOf, cut, writeStream_all_ok compress items hw]

example : ((serveHist toyCompress id {} [⟨none, some ⟨204, [], [], .stream [⟨2, none, some ⟨some [7, 8, 9], 1⟩⟩]⟩, [], [], some 0⟩,
      ⟨some "o", some ⟨0, [], [], .stream [⟨0, none, some ⟨some [1], 1⟩⟩]⟩, [], [], none⟩]).2.getLast?.map (·.body)) =
    some [0, 0, 0, 0, 1, 1] ∧ [(⟨0, none, some ⟨some [1], 1⟩⟩ : Item)].all (itemOk toyCompress) = true := by decide

/-- **stack_no_raw_handler_answers.**  An exchange whose definition prescribes no raw response and
whose handler installs none shows the handler's answer - its status, its bytes, CORS' and its own
headers - and nothing of any raw response served before. -/
theorem stack_no_raw_handler_answers (compress : Compress) (canon : String → String) (p : Proc)
    (hist : List Exch) (x : Exch) (h : x.prescribed = none) (hn : x.handler.all isHandler = true) :
    (serveHist compress canon p (hist ++ [x])).2 = hist.map (seenOf compress canon) ++
      [⟨false, handlerStatus (handlerEvents x.handler),
        addAll (corsActual [] x.origin) (x.handlerHdrs.map fun q => (canon q.1, q.2)),
        handlerBody (handlerEvents x.handler), []⟩] := by
  rw [stack_history_independent]
  simp only [List.map_append, List.map_cons, List.map_nil, List.append_cancel_left_eq, List.cons.injEq, and_true]
  unfold seenOf serve
  simp only [h, Option.map_none, recorded]
  cases hx : x.handler with
  | nil => simp [run, handlerEvents, handlerStatus, handlerBody]
  | cons o t =>
    have hh : isHandler o = true := by
      rw [hx] at hn; simp only [List.all_cons, Bool.and_eq_true] at hn; exact hn.1
    rw [run_handler_first o t hh]

example : ([.writeHeader 200, .write [104]] : List Op).all isHandler = true := by decide

/-- Non-vacuity, and the hazards: a raw response with `Vary` and a trailer behind CORS, cut by a
204; a normal answer; the same raw response again - each shows its own definition only. -/
example :
    let d : RawDef := ⟨0, [("Vary", ["X-Custom"]), ("X-Raw-A", ["1"])], [("X-Trl", ["t"])], .stream [⟨2, none, some ⟨some [7, 8, 9], 1⟩⟩]⟩
    let raw : Exch := ⟨some "https://o.example", some d, [("Server", ["ref"])], [.writeHeader 200, .write [104]], none⟩
    let cutRaw : Exch := ⟨none, some { d with status := 204 }, [], [], some 0⟩
    let normal : Exch := ⟨none, none, [("Server", ["ref"])], [.writeHeader 200, .write [104]], none⟩
    let seen := (serveHist toyCompress id ⟨[8, 9], { started := true, raw := some ⟨503, [1]⟩ }, [("X-Old", ["leak"])]⟩ [cutRaw, raw, normal, raw]).2
    seen.map (·.status) = [204, 200, 200, 200] ∧ seen.map (·.raw) = [true, true, false, true] ∧
    seen.map (·.body) = [[], [2, 0, 0, 0, 3, 7, 8, 9], [104], [2, 0, 0, 0, 3, 7, 8, 9]] ∧
    seen.map (fun s => get s.headers "Vary") = [["Origin", "X-Custom"], ["Origin", "X-Custom"], ["Origin"], ["Origin", "X-Custom"]] ∧
    seen.map (fun s => get s.headers "Server") = [[], [], ["ref"], []] ∧
    seen.map (fun s => get s.headers "X-Old") = [[], [], [], []] := by decide

end Stack

/-! ## Two goroutines arbitrating one rawResponseWriter

The handler goroutine starts the normal response while another goroutine calls `setRawResponse`.
The atomic steps are the critical sections under `r.mu`, as the code has them: `canSendResponse`
decides AND marks in one (`RawBody.canSend`), `setRawResponse` is one. -/

section Race
open ConfModel.RawRace ConfModel.RawRaceSpec

/-- **raw_xor_normal_concurrent.**  For every list of handler operations, every list of raw
responses another goroutine records, and EVERY interleaving of the two goroutines' atomic steps, the
outcome is pure: either the wire is exactly the handler's output and every `setRawResponse` was
refused, or the wire is exactly the last raw response recorded, every `setRawResponse` was accepted
and every handler operation swallowed. -/
theorem raw_xor_normal_concurrent (hs : List Op) (rs : List Raw) (l : List Op)
    (hh : ∀ o ∈ hs, isHandler o = true) (hi : Interleaving hs (rs.map .setRaw) l) :
    allNormal (handlerEvents hs) (finish (mrun {} (l.map .op)).1.s) (mrun {} (l.map .op)).2 ∨
    ∃ r, rs.getLast? = some r ∧ allRaw r (finish (mrun {} (l.map .op)).1.s) (mrun {} (l.map .op)).2 := by
  have hm := mrun_ops {} l
  have hx := raw_xor_normal l
  rw [hm.1, hm.2]
  have hr : ∀ o ∈ rs.map Op.setRaw, evOf o = none := by
    intro o ho
    obtain ⟨r, _, rfl⟩ := List.mem_map.mp ho
    rfl
  cases l with
  | nil =>
    left
    have := handlerEvents_interleaving hi hr
    refine ⟨?_, by simp [run]⟩
    rw [← this]; simp [run, finish, handlerEvents]
  | cons o t =>
    by_cases ho : isHandler o = true
    · left
      refine ⟨?_, ?_⟩
      · rw [hx.1, ← handlerEvents_interleaving hi hr]; simp [wireSpec, ho]
      · rw [hx.2]; intro x hxm
        simp only [resultsSpec, ho, if_true, List.mem_map] at hxm
        obtain ⟨y, _, rfl⟩ := hxm
        cases isHandler y <;> simp
    · right
      have hl : lastRaw (o :: t) = rs.getLast? := by
        rw [lastRaw_interleaving hi hh, lastRaw_setRaws]
      cases o with
      | setRaw r0 =>
        have hsome : ∃ r, lastRaw (Op.setRaw r0 :: t) = some r := by
          simp only [lastRaw]; cases lastRaw t <;> simp
        obtain ⟨r, hr'⟩ := hsome
        have hno : isHandler (Op.setRaw r0) = false := rfl
        refine ⟨r, by rw [← hl, hr'], ?_, ?_⟩
        · rw [hx.1]; simp only [wireSpec, hno, Bool.false_eq_true, if_false, hr']
        · rw [hx.2]; intro x hxm
          simp only [resultsSpec, hno, Bool.false_eq_true, if_false, List.mem_map] at hxm
          obtain ⟨y, _, rfl⟩ := hxm
          cases isHandler y <;> simp
      | write b => simp [isHandler, evOf] at ho
      | writeHeader c => simp [isHandler, evOf] at ho
      | flush => simp [isHandler, evOf] at ho

/-- non-vacuity: both outcomes occur, depending on who takes the lock first -/
example :
    Interleaving [Op.writeHeader 201, .write [9]] ([(⟨418, [7]⟩ : Raw)].map .setRaw) [.writeHeader 201, .setRaw ⟨418, [7]⟩, .write [9]] ∧
    finish (mrun {} ([Op.writeHeader 201, .setRaw ⟨418, [7]⟩, .write [9]].map .op)).1.s = [.header 201, .body [9]] ∧
    (mrun {} ([Op.writeHeader 201, .setRaw ⟨418, [7]⟩, .write [9]].map .op)).2 = [.passed, .refused, .passed] ∧
    Interleaving [Op.writeHeader 201, .write [9]] ([(⟨418, [7]⟩ : Raw)].map .setRaw) [.setRaw ⟨418, [7]⟩, .writeHeader 201, .write [9]] ∧
    finish (mrun {} ([Op.setRaw ⟨418, [7]⟩, .writeHeader 201, .write [9]].map .op)).1.s = [.header 418, .body [7]] ∧
    (mrun {} ([Op.setRaw ⟨418, [7]⟩, .writeHeader 201, .write [9]].map .op)).2 = [.accepted, .swallowed, .swallowed] :=
  ⟨.left (.right (.left .nil)), by decide, by decide, .right (.left (.left .nil)), by decide, by decide⟩

/-- **split_critical_section_mixes.**  Why `canSendResponse` must decide and mark in ONE critical
section: if it asks `rawResponse()` first and marks in a second critical section (`splitOf`), the
schedule check / setRawResponse / mark is an interleaving of the two goroutines' atomic steps in
which the raw response is accepted although the handler's bytes go out - the wire carries the
handler's body followed by the raw status and body: neither all-normal nor all-raw. -/
theorem split_critical_section_mixes :
    let sched : List Micro := [.check, .op (.setRaw ⟨418, [7]⟩), .mark (.body [9])]
    Interleaving (splitOf (.body [9])) [Micro.op (.setRaw ⟨418, [7]⟩)] sched ∧
    finish (mrun {} sched).1.s = [.body [9], .header 418, .body [7]] ∧
    (mrun {} sched).2 = [.accepted, .passed] ∧
    (mrun {} sched).1.s.started = true ∧ (mrun {} sched).1.s.raw.isSome = true ∧
    ¬ allNormal [.body [9]] (finish (mrun {} sched).1.s) (mrun {} sched).2 ∧
    ¬ allRaw ⟨418, [7]⟩ (finish (mrun {} sched).1.s) (mrun {} sched).2 := by
  refine ⟨.left (.right (.left .nil)), by decide, by decide, by decide, by decide, ?_, ?_⟩
  · intro h; exact absurd h.1 (by decide)
  · intro h; exact absurd h.1 (by decide)

/-- the split variant is sequentially indistinguishable from the code: with the two halves next to
each other every order gives the code's outcome (here: both orders of one write and one raw response) -/
example :
    finish (mrun {} (splitOf (.body [9]) ++ [.op (.setRaw ⟨418, [7]⟩)])).1.s = finish (run {} [.write [9], .setRaw ⟨418, [7]⟩]).1 ∧
    finish (mrun {} (.op (.setRaw ⟨418, [7]⟩) :: splitOf (.body [9]))).1.s = finish (run {} [.setRaw ⟨418, [7]⟩, .write [9]]).1 := by decide

end Race

end ConfModel.Props.C17
