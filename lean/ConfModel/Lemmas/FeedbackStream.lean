import ConfModel.Model.FeedbackStream
import ConfModel.Lemmas.FeedbackLine
namespace ConfModel.FeedbackStream
open ConfModel.ServerRunner ConfModel.FeedbackLine

/-- reading a stream in two pieces -/
theorem splitLines_append (x y acc : List Char) :
    splitLines (x ++ y) acc = (feed x acc).1 ++ splitLines y (feed x acc).2 := by
  induction x generalizing acc with
  | nil => simp [feed]
  | cons c t ih =>
    simp only [List.cons_append, splitLines, feed]
    by_cases hc : (c == '\n') = true
    · simp only [hc, if_true, List.cons_append]
      rw [ih]
    · simp only [hc, Bool.false_eq_true, if_false]
      rw [ih]

theorem readChunks_eq (chunks : List (List Char)) (acc : List Char) :
    readChunks chunks acc = splitLines chunks.flatten acc := by
  induction chunks generalizing acc with
  | nil => simp [readChunks, splitLines]
  | cons ch rest ih =>
    simp only [readChunks, List.flatten_cons]
    rw [splitLines_append, ih]

theorem feed_oneLine (l acc : List Char) (h : oneLine l = true) :
    feed (l ++ ['\n']) acc = ([acc.reverse ++ l ++ ['\n']], []) := by
  induction l generalizing acc with
  | nil => simp [feed]
  | cons c t ih =>
    have hc : (c == '\n') = false := by
      simp [oneLine] at h
      simp only [beq_eq_false_iff_ne, ne_eq]
      intro e; exact h.1 e.symm
    have ht : oneLine t = true := by simp [oneLine] at h ⊢; exact h.2
    simp only [List.cons_append, feed, hc, Bool.false_eq_true, if_false]
    rw [ih (c :: acc) ht]
    simp

/-- a printed feedback message is one line of its own, and the runner's reader records it -/
theorem prefixLine_shape (nm text : List Char) (hnl : oneLine nm = true)
    (ht : endsClean text = true) (htl : oneLine text = true) :
    ∃ w, prefixLine nm text = w ++ ['\n'] ∧ oneLine w = true ∧
      ∀ names : List (List Char), nm ∈ names → Spec.noSep nm = true → startsClean nm = true →
        lineAct names (w ++ ['\n']) = .record nm text := by
  obtain ⟨t, d, rfl, hd⟩ := endsClean_concat text ht
  refine ⟨nm ++ ':' :: ' ' :: (t ++ [d]), ?_, ?_, ?_⟩
  · have hlast : (nm ++ ':' :: ' ' :: (t ++ [d])).getLast? = some d := by
      have : nm ++ ':' :: ' ' :: (t ++ [d]) = (nm ++ ':' :: ' ' :: t) ++ [d] := by simp
      rw [this, List.getLast?_concat]
    have hdn : (some d == some '\n') = false := by
      have : d ≠ '\n' := by intro e; subst e; revert hd; decide
      simpa using this
    unfold prefixLine
    simp only [hlast, hdn, Bool.false_eq_true, if_false]
  · simp only [oneLine, List.contains_eq_mem, List.mem_append, List.mem_cons, Bool.not_eq_true',
      decide_eq_false_iff_not] at hnl htl ⊢
    intro h
    rcases h with h | h | h | h
    · exact hnl h
    · exact absurd h (by decide)
    · exact absurd h (by decide)
    · exact htl (by simpa using h)
  · intro names hm hsep hn
    have htrim : trim (nm ++ ':' :: ' ' :: (t ++ [d]) ++ ['\n']) = nm ++ ':' :: ' ' :: (t ++ [d]) := by
      cases nm with
      | nil =>
        have := trim_clean ':' (' ' :: t) d (by decide) hd
        simpa using this
      | cons c nm' =>
        have hc : isSpace c = false := by simpa [startsClean] using hn
        have := trim_clean c (nm' ++ ':' :: ' ' :: t) d hc hd
        simpa using this
    exact lineAct_recorded names nm (t ++ [d]) hm (by simpa [Spec.noSep] using hsep) _ htrim

theorem wellFormed_iff (names : List (List Char)) (m : List Char × List Char) :
    wellFormed names m = true ↔
      m.1 ∈ names ∧ Spec.noSep m.1 = true ∧ startsClean m.1 = true ∧ oneLine m.1 = true ∧
      endsClean m.2 = true ∧ oneLine m.2 = true := by
  simp [wellFormed, and_assoc]

theorem sideband_append_last (a b : List (List Char × List Char)) (nm t : List Char)
    (hb : ∀ r ∈ b, r.1 ≠ nm) : sideband (a ++ (nm, t) :: b) nm = some t := by
  have hbn : sideband b nm = none := by
    induction b with
    | nil => rfl
    | cons r rs ih =>
      have h1 : r.1 ≠ nm := hb r List.mem_cons_self
      have h2 := ih (fun x hx => hb x (List.mem_cons_of_mem _ hx))
      simp [sideband, h2, h1]
  have hmid : sideband ((nm, t) :: b) nm = some t := by simp [sideband, hbn]
  induction a with
  | nil => exact hmid
  | cons r rs ih => simp [sideband, ih]

theorem sideband_none (rs : List (List Char × List Char)) (nm : List Char)
    (h : ∀ r ∈ rs, r.1 ≠ nm) : sideband rs nm = none := by
  induction rs with
  | nil => rfl
  | cons r rs ih =>
    have h1 : r.1 ≠ nm := h r List.mem_cons_self
    have h2 := ih (fun x hx => h x (List.mem_cons_of_mem _ hx))
    simp [sideband, h2, h1]

theorem sideband_append (a b : List (List Char × List Char)) (nm : List Char) :
    sideband (a ++ b) nm = match sideband b nm with | some m => some m | none => sideband a nm := by
  induction a with
  | nil =>
    simp only [List.nil_append]
    cases h : sideband b nm <;> simp [sideband]
  | cons r rs ih =>
    simp only [List.cons_append, sideband, ih]
    cases sideband b nm <;> rfl

theorem sideband_own (nm : List Char) (msgs : List (List Char)) :
    sideband (msgs.map (fun m => (nm, m))) nm = msgs.getLast? := by
  induction msgs with
  | nil => rfl
  | cons m ms ih =>
    simp only [List.map_cons, sideband, ih]
    cases ms with
    | nil => simp
    | cons m' ms' =>
      have hs : ((m' :: ms').getLast?).isSome = true := by simp [List.getLast?_isSome]
      rw [List.getLast?_cons_cons]
      cases h : (m' :: ms').getLast? with
      | none => simp [h] at hs
      | some x => rfl

theorem clientRecords_append (a b : List (List Char × List (List Char))) :
    clientRecords (a ++ b) = clientRecords a ++ clientRecords b := by
  induction a with
  | nil => rfl
  | cons x xs ih => obtain ⟨n, ms⟩ := x; simp [clientRecords, ih]

theorem clientRecords_names (rs : List (List Char × List (List Char))) (nm : List Char)
    (h : ∀ r ∈ rs, r.1 ≠ nm) : ∀ x ∈ clientRecords rs, x.1 ≠ nm := by
  induction rs with
  | nil => intro x hx; simp [clientRecords] at hx
  | cons r rs ih =>
    obtain ⟨n, ms⟩ := r
    intro x hx
    simp only [clientRecords, List.mem_append, List.mem_map] at hx
    rcases hx with ⟨m, _, rfl⟩ | hx
    · exact h (n, ms) List.mem_cons_self
    · exact ih (fun r hr => h r (List.mem_cons_of_mem _ hr)) x hx

end ConfModel.FeedbackStream
