/-
C04 — model of the batch loop of `run()` and of the last line of `Run`
(internal/app/connectconformance/connectconformance.go), composed with the model of a server
batch (`ConfModel.ServerRunner.runBatch`, property C11) and the model of `results.go`
(`ConfModel.Report`, property C04).

```
for _, clientInfo := range clients {
    clientProcess, err := runClient(ctx, clientInfo.start)     -- error: `return nil, err`
    for _, serverInfo := range servers { for _, svrInstance := range svrInstances {
        testCases := …; if len(testCases) == 0 { continue }    -- a batch is never empty
        sema.Acquire(ctx, 1)
        if !clientProcess.isRunning() { … return err }         -- liveness check, err is never nil
        go runTestCasesForServer(…, results, clientProcess, …) -- the batch (C11)
    }}
    wg.Wait()                                                   -- (deferred: also on the early return)
    clientProcess.closeSend()
    if err := clientProcess.waitForResponses(); err != nil { return results, err }
}
return results, nil            -- Run: `results.report(logPrinter) && err == nil`
```

Two layers.

**Interface layer** (`Client`, `Batch`).  A batch is a C11 fault script: the fate of its server
process (start / write / close error, response, death after k requests, stderr text) and, per
case, what the batch observes of the client runner for that request (`ServerRunner.Case`): the
send is *refused*, or *accepted* and its callback is later invoked exactly once — with the
client's own answer (`answer pass|mismatch|error|neither`) or with an error (`answer noresult`).
That these are the only possible observations is C10 (`exactly_once`, `own_response`,
`answered_iff_own`); `Props/C04.lean` restates it for the C10 transition system
(`client_interface_sound`).  The outcome of the liveness check before a batch (`noticed`) and
the result of the final `waitForResponses` (`waitErr`) are inputs as well.

**Fate layer** (`FClient`, `FBatch`, `Fate`).  The client process is described by what it does:
it answers the first `k` requests it receives (`none`: every request, until its stdin is closed)
and then stops — exits with a status, falls silent (keeps running, or has closed its stdout:
the reader times out after 20 s and aborts it), or writes something that is not a response to a
pending request.  The observations of the interface layer are *computed* from the fate
(`compile`); what the fate leaves open are races, which are inputs too (`late`, `noticed`,
`latch`): after the client has stopped a send is refused or still accepted (its callback then
fails with "no outcome"), the liveness check may or may not have noticed the stop yet, a refused
send may or may not have latched `c.err`.  The counter of answered requests is threaded through
the batches in order, which is exact for `--max-servers 1`; for concurrent batches the interface
layer (any set of answered requests) is the statement.

Batches running concurrently write disjoint sets of test names (C05, C11 `one_outcome_each`), so
the recorded map does not depend on the interleaving (`Lemmas/RunLoop.lean`,
`writes_perm_get`); the model records them in spawn order.

Core Lean only.
-/
import ConfModel.Model.Report
import ConfModel.Model.ServerRunner
import ConfModel.Spec.ServerRunner
import ConfModel.Spec.RunVerdict
namespace ConfModel.RunLoop
open ConfModel.Report ConfModel.RunVerdict
open ConfModel.ServerRunner (Script runBatch)

/-! ### recording a batch in `testResults` -/

/-- `testResults` as far as `report` looks at it -/
structure Results where
  os : Outcomes
  sb : Sideband
  deriving Repr

/-- the error argument of the `setOutcome` call behind a C11 outcome class (`report` tells apart
nil / `couldNotRunError` / anything else only) -/
def failOf : ServerRunner.Class → Fail
  | .pass => .none
  | .fail => .assertion
  | .setup => .other
  | .norun => .couldNotRun
  | .noresult => .other

/-- the `setupError` argument -/
def setupOf : ServerRunner.Class → Bool
  | .pass => false
  | .fail => false
  | _ => true

/-- test name of case i of a batch (`testCases[i].Request.TestName`) -/
def caseName (s : Script) (i : Nat) : String := String.ofList (s.names.getD i [])

/-- all `setOutcome` calls of a batch, by test name -/
def writesOf (s : Script) : List (String × ServerRunner.Class) :=
  (runBatch s).log.map (fun e => (caseName s e.1, e.2))

/-- all `recordSideband` calls of a batch -/
def notesOf (s : Script) : List (String × String) :=
  (runBatch s).sideband.map (fun e => (String.ofList e.1, String.ofList e.2))

def applyWrites (mk : Marks) (os : Outcomes) (ws : List (String × ServerRunner.Class)) : Outcomes :=
  ws.foldl (fun os e => setOutcome mk os e.1 (setupOf e.2) (failOf e.2)) os

def applyNotes (sb : Sideband) (ns : List (String × String)) : Sideband :=
  ns.foldl (fun sb e => recordSideband sb e.1 e.2) sb

/-- `runTestCasesForServer(…, results, …)` -/
def recordBatch (mk : Marks) (r : Results) (s : Script) : Results :=
  { os := applyWrites mk r.os (writesOf s), sb := applyNotes r.sb (notesOf s) }

/-! ### interface layer -/

structure Batch where
  /-- server fate, per-case observation of the client runner, test names, stderr of the server -/
  s : Script
  /-- `!clientProcess.isRunning()` when the liveness check before this batch runs -/
  noticed : Bool

structure Client where
  /-- `runClient` fails -/
  startErr : Bool
  batches : List Batch
  /-- the `waitForResponses()` after `closeSend()` returns an error -/
  waitErr : Bool

/-- how `run()` ended -/
inductive End
  | ok          -- `return results, nil`
  | err         -- `return results, err`
  | noResults   -- `return nil, err`
  deriving DecidableEq, Repr

/-- the batches of one client that are spawned, and whether the loop returned an error -/
def batchSched : List Batch → List Script × Bool
  | [] => ([], false)
  | b :: rest =>
    if b.noticed then ([], true)
    else ((b.s :: (batchSched rest).1), (batchSched rest).2)

/-- the batches that are spawned over all clients, in spawn order, and how `run()` ends -/
def sched : List Client → List Script × End
  | [] => ([], .ok)
  | c :: rest =>
    if c.startErr then ([], .noResults)
    else if (batchSched c.batches).2 then ((batchSched c.batches).1, .err)
    else if c.waitErr then ((batchSched c.batches).1, .err)
    else ((batchSched c.batches).1 ++ (sched rest).1, (sched rest).2)

def allScripts (w : List Client) : List Script := w.flatMap (fun c => c.batches.map (·.s))

/-- `filteredTestCount`: every selected permutation is in exactly one batch (C05) -/
def total (w : List Client) : Nat := ((allScripts w).map (fun s => s.cases.length)).sum

def resultsOf (mk : Marks) (l : List Script) : Results := l.foldl (recordBatch mk) ⟨[], []⟩

/-- `Run`'s verdict with the verdict expression of `report` as a parameter -/
def RunWith (verdict : Nat → Nat → Bool) (mk : Marks) (w : List Client) : Bool :=
  match (sched w).2 with
  | .noResults => false                       -- `if results == nil { return false, err }`
  | e =>
    let r := resultsOf mk (sched w).1
    runVerdict (reportWith verdict mk (total w) r.os r.sb) (e == .err)

/-- `Run` (the repaired `report`, finding F03) -/
def Run : Marks → List Client → Bool := RunWith (fun failed couldNotRun => failed == 0 && couldNotRun == 0)

/-- the report `Run` prints (`none`: no results, nothing is printed) -/
def runReport (mk : Marks) (w : List Client) : Option Report :=
  match (sched w).2 with
  | .noResults => none
  | _ => let r := resultsOf mk (sched w).1; some (report mk (total w) r.os r.sb)

/-! ### what happened to every selected case (the assignment the property quantifies over) -/

def markOf (mk : Marks) (n : String) : Mark :=
  if mk.failing n then .failing else if mk.flaky n then .flaky else .unmarked

def kindOfClass : ServerRunner.Class → Kind
  | .pass => .pass
  | .fail => .assertFail
  | .setup => .setupErr
  | .norun => .couldNotRun
  | .noresult => .noResult

/-- the class of the outcome recorded for case i (C11 `one_outcome_each`: there is exactly one) -/
def classAt (s : Script) (i : Nat) : Option ServerRunner.Class :=
  ((runBatch s).log.find? (fun e => e.1 == i)).map (·.2)

/-- case i of a batch that was spawned -/
def ranCase (mk : Marks) (s : Script) (i : Nat) : Case :=
  { name := caseName s i
    kind := match classAt s i with | some c => kindOfClass c | none => .missing
    mark := markOf mk (caseName s i)
    feedback := (notesOf s).any (fun e => e.1 == caseName s i) }

/-- the cases of a batch that was spawned -/
def ranCases (mk : Marks) (s : Script) : List Case := (List.range s.cases.length).map (ranCase mk s)

/-- the cases of a batch that was never spawned -/
def missingCases (mk : Marks) (s : Script) : List Case :=
  (List.range s.cases.length).map fun i =>
    { name := caseName s i, kind := .missing, mark := markOf mk (caseName s i), feedback := false }

def assignment (mk : Marks) (w : List Client) : List Case :=
  ((sched w).1.flatMap (ranCases mk)) ++ (((allScripts w).drop (sched w).1.length).flatMap (missingCases mk))

/-! ### fate layer -/

/-- what the client under test answers to a request that reaches it -/
inductive Ans
  | pass       -- the expected response
  | mismatch   -- a response that deviates from the expectation
  | error      -- a `ClientErrorResult`
  | neither    -- a response with neither
  deriving DecidableEq, Repr, Inhabited

def kindOfAns : Ans → ServerRunner.Kind
  | .pass => .pass
  | .mismatch => .mismatch
  | .error => .error
  | .neither => .neither

structure TestCase where
  name : List Char
  ans : Ans
  /-- scheduling: the callback runs on the reader's goroutine after `sendRequest` returned -/
  async : Bool
  /-- race, consulted only once the client has stopped: the request is still accepted (the write
  got through before the shut-down; the reader fails it with "no outcome") instead of refused -/
  late : Bool
  deriving Repr, Inhabited

/-- fate of a server process: the fields of `Script` that are not about the client -/
structure ServerFate where
  isRef : Bool
  useTLS : Bool
  startErr : Bool
  writeErr : Bool
  closeErr : Bool
  resp : ServerRunner.Resp
  dies : Option Nat
  stderr : List Char

structure FBatch where
  cases : List TestCase
  srv : ServerFate
  /-- race: once the client has stopped, the liveness check before this batch has noticed it -/
  noticed : Bool

/-- what the client does after its last answer -/
inductive Stop
  | exit     -- exits with `status`
  | silent   -- stays alive without answering (or has closed its stdout): 20 s time-out, aborted
  | garbage  -- writes something that is not a response to a pending request
  deriving DecidableEq, Repr, Inhabited

structure Fate where
  /-- `some k`: answers the first k requests it receives, then stops; `none`: answers every
  request and stops when its stdin is closed -/
  answers : Option Nat
  stop : Stop
  status : Nat
  /-- race: a refused send failed in its write (which latches `c.err`) -/
  latch : Bool
  deriving Repr, Inhabited

structure FClient where
  startErr : Bool
  fate : Fate
  batches : List FBatch

/-- the client has not stopped when it receives the i-th further request -/
def alive (rem : Option Nat) (i : Nat) : Bool :=
  match rem with
  | none => true
  | some r => i < r

/-- what the batch observes for its i-th request when the client has `rem` answers left -/
def obsOf (rem : Option Nat) (i : Nat) (c : TestCase) : ServerRunner.Case :=
  if alive rem i then .answer (kindOfAns c.ans) c.async
  else if c.late then .answer .noresult c.async
  else .refuse

def obsList (rem : Option Nat) : Nat → List TestCase → List ServerRunner.Case
  | _, [] => []
  | i, c :: rest => obsOf rem i c :: obsList rem (i + 1) rest

def scriptOf (rem : Option Nat) (b : FBatch) : Script :=
  { cases := obsList rem 0 b.cases
    isRef := b.srv.isRef, useTLS := b.srv.useTLS, startErr := b.srv.startErr, writeErr := b.srv.writeErr,
    closeErr := b.srv.closeErr, resp := b.srv.resp, dies := b.srv.dies,
    names := b.cases.map (·.name), stderr := b.srv.stderr }

/-- number of requests of the batch that are handed to the client runner -/
def sentOf (s : Script) : Nat :=
  if ServerRunner.Spec.setupFault s then 0 else ServerRunner.Spec.stopIdx s.dies 0 s.cases

/-- some send of the batch was refused -/
def refusedIn (s : Script) : Bool :=
  !ServerRunner.Spec.setupFault s &&
    (match s.cases[ServerRunner.Spec.stopIdx s.dies 0 s.cases]? with
     | some .refuse => !ServerRunner.dead s.dies (ServerRunner.Spec.stopIdx s.dies 0 s.cases)
     | _ => false)

def stopped (rem : Option Nat) : Bool := rem == some 0

/-- the batches of one client as the interface layer sees them: the remaining answers are
threaded through the batches in spawn order -/
def compileBatches : Option Nat → List FBatch → List Batch
  | _, [] => []
  | rem, b :: rest =>
    { s := scriptOf rem b, noticed := stopped rem && b.noticed } ::
      compileBatches (rem.map (· - sentOf (scriptOf rem b))) rest

/-- the process ended without giving `waitForResponses` anything to report -/
def cleanEnd (f : Fate) : Bool := f.stop == .exit && f.status == 0

def compileClient (c : FClient) : Client :=
  let bs := compileBatches c.fate.answers c.batches
  { startErr := c.startErr
    batches := bs
    waitErr := !cleanEnd c.fate || (c.fate.latch && ((batchSched bs).1.any refusedIn)) }

def compile (w : List FClient) : List Client := w.map compileClient

/-! ### the declarative reading of "received a real answer meeting its expectation" -/

/-- case i of a spawned batch got the client's own answer: no set-up fault of the server, the
request was handed over before the server died or a send was refused, and the client answered -/
def realAnswer (s : Script) (i : Nat) : Option ServerRunner.Kind :=
  if ServerRunner.Spec.setupFault s then none
  else if i < ServerRunner.Spec.stopIdx s.dies 0 s.cases then
    (match s.cases[i]? with
     | some (.answer .noresult _) => none
     | some (.answer k _) => some k
     | _ => none)
  else none

/-- … and it meets the expectation: unmarked → the expected response and no peer feedback;
known failing → anything else; known flaky → either -/
def answeredOK (mk : Marks) (s : Script) (i : Nat) : Bool :=
  match realAnswer s i with
  | none => false
  | some k =>
    let passed := k == .pass && !(notesOf s).any (fun e => e.1 == caseName s i)
    match markOf mk (caseName s i) with
    | .unmarked => passed
    | .failing => !passed
    | .flaky => true

end ConfModel.RunLoop
