package main

// C19, the tie between the two sentences: the limit the runner CONFIGURES a server process
// with (ServerCompatRequest.message_receive_limit, written by the real runTestCasesForServer
// to the stdin of a scripted server process) must be the limit the padding is relative to
// (read through the real expandRequestData on a probe request). Judged for every server
// instance (protocol x HTTP version x TLS x client certificates, reference server or not):
// a request expanded with offset d is beyond the configured limit iff d > 0.

import (
	"encoding/json"
	"fmt"

	cc "connectrpc.com/conformance/internal/app/connectconformance"
	"connectrpc.com/conformance/internal/verifharness/gen"
)

func init() {
	gen.RegisterOp("c19", "srvlimit", func(c *gen.Ctx, raw json.RawMessage) any {
		in := gen.Into[c19SrvIn](raw)
		out := c19SrvLimit(in)
		c.E.Count(fmt.Sprintf("srvlimit:protocol%d:%s", in.Inst.Protocol, out.Class))
		return out
	})
}

type c19SrvIn struct {
	Inst cc.VerifC19SrvSpec `json:"inst"`
	// the probe request and its directive (Off must be set)
	Probe c19Msg `json:"probe"`
}

type c19SrvOut struct {
	// what the server process was told
	Got      bool   `json:"got"` // a ServerCompatRequest was written (and nothing else), stdin closed
	Detail   string `json:"detail,omitempty"`
	Sent     int64  `json:"sent"` // message_receive_limit
	Protocol int32  `json:"protocol"`
	HTTP     int32  `json:"http"`
	TLS      bool   `json:"tls"`
	Creds    bool   `json:"creds"`      // server credentials present
	CCert    bool   `json:"clientCert"` // client certificate present
	// the padding side, through the real expandRequestData
	Const int64  `json:"const"` // the constant serverReceiveLimit
	Base  int64  `json:"base"`  // size of the probe padded with offset 0 (= the limit the padding uses)
	Class string `json:"class"` // error class of the probe's directive
	Size  int64  `json:"size"`  // size of the probe padded with its offset
}

func c19SrvLimit(in c19SrvIn) c19SrvOut {
	out := c19SrvOut{Const: cc.VerifC19ServerReceiveLimit()}
	obs := cc.VerifC19ServerRequest(in.Inst)
	switch {
	case obs.Hang:
		out.Detail = "runTestCasesForServer did not return"
	case obs.Req == nil:
		out.Detail = "no server request: " + obs.Err
	case obs.Trailing != 0 || !obs.Closed:
		out.Detail = fmt.Sprintf("%d bytes after the request, stdin closed: %v", obs.Trailing, obs.Closed)
	default:
		out.Got = true
	}
	if obs.Req != nil {
		out.Sent = int64(obs.Req.GetMessageReceiveLimit())
		out.Protocol, out.HTTP, out.TLS = int32(obs.Req.GetProtocol()), int32(obs.Req.GetHttpVersion()), obs.Req.GetUseTls()
		out.Creds, out.CCert = obs.Req.GetServerCreds() != nil, len(obs.Req.GetClientTlsCert()) > 0
	}
	zero := int64(0)
	base := in.Probe
	base.Off = &zero
	if b := c19Expand(c19In{Msgs: []c19Msg{base}}); b.Class == "ok" && len(b.Msgs) == 1 {
		out.Base = int64(b.Msgs[0].Size)
	}
	p := c19Expand(c19In{Msgs: []c19Msg{in.Probe}})
	out.Class = p.Class
	if len(p.Msgs) == 1 {
		out.Size = int64(p.Msgs[0].Size)
	}
	return out
}

func c19SrvGen(c *gen.Ctx) {
	offs := []int64{-300, -6, -5, -1, 0, 1, 2, 3, 4, 5, 6, 7, 10, 300}
	if c.Thorough() {
		offs = nil
		for d := int64(-40); d <= 40; d++ {
			offs = append(offs, d)
		}
		offs = append(offs, -5000, 1000, 70000)
	}
	k := 0
	for protocol := int32(0); protocol <= 3; protocol++ { // 0: unspecified (never produced by the library; still a constant limit)
		for http := int32(1); http <= 3; http++ {
			for _, tls := range [][2]bool{{false, false}, {true, false}, {true, true}} {
				for _, isRef := range []bool{false, true} {
					for _, off := range offs {
						k++
						off := off
						// small probes (R around 30): every offset of the window is reachable
						probe := c19Msg{Type: k % 5, DefSeed: c.R.Uint64() >> 16, DefSize: c.R.Range(0, 40), L0: gen.Pick(c.R, []int{0, 0, 1, 200}), Off: &off}
						c.Do("srvlimit", c19SrvIn{
							Inst:  cc.VerifC19SrvSpec{Protocol: protocol, HTTPVersion: http, UseTLS: tls[0], ClientCerts: tls[1], IsRef: isRef},
							Probe: probe,
						})
					}
				}
			}
		}
	}
}
