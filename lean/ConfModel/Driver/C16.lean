import ConfModel.Driver.Common
import ConfModel.Model.TracerSlots
import ConfModel.Model.Builder
import ConfModel.Spec.Handoff
namespace ConfModel.Driver.C16
open Lean ConfModel.Driver ConfModel ConfModel.Handoff

/-! ### Tracer slots -/

def parseSlotOp (s : String) : Option TracerSlots.Op :=
  match s.splitOn ":" with
  | ["i", n] => some (.init n)
  | ["x", n] => some (.clear n)
  | ["c", n, t] => t.toNat?.map (.complete n)
  | ["a", w, n] => w.toNat?.map (fun w => .await w n)
  | ["j", w] => w.toNat?.map .join
  | ["p", w] => w.toNat?.map .peek
  | ["k", w] => w.toNat?.map .ctx
  | _ => none

def parseSlotOps (l : List String) : Option (List TracerSlots.Op) := l.mapM parseSlotOp

def renderObs : TracerSlots.Obs → String
  | .none => ""
  | .err => "err"
  | .trace t => s!"t{t}"
  | .waiting => "waiting"
  | .ctxErr => "ctx"
  | .busy => "busy"
  | .idle => "idle"

def renderSets (l : List (List TracerSlots.Obs)) : List (List String) := l.map (·.map renderObs)

/-- every observed outcome is one of the admissible ones at its position -/
def within (obs : List String) (sets : List (List String)) : Bool :=
  obs.length == sets.length && (obs.zip sets).all (fun p => p.2.contains p.1)

/-- a nil `*Tracer`: nothing is stored, every Await fails at once -/
def nilObs (ops : List TracerSlots.Op) : List (List TracerSlots.Obs) :=
  ops.map fun
    | .await _ _ => [.err]
    | .join _ | .peek _ | .ctx _ => [.idle]
    | _ => [.none]

def slotsNontrivial (ops : List TracerSlots.Op) : Bool :=
  ops.any (fun o => match o with | .complete _ _ => true | _ => false) &&
  ops.any (fun o => match o with | .await _ _ => true | _ => false)

def firstMismatch (obs : List String) (sets : List (List String)) : String :=
  match ((obs.zip sets).zipIdx.find? (fun p => !(p.1.2.contains p.1.1))) with
  | some p => s!"position {p.2}: observed '{p.1.1}', allowed {p.1.2}"
  | none => s!"{obs.length} observations for {sets.length} operations"

/-! ### builder -/

def parseKind : String → Option Builder.Kind
  | "reqData" => some .reqData | "reqEnd" => some .reqEnd | "reqEndErr" => some .reqEndErr
  | "respStart" => some .respStart | "respErr" => some .respErr | "respData" => some .respData
  | "respEos" => some .respEos | "respEnd" => some .respEnd | "respEndErr" => some .respEndErr
  | "cancel" => some .cancel | _ => none

def kindName : Builder.Kind → String
  | .reqData => "reqData" | .reqEnd => "reqEnd" | .reqEndErr => "reqEndErr" | .respStart => "respStart"
  | .respErr => "respErr" | .respData => "respData" | .respEos => "respEos" | .respEnd => "respEnd"
  | .respEndErr => "respEndErr" | .cancel => "cancel"

/-- ops of one thread; the id of the event at position `i` is `base + i` -/
def parseBuilderOps (base : Nat) (l : List String) : Option (List Builder.Op) :=
  l.zipIdx.mapM fun p => if p.1 == "build" then some Builder.Op.build else (parseKind p.1).map (fun k => Builder.Op.add k (base + p.2))

def renderItem (it : Builder.Item) : String :=
  kindName it.kind ++ "#" ++ toString it.id ++ (match it.index with | some i => "@" ++ toString i | none => "")

def renderDeliveries (d : List (List Builder.Item)) : List (List String) := d.map (·.map renderItem)

def implCompletions (impl : Json) : List (List String) := (arr (field impl "completions")).map strList

/-- kind of a rendered middleware event (the canonical strings of `VerifBodyEvents`) -/
def kindOfRendered (e : String) : Builder.Kind :=
  if e.startsWith "qd:" then .reqData
  else if e == "qe:nil" then .reqEnd
  else if e.startsWith "qe:" then .reqEndErr
  else if e == "P" then .respStart
  else if e == "PX" then .respErr
  else if e.startsWith "pd:" then .respData
  else if e.startsWith "ps:" then .respEos
  else if e == "pe:nil" then .respEnd
  else if e.startsWith "pe:" then .respEndErr
  else .cancel

/-- the traces the builder model delivers when a `RequestCanceled` is added at any point of the
event sequence `ref` of the uncancelled session (the cancel goroutine is not ordered with the
body events) -/
def cancelOutcomes (ref : List String) (build : Bool) : List (List String) :=
  let adds := ref.zipIdx.map (fun p => Builder.Op.add (kindOfRendered p.1) p.2)
  let n := ref.length
  let arr := ref.toArray
  (List.range (n + 1)).map fun k =>
    let ops := adds.take k ++ [Builder.Op.add .cancel n] ++ adds.drop k ++ (if build then [Builder.Op.build] else [])
    match (Builder.exec (Builder.init true) ops).2 with
    | [d] => d.map (fun it => if it.id == n then "QC" else arr[it.id]?.getD "?")
    | _ => ["<not exactly one delivery>"]

def cancelVerdict (impl : Json) (build : Bool) : Verdict :=
  let ref := (strList (field impl "ref")).filter (· != "Q")
  let got := (strList (field impl "got")).filter (· != "Q")
  let completions := nat (field impl "completions")
  let set := cancelOutcomes ref build
  -- the property itself: one delivery; nothing recorded after the finishing event; what is
  -- recorded is what happened before it, in order
  let cut := (got.takeWhile (· != "QC"))
  let holds := completions == 1 && (got == ref || (got == cut ++ ["QC"] && ref.take cut.length == cut))
  { agree := completions == 1 && set.contains got, holds := holds, nontrivial := got != ref,
    model := toJson set.length, cls := if got == ref then "cancel-too-late" else "cancelled",
    why := if holds then "" else s!"{completions} deliveries; trace {got}; uncancelled session {ref}" }

/-! ### the runner's consumer (`testResults.fetchTrace`), op `results` -/

structure RScript where
  /-- the tracer operations of the script in the order in which they take effect: those of the
  main goroutine first, the delayed completions after them, by delay -/
  base : List TracerSlots.Op
  /-- name, kind, number of `base` operations that precede the outcome -/
  outcomes : List (String × String × Nat)

def insertByMs (x : Nat × TracerSlots.Op) : List (Nat × TracerSlots.Op) → List (Nat × TracerSlots.Op)
  | [] => [x]
  | y :: ys => if x.1 < y.1 then x :: y :: ys else y :: insertByMs x ys

structure RAcc where
  seq : List TracerSlots.Op := []
  delayed : List (Nat × TracerSlots.Op) := []
  outcomes : List (String × String × Nat) := []
  ok : Bool := true

def parseResults (steps : List String) : Option RScript :=
  let acc := steps.foldl (fun (a : RAcc) s =>
    match s.splitOn ":" with
    | ["i", n] => { a with seq := a.seq ++ [.init n] }
    | ["x", n] => { a with seq := a.seq ++ [.clear n] }
    | ["c", n, t] => match t.toNat? with
      | some t => { a with seq := a.seq ++ [.complete n t] }
      | none => { a with ok := false }
    | ["d", n, t, ms] => match t.toNat?, ms.toNat? with
      | some t, some ms => { a with delayed := insertByMs (ms, .complete n t) a.delayed }
      | _, _ => { a with ok := false }
    | ["o", n, k] => { a with outcomes := a.outcomes ++ [(n, k, a.seq.length)] }
    | ["s", _] => a
    | _ => { a with ok := false }) {}
  let names := acc.outcomes.map (·.1)
  if acc.ok && names.eraseDups.length == names.length then
    some ⟨acc.seq ++ acc.delayed.map (·.2), acc.outcomes⟩
  else none

/-- everything the waiter of an outcome may collect: its Await begins at some point after the
outcome was recorded (it is a goroutine of its own), `report()` joins it at the end -/
def alternatives (f : TracerSlots.Name → List TracerSlots.Op → List TracerSlots.Op → Option Nat × Bool)
    (base : List TracerSlots.Op) (n : String) (i : Nat) : List (Option Nat × Bool) :=
  ((List.range (base.length - i + 1)).map fun d => f n (base.take (i + d)) (base.drop (i + d))).eraseDups

def encTrace : Option Nat → Int
  | none => -1
  | some t => (t : Int)

def resultsVerdict (inp impl : Json) : Verdict :=
  match parseResults (strList (field inp "steps")) with
  | none => bad "unparsable results script"
  | some sc =>
    let cases := arr (field impl "cases")
    let report := str (field impl "report")
    let caseOf (n : String) : Json := (cases.find? (fun c => str (field c "name") == n)).getD Json.null
    -- per outcome: the admissible alternatives that match what the report showed
    -- `strict` (model side): the duration class of report() must be the model's; otherwise (the
    -- property): no wait outlives its context, and nobody waits for a deadline unless some waiter
    -- has nothing to obtain (returning early from a wait that could only time out loses nothing)
    let judge (f : TracerSlots.Name → List TracerSlots.Op → List TracerSlots.Op → Option Nat × Bool) (strict : Bool) :
        Bool × String :=
      let per := sc.outcomes.zipIdx.map fun ((n, k, i), j) =>
        let c := caseOf n
        let printed := int (field c "printed")
        let stored := int (field c "stored")
        let failed := bool (field c "failed")
        let alts := alternatives (fun n b a => f n b a) sc.base n i
        let _ := j
        let m := if k == "pass" then (if !failed && printed == -1 && stored == -1 then alts else [])
                 else if failed && (!strict || stored == printed) then alts.filter (fun a => encTrace a.1 == printed) else []
        (n, alts, m)
      let allMatch := per.all (fun p => !p.2.2.isEmpty)
      let promptOK := per.all (fun p => p.2.2.any (fun a => !a.2))
      let timeoutOK := allMatch && per.any (fun p => p.2.2.any (fun a => a.2))
      let ok := allMatch && ((report == "prompt" && (promptOK || !strict)) || (report == "timeout" && timeoutOK))
      let why :=
        if ok then "" else
        match per.find? (fun p => p.2.2.isEmpty) with
        | some (n, alts, _) =>
          let c := caseOf n
          let want : List Int := alts.map (fun (a : Option Nat × Bool) => encTrace a.1)
          s!"case {n}: the report shows trace {int (field c "printed")} (kept {int (field c "stored")}, failed={bool (field c "failed")}); the waiter must collect one of {want} (-1 = none)"
        | none => s!"report() returned '{report}' although " ++
            (if report == "late" then "no wait may outlive its context"
             else if report == "timeout" then "no waiter has to wait for its deadline"
             else "a waiter has to wait for its deadline")
      (ok, why)
    let model := judge (fun n b a => TracerSlots.collects 100 n b a) true
    let spec := judge collectSpec false
    -- a waiter that finds nothing to wait for, or obtains its trace, returns at once; one that
    -- waits in vain is released by its context: the report is never late
    { agree := model.1, holds := spec.1,
      nontrivial := sc.base.any (fun o => match o with | .complete _ _ => true | _ => false),
      model := toJson (sc.outcomes.map fun (n, _, i) => (alternatives (fun n b a => TracerSlots.collects 100 n b a) sc.base n i).map (fun (a : Option Nat × Bool) => encTrace a.1)),
      cls := "results:" ++ report,
      why := if !spec.1 then "runner's waiter: " ++ spec.2 else model.2 }

def handle : Handler := fun op inp impl =>
  if !(isNull (field impl "panic")) then
    { agree := false, holds := false, why := "panic: " ++ str (field impl "panic") } else
  match op with
  | "slots" =>
    match parseSlotOps (strList (field inp "ops")) with
    | none => bad "unparsable slot op"
    | some ops =>
      let isNil := bool (field inp "nil")
      let obs := strList (field impl "obs")
      let model := renderSets (if isNil then nilObs ops else (TracerSlots.exec TracerSlots.init ops).2)
      let spec := renderSets (if isNil then nilObs ops else specObs ops)
      let holds := within obs spec
      { agree := within obs model && model == spec, holds := holds,
        nontrivial := slotsNontrivial ops, model := toJson model,
        cls := if obs.contains "waiting" then "blocked" else "",
        why := if !holds then "await outcome: " ++ firstMismatch obs spec
               else if model != spec then "driver: model and history specification differ" else "" }
  | "stressSlots" =>
    let threads := (arr (field inp "threads")).map strList
    match parseSlotOps (strList (field inp "setup")), threads.mapM parseSlotOps, parseSlotOps (strList (field inp "after")) with
    | some setup, some ths, some after =>
      let obsS := strList (field impl "setup")
      let obsA := strList (field impl "after")
      let total := ths.foldl (fun a t => a + t.length) 0
      let lins := TracerSlots.interleavings (total + 1) ths
      let fits (sets : List (List String)) : Bool :=
        within obsS (sets.take setup.length) && within obsA (sets.drop (setup.length + total))
      let okModel := lins.any fun l => fits (renderSets (TracerSlots.exec TracerSlots.init (setup ++ l ++ after)).2)
      let okSpec := lins.any fun l => fits (renderSets (specObs (setup ++ l ++ after)))
      { agree := okModel, holds := okSpec, nontrivial := lins.length > 1,
        model := toJson lins.length,
        why := if okSpec then "" else s!"outcome setup={obsS} after={obsA} is produced by none of the {lins.length} linearisations" }
    | _, _, _ => bad "unparsable slot op"
  | "results" => resultsVerdict inp impl
  | "cancelrt" => cancelVerdict impl false
  | "cancelhandler" => cancelVerdict impl true
  | "builder" =>
    match parseBuilderOps 0 (strList (field inp "ops")) with
    | none => bad "unparsable builder op"
    | some ops =>
      let named := bool (field inp "named")
      let got := implCompletions impl
      let model := renderDeliveries (Builder.exec (Builder.init named) ops).2
      let spec := renderDeliveries (deliveries named ops)
      let holds := got == spec
      { agree := got == model, holds := holds, nontrivial := named && ops.any isCloser && ops.length > 1,
        model := toJson model,
        why := if holds then "" else s!"collector got {got}, the operation must deliver {spec}" }
  | "stressBuilder" =>
    let threads := (arr (field inp "threads")).map strList
    match threads.zipIdx.mapM (fun p => parseBuilderOps (p.2 * 100) p.1) with
    | none => bad "unparsable builder op"
    | some ths =>
      let named := bool (field inp "named")
      -- the distinct outcomes seen over the repetitions (older replay files: one outcome)
      let gots : List (List (List String)) :=
        if isNull (field impl "outcomes") then [implCompletions impl]
        else (arr (field impl "outcomes")).map (fun o => (arr o).map strList)
      let total := ths.foldl (fun a t => a + t.length) 0
      let lins := TracerSlots.interleavings (total + 1) ths
      let modelOuts := (lins.map fun l => renderDeliveries (Builder.exec (Builder.init named) l).2).eraseDups
      let specOuts := (lins.map fun l => renderDeliveries (deliveries named l)).eraseDups
      let okModel := !gots.isEmpty && gots.all modelOuts.contains
      let okSpec := !gots.isEmpty && gots.all specOuts.contains
      { agree := okModel, holds := okSpec, nontrivial := lins.length > 1, model := toJson lins.length,
        why := if okSpec then "" else
          s!"collector got {gots.filter (fun g => !specOuts.contains g)}: no linearisation of the threads delivers that" }
  | _ => bad ("C16: unknown op " ++ op)

end ConfModel.Driver.C16
