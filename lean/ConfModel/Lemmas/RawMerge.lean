import ConfModel.Model.RawMerge
namespace ConfModel.RawMerge

theorem get_add {α : Type} (m : Values α) (k : String) (vs : List α) (k' : String) :
    get (add m k vs) k' = if k == k' then get m k' ++ vs else get m k' := by
  induction m with
  | nil => by_cases h : (k == k') = true <;> simp [add, get, h]
  | cons p rest ih =>
    by_cases hp : (p.1 == k) = true
    · have hpk : p.1 = k := by simpa using hp
      by_cases h : (k == k') = true
      · have : (p.1 == k') = true := by rw [hpk]; exact h
        simp [add, get, hp, h, this]
      · have : (p.1 == k') = false := by rw [hpk]; simpa using h
        simp [add, get, hp, h, this]
    · simp only [add, hp, Bool.false_eq_true, if_false, get, ih]
      by_cases hk : (p.1 == k') = true
      · have : (k == k') = false := by
          have h1 : p.1 = k' := by simpa using hk
          have h2 : ¬ p.1 = k := by simpa using hp
          simp only [beq_eq_false_iff_ne, ne_eq]; intro e; exact h2 (by rw [h1, e])
        simp [hk, this]
      · simp [hk]

theorem get_set {α : Type} (m : Values α) (k : String) (vs : List α) (k' : String) :
    get (set m k vs) k' = if k == k' then vs else get m k' := by
  induction m with
  | nil => by_cases h : (k == k') = true <;> simp [set, get, h]
  | cons p rest ih =>
    by_cases hp : (p.1 == k) = true
    · have hpk : p.1 = k := by simpa using hp
      by_cases h : (k == k') = true
      · have : (p.1 == k') = true := by rw [hpk]; exact h
        simp [set, get, hp, h, this]
      · have : (p.1 == k') = false := by rw [hpk]; simpa using h
        simp [set, get, hp, h, this]
    · simp only [set, hp, Bool.false_eq_true, if_false, get, ih]
      by_cases hk : (p.1 == k') = true
      · have : (k == k') = false := by
          have h1 : p.1 = k' := by simpa using hk
          have h2 : ¬ p.1 = k := by simpa using hp
          simp only [beq_eq_false_iff_ne, ne_eq]; intro e; exact h2 (by rw [h1, e])
        simp [hk, this]
      · simp [hk]

theorem get_addAll {α : Type} (ps : List (String × List α)) (m : Values α) (k : String) :
    get (addAll m ps) k = get m k ++ listed ps k := by
  induction ps generalizing m with
  | nil => simp [addAll, listed]
  | cons p rest ih =>
    have : addAll m (p :: rest) = addAll (add m p.1 p.2) rest := rfl
    rw [this, ih, get_add]
    by_cases h : (p.1 == k) = true
    · simp [listed, h, List.append_assoc] at *
    · simp [listed, h] at *

theorem get_of_not_hasKey {α : Type} (m : Values α) (k : String) (h : hasKey m k = false) : get m k = [] := by
  induction m with
  | nil => rfl
  | cons p rest ih =>
    simp only [hasKey, List.any_cons, Bool.or_eq_false_iff] at h
    simp only [get, h.1, Bool.false_eq_true, if_false]
    exact ih (by simpa [hasKey] using h.2)

/-- restoring a snapshot with distinct keys: the snapshot's value where it has the key, the old
value elsewhere -/
theorem get_restore {α : Type} (snap : Values α) (m : Values α) (k : String) (hd : keysDistinct snap = true) :
    get (restore m snap) k = if hasKey snap k then get snap k else get m k := by
  induction snap generalizing m with
  | nil => simp [restore, hasKey]
  | cons p rest ih =>
    simp only [keysDistinct, Bool.and_eq_true, Bool.not_eq_true'] at hd
    have : restore m (p :: rest) = restore (set m p.1 p.2) rest := rfl
    rw [this, ih _ hd.2, get_set]
    have hk : hasKey (p :: rest) k = (p.1 == k || hasKey rest k) := by simp [hasKey]
    rw [hk]
    by_cases hp : (p.1 == k) = true
    · have hpk : p.1 = k := by simpa using hp
      have hr : hasKey rest k = false := by rw [← hpk]; exact hd.1
      simp [get, hp, hr]
    · have hp' : (p.1 == k) = false := by simpa using hp
      simp [get, hp']

theorem listed_single (ps : List (String × Bytes)) (k : String) :
    listed (single ps) k = (ps.filter (·.1 == k)).map (·.2) := by
  induction ps with
  | nil => rfl
  | cons p rest ih =>
    by_cases h : (p.1 == k) = true
    · simp [listed, single, h] at ih ⊢; exact ih
    · simp [listed, single, h] at ih ⊢; exact ih

end ConfModel.RawMerge
