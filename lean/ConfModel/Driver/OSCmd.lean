import ConfModel.Driver.Common
namespace ConfModel.Driver.OSCmd
open Lean ConfModel.Driver

/-- C10 with a real client process: every accepted send is answered exactly once, every refused
send never, nothing hangs, and after the client is gone the runner says so. -/
def judgeClient (inp impl : Json) : Verdict :=
  if !(isNull (field impl "panic")) then
    { agree := false, holds := false, why := "panic: " ++ str (field impl "panic") } else
  let rets := strList (field impl "rets")
  let cbs := natList (field impl "cbs")
  let hang := bool (field impl "hang")
  let pairOK := (rets.zip cbs).all (fun (r, c) => (r == "nil" && c == 1) || (r == "error" && c == 0))
  let cbRunning := nat (field impl "cbRunning")
  let runAtDone := bool (field impl "runAtDone")
  let holds := !hang && pairOK && str (field impl "wait") != "hang" && !(bool (field impl "isRunning")) &&
    cbRunning == 0 && !runAtDone
  { agree := holds, holds := holds, nontrivial := true, cls := "os:" ++ str (field inp "kind"),
    why := if holds then "" else
      if !hang && pairOK && (cbRunning != 0 || runAtDone) then s!"real client process ({str (field inp "kind")}): isRunning() still true while the failure of the client's output stream was reported ({cbRunning} callback(s); after the reader had finished: {runAtDone}) — the process lingers"
      else s!"real client process ({str (field inp "kind")}): sends {rets} callbacks {cbs} wait {str (field impl "wait")} hang {hang} isRunning {bool (field impl "isRunning")}" }

/-- C11 / C05 with a real server process: the batch returns, every case has exactly one outcome,
server faults are setup errors, and the process is gone when the batch returns. -/
def judgeServer (inp impl : Json) : Verdict :=
  if !(isNull (field impl "panic")) then
    { agree := false, holds := false, why := "panic: " ++ str (field impl "panic") } else
  let n := nat (field inp "n")
  let kind := str (field inp "kind")
  let outs := (arr (field impl "outcomes")).map (fun o => (strList o))
  let names := outs.map (fun o => o.headD "")
  let classes := outs.map (fun o => (o.drop 1).headD "")
  let hang := bool (field impl "hang")
  let alive := bool (field impl "alive")
  let oneEach := names.length == n && names.eraseDups.length == n
  let isSetup (c : String) : Bool := c == "setup" || c == "norun" || c == "noresult"
  let kindOK :=
    if kind == "dies-during-request-write" || kind == "garbage-then-ignores-term" then classes.all isSetup
    else if kind == "ignores-term" then classes.all (· == "pass")
    else classes.all (fun c => isSetup c || c == "pass")
  let holds := !hang && !alive && oneEach && kindOK
  { agree := holds, holds := holds, nontrivial := true, cls := "os:" ++ kind,
    why := if holds then "" else s!"real server process ({kind}): hang {hang}, still alive after the batch {alive}, outcomes {outs}" }

end ConfModel.Driver.OSCmd
