//go:build verif

package connectconformance

import (
	"sort"
	"strings"

	"connectrpc.com/conformance/internal"
	conformancev1 "connectrpc.com/conformance/internal/gen/proto/go/connectrpc/conformance/v1"
)

// VerifTrie wraps testTrie (nil when no patterns were given, as in Run).
type VerifTrie struct{ t *testTrie }

func VerifNewTrie(patterns []string) *VerifTrie {
	t := parsePatterns(patterns)
	if t == nil {
		t = &testTrie{} // as Run does for the known-failing / known-flaky lists
	}
	return &VerifTrie{t: t}
}

func (v *VerifTrie) Match(name string) bool { return v.t.matchPattern(name) }

func (v *VerifTrie) Unmatched() []string {
	m := v.t.allUnmatched()
	out := make([]string, 0, len(m))
	for k := range m {
		out = append(out, k)
	}
	sort.Strings(out)
	return out
}

func (v *VerifTrie) Len() int { return v.t.length() }

// VerifAccept is newFilter(run, skip).accept on a test case with the given name.
func VerifAccept(run, skip []string, names []string) []bool {
	f := newFilter(parsePatterns(run), parsePatterns(skip))
	out := make([]bool, len(names))
	for i, n := range names {
		out[i] = f.accept(&conformancev1.TestCase{Request: &conformancev1.ClientCompatRequest{TestName: n}})
	}
	return out
}

type verifNopPrinter struct{}

func (verifNopPrinter) Printf(string, ...any)               {}
func (verifNopPrinter) PrefixPrintf(string, string, ...any) {}

var _ internal.Printer = verifNopPrinter{}

// VerifSimpleSuites builds one valid unary test case per name, grouped in suites.
func VerifSimpleSuites(suites map[string][]string) map[string]*conformancev1.TestSuite {
	out := map[string]*conformancev1.TestSuite{}
	for suiteName, tests := range suites {
		s := &conformancev1.TestSuite{Name: suiteName}
		for _, t := range tests {
			s.TestCases = append(s.TestCases, &conformancev1.TestCase{
				Request: &conformancev1.ClientCompatRequest{
					TestName:   t,
					StreamType: conformancev1.StreamType_STREAM_TYPE_UNARY,
				},
			})
		}
		out[suiteName+".yaml"] = s
	}
	return out
}

// VerifValidate runs the real run() up to (and including) pattern validation. The client
// command does not exist, so a run that passes validation stops at "error starting client".
func VerifValidate(suites map[string]*conformancev1.TestSuite, cfgYAML string, failing, flaky, run, skip []string) (names []string, class string, list []string, rawErr string) {
	cases, err := parseConfig("cfg.yaml", []byte(cfgYAML))
	if err != nil {
		return nil, "config-error", nil, err.Error()
	}
	flags := &Flags{ClientCommand: []string{"/nonexistent/verif-client"}, MaxServers: 1, Parallelism: 1}
	lib, err := newTestCaseLibrary(suites, cases, conformancev1.TestSuite_TEST_MODE_CLIENT)
	if err != nil {
		return nil, "library-error", nil, err.Error()
	}
	for _, tc := range lib.allPermutations(false, true) {
		names = append(names, tc.Request.TestName)
	}
	sort.Strings(names)
	kf := parsePatterns(failing)
	if kf == nil {
		kf = &testTrie{}
	}
	kl := parsePatterns(flaky)
	if kl == nil {
		kl = &testTrie{}
	}
	_, err = runForVerif(cases, kf, kl, parsePatterns(run), parsePatterns(skip), suites, flags)
	if err == nil {
		return names, "ran", nil, ""
	}
	msg := err.Error()
	rawErr = msg
	listOf := func(after string) []string {
		i := strings.Index(msg, after)
		if i < 0 {
			return nil
		}
		var out []string
		for _, l := range strings.Split(msg[i+len(after):], "\n") {
			if l != "" {
				out = append(out, l)
			}
		}
		return out
	}
	switch {
	case strings.Contains(msg, "unmatched and possibly invalid patterns:"):
		what := msg[:strings.Index(msg, ":")]
		return names, "unmatched:" + what, listOf("patterns:\n"), msg
	case strings.Contains(msg, "ambiguous"):
		return names, "ambiguous", listOf("both\n:"), msg
	case strings.Contains(msg, "error starting client"):
		return names, "ok", nil, msg
	}
	return names, "other", nil, msg
}

func runForVerif(cases []configCase, kf, kl, run, skip *testTrie, suites map[string]*conformancev1.TestSuite, flags *Flags) (*testResults, error) {
	return runFn(cases, kf, kl, run, skip, suites, verifNopPrinter{}, verifNopPrinter{}, flags)
}

var runFn = run
