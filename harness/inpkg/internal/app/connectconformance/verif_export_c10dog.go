//go:build verif

package connectconformance

import (
	"sync"
	"time"
)

// VerifDog is the watchdog of the scenarios that must end as the observation "did not return" when
// the code under test hangs.  It does not measure wall-clock time but counts 50 ms ticks of a ticker
// that this process has actually received: when the whole process (or machine) stands still for a
// while — seen here: all scenarios of a run reporting a hang at the same moment, 41 s on the clock
// for a 20 s limit, on a machine shared with other evaluations — that costs one tick, whereas a
// `time.After` would be due the moment the process runs again, before the goroutines of the code
// under test (whose own timers are due as well) had a chance to move.
type VerifDog struct {
	C    chan struct{}
	stop chan struct{}
	once sync.Once
}

// VerifNewDog: C is closed after seconds*20 received ticks.  Stop releases the goroutine.
func VerifNewDog(seconds int) *VerifDog {
	d := &VerifDog{C: make(chan struct{}), stop: make(chan struct{})}
	go func() {
		t := time.NewTicker(50 * time.Millisecond)
		defer t.Stop()
		for n := 0; n < seconds*20; n++ {
			select {
			case <-t.C:
			case <-d.stop:
				return
			}
		}
		close(d.C)
	}()
	return d
}

func (d *VerifDog) Stop() { d.once.Do(func() { close(d.stop) }) }
