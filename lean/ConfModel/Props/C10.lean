/-
C10 — The client multiplexer answers every request exactly once, whatever the client does.

Property theorems only; the invariants are in `ConfModel.Lemmas.ClientRunner`.
Every statement quantifies over **every event list** `evs`, i.e. over every behaviour of the client
program (which names it answers and in which order, unknown names, duplicates, garbage, oversize
prefixes, end of stream after any byte, exit with any code at any moment), over any number of
`sendRequest` calls (any test names, also repeated ones) and over every interleaving of these
calls with the output reader at the atomicity the locks of client_runner.go give
(see `Model/ClientRunner.lean`).  Events that are not enabled in a state are skipped by `run`, so
an arbitrary list is a schedule.
-/
import ConfModel.Lemmas.ClientRunner
import ConfModel.Lemmas.ClientWait
import ConfModel.Lemmas.Delimited
namespace ConfModel.Props.C10
open ConfModel.ClientRunner ConfModel.ClientRunner.Spec

/-- **exactly_once.**  In every terminal state (reader finished, every started `sendRequest`
returned): a request whose `sendRequest` returned nil had its callback invoked exactly once, with
a response carrying its own test name or with an error; a request that was refused (or never sent)
had no invocation. -/
theorem exactly_once (names : Nat → Name) (evs : List Event) (i : Nat)
    (ht : Terminal (run names init evs)) :
    reqOK (names i) (retOf ((run names init evs).spc i)) (cbsOf (run names init evs) i) = true := by
  have hinv := reachable_inv names evs
  generalize run names init evs = s at *
  obtain ⟨hd, hpc⟩ := ht
  have hp : s.pending = [] := hinv.drained (Or.inr hd)
  have hc := hinv.cnt i
  have hlen : (cbsOf s i).length = firedCount s i := by simp [cbsOf, firedCount]
  have hown : ∀ c ∈ cbsOf s i, c = none ∨ c = some (names i) := by
    intro c hcm
    simp only [cbsOf, List.mem_map, List.mem_filter] at hcm
    obtain ⟨f, ⟨hf, hfi⟩, rfl⟩ := hcm
    have hfi' : f.1 = i := by simpa using hfi
    cases h2 : f.2 with
    | none => exact Or.inl rfl
    | some m => exact Or.inr (by rw [hinv.own f hf m h2, hfi'])
  simp only [pendCount, hp, idCount_nil, firingCount, hd, Nat.add_zero] at hc
  rcases hpc i with h | ⟨r, h⟩
  · simp only [h, expected] at hc
    simp only [h, retOf, reqOK, List.isEmpty_iff]
    exact List.eq_nil_of_length_eq_zero (by omega)
  · rw [h] at hc
    cases r with
    | ok =>
      simp only [expected] at hc
      simp only [h, retOf, reqOK, Bool.and_eq_true, beq_iff_eq, List.all_eq_true, Bool.or_eq_true]
      refine ⟨by omega, fun c hcm => ?_⟩
      rcases hown c hcm with rfl | rfl <;> simp
    | dup =>
      simp only [expected] at hc
      simp only [h, retOf, reqOK, List.isEmpty_iff]
      exact List.eq_nil_of_length_eq_zero (by omega)
    | err e =>
      simp only [expected] at hc
      simp only [h, retOf, reqOK, List.isEmpty_iff]
      exact List.eq_nil_of_length_eq_zero (by omega)

/-- **own_response.**  At any moment of any run: a response named `m` is only ever handed to the
callback of a request whose own test name is `m`. -/
theorem own_response (names : Nat → Name) (evs : List Event) (i : Nat) (m : Name)
    (h : (i, some m) ∈ (run names init evs).fired) : m = names i :=
  (reachable_inv names evs).own (i, some m) h m rfl

/-- **answered_iff_own.**  In a terminal state an accepted request received its own response if
the reader matched a response of the client with it (ghost log `matched`: the client answered it
while it was pending), and an error otherwise. -/
theorem answered_iff_own (names : Nat → Name) (evs : List Event) (i : Nat)
    (ht : Terminal (run names init evs)) (hok : (run names init evs).spc i = .ret .ok) :
    cbsOf (run names init evs) i =
      if i ∈ (run names init evs).matched then [some (names i)] else [none] := by
  have hinv := reachable_inv names evs
  have h1 := exactly_once names evs i ht
  generalize run names init evs = s at *
  obtain ⟨hd, _⟩ := ht
  have ha := hinv.ans i
  simp only [firingCount, hd, Nat.add_zero] at ha
  simp only [hok, retOf, reqOK, Bool.and_eq_true, beq_iff_eq, List.all_eq_true, Bool.or_eq_true] at h1
  obtain ⟨hlen, hall⟩ := h1
  have hsc : someCount s.fired i = ((cbsOf s i).filter (·.isSome)).length := by
    simp only [someCount, cbsOf, List.filter_map, List.length_map, List.filter_filter]
    congr 1
    apply List.filter_congr
    intro x _
    simp [Bool.and_comm]
  have hmc : i ∈ s.matched ↔ 0 < matchCount s.matched i := by
    simp only [matchCount, List.length_pos_iff_exists_mem, List.mem_filter, beq_iff_eq]
    constructor
    · intro h; exact ⟨i, h, rfl⟩
    · rintro ⟨x, hx, rfl⟩; exact hx
  match hcb : cbsOf s i, hlen with
  | [c], _ =>
    rw [hcb] at hsc hall
    have hc := hall c (by simp)
    cases c with
    | none =>
      have : ¬ i ∈ s.matched := by
        rw [hmc]; simp at hsc; omega
      simp [this]
    | some m =>
      have hm : m = names i := by simpa using hc
      have : i ∈ s.matched := by
        rw [hmc]; simp at hsc; omega
      simp [this, hm]

/-- **after_failure (sends refused).**  Once the reader has shut the send side (it has read the end
of the stream or failed on it), a `sendRequest` that starts afterwards can only return an error:
it never registers, never gets a callback — whatever happens later. -/
theorem after_failure_refused (names : Nat → Name) (evs evs' : List Event) (i : Nat)
    (hclosed : readerClosed (run names init evs).rpc = true)
    (hidle : (run names init evs).spc i = .idle) :
    let s' := run names (run names init evs) evs'
    (s'.spc i = .idle ∨ s'.spc i = .waitLock ∨ ∃ e, s'.spc i = .ret (.err e)) ∧ cbsOf s' i = [] := by
  intro s'
  have hinv := reachable_inv names evs
  have hr : Refused i s' :=
    run_preserves names (Refused i) (fun s s' e hi h hs => refused_step names i s s' e hi h hs) evs'
      _ hinv ⟨hclosed, Or.inl hidle⟩
  have hinv' : Inv names s' := run_inv names evs' _ hinv
  refine ⟨hr.2, ?_⟩
  have hc := hinv'.cnt i
  have hz : expected (s'.spc i) = 0 := by
    rcases hr.2 with h | h | ⟨e, h⟩ <;> simp [h, expected]
  have hlen : (cbsOf s' i).length = firedCount s' i := by simp [cbsOf, firedCount]
  exact List.eq_nil_of_length_eq_zero (by omega)

/-- **after_failure (not running).**  Whenever the reader has aborted the client (any failure other
than a clean end of stream) or the exit of the process has been noticed, `isRunning()` is false —
and it stays false (nothing ever stores `false`).  (On the unrepaired code the exit hook stored
`false`: finding F04.) -/
theorem after_failure_not_running (names : Nat → Name) (evs : List Event)
    (h : (run names init evs).aborted = true ∨ (run names init evs).hookRan = true) :
    isRunning (run names init evs) = false := by
  have key : ∀ (evs : List Event) (s : State),
      (Stopped s ∧ (s.rpc = .failAbort → s.terminated = true)) →
      (Stopped (run names s evs) ∧ ((run names s evs).rpc = .failAbort → (run names s evs).terminated = true)) := by
    intro evs
    induction evs with
    | nil => intro s h; exact h
    | cons e es ih =>
      intro s h
      simp only [run]
      split
      · rename_i s' hs; exact ih s' (stopped_step names s s' e h hs)
      · exact ih s h
  have := (key evs init ⟨by simp [Stopped, init], by simp [init]⟩).1 h
  simp [isRunning, this]

/-- **after_failure (not running as soon as the failure is reported).**  The runner does not wait
for the client process to go away: whatever the process does after the failure (it may linger for
any time, `pExit` is an event of the environment that need never come) — once later sends are
refused with the reader's reason (`c.err` holds it) `isRunning()` is false, the single atomic step
between the two stores excepted. -/
theorem failure_reported_not_running (names : Nat → Name) (evs : List Event)
    (herr : (run names init evs).err = some .fail) (hpc : (run names init evs).rpc ≠ .failTerm) :
    isRunning (run names init evs) = false := by
  have hr : Reported (run names init evs) :=
    run_preserves names Reported (fun s s' e _ h hs => reported_step names s s' e h hs) evs init
      (reachable_inv names []) (by simp [Reported, init])
  rcases hr herr with h | h
  · exact absurd h hpc
  · simp [isRunning, h]

/-- **after_failure (error callbacks see a stopped client).**  The completion callbacks that report
a failure of the output stream are invoked by the final drain, which comes after the abort: at
that moment — and when the reader has finished (`waitForResponses` passes `<-c.done`) —
`isRunning()` is already false, although the process may still be there (no hypothesis on `proc`). -/
theorem failure_callbacks_not_running (names : Nat → Name) (evs : List Event)
    (hab : (run names init evs).aborted = true)
    (_hpc : (run names init evs).rpc = .draining ∨ (run names init evs).rpc = .done) :
    isRunning (run names init evs) = false :=
  after_failure_not_running names evs (Or.inl hab)

/-- The exit of the process is always noticed: the hook is enabled until it has run. -/
theorem exit_hook_enabled (names : Nat → Name) (s : State) (h : s.proc ≠ .running) (hr : s.hookRan = false) :
    (step names s .pHook).isSome = true := by
  simp [step, h, hr]

/-- **after_failure (wait returns) / no_deadlock.**  In every reachable state in which the client
process has exited (or was killed after an abort), as long as the terminal state is not reached
some step of the runner's own goroutines is enabled: a blocked write fails, a waiting sender gets
`sendMu` or its holder can move, the reader reads the end of stream and runs its shutdown
sequence (`closeSend` needs `sendMu`, whose holder can always move: lock order sendMu → pendingMu).
In the terminal state `waitForResponses` is enabled. -/
theorem no_deadlock (names : Nat → Name) (evs : List Event)
    (hex : (run names init evs).proc ≠ .running) (hnt : ¬ Terminal (run names init evs)) :
    ∃ e : Event, e.internal = true ∧ (step names (run names init evs) e).isSome = true := by
  have hinv := reachable_inv names evs
  generalize run names init evs = s at *
  cases hmu : s.sendMu with
  | some i =>
    have hh := (hinv.mu i).mpr hmu
    cases hp : s.spc i with
    | locked => exact ⟨.sRegister i, rfl, by simp only [step, hp]; cases lookup s.pending (names i) <;> simp⟩
    | writing => exact ⟨.sWriteFail i, rfl, by simp only [step, hp]; cases lookup s.pending (names i) <;> simp [hex]⟩
    | failed => exact ⟨.sSetErr i, rfl, by simp [step, hp]⟩
    | idle => simp [hp, holds] at hh
    | waitLock => simp [hp, holds] at hh
    | ret r => simp [hp, holds] at hh
  | none =>
    by_cases hw : ∃ i, s.spc i = .waitLock
    · obtain ⟨i, hi⟩ := hw
      exact ⟨.sLock i, rfl, by simp only [step, hi, hmu]; cases s.closedSend <;> simp⟩
    · have hall : ∀ i, s.spc i = .idle ∨ ∃ r, s.spc i = .ret r := by
        intro i
        have hn : ¬ holds (s.spc i) = true := fun hh => by
          have := (hinv.mu i).mp hh; rw [hmu] at this; cases this
        cases hp : s.spc i with
        | idle => exact Or.inl rfl
        | ret r => exact Or.inr ⟨r, rfl⟩
        | waitLock => exact absurd ⟨i, hp⟩ hw
        | locked => simp [hp, holds] at hn
        | writing => simp [hp, holds] at hn
        | failed => simp [hp, holds] at hn
      cases hr : s.rpc with
      | done => exact absurd ⟨hr, hall⟩ hnt
      | reading => exact ⟨.rRecvEOF, rfl, by simp [step, hr, hex]⟩
      | got m => exact ⟨.rLookup, rfl, by simp only [step, hr]; cases lookup s.pending m <;> simp⟩
      | firing j m => exact ⟨.rFire, rfl, by simp [step, hr]⟩
      | failErr => exact ⟨.rSetErr, rfl, by simp [step, hr]⟩
      | failTerm => exact ⟨.rTerminate, rfl, by simp [step, hr]⟩
      | failAbort => exact ⟨.rAbort, rfl, by simp [step, hr]⟩
      | closing => exact ⟨.rCloseSend, rfl, by simp [step, hr, hmu]⟩
      | draining => exact ⟨.rDrain, rfl, by simp [step, hr]⟩
      | finishing => exact ⟨.rDone, rfl, by simp [step, hr]⟩

/-- **no_deadlock (termination).**  Every step of the runner's own goroutines strictly decreases
the measure `mu ids` (sum of the remaining own steps of the calls in `ids` and of the reader), for
any duplicate-free list `ids` that contains the acting call: together with `no_deadlock`, after the
client is gone at most `mu ids s` further steps lead to the terminal state — no livelock. -/
theorem steps_terminate (names : Nat → Name) (ids : List Nat) (hn : ids.Nodup) (s s' : State) (e : Event)
    (hint : e.internal = true) (hact : ∀ i, e.actor = some i → i ∈ ids)
    (hs : step names s e = some s') : mu ids s' < mu ids s :=
  internal_step_decreases names ids hn s s' e hint hact hs

/-- In the terminal state `waitForResponses` returns. -/
theorem wait_returns (s : State) (ht : Terminal s) : waitEnabled s = true := by
  simp [waitEnabled, ht.1]

/-- **A response is never written after the hand-over.**  The log of (request, response) pairs
handed to completion callbacks only grows: whatever happens after a callback was invoked — later
answers in any order, failures, the final drain — every pair observed at call time is still there,
unchanged and in the same order, when the scenario has ended (`fired` is a log, newest first).  So
what a consumer that RETAINS the responses sees at the end is what each callback saw when it was
called; with `own_response`: each is still that test's own response.  (For the code this is the
aliasing-freedom contract of `consumeOutput`: a fresh message per iteration; a reader that decodes
every response into one message object hands all callbacks the same pointer, and a kept response
turns into a later test's answer.) -/
theorem handed_over_is_final (names : Nat → Name) (evs evs' : List Event) :
    ∃ later, (run names init (evs ++ evs')).fired = later ++ (run names init evs).fired := by
  rw [run_append]
  exact run_fired_suffix names evs' _

/-- … per request: the values a retaining consumer finds at the end for request `i` end with the
values its callback was called with so far. -/
theorem handed_over_is_final_per_request (names : Nat → Name) (evs evs' : List Event) (i : Nat) :
    ∃ later, cbsOf (run names init (evs ++ evs')) i = later ++ cbsOf (run names init evs) i := by
  obtain ⟨l, h⟩ := handed_over_is_final names evs evs'
  exact ⟨(l.filter (fun f => f.1 == i)).map (·.2), by simp [cbsOf, h]⟩

/-! ### a garbled length prefix is a failure of the stream like any other — never the end of the runner -/

/-- **Top bit set.**  Whatever the client writes where the reader expects a length prefix: if the
first byte is ≥ 0x80 (a UTF-8 byte-order mark, non-ASCII or UTF-16 text, a check mark, 0x80000000,
0xffffffff, binary noise) the reader at the client's call site (limit 16 MB) reports "too large"
with the unsigned big-endian value of the four bytes — a value the reader goroutine hands to its
shutdown sequence (`rRecvBad`), having taken exactly those four bytes and allocated nothing but the
prefix buffer, however the bytes are split over reads and whatever follows.  (The size is never
negative: C09 `prefix_size_total`.) -/
theorem garbled_prefix_is_a_stream_failure (b0 b1 b2 b3 : UInt8) (hb : 128 ≤ b0.toNat)
    (rest : Delimited.Bytes) (caps : List Nat) (e : Delimited.Ending) :
    ∃ caps', Delimited.readAt .client ⟨b0 :: b1 :: b2 :: b3 :: rest, caps, e⟩ =
      ⟨.tooLarge (Delimited.be32 [b0, b1, b2, b3]), ⟨rest, caps', e⟩, [4]⟩ := by
  apply Delimited.readMessage_tooLarge Delimited.Site.client.limit (b0 :: b1 :: b2 :: b3 :: rest) caps e (by simp)
  simp only [Delimited.Site.limit, Delimited.be32, List.foldl_cons, List.foldl_nil, List.take_succ_cons, List.take_zero]
  omega

/-- **… and such a failure settles everything.**  In any reachable state in which the reader is
waiting for the next message and no `sendRequest` is in progress (any history: any requests sent,
any answers received so far, the failing bytes at any position of the stream), the reader's shutdown
sequence runs through without waiting for anybody: the state is terminal, every accepted request
has exactly one callback (its own response if it was answered before, an error otherwise), a refused
one none, `c.err` is set (later sends are refused: `after_failure_refused`), the client was aborted
and `isRunning()` is false — with no hypothesis on the client process. -/
theorem stream_failure_settles (names : Nat → Name) (evs : List Event)
    (hr : (run names init evs).rpc = .reading)
    (hq : ∀ i, (run names init evs).spc i = .idle ∨ ∃ r, (run names init evs).spc i = .ret r) :
    let s' := run names init (evs ++ failSeq)
    Terminal s' ∧ isRunning s' = false ∧ s'.aborted = true ∧ s'.err ≠ none ∧ waitEnabled s' = true ∧
      ∀ i, reqOK (names i) (retOf (s'.spc i)) (cbsOf s' i) = true := by
  intro s'
  have hst := failSeq_state names _ (reachable_inv names evs) hr hq
  have hs' : s' = run names (run names init evs) failSeq := run_append names evs failSeq init
  rw [← hs'] at hst
  obtain ⟨hd, hpc, ht, ha, he⟩ := hst
  have hterm : Terminal s' := ⟨hd, fun i => by rw [hpc]; exact hq i⟩
  refine ⟨hterm, by simp [isRunning, ht], ha, ?_, by simp [waitEnabled, hd], fun i => exactly_once names (evs ++ failSeq) i hterm⟩
  rw [he]; cases (run names init evs).err <;> simp [casErr]

/-! ### waiting for completion returns — whatever the client process does

`no_deadlock` above is relative to the process having exited.  `waitForResponses` itself must not
depend on that: a client may sit for ever in a write on its output, which the reader stopped reading
after the first message it could not accept (an in-process client cannot be killed: `abort()` only
cancels a context).  The model of `waitForResponses` and of the two `result()` implementations
(`Model/ClientRunner.lean`, `WSt`/`wstep`) has the end of the process as an event of the environment
(`pGone`) that need never come. -/

/-- **waitForResponses is never left waiting for the process.**  For an in-process client and for
an OS process, in every state reached by any event list (the reader finishing at any time, the process
ending at any time **or never**, timers firing in any order): once the output reader has finished
and until `waitForResponses` has returned, a step of the runner's own is enabled — `<-c.done` passes,
the 3 s timer fires and aborts, `result()` gives up after `gracefulShutdownPeriod` (in-process) or the
abort goroutine gives up after closing the pipes (OS process), the result is received. -/
theorem wait_never_left_waiting (cfg : WaitCfg) (hb : cfg.localResultBounded = true) (evs : List WEv) :
    let s := wrun cfg winit evs
    s.readerDone = true → s.wpc ≠ .returned → ∃ e, e.internal = true ∧ (wstep cfg s e).isSome = true := by
  intro s hd hr
  have hinv : WInv s := winv_run cfg evs _ winv_init
  obtain ⟨e, he, hen⟩ := wprogress cfg hb s hinv hd hr
  exact ⟨e, wown_internal e he, hen⟩

/-- … and each of these steps lowers the measure `wmu`: at most `wmu s ≤ 7` of them happen. -/
theorem wait_steps_terminate (cfg : WaitCfg) (evs : List WEv) (s' : WSt) (e : WEv) (hi : e.internal = true)
    (hs : wstep cfg (wrun cfg winit evs) e = some s') : wmu s' < wmu (wrun cfg winit evs) :=
  wstep_lt cfg _ s' e hi (winv_run cfg evs _ winv_init) hs

/-- **waiting for completion returns** although the client process never ends: from any reachable
state with the reader finished, the runner's own steps alone (`wsettle`, no `pGone`) take
`waitForResponses` to its return. -/
theorem wait_returns_without_exit (cfg : WaitCfg) (hb : cfg.localResultBounded = true) (evs : List WEv) :
    let s := wrun cfg winit evs
    s.readerDone = true → (wsettle cfg s (wmu s)).wpc = .returned := by
  intro s hd
  exact wsettle_returns cfg hb (wmu s) s (winv_run cfg evs _ winv_init) hd (Nat.le_refl _)

/-- What the bound in `localProcess.result()` is for: if it only waited for the client function to
return, a wedged in-process client would leave `waitForResponses` (and `stop`) blocked for ever — the
reader has finished, the 3 s timer has fired, the client was aborted, and no step but the end of the
process is enabled.  An OS process does not need that bound (its abort goroutine gives up). -/
theorem result_must_be_bounded :
    (wrun waitUnbounded winit [.rDone, .passDone, .tGrace, .t3s]).wpc = .prodded ∧
    (∀ e : WEv, e ≠ .pGone → wstep waitUnbounded (wrun waitUnbounded winit [.rDone, .passDone, .tGrace, .t3s]) e = none) ∧
    (wsettle (waitCode .inProcess) (wrun (waitCode .inProcess) winit [.rDone, .passDone, .tGrace, .t3s]) 2).wpc = .returned ∧
    (wsettle { kind := .osProcess, localResultBounded := false } (wrun { kind := .osProcess, localResultBounded := false } winit [.rDone]) 7).wpc = .returned := by
  refine ⟨by decide, fun e he => by cases e <;> first | decide | exact absurd rfl he, by decide, by decide⟩

/-- As long as the process runs it can exit (the environment is never blocked by the runner). -/
theorem exit_enabled (names : Nat → Name) (s : State) (h : s.proc = .running) :
    (step names s (.pExit 1)).isSome = true := by
  simp [step, h]

/-- **duplicate_rejected.**  A send of a test name that is still pending returns `errDuplicate`
and disturbs nothing: the pending table, the callback log and every other send are unchanged (so
the first request still gets exactly one callback by `exactly_once`). -/
theorem duplicate_rejected (names : Nat → Name) (s : State) (i : Nat) (e : Name × Nat)
    (hl : s.spc i = .locked) (he : e ∈ s.pending) (hn : e.1 = names i) :
    ∃ s', step names s (.sRegister i) = some s' ∧ s'.spc i = .ret .dup ∧
      s'.pending = s.pending ∧ s'.fired = s.fired ∧ ∀ j, j ≠ i → s'.spc j = s.spc j := by
  have : lookup s.pending (names i) ≠ none := by
    intro h; exact lookup_none h e he hn
  simp only [step, hl, if_true]
  split
  · exact ⟨_, rfl, by simp, rfl, rfl, fun j hj => by simp [hj]⟩
  · contradiction

/-! ### non-vacuity: concrete schedules -/

/-- request 0 answered with its own response, clean exit: a terminal state with one callback. -/
def demoOk : List Event :=
  [.sStart 0, .sLock 0, .sRegister 0, .sWriteOk 0, .rRecv 7, .rLookup, .rFire, .uCloseSend,
   .pExit 0, .rRecvEOF, .rCloseSend, .rDrain, .rDone, .pHook]

example : (run (fun _ => 7) init demoOk).rpc = .done ∧ (run (fun _ => 7) init demoOk).spc 0 = .ret .ok ∧
    cbsOf (run (fun _ => 7) init demoOk) 0 = [some 7] ∧ (run (fun _ => 7) init demoOk).matched = [0] ∧
    isRunning (run (fun _ => 7) init demoOk) = false := by decide

example : Terminal (run (fun _ => 7) init demoOk) := by
  refine ⟨by decide, fun i => ?_⟩
  by_cases h : i = 0
  · subst h; exact Or.inr ⟨.ok, by decide⟩
  · left
    have : ∀ (evs : List Event) (s : State), s.spc i = .idle →
        (∀ e ∈ evs, ∀ s, s.spc i = .idle → ∀ s', step (fun _ => 7) s e = some s' → s'.spc i = .idle) →
        (run (fun _ => 7) s evs).spc i = .idle := by
      intro evs
      induction evs with
      | nil => intro s hs _; exact hs
      | cons e es ih =>
        intro s hs hall
        simp only [run]
        split
        · rename_i s' hst
          exact ih s' (hall e (by simp) s hs s' hst) (fun e' he' => hall e' (by simp [he']))
        · exact ih s hs (fun e' he' => hall e' (by simp [he']))
    apply this demoOk init rfl
    intro e he s hs s' hst
    simp only [demoOk, List.mem_cons, List.not_mem_nil, or_false] at he
    rcases he with rfl | rfl | rfl | rfl | rfl | rfl | rfl | rfl | rfl | rfl | rfl | rfl | rfl | rfl <;>
      simp only [step] at hst <;> (repeat' split at hst) <;>
      first
      | (injection hst with hst; subst hst; simp [h, hs])
      | cases hst

/-- two requests; the client answers request 1 only, then writes garbage: request 0 gets an error,
a third send that starts after the failure is refused. -/
def demoFail : List Event :=
  [.sStart 0, .sLock 0, .sRegister 0, .sWriteOk 0, .sStart 1, .sLock 1, .sRegister 1, .sWriteOk 1,
   .rRecv 11, .rLookup, .rFire, .rRecvBad, .rSetErr, .rTerminate, .rAbort, .pExit 1, .rCloseSend, .rDrain,
   .rDone, .sStart 2]

def demoNames : Nat → Name := fun i => 10 + i

example : let s := run demoNames init demoFail
    s.rpc = .done ∧ s.spc 0 = .ret .ok ∧ s.spc 1 = .ret .ok ∧ s.spc 2 = .ret (.err .fail) ∧
    cbsOf s 0 = [none] ∧ cbsOf s 1 = [some 11] ∧ cbsOf s 2 = [] ∧ isRunning s = false ∧ s.aborted = true := by
  decide

/-- the hypotheses of `failure_reported_not_running` / `failure_callbacks_not_running` are
satisfiable with a client that lingers: garbage, the runner aborts, the process never exits — the
pending request is failed by the drain while `proc = running`, and `isRunning()` is false. -/
def demoLinger : List Event :=
  [.sStart 0, .sLock 0, .sRegister 0, .sWriteOk 0, .rRecvBad, .rSetErr, .rTerminate, .rAbort, .rCloseSend]

example : let s := run demoNames init demoLinger
    s.err = some .fail ∧ s.rpc = .draining ∧ s.aborted = true ∧ s.proc = .running ∧ s.hookRan = false ∧
    isRunning s = false ∧ (step demoNames s .rDrain).map (fun s' => cbsOf s' 0) = some [none] := by
  decide

/-- the hypotheses of `after_failure_refused` are satisfiable -/
example : readerClosed (run demoNames init (demoFail.take 19)).rpc = true ∧
    (run demoNames init (demoFail.take 19)).spc 2 = .idle := by decide

/-- the hypotheses of `no_deadlock` are satisfiable (process exited, reader still reading) -/
example : (run demoNames init (demoFail.take 8 ++ [.pExit 0])).proc ≠ .running ∧
    (run demoNames init (demoFail.take 8 ++ [.pExit 0])).rpc = .reading := by decide

/-- `steps_terminate` on a concrete step: reading the end of stream lowers the measure from 9 to 5 -/
example : mu [0, 1] (run demoNames init (demoFail.take 8 ++ [.pExit 0])) = 9 ∧
    (step demoNames (run demoNames init (demoFail.take 8 ++ [.pExit 0])) .rRecvEOF).map (mu [0, 1]) = some 5 := by
  decide

/-- duplicate name: the second send of name 5 while the first is pending is rejected -/
example : let s := run (fun _ => 5) init [.sStart 0, .sLock 0, .sRegister 0, .sWriteOk 0, .sStart 1, .sLock 1, .sRegister 1]
    s.spc 0 = .ret .ok ∧ s.spc 1 = .ret .dup ∧ s.pending = [(5, 0)] := by decide

/-- the write of request 0 fails after the client has (blindly) answered it: `sendRequest` still
returns nil and the callback fired once — the "concurrently removed" branch. -/
example : let s := run (fun _ => 5) init [.sStart 0, .sLock 0, .sRegister 0, .rRecv 5, .rLookup, .rFire, .pExit 0,
      .sWriteFail 0, .rRecvEOF, .rCloseSend, .rDrain, .rDone]
    s.rpc = .done ∧ s.spc 0 = .ret .ok ∧ cbsOf s 0 = [some 5] := by decide

/-- the write fails and the entry is still there: error returned, no callback, `err` latched. -/
example : let s := run (fun _ => 5) init [.sStart 0, .sLock 0, .sRegister 0, .pExit 0,
      .sWriteFail 0, .sSetErr 0, .rRecvEOF, .rCloseSend, .rDrain, .rDone, .sStart 1]
    s.rpc = .done ∧ s.spc 0 = .ret (.err .closed) ∧ cbsOf s 0 = [] ∧ s.spc 1 = .ret (.err .closed) := by decide

/-- `garbled_prefix_is_a_stream_failure` / `stream_failure_settles`: a UTF-8 byte-order mark where the
second response should start; two requests accepted, the first answered: its own response, the
second an error, terminal, not running -/
example : 128 ≤ (0xef : UInt8).toNat ∧
    (Delimited.readAt .client ⟨[0xef, 0xbb, 0xbf, 0x4c, 0x69], [1, 1, 1, 1], .eofSeparate⟩).res = .tooLarge 4022058828 ∧
    (Delimited.readAt .client ⟨[0xff, 0xff, 0xff, 0xff], [], .stall⟩).res = .tooLarge 4294967295 := by decide
example : let evs := demoFail.take 11
    (run demoNames init evs).rpc = .reading ∧ (run demoNames init evs).spc 0 = .ret .ok ∧ (run demoNames init evs).spc 1 = .ret .ok ∧
    cbsOf (run demoNames init (evs ++ failSeq)) 0 = [none] ∧ cbsOf (run demoNames init (evs ++ failSeq)) 1 = [some 11] ∧
    (run demoNames init (evs ++ failSeq)).rpc = .done ∧ isRunning (run demoNames init (evs ++ failSeq)) = false := by decide

/-- `handed_over_is_final`: request 1 answered first, then request 0 fails: the pair (1, own response)
seen at call time is still the last entry of the log at the end -/
example : (run demoNames init (demoFail.take 11)).fired = [(1, some 11)] ∧
    (run demoNames init demoFail).fired = [(0, none), (1, some 11)] := by decide

/-- the hypotheses of `wait_never_left_waiting` / `wait_returns_without_exit` are satisfiable: the
reader has finished, the client never ends; for both kinds of process seven own steps at most lead
to the return, the in-process one through the grace timer of `result()` -/
example : (waitCode .inProcess).localResultBounded = true ∧ (wrun (waitCode .inProcess) winit [.rDone]).readerDone = true ∧
    (wrun (waitCode .inProcess) winit [.rDone]).wpc = .waitDone ∧ wmu (wrun (waitCode .inProcess) winit [.rDone]) = 7 ∧
    (wsettle (waitCode .inProcess) (wrun (waitCode .inProcess) winit [.rDone]) 7).wpc = .returned ∧
    (wsettle (waitCode .inProcess) (wrun (waitCode .inProcess) winit [.rDone]) 7).procGone = false ∧
    (wsettle (waitCode .osProcess) (wrun (waitCode .osProcess) winit [.rDone]) 7).wpc = .returned := by decide
/-- `wait_steps_terminate` on a concrete step: the 3 s timer lowers the measure from 6 to 5 -/
example : WEv.t3s.internal = true ∧ wmu (wrun (waitCode .inProcess) winit [.rDone, .passDone]) = 6 ∧
    (wstep (waitCode .inProcess) (wrun (waitCode .inProcess) winit [.rDone, .passDone]) .t3s).map wmu = some 5 := by decide
/-- a client that ends by itself: no timer is needed -/
example : (wrun (waitCode .inProcess) winit [.pGone, .rDone, .passDone, .deliver, .gotResult]).wpc = .returned ∧
    (wrun (waitCode .inProcess) winit [.pGone, .rDone, .passDone, .deliver, .gotResult]).aborted = false := by decide

end ConfModel.Props.C10
