/-
Helper lemmas for `ConfModel.Model.ReportMsg`: erasing the texts commutes with every operation of
`results.go`, and `report` classifies an error value exactly as it classifies its text-free view.
-/
import ConfModel.Model.ReportMsg
import ConfModel.Lemmas.ReportScript
namespace ConfModel.ReportMsg
open ConfModel.Report ConfModel.RunVerdict

/-! ### maps -/

theorem mapVals_put {α β : Type} (f : α → β) (l : List (String × α)) (n : String) (v : α) :
    mapVals f (put l n v) = put (mapVals f l) n (f v) := by
  induction l with
  | nil => simp [mapVals, put]
  | cons e t ih =>
    obtain ⟨m, w⟩ := e
    by_cases h : m = n
    · simp [mapVals, put, h]
    · simp only [mapVals] at ih
      simp [mapVals, put, h, ih]

theorem get?_mapVals {α β : Type} (f : α → β) (l : List (String × α)) (n : String) :
    get? (mapVals f l) n = (get? l n).map f := by
  induction l with
  | nil => simp [mapVals, get?]
  | cons e t ih =>
    obtain ⟨m, w⟩ := e
    by_cases h : m = n
    · simp [mapVals, get?, h]
    · simp only [mapVals] at ih
      simp [mapVals, get?, h, ih]

theorem length_mapVals {α β : Type} (f : α → β) (l : List (String × α)) : (mapVals f l).length = l.length := by
  simp [mapVals]

/-! ### error values -/

theorem erase_couldNotRun_iff (e : Err) : e.erase = .couldNotRun ↔ e.isCouldNotRun = true := by
  induction e with
  | leaf o t => cases o <;> simp [Err.erase, Err.isCouldNotRun, originFail]
  | couldNotRun i _ => simp [Err.erase, Err.isCouldNotRun]
  | wrap t i ih => simpa [Err.erase, Err.isCouldNotRun] using ih

/-- an error value is an error whatever its text: its text-free view is never "no failure" -/
theorem erase_ne_none (e : Err) : e.erase ≠ .none := by
  induction e with
  | leaf o t => cases o <;> simp [Err.erase, originFail]
  | couldNotRun i _ => simp [Err.erase]
  | wrap t i ih => simpa [Err.erase] using ih

theorem classify_erase (o : MOutcome) : classify o = Report.classify o.erase := by
  obtain ⟨f, s, a, b⟩ := o
  cases f with
  | none => cases s <;> cases a <;> cases b <;> rfl
  | some e =>
    have hn := erase_ne_none e
    by_cases hc : e.isCouldNotRun = true
    · have he := (erase_couldNotRun_iff e).2 hc
      simp [classify, Report.classify, MOutcome.erase, eraseFailure, hc, he]
    · have he : e.erase ≠ .couldNotRun := fun h => hc ((erase_couldNotRun_iff e).1 h)
      have hc' : e.isCouldNotRun = false := by simpa using hc
      cases s <;> cases a <;> cases b <;>
        simp [classify, Report.classify, Report.expectError, MOutcome.erase, eraseFailure, hc', he, hn]

/-! ### the operations -/

theorem erase_setOutcome (mk : Marks) (os : MOutcomes) (n : String) (s : Bool) (e : Option Err) :
    eraseAll (setOutcome mk os n s e) = Report.setOutcome mk (eraseAll os) n s (eraseFailure e) := by
  simp [eraseAll, setOutcome, Report.setOutcome, mapVals_put, MOutcome.erase]

theorem erase_failedToStart (mk : Marks) (ns : List String) (e : Err) :
    ∀ os, eraseAll (failedToStart mk os ns e) = Report.failedToStart mk (eraseAll os) ns e.erase := by
  induction ns with
  | nil => intro os; rfl
  | cons n t ih =>
    intro os
    simp only [failedToStart, Report.failedToStart, List.foldl_cons] at ih ⊢
    rw [ih, erase_setOutcome]; rfl

theorem erase_failRemaining (mk : Marks) (ns : List String) (e : Err) :
    ∀ os, eraseAll (failRemaining mk os ns e) = Report.failRemaining mk (eraseAll os) ns e.erase := by
  induction ns with
  | nil => intro os; rfl
  | cons n t ih =>
    intro os
    simp only [failRemaining, Report.failRemaining, List.foldl_cons] at ih ⊢
    have hg : get? (eraseAll os) n = (get? os n).map MOutcome.erase := get?_mapVals _ os n
    cases h : get? os n with
    | some o => rw [hg, h]; simpa using ih os
    | none => rw [hg, h]; simp only [Option.map_none]; rw [ih, erase_setOutcome]; rfl

theorem erase_mergeOne (mk : Marks) (os : MOutcomes) (n msg : String) :
    eraseAll (mergeOne mk os n msg) = Report.mergeOne mk (eraseAll os) n := by
  have hg : get? (eraseAll os) n = (get? os n).map MOutcome.erase := get?_mapVals _ os n
  unfold mergeOne Report.mergeOne
  rw [hg]
  cases h : get? os n with
  | none => simp only [Option.map_none]; rw [erase_setOutcome]; rfl
  | some o =>
    simp only [Option.map_some, eraseAll, mapVals_put]
    congr 1
    obtain ⟨f, s, a, b⟩ := o
    cases f with
    | none => simp [MOutcome.erase, eraseFailure, Err.erase, originFail]
    | some e => simp [MOutcome.erase, eraseFailure, Err.erase, erase_ne_none e]

theorem erase_processSideband (mk : Marks) (sb : Sideband) :
    ∀ os, eraseAll (processSideband mk os sb) = Report.processSideband mk (eraseAll os) sb := by
  induction sb with
  | nil => intro os; rfl
  | cons e t ih =>
    intro os
    simp only [processSideband, Report.processSideband, List.foldl_cons] at ih ⊢
    rw [ih, erase_mergeOne]

/-- `processSidebandInfoLocked` (text-free) looks at the names only -/
theorem processSideband_eraseSb (mk : Marks) (sb : Sideband) :
    ∀ os, Report.processSideband mk os (eraseSb sb) = Report.processSideband mk os sb := by
  induction sb with
  | nil => intro os; rfl
  | cons e t ih =>
    intro os
    simp only [eraseSb, mapVals, List.map_cons, Report.processSideband, List.foldl_cons] at ih ⊢
    exact ih _

theorem count_erase (c : Class) (os : MOutcomes) : count c os = Report.count c (eraseAll os) := by
  simp only [count, Report.count, eraseAll, mapVals, List.countP_map]
  congr 1
  funext e
  simp [classify_erase]

theorem namesOf_erase (p : Class → Bool) (os : MOutcomes) : namesOf p os = Report.namesOf p (eraseAll os) := by
  induction os with
  | nil => rfl
  | cons e t ih =>
    simp only [namesOf, Report.namesOf, eraseAll, mapVals, List.map_cons, List.filter_cons] at ih ⊢
    rw [classify_erase e.2]
    cases p (Report.classify e.2.erase) <;> simp [ih]

/-- the report with the texts = the report without them -/
theorem report_erase (mk : Marks) (total : Nat) (os : MOutcomes) (sb : Sideband) :
    report mk total os sb = Report.report mk total (eraseAll os) (eraseSb sb) := by
  have hp : eraseAll (processSideband mk os sb) = Report.processSideband mk (eraseAll os) (eraseSb sb) := by
    rw [erase_processSideband, processSideband_eraseSb]
  have hl : (processSideband mk os sb).length = (Report.processSideband mk (eraseAll os) (eraseSb sb)).length := by
    rw [← hp]; exact (length_mapVals _ _).symm
  simp only [report, Report.report, Report.reportWith, count_erase, namesOf_erase, hp, hl]

/-! ### the call script -/

theorem erase_applyKind (mk : Marks) (os : MOutcomes) (c : Case) (msg : String) :
    eraseAll (applyKind mk os c msg) = Report.applyKind mk (eraseAll os) c := by
  unfold applyKind Report.applyKind
  cases c.kind <;> simp only [] <;>
    first
    | rfl
    | (rw [erase_setOutcome]; rfl)
    | (rw [erase_failedToStart]; rfl)

theorem eraseSb_record (sb : Sideband) (n msg : String) :
    eraseSb (recordSideband sb n msg) = recordSideband (eraseSb sb) n feedbackMsg := by
  simp [eraseSb, recordSideband, mapVals_put]

theorem erase_stepOne (mk : Marks) (st : MOutcomes × Sideband) (m : MStep) :
    (eraseAll (stepOne mk st m).1, eraseSb (stepOne mk st m).2) =
      Report.stepOne mk (eraseAll st.1, eraseSb st.2) m.s := by
  simp only [stepOne, Report.stepOne, erase_applyKind]
  cases m.s.c.feedback <;> cases m.s.sbFirst <;> simp [eraseSb_record]

theorem erase_foldl (mk : Marks) (steps : List MStep) :
    ∀ st : MOutcomes × Sideband,
      (eraseAll (steps.foldl (stepOne mk) st).1, eraseSb (steps.foldl (stepOne mk) st).2) =
        (steps.map (·.s)).foldl (Report.stepOne mk) (eraseAll st.1, eraseSb st.2) := by
  induction steps with
  | nil => intro st; rfl
  | cons m t ih =>
    intro st
    simp only [List.foldl_cons, List.map_cons]
    rw [ih, erase_stepOne]

theorem erase_runSteps (mk : Marks) (steps : List MStep) :
    (eraseAll (runSteps mk steps).1, eraseSb (runSteps mk steps).2) = Report.runSteps mk (steps.map (·.s)) := by
  have h := erase_foldl mk steps ([], [])
  have h1 := congrArg Prod.fst h
  have h2 := congrArg Prod.snd h
  simp only [] at h1 h2
  simp only [runSteps, Report.runSteps, erase_failRemaining, h1, h2]
  rfl

end ConfModel.ReportMsg
