/-
C04 / C05 — model of the command line's own decisions (`cmd/connectconformance/main.go`, `run`):
which invocations are refused (and with which message), how the positional arguments are split
into the client and the server command, and what `--port` does to `--max-servers`.

The input is what cobra hands to `run`: the flag values, which flags were given explicitly
(`cobraFlags.Changed`), and the positional arguments.  The checks are modelled in the order of the
code: the first one that fires decides the message.
-/
namespace ConfModel.Cli

structure Args where
  version : Bool := false
  mode : String
  command : List String
  maxServers : Nat := 4
  maxServersGiven : Bool := false
  port : Nat := 0
  portGiven : Bool := false
  parallel : Nat := 64
  parallelGiven : Bool := false
  bindGiven : Bool := false
  tlsCert : String := ""
  tlsCertGiven : Bool := false
  tlsKey : String := ""
  tlsKeyGiven : Bool := false
deriving DecidableEq, Repr, Inhabited

/-- the refusals of `run`, one per `fatal` call, in the order of the code -/
inductive Refusal
  | noCommand | maxServersZero | maxServersWithPort | parallelZero
  | noSeparator | emptyClient | emptyServer | badMode
  | certNotClient | keyNotClient | portNotClient | bindNotClient | parallelNotServer
  | missingKey | missingCert
deriving DecidableEq, Repr, Inhabited

/-- what `run` goes on with when nothing is refused (before files are opened and commands are
looked up): the two commands and the effective number of servers -/
structure Plan where
  client : List String
  server : List String
  maxServers : Nat
  parallel : Nat
deriving DecidableEq, Repr, Inhabited

inductive Outcome
  | version
  | refused (r : Refusal)
  | proceed (p : Plan)
deriving DecidableEq, Repr, Inhabited

/-- `positionOf(command, "----")`: index of the first separator -/
def positionOf : List String → Option Nat
  | [] => none
  | x :: xs => if x = "----" then some 0 else (positionOf xs).map (· + 1)

/-- the `switch flags.mode` block -/
def splitCommand (mode : String) (command : List String) : Except Refusal (List String × List String) :=
  if mode = "client" then .ok (command, [])
  else if mode = "server" then .ok ([], command)
  else if mode = "both" then
    match positionOf command with
    | none => .error .noSeparator
    | some pos =>
      let c := command.take pos
      let s := command.drop (pos + 1)
      if c.isEmpty then .error .emptyClient
      else if s.isEmpty then .error .emptyServer
      else .ok (c, s)
  else .error .badMode

def run (a : Args) : Outcome :=
  if a.version then .version else
  if a.command.isEmpty then .refused .noCommand else
  if a.maxServers = 0 then .refused .maxServersZero else
  if a.port ≠ 0 ∧ a.maxServers > 1 ∧ a.maxServersGiven then .refused .maxServersWithPort else
  let maxServers := if a.port ≠ 0 then 1 else a.maxServers
  if a.parallel = 0 then .refused .parallelZero else
  match splitCommand a.mode a.command with
  | .error r => .refused r
  | .ok (c, s) =>
    if a.mode ≠ "client" ∧ a.tlsCertGiven then .refused .certNotClient else
    if a.mode ≠ "client" ∧ a.tlsKeyGiven then .refused .keyNotClient else
    if a.mode ≠ "client" ∧ a.portGiven then .refused .portNotClient else
    if a.mode ≠ "client" ∧ a.bindGiven then .refused .bindNotClient else
    if a.mode ≠ "server" ∧ a.parallelGiven then .refused .parallelNotServer else
    if a.tlsCert ≠ "" ∧ a.tlsKey = "" then .refused .missingKey else
    if a.tlsCert = "" ∧ a.tlsKey ≠ "" then .refused .missingCert else
    .proceed { client := c, server := s, maxServers := maxServers, parallel := a.parallel }

def Refusal.name : Refusal → String
  | .noCommand => "noCommand" | .maxServersZero => "maxServersZero" | .maxServersWithPort => "maxServersWithPort"
  | .parallelZero => "parallelZero" | .noSeparator => "noSeparator" | .emptyClient => "emptyClient"
  | .emptyServer => "emptyServer" | .badMode => "badMode" | .certNotClient => "certNotClient"
  | .keyNotClient => "keyNotClient" | .portNotClient => "portNotClient" | .bindNotClient => "bindNotClient"
  | .parallelNotServer => "parallelNotServer" | .missingKey => "missingKey" | .missingCert => "missingCert"

end ConfModel.Cli
