/-
Helper lemmas for the C04 theorem `feedback_line_fails` (Props/C04.lean): a feedback line written by
the reference server's printer (`FeedbackLine.prefixLine`: the test name is data in front of `": "`,
never part of a format) anywhere in the server's stderr stream — after any number of complete other
lines, before anything — is recorded by the batch runner's reader for that test case, and shows up
among the `recordSideband` calls of the batch (`RunLoop.notesOf`).
-/
import ConfModel.Lemmas.FeedbackLine
import ConfModel.Lemmas.RunLoop
namespace ConfModel.FeedbackLine
open ConfModel.ServerRunner

/-- a complete line in front of a stream is the first `ReadString('\n')` result -/
theorem splitLines_line_then (l rest acc : List Char) (h : oneLine l = true) :
    splitLines (l ++ '\n' :: rest) acc = (acc.reverse ++ l ++ ['\n']) :: splitLines rest [] := by
  induction l generalizing acc with
  | nil => simp [splitLines]
  | cons c t ih =>
    have hc : (c == '\n') = false := by
      simp [oneLine] at h
      simp only [beq_eq_false_iff_ne, ne_eq]
      intro e; exact h.1 e.symm
    have ht : oneLine t = true := by simp [oneLine] at h ⊢; exact h.2
    simp only [List.cons_append, splitLines, hc, Bool.false_eq_true, if_false]
    rw [ih (c :: acc) ht]
    simp

/-- the stream made of the complete lines `pre` -/
def streamOf (pre : List (List Char)) : List Char := (pre.map (· ++ ['\n'])).flatten

theorem splitLines_pre (pre : List (List Char)) (hpre : ∀ l ∈ pre, oneLine l = true) (rest : List Char) :
    splitLines (streamOf pre ++ rest) [] = pre.map (· ++ ['\n']) ++ splitLines rest [] := by
  induction pre with
  | nil => simp [streamOf]
  | cons l t ih =>
    have hl := hpre l List.mem_cons_self
    have ht : ∀ x ∈ t, oneLine x = true := fun x hx => hpre x (List.mem_cons_of_mem _ hx)
    have e : streamOf (l :: t) ++ rest = l ++ '\n' :: (streamOf t ++ rest) := by
      simp [streamOf, List.append_assoc]
    rw [e, splitLines_line_then l _ [] hl, ih ht]
    simp

theorem processLines_append_snd (names : List (List Char)) (a b : List (List Char)) :
    (processLines names (a ++ b)).2 = (processLines names a).2 ++ (processLines names b).2 := by
  induction a with
  | nil => simp [processLines]
  | cons l t ih =>
    simp only [List.cons_append, processLines]
    cases lineAct names l <;> simp [ih]

/-- a message that is a line of its own gets exactly one line break from the printer -/
theorem prefixLine_eq (nm text : List Char) (ht : endsClean text = true) :
    prefixLine nm text = (nm ++ ':' :: ' ' :: text) ++ ['\n'] := by
  obtain ⟨t, d, rfl, hd⟩ := endsClean_concat text ht
  have hlast : (nm ++ ':' :: ' ' :: (t ++ [d])).getLast? = some d := by
    have : nm ++ ':' :: ' ' :: (t ++ [d]) = (nm ++ ':' :: ' ' :: t) ++ [d] := by simp
    rw [this, List.getLast?_concat]
  have hdn : (some d == some '\n') = false := by
    have : d ≠ '\n' := by intro e; subst e; revert hd; decide
    simpa using this
  unfold prefixLine
  simp only [hlast, hdn, Bool.false_eq_true, if_false]

/-- the runner's reader makes of the printer's line the `recordSideband(nm, text)` call -/
theorem lineAct_prefixLine (names : List (List Char)) (nm text : List Char)
    (hm : nm ∈ names) (hsep : Spec.noSep nm = true) (hn : startsClean nm = true)
    (ht : endsClean text = true) :
    lineAct names ((nm ++ ':' :: ' ' :: text) ++ ['\n']) = .record nm text := by
  obtain ⟨t, d, rfl, hd⟩ := endsClean_concat text ht
  have htrim : trim (nm ++ ':' :: ' ' :: (t ++ [d]) ++ ['\n']) = nm ++ ':' :: ' ' :: (t ++ [d]) := by
    cases nm with
    | nil =>
      have := trim_clean ':' (' ' :: t) d (by decide) hd
      simpa using this
    | cons c nm' =>
      have hc : isSpace c = false := by simpa [startsClean] using hn
      have := trim_clean c (nm' ++ ':' :: ' ' :: t) d hc hd
      simpa using this
  exact lineAct_recorded names nm (t ++ [d]) hm (by simpa [Spec.noSep] using hsep) _ htrim

/-- the trimmed form of the printer's line for ANY label (in the batch or not) -/
theorem trim_labelled (lbl text : List Char) (hn : startsClean lbl = true) (ht : endsClean text = true) :
    trim ((lbl ++ ':' :: ' ' :: text) ++ ['\n']) = lbl ++ ':' :: ' ' :: text := by
  obtain ⟨t, d, rfl, hd⟩ := endsClean_concat text ht
  cases lbl with
  | nil =>
    have := trim_clean ':' (' ' :: t) d (by decide) hd
    simpa using this
  | cons c nm' =>
    have hc : isSpace c = false := by simpa [startsClean] using hn
    have := trim_clean c (nm' ++ ':' :: ' ' :: t) d hc hd
    simpa using this

/-- **What the reader does with the printer's line is decided by EXACT membership of the label among
the batch's names** — for every label the framing can carry, whether or not it names a case: recorded
for that very label if it is a name of the batch, forwarded as noise otherwise.  Nothing between the
label and the names is normalised (no unescaping, no case folding, no trimming inside). -/
theorem lineAct_label (names : List (List Char)) (lbl text : List Char)
    (hsep : Spec.noSep lbl = true) (hn : startsClean lbl = true) (ht : endsClean text = true) :
    lineAct names ((lbl ++ ':' :: ' ' :: text) ++ ['\n']) =
      if names.contains lbl then .record lbl text else .forward ((lbl ++ ':' :: ' ' :: text) ++ ['\n']) := by
  have htrim := trim_labelled lbl text hn ht
  unfold lineAct
  simp only [htrim]
  have hne : (lbl ++ ':' :: ' ' :: text).isEmpty = false := by cases lbl <;> simp
  simp only [hne, Bool.false_eq_true, if_false]
  rw [splitSep_append lbl text (by simpa [Spec.noSep] using hsep)]

/-- **The printer's line is recorded wherever it stands in the stream.** -/
theorem recorded_in_stream (names : List (List Char)) (nm text : List Char)
    (hm : nm ∈ names) (hsep : Spec.noSep nm = true) (hn : startsClean nm = true) (hnl : oneLine nm = true)
    (ht : endsClean text = true) (htl : oneLine text = true)
    (pre : List (List Char)) (hpre : ∀ l ∈ pre, oneLine l = true) (post : List Char) :
    (nm, text) ∈ (processLines names (splitLines (streamOf pre ++ prefixLine nm text ++ post) [])).2 := by
  have hone : oneLine (nm ++ ':' :: ' ' :: text) = true := by
    simp only [oneLine, List.contains_eq_mem, List.mem_append, List.mem_cons, Bool.not_eq_true',
      decide_eq_false_iff_not] at hnl htl ⊢
    intro h
    rcases h with h | h | h | h
    · exact hnl (by simpa using h)
    · exact absurd h (by decide)
    · exact absurd h (by decide)
    · exact htl (by simpa using h)
  rw [prefixLine_eq nm text ht, List.append_assoc, splitLines_pre pre hpre]
  have e : (nm ++ ':' :: ' ' :: text) ++ ['\n'] ++ post = (nm ++ ':' :: ' ' :: text) ++ '\n' :: post := by simp
  rw [e, splitLines_line_then _ post [] hone, processLines_append_snd]
  apply List.mem_append_right
  simp only [List.reverse_nil, List.nil_append, processLines]
  rw [lineAct_prefixLine names nm text hm hsep hn ht]
  simp

/-! ### the life of a reference server, in phases

`runTestCasesForServer` reads the server's stderr until the server has ENDED (`<-refServerFinished`
after `serverProcess.abort()` and `serverProcess.result()`): what the reader is given is everything the
server printed in all four phases of its life. -/

structure Life where
  /-- after its start, before the first request of the batch is handed to the client -/
  beforeFirst : List (List Char)
  /-- while the batch's requests are being answered -/
  during : List (List Char)
  /-- after the last response of the batch has arrived, before the runner's abort -/
  afterLast : List (List Char)
  /-- between the runner's abort and the end of the server (its graceful shutdown: handlers still
  running, requests finished late, trailers) -/
  shutdown : List (List Char)

def Life.lines (l : Life) : List (List Char) := l.beforeFirst ++ l.during ++ l.afterLast ++ l.shutdown

/-- the stream the runner's reader is given: the pipe stays open until the server has ended -/
def Life.stderr (l : Life) : List Char := streamOf l.lines

/-- what a reader would be given whose pipe is closed at the abort (NOT the runner) -/
def Life.stderrUntilAbort (l : Life) : List Char := streamOf (l.beforeFirst ++ l.during ++ l.afterLast)

theorem streamOf_split (a : List (List Char)) (ln : List Char) (b : List (List Char)) :
    streamOf (a ++ ln :: b) = streamOf a ++ (ln ++ ['\n']) ++ streamOf b := by
  simp [streamOf, List.append_assoc]

end ConfModel.FeedbackLine

namespace ConfModel.RunLoop
open ConfModel.ServerRunner (Script runBatch processLines splitLines)

/-- the `recordSideband` calls of a batch against a started reference server are what the reader
makes of the server's stderr -/
theorem sideband_of_ref (s : Script) (hs : s.startErr = false) (href : s.isRef = true) :
    (runBatch s).sideband = (processLines s.names (splitLines s.stderr [])).2 := by
  unfold runBatch
  simp only [hs, href, Bool.false_eq_true, if_false, if_true]
  (split <;> (try split) <;> (try split) <;> (try split) <;> (try split) <;> rfl)

/-- a recorded feedback line for case i of the batch is a note about that case -/
theorem notesOf_of_recorded (s : Script) (hs : s.startErr = false) (href : s.isRef = true)
    (i : Nat) (nm text : List Char) (hnm : s.names[i]? = some nm)
    (hrec : (nm, text) ∈ (processLines s.names (splitLines s.stderr [])).2) :
    (notesOf s).any (fun e => e.1 == caseName s i) = true := by
  rw [List.any_eq_true]
  refine ⟨(String.ofList nm, String.ofList text), ?_, ?_⟩
  · simp only [notesOf, List.mem_map]
    exact ⟨(nm, text), by rw [sideband_of_ref s hs href]; exact hrec, rfl⟩
  · simp [caseName, List.getD_eq_getElem?_getD, hnm]

end ConfModel.RunLoop
