/-
Declarative statements of C18 ("conversions are lossless"), independent of how the
conversion functions are written.  The driver evaluates these predicates on the
implementation's output; the theorems of `Props/C18.lean` prove them of the model.
-/
import ConfModel.Model.Convert
namespace ConfModel.ConvertSpec
open ConfModel.Convert

/-- a type URL with the default prefix: `type.googleapis.com/` ++ a name without `/` -/
def defaultPrefixed (url : Str) : Bool :=
  anyPrefix.isPrefixOf url && !((url.drop anyPrefix.length).contains '/')

def DefaultPrefixed (e : ProtoErr) : Bool := e.details.all (fun d => defaultPrefixed d.url)

/-- "preserves its code, message and every detail (type and bytes)" -/
def sameError (a b : ProtoErr) : Bool :=
  a.code == b.code && a.getMessage == b.getMessage && a.details == b.details

/-- the type URL names the message type `n`: `n` is what follows the LAST slash, whatever stands
in front of it, or the URL has no slash and is `n` -/
def urlNames (url n : Str) : Bool := !n.contains '/' && (url == n || ('/' :: n).isSuffixOf url)

/-- a detail after a passage through the Connect form: the bytes are the same and the type URL
is the default prefix in front of the type the original URL names (any prefix, or none) -/
def detailRestored (orig out : Detail) : Bool :=
  out.value == orig.value && anyPrefix.isPrefixOf out.url && urlNames orig.url (out.url.drop anyPrefix.length)

def detailsRestored : List Detail → List Detail → Bool
  | [], [] => true
  | a :: as, b :: bs => detailRestored a b && detailsRestored as bs
  | _, _ => false

/-- "preserves its code, message and every detail (type and bytes)" for details with ANY type
URL prefix: the type a URL names and the bytes survive (the prefix is normalised) -/
def sameErrorTypes (out orig : ProtoErr) : Bool :=
  out.code == orig.code && out.getMessage == orig.getMessage && detailsRestored orig.details out.details

/-- every value given under key `k` (names compared after normalisation), in order of
appearance, each passed through `tr k` -/
def valuesFor (norm : Str → Str) (tr : Str → Bytes → Bytes) (hs : List Header) (k : Str) : List Bytes :=
  (hs.filter (fun h => norm h.name == k)).flatMap (fun h => h.values.map (tr k))

def nodupB : List Str → Bool
  | [] => true
  | k :: t => !t.contains k && nodupB t

/-- `md` holds exactly the given headers: its keys are the normalised names (each once) and
under every key all the values given for it, in order — "every key, every value in order",
also when a key is repeated in several entries or in different letter case. -/
def preserves (norm : Str → Str) (tr : Str → Bytes → Bytes) (hs : List Header) (md : MD) : Bool :=
  nodupB (mdKeys md) &&
  (mdKeys md).all (fun k => hs.any (fun h => norm h.name == k)) &&
  hs.all (fun h => (mdKeys md).contains (norm h.name)) &&
  (mdKeys md).all (fun k => mdGet md k == valuesFor norm tr hs k)

/-- as `preserves`, but a header entry without values need not create a key (grpc-go's
outgoing context is built from key/value pairs) -/
def preservesValues (norm : Str → Str) (tr : Str → Bytes → Bytes) (hs : List Header) (md : MD) : Bool :=
  nodupB (mdKeys md) &&
  (mdKeys md).all (fun k => hs.any (fun h => norm h.name == k)) &&
  hs.all (fun h => mdGet md (norm h.name) == valuesFor norm tr hs (norm h.name))

/-- header list produced from metadata: one header per key, `-bin` values encoded exactly
once, everything else verbatim -/
def encodedOnce (c : B64) (md : MD) (hs : List Header) : Bool :=
  hs.length == md.length &&
  md.all (fun kv => hs.any (fun h => h.name == kv.1 && h.values == kv.2.map (encIfBin c kv.1)))

def printable (b : UInt8) : Bool := 0x20 ≤ b && b ≤ 0x7e

def hexVal (b : UInt8) : Option Nat :=
  if 0x30 ≤ b && b ≤ 0x39 then some (b.toNat - 0x30)
  else if 0x41 ≤ b && b ≤ 0x46 then some (b.toNat - 0x41 + 10)
  else if 0x61 ≤ b && b ≤ 0x66 then some (b.toNat - 0x61 + 10)
  else none

/-- the inverse of percent-encoding as a gRPC peer applies it (`%XX` ↦ byte) -/
def percentDecode : Bytes → Option Bytes
  | [] => some []
  | c :: t =>
    if c == 0x25 then
      match t with
      | a :: b :: t' =>
        match hexVal a, hexVal b, percentDecode t' with
        | some x, some y, some r => some (UInt8.ofNat (x * 16 + y) :: r)
        | _, _, _ => none
      | _ => none
    else (percentDecode t).map (c :: ·)

/-- the gRPC status a peer reads from the status trailers (grpc-go, connect-go): the
`google.rpc.Status` of `grpc-status-details-bin` when present, otherwise `grpc-status` with
the percent-decoded `grpc-message` and no details -/
def readStatusTrailers (t : StatusTrailers) : Option StatusBin :=
  match t.bin with
  | some s => some s
  | none => (percentDecode t.message).map (fun m => { code := t.status, message := m, details := [] })

/-- "preserves its code, message and every detail (type and bytes)" for an error rendered as
status trailers: whichever of the two carriers a peer reads, it finds the error — the code in
`grpc-status`, the message behind the percent-encoding of `grpc-message`, and, when there
are details, code, message (raw) and every detail in `grpc-status-details-bin`. -/
def trailersPreserve (code : Int) (msg : Bytes) (details : List Detail) (t : StatusTrailers) : Bool :=
  t.status == code && percentDecode t.message == some msg && t.message.all printable &&
  (match t.bin with
   | some s => s.code == code && s.message == msg && s.details == details
   | none => details.isEmpty)

/-- "preserves code and message" for status trailers handed to the repository's own reader (the
reference client's `checkGRPCStatus`): it finds the two carriers in agreement, i.e. what it
decoded from `grpc-message` is the message inside `grpc-status-details-bin`. -/
def readBackAgrees (d : StatusDisagreement) : Bool := !d.code && !d.message

/-- the two maps hold the same values, in order, under every key of either (a key without
values is the same as an absent key: grpc-go's outgoing context and `http.Header.Add` are fed
value by value) -/
def sameValues (a b : MD) : Bool :=
  (mdKeys a).all (fun k => mdGet a k == mdGet b k) && (mdKeys b).all (fun k => mdGet a k == mdGet b k)

/-- gRPC metadata as grpc-go holds it: distinct lower-case keys -/
def lowerDistinct (md : MD) : Bool := nodupB (mdKeys md) && md.all (fun kv => lower kv.1 == kv.1)

/-- an `http.Header` as net/http builds it: distinct canonical keys -/
def canonDistinct (md : MD) : Bool := nodupB (mdKeys md) && md.all (fun kv => canon kv.1 == kv.1)

/-- "The strict codecs decode what they encode", for one encoding observed in a sequence of
calls: `snap` are the bytes the call returned, `final` the bytes of that same result after
all later calls of the sequence, `dec` whether `final` decodes (strictly) to the message that
was encoded.  A result is a value: later calls leave it alone, and it decodes to its own
message whenever it is used. -/
def encodingKept (snap final : Bytes) (dec : Bool) : Bool := final == snap && dec

/-- the same for what `Unmarshal` returned: it equals the encoded message right after the call
and still after the caller recycled the data buffer and made further calls -/
def decodingKept (eqNow eqEnd : Bool) : Bool := eqNow && eqEnd

/-- what the property asks of ONE encode call in the life of a message object, whatever was done
with the object before: the call succeeds, the caller's prefix is still in front, and the bytes
decode - by the codec's own `Unmarshal` and by the plain library decoder - to the value the
object has NOW (`val`, `backOwn`, `backPlain`: canonical encodings of the current value and of
the two decoded messages; `eqOwn`, `eqPlain`: `proto.Equal`) -/
def histEncodeHolds (ok pfxKept eqOwn eqPlain : Bool) (val backOwn backPlain : Bytes) : Bool :=
  ok && pfxKept && eqOwn && eqPlain && backOwn == val && backPlain == val

end ConfModel.ConvertSpec
