//go:build verif

package referenceclient

import (
	"context"
	"errors"
	"io"
	"net/http"
	"net/url"
	"strconv"
	"strings"
	"time"

	"connectrpc.com/conformance/internal/tracer"
)

// C16, the per-call hand-off through the REAL client-side glue with every completing cause a
// step of its own: newWireCaptureTransport -> tracer.TracingRoundTripper (its goroutine
// `<-ctx.Done(); builder.add(&RequestCanceled{})`) -> builder -> wireTracer.Complete ->
// setWireTrace -> examineWireDetails, over a scripted in-process http.RoundTripper.
//
//	rt:<k>   the round trip of call k (scripted transport: answers at once with status 200+k
//	         and a three-byte body, or fails: flavour "fail")
//	x:<k>    the call's context is cancelled — returns AT ONCE: the completion it causes comes
//	         from the middleware's goroutine, whenever that runs
//	a:<k>    barrier: wait until the trace of call k has been handed over
//	r:<k>    the response body is read to its end
//	cl:<k>   the response body is closed
//	w:<k> p:<k> j:<k> g:<k>   the examination begins / peek / join / let the grace period pass
type VerifC16Async struct {
	calls     []*verifC16ACall
	inner     *tracer.Tracer
	transport http.RoundTripper
	Settle    time.Duration
	PeekT     time.Duration
	JoinT     time.Duration
	Slow      bool
	// Stuck: a trace that was on its way never arrived (5 s): that is an observation, never noise
	Stuck bool
}

type verifC16ACall struct {
	k       int
	name    string
	ctx     context.Context
	cancel  context.CancelFunc
	req     *http.Request
	fail    bool
	bare    bool
	started bool
	xed     bool
	resp    *http.Response
	certain bool // the trace has been handed over (synchronously, or a barrier has been passed)
	cause   bool // something that completes the trace has happened, possibly still on its way
	busy    bool
	began   time.Time
	res     chan string
}

type verifC16ABody struct {
	data   []byte
	closed bool
}

func (b *verifC16ABody) Read(p []byte) (int, error) {
	if b.closed {
		return 0, errors.New("verif: read on closed body")
	}
	if len(b.data) == 0 {
		return 0, io.EOF
	}
	n := copy(p, b.data[:1]) // one byte at a time: several Read calls before EOF
	b.data = b.data[n:]
	return n, nil
}

func (b *verifC16ABody) Close() error { b.closed = true; return nil }

func VerifC16NewAsync(flavours []string, withTracer bool) *VerifC16Async {
	return VerifC16NewAsyncShapes(flavours, nil, withTracer)
}

// verifC16AEmpty: a body reader without data (the first Read returns EOF).
type verifC16AEmpty struct{ closed bool }

func (b *verifC16AEmpty) Read([]byte) (int, error) {
	if b.closed {
		return 0, errors.New("verif: read on closed body")
	}
	return 0, io.EOF
}
func (b *verifC16AEmpty) Close() error { b.closed = true; return nil }

// VerifC16AShapes: the SHAPE of the response the scripted transport answers with, as net/http's
// transports hand them out: "data" (or ""): a reader with three bytes, length unknown;
// "empty": a reader whose first Read is EOF; "nobody": http.NoBody, length unknown made 0;
// "cl0": http.NoBody with "Content-Length: 0"; "204" / "304": that status, http.NoBody;
// "head": the request is a HEAD, the response announces a length and has http.NoBody;
// "h2es": HTTP/2, END_STREAM on the HEADERS frame (http.NoBody, length 0, no Content-Length).
var VerifC16AShapes = []string{"data", "empty", "nobody", "cl0", "204", "304", "head", "h2es"}

func verifC16AStatus(k int, shape string) int {
	switch shape {
	case "204":
		return http.StatusNoContent
	case "304":
		return http.StatusNotModified
	}
	return 200 + k
}

func verifC16AResponse(r *http.Request, id int, shape string) *http.Response {
	resp := &http.Response{
		Status: "200 OK", StatusCode: verifC16AStatus(id, shape), Proto: "HTTP/1.1", ProtoMajor: 1, ProtoMinor: 1,
		Header: http.Header{}, ContentLength: -1, Request: r,
	}
	switch shape {
	case "empty":
		resp.Body = &verifC16AEmpty{}
	case "nobody", "204", "304":
		resp.Body, resp.ContentLength = http.NoBody, 0
	case "cl0":
		resp.Body, resp.ContentLength = http.NoBody, 0
		resp.Header.Set("Content-Length", "0")
	case "head":
		resp.Body, resp.ContentLength = http.NoBody, 3
		resp.Header.Set("Content-Length", "3")
	case "h2es":
		resp.Body, resp.ContentLength = http.NoBody, 0
		resp.Proto, resp.ProtoMajor, resp.ProtoMinor = "HTTP/2.0", 2, 0
	default:
		resp.Body = &verifC16ABody{data: []byte("abc")}
	}
	return resp
}

func VerifC16NewAsyncShapes(flavours []string, shapes []string, withTracer bool) *VerifC16Async {
	v := &VerifC16Async{Settle: 20 * time.Millisecond, PeekT: 15 * time.Millisecond, JoinT: 10 * time.Second}
	if withTracer {
		v.inner = &tracer.Tracer{}
	}
	v.transport = newWireCaptureTransport(verifC16RT(func(r *http.Request) (*http.Response, error) {
		if r.Header.Get("X-Verif-Fail") != "" {
			return nil, errors.New("verif: scripted transport failure")
		}
		id, _ := strconv.Atoi(r.Header.Get("X-Verif-Id"))
		return verifC16AResponse(r, id, r.Header.Get("X-Verif-Shape")), nil
	}), v.inner)
	for k, fl := range flavours {
		c := &verifC16ACall{k: k, name: "verif/call-" + strconv.Itoa(k), fail: fl == "fail", bare: fl == "bare"}
		base, cancel := context.WithCancel(context.Background())
		c.cancel = cancel
		if !c.bare {
			base = withWireCapture(base)
		}
		c.ctx = base
		c.req = (&http.Request{
			Method: http.MethodPost, URL: &url.URL{Scheme: "http", Host: "verif", Path: "/svc/Method"},
			Proto: "HTTP/1.1", ProtoMajor: 1, ProtoMinor: 1, Body: http.NoBody,
			Header: http.Header{"X-Test-Case-Name": {c.name}, "X-Verif-Id": {strconv.Itoa(k)}},
		}).WithContext(base)
		if c.fail {
			c.req.Header.Set("X-Verif-Fail", "1")
		}
		if k < len(shapes) && shapes[k] != "" {
			c.req.Header.Set("X-Verif-Shape", shapes[k])
			if shapes[k] == "head" {
				c.req.Method = http.MethodHead
			}
		}
		v.inner.Init(c.name)
		v.calls = append(v.calls, c)
	}
	return v
}

// verifC16ATraceNum names a trace: 8*call + cause (1 read to its end, 2 closed, 3 cancelled with a
// response, 4 round trip failed, 5 cancelled before the response); the call is taken from the
// TRACE (test name, and the status of its response must be that call's), not from who asked.
func verifC16ATraceNum(tr *tracer.Trace) string {
	k, err := strconv.Atoi(strings.TrimPrefix(tr.TestName, "verif/call-"))
	if err != nil {
		return "T?name:" + tr.TestName
	}
	cause := 0
	switch {
	case tr.Request == nil || tr.Request.Header.Get("X-Verif-Id") != strconv.Itoa(k):
		return "T?request"
	case tr.Response != nil && tr.Response.StatusCode != verifC16AStatus(k, tr.Request.Header.Get("X-Verif-Shape")):
		return "T?status:" + strconv.Itoa(tr.Response.StatusCode)
	case tr.Response != nil && tr.Err == nil:
		cause = 1
	case tr.Response != nil && strings.Contains(tr.Err.Error(), "closed before fully consumed"):
		cause = 2
	case tr.Response != nil && errors.Is(tr.Err, context.Canceled):
		cause = 3
	case tr.Response == nil && tr.Err != nil && strings.Contains(tr.Err.Error(), "scripted transport failure"):
		cause = 4
	case tr.Response == nil && errors.Is(tr.Err, context.Canceled):
		cause = 5
	default:
		return "T?cause"
	}
	return "T" + strconv.Itoa(8*k+cause)
}

func (v *VerifC16Async) examine(c *verifC16ACall, ctx context.Context) string {
	r := verifC16Examine(ctx)
	if !strings.HasPrefix(r, "t") {
		return r
	}
	// the examination returned a trace: traceAvailable is closed, the wrapper may be read
	w, ok := c.ctx.Value(wireCtxKey{}).(*wireWrapper)
	if !ok {
		return "T?nowrapper"
	}
	n := verifC16ATraceNum(&w.trace)
	// what examineWireDetails reported must be that trace's status
	want := "t0"
	if w.trace.Response != nil {
		want = "t" + strconv.Itoa(w.trace.Response.StatusCode)
	}
	if r != want {
		return "T?examined:" + r
	}
	return n
}

func (v *VerifC16Async) wait(c *verifC16ACall, d time.Duration) (string, bool) {
	select {
	case r := <-c.res:
		c.busy = false
		return r, true
	default:
	}
	timer := time.NewTimer(d)
	defer timer.Stop()
	select {
	case r := <-c.res:
		c.busy = false
		return r, true
	case <-timer.C:
		return "waiting", false
	}
}

func (v *VerifC16Async) pendingCheck(c *verifC16ACall, pending bool) {
	if pending && time.Since(c.began) > verifC16Margin {
		v.Slow = true
	}
}

// handedOver waits until the trace of the call has been handed over.
func (v *VerifC16Async) handedOver(c *verifC16ACall) bool {
	ok := true
	if w, has := c.ctx.Value(wireCtxKey{}).(*wireWrapper); has {
		select {
		case <-w.traceAvailable:
		case <-time.After(5 * time.Second):
			ok = false
		}
	}
	if v.inner != nil {
		ctx, cancel := context.WithTimeout(context.Background(), 5*time.Second)
		defer cancel()
		if _, err := v.inner.Await(ctx, c.name); err != nil {
			ok = false
		}
	} else if c.bare {
		time.Sleep(20 * time.Millisecond)
	}
	return ok
}

func (v *VerifC16Async) Do(op string) string {
	f := strings.Split(op, ":")
	if len(f) < 2 {
		return "?"
	}
	k, err := strconv.Atoi(f[1])
	if err != nil || k < 0 || k >= len(v.calls) {
		return "?"
	}
	c := v.calls[k]
	pending := c.busy && !c.certain
	switch f[0] {
	case "rt":
		if c.started {
			return "dup"
		}
		c.started = true
		resp, err := v.transport.RoundTrip(c.req) //nolint:bodyclose // read or closed by the script, or abandoned on purpose
		c.resp = resp
		if err != nil {
			c.certain = true // the ResponseError event has completed the trace (or the cancellation had)
		}
		if c.xed {
			c.cause = true
		}
		v.pendingCheck(c, pending)
		return ""
	case "x":
		c.cancel()
		c.xed = true
		if c.started {
			c.cause = true
		}
		return ""
	case "a":
		if !c.cause && !c.certain {
			return "nocause"
		}
		if !v.handedOver(c) {
			v.Stuck = true
			return "stuck"
		}
		v.pendingCheck(c, pending)
		c.certain = true
		return ""
	case "r":
		if c.resp != nil {
			_, _ = io.Copy(io.Discard, c.resp.Body)
			v.pendingCheck(c, pending)
			c.certain = true
		}
		return ""
	case "cl":
		if c.resp != nil {
			_ = c.resp.Body.Close()
			v.pendingCheck(c, pending)
			c.certain = true
		}
		return ""
	case "w":
		if c.busy {
			return "busy"
		}
		pctx := &verifC16ProbeCtx{Context: c.ctx, entered: make(chan struct{})}
		c.res = make(chan string, 1)
		res := c.res
		c.began = time.Now()
		c.busy = true
		go func() { res <- v.examine(c, pctx) }()
		<-pctx.entered
		if c.certain || c.bare {
			r, _ := v.wait(c, v.JoinT)
			return r
		}
		r, _ := v.wait(c, v.Settle) // let it reach its select
		v.pendingCheck(c, true)
		return r
	case "p":
		if !c.busy {
			return "idle"
		}
		r, _ := v.wait(c, v.PeekT)
		v.pendingCheck(c, pending)
		return r
	case "j":
		if !c.busy {
			return "idle"
		}
		d := v.JoinT
		if pending {
			d = v.PeekT
		}
		r, _ := v.wait(c, d)
		v.pendingCheck(c, pending)
		return r
	case "g":
		if !c.busy {
			return "idle"
		}
		r, ok := v.wait(c, v.JoinT)
		if !ok {
			return "stuck"
		}
		if r == "nf" && time.Since(c.began) < 700*time.Millisecond {
			return "nf-early"
		}
		return r
	}
	return "?"
}

// Finish passes the barrier of every call whose trace is on its way and reports, per call, the
// trace in its wrapper ("-" none / no wrapper) and the trace the Tracer behind the wireTracer holds.
func (v *VerifC16Async) Finish() (fin []string, inner []string) {
	fin, inner = []string{}, []string{}
	for _, c := range v.calls {
		if (c.cause || c.certain) && !v.handedOver(c) {
			v.Stuck = true
			fin = append(fin, "stuck")
			continue
		}
		w, ok := c.ctx.Value(wireCtxKey{}).(*wireWrapper)
		if !ok {
			fin = append(fin, "-")
			continue
		}
		select {
		case <-w.traceAvailable:
			fin = append(fin, verifC16ATraceNum(&w.trace))
		default:
			fin = append(fin, "-")
		}
	}
	if v.inner != nil {
		done, cancel := context.WithCancel(context.Background())
		cancel()
		for _, c := range v.calls {
			tr, err := v.inner.Await(done, c.name)
			if err == nil && tr != nil {
				inner = append(inner, verifC16ATraceNum(tr))
			} else {
				inner = append(inner, "-")
			}
		}
	}
	for _, c := range v.calls {
		if c.busy {
			select {
			case <-c.res:
			case <-time.After(5 * time.Second):
			}
			c.busy = false
		}
		c.cancel()
	}
	return fin, inner
}
