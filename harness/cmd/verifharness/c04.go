package main

import (
	"encoding/json"
	"fmt"
	"os"
	"path/filepath"
	"regexp"
	"sort"
	"strconv"
	"strings"
	"sync/atomic"

	cc "connectrpc.com/conformance/internal/app/connectconformance"
	"connectrpc.com/conformance/internal/verifharness/gen"
)

// C04 — the run succeeds iff every selected case ran and met its expectation.
//
// op "report": in = {total, cases}; cases[i] is a 4-character code
//   kind  p pass | a assertion failure | c client error | s setup error | n no result
//         | r could-not-run | m missing (nothing recorded)
//   mark  u unmarked | f known failing | k known flaky
//   fb    1 peer feedback recorded | 0
//   sf    1 feedback recorded before the outcome | 0 after
// optionally followed by two more characters: what the peers SAID (keys of c04Msgs) — the message of
// the client-reported error (kind c) and the feedback text of the reference peer.  Texts are arbitrary
// strings; what a peer says must never change what happened.
// the case's name is "s/c<i>".  impl = report()'s verdict, the three summary lines parsed back
// to numbers and the names on the FAILED / INFO lines.

func init() {
	areas["c04"] = runC04
	gen.RegisterOp("c04", "report", func(_ *gen.Ctx, raw json.RawMessage) any {
		in := gen.Into[c04In](raw)
		return c04Report(in)
	})
	gen.RegisterOp("c04", "run", func(c *gen.Ctx, raw json.RawMessage) any {
		return c04Run(c, gen.Into[c04RunIn](raw))
	})
}

type c04In struct {
	Total int      `json:"total"`
	Cases []string `json:"cases"`
}

type c04Out struct {
	OK          bool     `json:"ok"`
	Total       int      `json:"total"`
	Passed      int      `json:"passed"`
	Failed      int      `json:"failed"`
	NotRun      int      `json:"notRun"`
	Expected    int      `json:"expected"`
	FailedNames []string `json:"failedNames"`
	InfoNames   []string `json:"infoNames"`
	Unparsed    []string `json:"unparsed"`
}

var c04Kinds = map[byte]string{'p': "pass", 'a': "assert", 'c': "clienterr", 's': "setup", 'n': "noresult", 'r': "cnr", 'm': "missing"}

var (
	c04ReFailed   = regexp.MustCompile(`^FAILED: (\S+):\n\t`)
	c04ReFailedUP = regexp.MustCompile(`^FAILED: (\S+) was expected to fail but did not\n$`)
	c04ReInfo     = regexp.MustCompile(`^INFO: (\S+) failed \(as expected\):\n\t`)
	c04ReTotal    = regexp.MustCompile(`^Total cases: (\d+)\n(\d+) passed, (\d+) failed\n$`)
	c04ReNotRun   = regexp.MustCompile(`^Another (\d+) could not be run due to client timing out or exiting prematurely\.\n$`)
	c04ReExpected = regexp.MustCompile(`^\(Another (\d+) failed as expected due to being known failures/flakes\.\)\n$`)
)

// c04Msgs: texts a peer may report (ClientErrorResult.message is a plain optional string, feedback is
// a string): default, empty, a line break, blank lines only, one blank, several lines with blank ones
// and trailing white space, format verbs, 10 KB, the separator of the feedback lines, non-ASCII.
var c04Msgs = map[byte]string{
	'd': "client could not do it",
	'e': "",
	'n': "\n",
	'b': " \r\n\t\n",
	's': " ",
	'm': "first line\n\n  third line  \r\n",
	'f': "%s %d %!v(MISSING) 100% %[2]q",
	'l': strings.Repeat("long ", 2000),
	'c': "a: b: c",
	'u': "non-ASCII: \u00fcn\u00ef \u2713",
}

var c04MsgKeys = []byte("denbsmflcu")

func c04Report(in c04In) c04Out {
	cases := make([]cc.VerifC04Case, len(in.Cases))
	for i, code := range in.Cases {
		errMsg, fbMsg := c04Msgs['d'], "peer feedback"
		if len(code) == 6 {
			m1, ok1 := c04Msgs[code[4]]
			m2, ok2 := c04Msgs[code[5]]
			if !ok1 || !ok2 {
				panic("c04: bad case code " + code)
			}
			errMsg, fbMsg = m1, m2
			if code[5] == 'd' {
				fbMsg = "peer feedback"
			}
			code = code[:4]
		}
		if len(code) != 4 {
			panic("c04: bad case code " + code)
		}
		kind, ok := c04Kinds[code[0]]
		if !ok || (code[1] != 'u' && code[1] != 'f' && code[1] != 'k') ||
			(code[2] != '0' && code[2] != '1') || (code[3] != '0' && code[3] != '1') {
			panic("c04: bad case code " + code)
		}
		cases[i] = cc.VerifC04Case{
			Name: fmt.Sprintf("s/c%d", i), Kind: kind, Mark: string(code[1]),
			Feedback: code[2] == '1', SidebandFirst: code[3] == '1', ErrMsg: errMsg, FbMsg: fbMsg,
		}
	}
	ok, msgs := cc.VerifC04Report(in.Total, cases)
	out := c04Out{OK: ok, Total: -1, FailedNames: []string{}, InfoNames: []string{}, Unparsed: []string{}}
	atoi := func(s string) int { v, _ := strconv.Atoi(s); return v }
	for _, m := range msgs {
		switch {
		case m == "\n":
		case c04ReFailed.MatchString(m):
			out.FailedNames = append(out.FailedNames, c04ReFailed.FindStringSubmatch(m)[1])
		case c04ReFailedUP.MatchString(m):
			out.FailedNames = append(out.FailedNames, c04ReFailedUP.FindStringSubmatch(m)[1])
		case c04ReInfo.MatchString(m):
			out.InfoNames = append(out.InfoNames, c04ReInfo.FindStringSubmatch(m)[1])
		case c04ReTotal.MatchString(m) && out.Total < 0:
			g := c04ReTotal.FindStringSubmatch(m)
			out.Total, out.Passed, out.Failed = atoi(g[1]), atoi(g[2]), atoi(g[3])
		case c04ReNotRun.MatchString(m) && out.NotRun == 0:
			out.NotRun = atoi(c04ReNotRun.FindStringSubmatch(m)[1])
		case c04ReExpected.MatchString(m) && out.Expected == 0:
			out.Expected = atoi(c04ReExpected.FindStringSubmatch(m)[1])
		default:
			out.Unparsed = append(out.Unparsed, m)
		}
	}
	sort.Strings(out.FailedNames)
	sort.Strings(out.InfoNames)
	return out
}

func runC04(c *gen.Ctx) error {
	// gen.NewRand(seed) starts SplitMix64 at seed*gamma+c, so the streams of nearby seeds are the
	// same stream shifted by a few draws; Fork() re-seeds from a mixed value to decorrelate them
	r := c.R.Fork()
	kinds := []byte("pacsnrm")
	marks := []byte("ufk")
	var combos []string // 42 = 7 kinds x 3 marks x 2 feedback
	for _, k := range kinds {
		for _, m := range marks {
			for _, fb := range []byte("01") {
				combos = append(combos, string([]byte{k, m, fb}))
			}
		}
	}
	// what the peers said: a key of c04Msgs for the client's error message (kind c) and for the
	// feedback text (fb = 1), the default otherwise
	said := func(c3 string) string {
		e, f := byte('d'), byte('d')
		if c3[0] == 'c' {
			e = c04MsgKeys[r.Intn(len(c04MsgKeys))]
		}
		if c3[2] == '1' {
			f = c04MsgKeys[r.Intn(len(c04MsgKeys))]
		}
		return string([]byte{e, f})
	}
	code := func(i int) string {
		if r.Bool() {
			return combos[i] + "1" + said(combos[i])
		}
		return combos[i] + "0" + said(combos[i])
	}
	// (i) exhaustive: every assignment to 1, 2 and 3 selected cases
	for i := range combos {
		c.Do("report", c04In{1, []string{code(i)}})
	}
	for i := range combos {
		for j := range combos {
			c.Do("report", c04In{2, []string{code(i), code(j)}})
		}
	}
	for i := range combos {
		for j := range combos {
			for k := range combos {
				c.Do("report", c04In{3, []string{code(i), code(j), code(k)}})
			}
		}
	}
	c.E.Add("exhaustive-assignments", len(combos)+len(combos)*len(combos)+len(combos)*len(combos)*len(combos))
	// (ii) random larger assignments (mostly passing, as real runs are), with further selected
	// cases about which nothing is known (total > number of listed cases)
	nRand := 4000
	if c.Thorough() {
		nRand = 120000
	}
	for i := 0; i < nRand; i++ {
		n := r.Range(0, 40)
		cs := make([]string, n)
		passBias := r.Intn(4) // 0: uniform, else mostly meeting the expectation
		for k := range cs {
			switch {
			case passBias > 0 && r.Chance(3, 4):
				cs[k] = gen.Pick(r, []string{"pu0", "pu0", "pu0", "pk0", "ak0", "af0", "cf0", "pf1", "ck1", "mf1"})
			default:
				cs[k] = combos[r.Intn(len(combos))]
			}
			c3 := cs[k]
			if r.Bool() {
				cs[k] += "1"
			} else {
				cs[k] += "0"
			}
			if r.Chance(3, 4) {
				cs[k] += said(c3)
			}
		}
		extra := 0
		if r.Chance(1, 4) {
			extra = r.Range(1, 3)
		}
		c.Do("report", c04In{n + extra, cs})
		if extra > 0 {
			c.E.Count("random:with-unknown-cases")
		}
	}
	// (iv) end to end through the real Run: the reference client binary on every assignment of
	// {right, wrong expectation} x marking to 1 case (thorough: also 2 cases), random larger ones,
	// and clients that exit with status 0 / 1 before any request was sent
	if c.BinDir != "" {
		rc := []string{"ru", "rf", "rk", "wu", "wf", "wk"}
		for _, a := range rc {
			c.Do("run", c04RunIn{"reference", []string{a}})
		}
		if c.Thorough() {
			for _, a := range rc {
				for _, b := range rc {
					c.Do("run", c04RunIn{"reference", []string{a, b}})
				}
			}
		}
		nRun := 6
		if c.Thorough() {
			nRun = 40
		}
		for i := 0; i < nRun; i++ {
			cs := make([]string, r.Range(2, 5))
			for k := range cs {
				if r.Chance(2, 3) {
					cs[k] = gen.Pick(r, []string{"ru", "ru", "rk", "wf", "wk"}) // meets its expectation
				} else {
					cs[k] = gen.Pick(r, rc)
				}
			}
			c.Do("run", c04RunIn{"reference", cs})
		}
		for _, cl := range []string{"exit0", "exit1"} {
			c.Do("run", c04RunIn{cl, []string{"ru"}})
			c.Do("run", c04RunIn{cl, []string{"ru", "rf", "rk"}})
			c.Do("run", c04RunIn{cl, []string{"rk", "wf"}})
		}
	}
	// (iii) the clamp for a total that was never configured (tests use 0): agreement only
	for i := 0; i < 200; i++ {
		n := r.Range(1, 6)
		cs := make([]string, n)
		for k := range cs {
			cs[k] = combos[r.Intn(len(combos))] + "0"
		}
		c.Do("report", c04In{r.Intn(n), cs})
	}
	c04Feedback(c)
	c04InGen(c)
	c04SrvGen(c)
	c04LoopGen(c)
	c04CliGen(c)
	c04ArgsGen(c)
	return nil
}

// ---- op "run": the real Run, end to end (client mode, in-process reference server)
//
// in = {client, cases}: client is "reference" (the real reference client binary built from the
// tree), "exit0" (/bin/true: exits with status 0 before any request was sent) or "exit1"
// (/bin/false); cases[i] is a 2-character code: expectation r (right: what the reference server
// will answer) | w (wrong payload bytes expected), marking u | f | k.  impl = Run's verdict.

type c04RunIn struct {
	Client string   `json:"client"`
	Cases  []string `json:"cases"`
}

type c04RunOut struct {
	OK          bool     `json:"ok"`
	Err         string   `json:"err"`
	FailedNames []string `json:"failedNames"`
}

const c04RunCfg = `features:
  versions: [HTTP_VERSION_1]
  protocols: [PROTOCOL_CONNECT]
  codecs: [CODEC_PROTO]
  compressions: [COMPRESSION_IDENTITY]
  streamTypes: [STREAM_TYPE_UNARY]
  supportsTls: false
  supportsConnectGet: false
  supportsMessageReceiveLimit: false
`

var c04RunSeq atomic.Int64

func c04Run(c *gen.Ctx, in c04RunIn) c04RunOut {
	var sb strings.Builder
	sb.WriteString("name: V\ntestCases:\n")
	var failing, flaky []string
	for i, code := range in.Cases {
		if len(code) != 2 || (code[0] != 'r' && code[0] != 'w') || (code[1] != 'u' && code[1] != 'f' && code[1] != 'k') {
			panic("c04: bad run case code " + code)
		}
		name := fmt.Sprintf("c%d", i)
		fmt.Fprintf(&sb, "- request:\n    testName: %s\n    streamType: STREAM_TYPE_UNARY\n    requestMessages:\n    - \"@type\": type.googleapis.com/connectrpc.conformance.v1.UnaryRequest\n      responseDefinition:\n        responseData: \"dGVzdA==\"\n", name)
		if code[0] == 'w' {
			sb.WriteString("  expectedResponse:\n    payloads:\n    - data: \"b3RoZXI=\"\n")
		}
		switch code[1] {
		case 'f':
			failing = append(failing, "V/**/"+name)
		case 'k':
			flaky = append(flaky, "V/**/"+name)
		}
	}
	var cmd []string
	switch in.Client {
	case "reference":
		cmd = []string{filepath.Join(c.BinDir, "referenceclient")}
	case "exit0":
		cmd = []string{"/bin/true"}
	case "exit1":
		cmd = []string{"/bin/false"}
	default:
		panic("c04: bad client " + in.Client)
	}
	dir := filepath.Join(c.WorkDir, fmt.Sprintf("c04run-%d-%d", os.Getpid(), c04RunSeq.Add(1)))
	if err := os.MkdirAll(dir, 0o755); err != nil {
		panic(err)
	}
	defer os.RemoveAll(dir)
	ok, errText, lines := cc.VerifC04Run(dir, cmd, sb.String(), c04RunCfg, failing, flaky)
	out := c04RunOut{OK: ok, Err: errText, FailedNames: []string{}}
	for _, l := range lines {
		if m := c04ReFailed.FindStringSubmatch(l); m != nil {
			out.FailedNames = append(out.FailedNames, m[1])
		} else if m := c04ReFailedUP.FindStringSubmatch(l + "\n"); m != nil {
			out.FailedNames = append(out.FailedNames, m[1])
		}
	}
	sort.Strings(out.FailedNames)
	return out
}
