/-
Helper lemmas for property C07: membership in the loops of expandSuite, the invariants of
expandCases / expandAll / expandSuites, grouping.
-/
import ConfModel.Model.Library
import ConfModel.Spec.Library
namespace ConfModel.Library
open ConfModel.Config

theorem mem_orAll {α} (l all : List α) (x : α) : x ∈ orAll l all ↔ Relevant l all x := by
  unfold orAll Relevant
  cases l <;> simp

theorem mem_realSTs (st : ST) : st ∈ realSTs ↔ st ≠ .unspec := by
  cases st <;> simp [realSTs]

/-- the cases looked up by `expandSuite`, without the loops -/
theorem mem_suiteCases (s : Suite) (c : Case) :
    c ∈ suiteCases s ↔
      Relevant s.protocols realProtos c.p ∧ Relevant s.versions realVers c.v ∧
      Relevant s.codecs realCodecs c.c ∧ Relevant s.comps realComps c.z ∧
      (s.reliesOnTls = true → c.tls = true) ∧
      c.certs = s.reliesOnCerts ∧ c.get = s.reliesOnGet ∧ c.limit = s.reliesOnLimit ∧ c.cvm = s.cvm ∧
      c.s ≠ .unspec := by
  obtain ⟨v, p, cc, z, st, t, ce, g, l, m⟩ := c
  simp only [suiteCases, List.mem_flatMap, List.mem_map, mem_orAll, Case.mk.injEq]
  constructor
  · rintro ⟨p', hp, v', hv, t', ht, c', hc, z', hz, st', hst, rfl, rfl, rfl, rfl, rfl, rfl, rfl, rfl, rfl, rfl⟩
    refine ⟨hp, hv, hc, hz, ?_, rfl, rfl, rfl, rfl, (mem_realSTs _).1 hst⟩
    intro h; rw [h] at ht; simpa using ht
  · rintro ⟨hp, hv, hc, hz, ht, rfl, rfl, rfl, rfl, hst⟩
    refine ⟨p, hp, v, hv, t, ?_, cc, hc, z, hz, st, (mem_realSTs _).2 hst, rfl, rfl, rfl, rfl, rfl, rfl, rfl, rfl, rfl, rfl⟩
    cases hr : s.reliesOnTls
    · cases t <;> simp
    · simp [ht hr]

/-- names of the entries of a library -/
def names (l : List Perm) : List String := l.map (·.fullName)

/-- what `expandCases` adds for one config case -/
def PermOf (join : List String → String) (s : Suite) (c : Case) (q : Perm) : Prop :=
  ∃ t ∈ s.tests, t.st = c.s ∧ q = mkPerm join s c (namePrefix s c) t

theorem expandCases_ok (join : List String → String) (s : Suite) (c : Case) (pre : List String) (ts : List Test) :
    ∀ (i : Nat) (acc r : List Perm), expandCases join s c pre ts i acc = .ok r →
      (∀ q, q ∈ r ↔ (q ∈ acc ∨ ∃ t ∈ ts, t.st = c.s ∧ q = mkPerm join s c pre t)) ∧
      ((names acc).Nodup → (names r).Nodup) ∧
      (∀ t ∈ ts, t.name ≠ "" ∧ t.st ≠ .unspec ∧ (t.st = c.s → ServiceMethodOk t)) := by
  induction ts with
  | nil =>
    intro i acc r h
    simp only [expandCases] at h
    injection h with h; subst h
    simp
  | cons t ts ih =>
    intro i acc r h
    unfold expandCases at h
    split at h
    · injection h
    rename_i h1
    split at h
    · injection h
    rename_i h2
    split at h
    · rename_i h3
      obtain ⟨a, b, c'⟩ := ih _ _ _ h
      refine ⟨fun q => ?_, b, ?_⟩
      · rw [a q]
        simp only [List.mem_cons, exists_eq_or_imp]
        constructor
        · rintro (x | x)
          · exact Or.inl x
          · exact Or.inr (Or.inr x)
        · rintro (x | ⟨x, _⟩ | x)
          · exact Or.inl x
          · exact absurd x h3
          · exact Or.inr x
      · intro t' ht'
        rcases List.mem_cons.1 ht' with rfl | ht'
        · exact ⟨h1, h2, fun x => absurd x h3⟩
        · exact c' t' ht'
    rename_i h3
    split at h
    · injection h
    rename_i h4
    split at h
    · injection h
    rename_i h5
    simp only at h
    split at h
    · injection h
    rename_i h6
    obtain ⟨a, b, c'⟩ := ih _ _ _ h
    have h3' : t.st = c.s := Decidable.of_not_not h3
    refine ⟨fun q => ?_, fun hnd => b ?_, ?_⟩
    · rw [a q]
      simp only [List.mem_cons, exists_eq_or_imp]
      constructor
      · rintro ((x | x) | x)
        · exact Or.inr (Or.inl ⟨h3', x⟩)
        · exact Or.inl x
        · exact Or.inr (Or.inr x)
      · rintro (x | ⟨_, x⟩ | x)
        · exact Or.inl (Or.inr x)
        · exact Or.inl (Or.inl x)
        · exact Or.inr x
    · simp only [names, List.map_cons, List.nodup_cons]
      refine ⟨?_, hnd⟩
      intro hmem
      apply h6
      simp only [List.any_eq_true, decide_eq_true_eq]
      obtain ⟨q, hq, hqn⟩ := List.mem_map.1 hmem
      exact ⟨q, hq, by rw [hqn]; rfl⟩
    · intro t' ht'
      rcases List.mem_cons.1 ht' with rfl | ht'
      · refine ⟨h1, h2, fun _ => ?_⟩
        unfold ServiceMethodOk
        constructor
        · intro hs; exact Decidable.of_not_not fun hm => h4 ⟨hs, hm⟩
        · intro hm; exact Decidable.of_not_not fun hs => h5 ⟨hs, hm⟩
      · exact c' t' ht'

/-- the per-test validity that `expandCases` enforces when it meets config case `c` -/
def TestsOkAt (s : Suite) (c : Case) : Prop :=
  ∀ t ∈ s.tests, t.name ≠ "" ∧ t.st ≠ .unspec ∧ (t.st = c.s → ServiceMethodOk t)

theorem expandAll_ok (join : List String → String) (s : Suite) (cs : List Case) :
    ∀ (acc r : List Perm), expandAll join s cs acc = .ok r →
      (∀ q, q ∈ r ↔ (q ∈ acc ∨ ∃ c ∈ cs, PermOf join s c q)) ∧
      ((names acc).Nodup → (names r).Nodup) ∧
      (∀ c ∈ cs, TestsOkAt s c) := by
  induction cs with
  | nil =>
    intro acc r h
    simp only [expandAll] at h
    injection h with h; subst h
    simp
  | cons c cs ih =>
    intro acc r h
    unfold expandAll at h
    split at h
    · injection h
    rename_i acc' h1
    obtain ⟨a1, b1, c1⟩ := expandCases_ok join s c _ _ _ _ _ h1
    obtain ⟨a2, b2, c2⟩ := ih _ _ h
    refine ⟨fun q => ?_, fun hnd => b2 (b1 hnd), ?_⟩
    · rw [a2 q, a1 q]
      simp only [List.mem_cons, exists_eq_or_imp, PermOf]
      constructor
      · rintro ((x | x) | x)
        · exact Or.inl x
        · exact Or.inr (Or.inl x)
        · exact Or.inr (Or.inr x)
      · rintro (x | x | x)
        · exact Or.inl (Or.inl x)
        · exact Or.inl (Or.inr x)
        · exact Or.inr x
    · intro c' hc'
      rcases List.mem_cons.1 hc' with rfl | hc'
      · exact c1
      · exact c2 c' hc'

/-- what a suite contributes to the library -/
def SuitePerm (join : List String → String) (inCases : Case → Bool) (mode : Mode) (s : Suite) (q : Perm) : Prop :=
  ModeAdmits s mode ∧ ∃ c ∈ suiteCases s, inCases c = true ∧ PermOf join s c q

/-- what `newTestCaseLibrary` enforces of a suite taking part -/
def SuiteOk (inCases : Case → Bool) (mode : Mode) (s : Suite) : Prop :=
  ModeAdmits s mode → misconfigured s = false ∧ ∀ c ∈ suiteCases s, inCases c = true → TestsOkAt s c

theorem expandSuites_ok (join : List String → String) (inCases : Case → Bool) (mode : Mode) (ss : List Suite) :
    ∀ (seen : List String) (acc r : List Perm), expandSuites join inCases mode ss seen acc = .ok r →
      (∀ q, q ∈ r ↔ (q ∈ acc ∨ ∃ s ∈ ss, SuitePerm join inCases mode s q)) ∧
      ((names acc).Nodup → (names r).Nodup) ∧
      (∀ s ∈ ss, s.name ≠ "" ∧ s.tests ≠ [] ∧ s.name ∉ seen) ∧
      (ss.map (·.name)).Nodup ∧
      (∀ s ∈ ss, SuiteOk inCases mode s) := by
  induction ss with
  | nil =>
    intro seen acc r h
    simp only [expandSuites] at h
    injection h with h; subst h
    simp
  | cons s ss ih =>
    intro seen acc r h
    unfold expandSuites at h
    split at h
    · injection h
    rename_i h1
    split at h
    · injection h
    rename_i h2
    split at h
    · injection h
    rename_i h3
    have h2' : s.tests ≠ [] := by
      intro hx; apply h2; rw [hx]; rfl
    have h3' : s.name ∉ seen := by
      intro hx; apply h3; simpa using hx
    split at h
    · -- skipped: the suite's mode does not admit the run mode
      rename_i h4
      have hnot : ¬ ModeAdmits s mode := by
        unfold ModeAdmits; intro hx; rcases hx with hx | hx
        · exact h4.1 hx
        · exact h4.2 hx
      obtain ⟨a, b, c, d, e⟩ := ih _ _ _ h
      refine ⟨fun q => ?_, b, ?_, ?_, ?_⟩
      · rw [a q]
        simp only [List.mem_cons, exists_eq_or_imp]
        constructor
        · rintro (x | x)
          · exact Or.inl x
          · exact Or.inr (Or.inr x)
        · rintro (x | x | x)
          · exact Or.inl x
          · exact absurd x.1 hnot
          · exact Or.inr x
      · intro s' hs'
        rcases List.mem_cons.1 hs' with rfl | hs'
        · exact ⟨h1, h2', h3'⟩
        · obtain ⟨x, y, z⟩ := c s' hs'
          exact ⟨x, y, fun hm => z (List.mem_cons_of_mem _ hm)⟩
      · simp only [List.map_cons, List.nodup_cons]
        refine ⟨?_, d⟩
        intro hm
        obtain ⟨s', hs', hn⟩ := List.mem_map.1 hm
        exact (c s' hs').2.2 (by rw [hn]; exact List.mem_cons_self)
      · intro s' hs'
        rcases List.mem_cons.1 hs' with rfl | hs'
        · intro hx; exact absurd hx hnot
        · exact e s' hs'
    · rename_i h4
      have hadm : ModeAdmits s mode := by
        unfold ModeAdmits
        by_cases hx : s.mode = .unspec
        · exact Or.inl hx
        · by_cases hy : s.mode = mode
          · exact Or.inr hy
          · exact absurd ⟨hx, hy⟩ h4
      split at h
      · injection h
      rename_i acc' h5
      unfold expandSuite at h5
      split at h5
      · injection h5
      rename_i h6
      obtain ⟨a1, b1, c1⟩ := expandAll_ok join s _ _ _ h5
      obtain ⟨a, b, c, d, e⟩ := ih _ _ _ h
      refine ⟨fun q => ?_, fun hnd => b (b1 hnd), ?_, ?_, ?_⟩
      · rw [a q, a1 q]
        simp only [List.mem_cons, exists_eq_or_imp, List.mem_filter, SuitePerm]
        constructor
        · rintro ((x | ⟨c', ⟨hc1, hc2⟩, hc3⟩) | x)
          · exact Or.inl x
          · exact Or.inr (Or.inl ⟨hadm, c', hc1, hc2, hc3⟩)
          · exact Or.inr (Or.inr x)
        · rintro (x | ⟨_, c', hc1, hc2, hc3⟩ | x)
          · exact Or.inl (Or.inl x)
          · exact Or.inl (Or.inr ⟨c', ⟨hc1, hc2⟩, hc3⟩)
          · exact Or.inr x
      · intro s' hs'
        rcases List.mem_cons.1 hs' with rfl | hs'
        · exact ⟨h1, h2', h3'⟩
        · obtain ⟨x, y, z⟩ := c s' hs'
          exact ⟨x, y, fun hm => z (List.mem_cons_of_mem _ hm)⟩
      · simp only [List.map_cons, List.nodup_cons]
        refine ⟨?_, d⟩
        intro hm
        obtain ⟨s', hs', hn⟩ := List.mem_map.1 hm
        exact (c s' hs').2.2 (by rw [hn]; exact List.mem_cons_self)
      · intro s' hs'
        rcases List.mem_cons.1 hs' with rfl | hs'
        · intro _
          refine ⟨by simpa using h6, fun c' hc1 hc2 => c1 c' ?_⟩
          exact List.mem_filter.2 ⟨hc1, hc2⟩
        · exact e s' hs'

/-- everything `newTestCaseLibrary` guarantees when it returns a library -/
theorem newLibrary_ok (join : List String → String) (suites : List Suite) (inCases : Case → Bool) (mode : Mode)
    (lib : List Perm) (h : newLibrary join suites inCases mode = .ok lib) :
    (∀ q, q ∈ lib ↔ ∃ s ∈ suites, SuitePerm join inCases mode s q) ∧
    (names lib).Nodup ∧ lib ≠ [] ∧
    (∀ s ∈ suites, s.name ≠ "" ∧ s.tests ≠ []) ∧
    (suites.map (·.name)).Nodup ∧
    (∀ s ∈ suites, SuiteOk inCases mode s) := by
  unfold newLibrary at h
  split at h
  · injection h
  rename_i lib' h1
  split at h
  · injection h
  rename_i h2
  injection h with h; subst h
  obtain ⟨a, b, c, d, e⟩ := expandSuites_ok join inCases mode suites _ _ _ h1
  refine ⟨fun q => ?_, b (by simp [names]), ?_, fun s hs => ⟨(c s hs).1, (c s hs).2.1⟩, d, e⟩
  · rw [a q]; simp
  · intro hx; apply h2; rw [hx]; rfl


theorem namePrefix_eq (s : Suite) (c : Case) : namePrefix s c = "" :: s.name :: openAxes s c := by
  unfold namePrefix openAxes
  by_cases h1 : s.versions.length = 1 <;> by_cases h2 : s.protocols.length = 1 <;>
  by_cases h3 : s.codecs.length = 1 <;> by_cases h4 : s.comps.length = 1 <;>
  cases h5 : s.reliesOnTls <;> simp [h1, h2, h3, h4]

theorem mkPerm_eq_spec (join : List String → String) (hj : ∀ l, join ("" :: l) = join l)
    (s : Suite) (c : Case) (t : Test) (ht : ServiceMethodOk t) :
    mkPerm join s c (namePrefix s c) t = specPerm join s c t := by
  unfold mkPerm specPerm specName
  rw [namePrefix_eq]
  unfold ServiceMethodOk at ht
  have e1 : join ("" :: s.name :: openAxes s c ++ [t.name]) = join ([s.name] ++ openAxes s c ++ [t.name]) := by
    rw [List.cons_append, hj]; rfl
  rw [e1]
  by_cases hs : t.service = ""
  · have hm := ht.1 hs
    cases hc : c.tls <;> simp [hs, hm]
  · have hm : t.method ≠ "" := fun h => hs (ht.2 h)
    cases hc : c.tls <;> simp [hs, hm]

theorem mem_specList (join : List String → String) (suites : List Suite) (cases : List Case) (mode : Mode) (q : Perm) :
    q ∈ specList join suites cases mode ↔
      ∃ s ∈ suites, ∃ c ∈ cases, Admits s mode c ∧ ∃ t ∈ s.tests, t.st = c.s ∧ q = specPerm join s c t := by
  simp only [specList, List.mem_flatMap, List.mem_filter, List.mem_map, decide_eq_true_eq]
  constructor
  · rintro ⟨s, hs, c, ⟨hc, ha⟩, t, ⟨ht, hst⟩, rfl⟩
    exact ⟨s, hs, c, hc, ha, t, ht, hst, rfl⟩
  · rintro ⟨s, hs, c, hc, ha, t, ht, hst, rfl⟩
    exact ⟨s, hs, c, ⟨hc, ha⟩, t, ⟨ht, hst⟩, rfl⟩

theorem admits_iff (s : Suite) (mode : Mode) (c : Case) :
    Admits s mode c ↔ ModeAdmits s mode ∧ c ∈ suiteCases s := by
  rw [mem_suiteCases]; rfl

/-- the library is, as a set, the specified list of permutations -/
theorem library_mem_iff (join : List String → String) (hj : ∀ l, join ("" :: l) = join l)
    (suites : List Suite) (cases : List Case) (mode : Mode) (lib : List Perm)
    (h : newLibrary join suites (fun c => decide (c ∈ cases)) mode = .ok lib) (q : Perm) :
    q ∈ lib ↔ q ∈ specList join suites cases mode := by
  obtain ⟨a, _, _, _, _, e⟩ := newLibrary_ok join suites _ mode lib h
  rw [a q, mem_specList]
  constructor
  · rintro ⟨s, hs, hm, c, hc1, hc2, t, ht, hst, rfl⟩
    have hc2' : c ∈ cases := by simpa using hc2
    have hok := (e s hs hm).2 c hc1 hc2 t ht
    exact ⟨s, hs, c, hc2', (admits_iff s mode c).2 ⟨hm, hc1⟩, t, ht, hst,
      mkPerm_eq_spec join hj s c t (hok.2.2 hst)⟩
  · rintro ⟨s, hs, c, hc, ha, t, ht, hst, rfl⟩
    obtain ⟨hm, hc1⟩ := (admits_iff s mode c).1 ha
    have hc2 : decide (c ∈ cases) = true := by simpa using hc
    have hok := (e s hs hm).2 c hc1 hc2 t ht
    exact ⟨s, hs, hm, c, hc1, hc2, t, ht, hst, (mkPerm_eq_spec join hj s c t (hok.2.2 hst)).symm⟩

/-! ### grouping -/

def gkeys (g : List (ServerKey × List Perm)) : List ServerKey := g.map (·.1)

/-- the bucket stored under key `k` (empty when absent) -/
def bucket : List (ServerKey × List Perm) → ServerKey → List Perm
  | [], _ => []
  | (k', l) :: rest, k => if k' = k then l else bucket rest k

theorem gkeys_addToGroup (k : ServerKey) (q : Perm) (g : List (ServerKey × List Perm)) :
    gkeys (addToGroup k q g) = if k ∈ gkeys g then gkeys g else gkeys g ++ [k] := by
  induction g with
  | nil => simp [addToGroup, gkeys]
  | cons b rest ih =>
    obtain ⟨k', l⟩ := b
    unfold addToGroup
    by_cases h : k' = k
    · subst h; simp [gkeys]
    · simp only [h, if_false]
      simp only [gkeys, List.map_cons] at ih ⊢
      rw [ih]
      have h' : ¬ k = k' := fun x => h x.symm
      by_cases hm : k ∈ List.map (fun x => x.1) rest
      · simp [hm]
      · simp [hm, h']

theorem bucket_addToGroup (k : ServerKey) (q : Perm) (g : List (ServerKey × List Perm)) (k'' : ServerKey) :
    bucket (addToGroup k q g) k'' = if k'' = k then bucket g k ++ [q] else bucket g k'' := by
  induction g with
  | nil =>
    by_cases h : k'' = k
    · subst h; simp [addToGroup, bucket]
    · have h' : ¬ k = k'' := fun x => h x.symm
      simp [addToGroup, bucket, h, h']
  | cons b rest ih =>
    obtain ⟨k', l⟩ := b
    unfold addToGroup
    by_cases h : k' = k
    · subst h
      by_cases h2 : k'' = k'
      · subst h2; simp [bucket]
      · have h2' : ¬ k' = k'' := fun x => h2 x.symm
        simp [bucket, h2, h2']
    · simp only [h, if_false]
      by_cases h2 : k' = k''
      · subst h2
        simp [bucket, h]
      · simp only [bucket, h2, if_false, h]
        exact ih

theorem mem_iff_bucket (g : List (ServerKey × List Perm)) (hnd : (gkeys g).Nodup) (b : ServerKey × List Perm) :
    b ∈ g ↔ b.1 ∈ gkeys g ∧ b.2 = bucket g b.1 := by
  induction g with
  | nil => simp [gkeys]
  | cons a rest ih =>
    obtain ⟨k', l⟩ := a
    obtain ⟨k, l2⟩ := b
    simp only [gkeys, List.map_cons, List.nodup_cons] at hnd
    have ih' := ih hnd.2
    simp only [List.mem_cons, gkeys, List.map_cons, bucket, Prod.mk.injEq]
    by_cases h : k' = k
    · subst h
      simp only [if_true, true_or, true_and]
      constructor
      · rintro (hx | hm)
        · exact hx
        · exfalso; apply hnd.1
          exact List.mem_map.2 ⟨(k', l2), hm, rfl⟩
      · intro hx; exact Or.inl hx
    · have h' : ¬ k = k' := fun x => h x.symm
      simp only [h, h', false_and, false_or, if_false]
      exact ih'

def groupFrom (g : List (ServerKey × List Perm)) (l : List Perm) : List (ServerKey × List Perm) :=
  l.foldl (fun g q => addToGroup (keyOf q) q g) g

theorem groupFrom_props (l : List Perm) : ∀ (g : List (ServerKey × List Perm)), (gkeys g).Nodup →
    (gkeys (groupFrom g l)).Nodup ∧
    (∀ k, k ∈ gkeys (groupFrom g l) ↔ (k ∈ gkeys g ∨ ∃ q ∈ l, keyOf q = k)) ∧
    (∀ k, bucket (groupFrom g l) k = bucket g k ++ l.filter (fun q => keyOf q = k)) := by
  induction l with
  | nil => intro g h; simp [groupFrom, h]
  | cons q l ih =>
    intro g h
    have hk := gkeys_addToGroup (keyOf q) q g
    have hnd : (gkeys (addToGroup (keyOf q) q g)).Nodup := by
      rw [hk]; split
      · exact h
      · rename_i hm
        exact List.nodup_append.2 ⟨h, by simp, by
          intro a ha b hb; simp at hb; subst hb; intro hx; subst hx; exact hm ha⟩
    obtain ⟨a, b, c⟩ := ih (addToGroup (keyOf q) q g) hnd
    have e : groupFrom g (q :: l) = groupFrom (addToGroup (keyOf q) q g) l := rfl
    rw [e]
    refine ⟨a, fun k => ?_, fun k => ?_⟩
    · rw [b k, hk]
      simp only [List.mem_cons, exists_eq_or_imp]
      split
      · rename_i hm
        constructor
        · rintro (x | x)
          · exact Or.inl x
          · exact Or.inr (Or.inr x)
        · rintro (x | x | x)
          · exact Or.inl x
          · subst x; exact Or.inl hm
          · exact Or.inr x
      · simp only [List.mem_append, List.mem_singleton]
        constructor
        · rintro ((x | x) | x)
          · exact Or.inl x
          · exact Or.inr (Or.inl x.symm)
          · exact Or.inr (Or.inr x)
        · rintro (x | x | x)
          · exact Or.inl (Or.inl x)
          · exact Or.inl (Or.inr x.symm)
          · exact Or.inr x
    · rw [c k, bucket_addToGroup]
      by_cases hkk : k = keyOf q
      · subst hkk; simp
      · have hkk' : ¬ keyOf q = k := fun x => hkk x.symm
        simp [hkk, hkk']

theorem group_props (l : List Perm) :
    (gkeys (group l)).Nodup ∧
    (∀ k, k ∈ gkeys (group l) ↔ ∃ q ∈ l, keyOf q = k) ∧
    (∀ b ∈ group l, b.2 = l.filter (fun q => keyOf q = b.1)) := by
  obtain ⟨a, b, c⟩ := groupFrom_props l [] (by simp [gkeys])
  have e : group l = groupFrom [] l := rfl
  rw [e]
  refine ⟨a, fun k => ?_, fun bb hb => ?_⟩
  · have := b k; simpa [gkeys] using this
  · have h1 := (mem_iff_bucket (groupFrom [] l) a bb).1 hb
    rw [h1.2]
    have := c bb.1
    simpa [bucket] using this

theorem nodup_map_inj {α β} (f : α → β) : ∀ (l : List α), (l.map f).Nodup → ∀ a ∈ l, ∀ b ∈ l, f a = f b → a = b := by
  intro l
  induction l with
  | nil => intro _ a ha; simp at ha
  | cons x xs ih =>
    intro h a ha b hb hab
    simp only [List.map_cons, List.nodup_cons] at h
    rcases List.mem_cons.1 ha with rfl | ha' <;> rcases List.mem_cons.1 hb with rfl | hb'
    · rfl
    · exfalso; apply h.1; rw [hab]; exact List.mem_map.2 ⟨b, hb', rfl⟩
    · exfalso; apply h.1; rw [← hab]; exact List.mem_map.2 ⟨a, ha', rfl⟩
    · exact ih h.2 a ha' b hb' hab

theorem count_eq_one_of_nodup {β} [DecidableEq β] (l : List β) (h : l.Nodup) (x : β) (hx : x ∈ l) : l.count x = 1 := by
  induction l with
  | nil => simp at hx
  | cons y ys ih =>
    simp only [List.nodup_cons] at h
    rcases List.mem_cons.1 hx with rfl | hx'
    · have : ys.count x = 0 := List.count_eq_zero.2 h.1
      simp [this]
    · have hne : y ≠ x := fun e => h.1 (e ▸ hx')
      rw [List.count_cons_of_ne hne]
      exact ih h.2 hx'

theorem nodup_map_filter {α β} (f : α → β) (p : α → Bool) (l : List α) (h : (l.map f).Nodup) :
    ((l.filter p).map f).Nodup := by
  induction l with
  | nil => simp
  | cons x xs ih =>
    simp only [List.map_cons, List.nodup_cons] at h
    simp only [List.filter_cons]
    split
    · simp only [List.map_cons, List.nodup_cons]
      refine ⟨fun hm => h.1 ?_, ih h.2⟩
      obtain ⟨y, hy, hfy⟩ := List.mem_map.1 hm
      exact List.mem_map.2 ⟨y, (List.mem_filter.1 hy).1, hfy⟩
    · exact ih h.2

/-- the model's grouping satisfies the property's "grouped under exactly one server instance" -/
theorem grouped_once_model (lib : List Perm) (hnd : (names lib).Nodup) :
    GroupedOnce (lib.map fun q => (q.fullName, keyOf q))
      ((group lib).map fun b => (b.1, b.2.map (·.fullName))) := by
  obtain ⟨a, b, c⟩ := group_props lib
  unfold GroupedOnce
  refine ⟨?_, ?_, ?_, ?_⟩
  · have e : List.map (fun x => x.1) (List.map (fun b : ServerKey × List Perm => (b.1, b.2.map (·.fullName))) (group lib)) = gkeys (group lib) := by
      simp [gkeys, List.map_map, Function.comp_def]
    rw [e]; exact a
  · intro x hx g hg
    obtain ⟨q, hq, rfl⟩ := List.mem_map.1 hx
    obtain ⟨bb, hbb, rfl⟩ := List.mem_map.1 hg
    have hb2 := c bb hbb
    simp only
    have key : q.fullName ∈ bb.2.map (·.fullName) ↔ bb.1 = keyOf q := by
      rw [hb2]
      constructor
      · intro hm
        obtain ⟨q', hq', hn⟩ := List.mem_map.1 hm
        have hq'' := List.mem_filter.1 hq'
        have : q' = q := nodup_map_inj (fun p : Perm => p.fullName) lib hnd q' hq''.1 q hq hn
        subst this
        have := hq''.2; simp at this; exact this.symm
      · intro hk
        exact List.mem_map.2 ⟨q, List.mem_filter.2 ⟨hq, by simpa using hk.symm⟩, rfl⟩
    refine ⟨key, fun hk => ?_⟩
    apply count_eq_one_of_nodup _ _ _ (key.2 hk)
    rw [hb2]
    exact nodup_map_filter _ _ lib hnd
  · intro x hx
    obtain ⟨q, hq, rfl⟩ := List.mem_map.1 hx
    obtain ⟨bb, hbb, hk⟩ := List.mem_map.1 ((b (keyOf q)).2 ⟨q, hq, rfl⟩)
    exact ⟨_, List.mem_map.2 ⟨bb, hbb, rfl⟩, hk⟩
  · intro g hg n hn
    obtain ⟨bb, hbb, rfl⟩ := List.mem_map.1 hg
    simp only at hn
    obtain ⟨q, hq, rfl⟩ := List.mem_map.1 hn
    rw [c bb hbb] at hq
    exact ⟨_, List.mem_map.2 ⟨q, (List.mem_filter.1 hq).1, rfl⟩, rfl⟩

/-! ### parseTestSuites -/

theorem checkTests_none (mode : Mode) (ts : List Test) :
    checkTests mode ts = none ↔ ∀ t ∈ ts,
      (t.rawRequest = true → mode = .server) ∧ (t.rawResponse = true → mode = .client ∧ t.hasExpected = true) := by
  induction ts with
  | nil => simp [checkTests]
  | cons t ts ih =>
    unfold checkTests
    simp only [List.mem_cons, forall_eq_or_imp]
    split
    · rename_i h; simp only [reduceCtorEq, false_iff]; intro hx; exact h.2 (hx.1.1 h.1)
    rename_i h1
    split
    · rename_i h; simp only [reduceCtorEq, false_iff]; intro hx; exact h.2 (hx.1.2 h.1).1
    rename_i h2
    split
    · rename_i h; simp only [reduceCtorEq, false_iff]; intro hx
      have := (hx.1.2 h.1).2; rw [h.2] at this; cases this
    rename_i h3
    rw [ih]
    constructor
    · intro hx
      refine ⟨⟨fun a => Decidable.of_not_not fun b => h1 ⟨a, b⟩, fun a => ⟨Decidable.of_not_not fun b => h2 ⟨a, b⟩, ?_⟩⟩, hx⟩
      cases he : t.hasExpected
      · exact absurd ⟨a, he⟩ h3
      · rfl
    · intro hx; exact hx.2

theorem parseSuites_none (suites : List Suite) : parseSuites suites = none ↔ RawPayloadsOk suites := by
  unfold RawPayloadsOk
  induction suites with
  | nil => simp [parseSuites]
  | cons s ss ih =>
    unfold parseSuites
    simp only [List.mem_cons, forall_eq_or_imp]
    cases h : checkTests s.mode s.tests with
    | some e =>
      simp only [reduceCtorEq, false_iff]
      intro hx
      have := (checkTests_none s.mode s.tests).2 hx.1
      rw [h] at this; cases this
    | none =>
      simp only
      rw [ih]
      have := (checkTests_none s.mode s.tests).1 h
      exact ⟨fun hx => ⟨this, hx⟩, fun hx => hx.2⟩

theorem pathJoin_cons_empty (l : List String) : pathJoin ("" :: l) = pathJoin l := by
  unfold pathJoin pathJoinL
  simp

/-! ### gRPC reference peers -/

theorem grpcApplicable_iff (cl sv : Bool) (q : Perm) :
    grpcApplicable cl sv q = true ↔ GrpcPeerApplicable cl sv q := by
  unfold grpcApplicable GrpcPeerApplicable
  cases cl <;> cases sv <;> cases hp : q.p <;> cases hr : q.rawRequest <;> cases hs : q.rawResponse <;>
    cases hc : q.serverCert <;> simp [and_assoc]

theorem filterGRPC_names (cl sv : Bool) (h : cl = true ∨ sv = true) (perms : List Perm) :
    (filterGRPC cl sv perms).map (·.fullName) = markedNames cl sv perms := by
  unfold filterGRPC markedNames
  have hn : (!cl && !sv) = false := by rcases h with h | h <;> simp [h]
  rw [hn]
  simp only [Bool.false_eq_true, if_false, List.map_map]
  have hf : (perms.filter (grpcApplicable cl sv)) = perms.filter (fun q => decide (GrpcPeerApplicable cl sv q)) := by
    apply List.filter_congr
    intro q _
    by_cases hq : GrpcPeerApplicable cl sv q
    · simp [hq, (grpcApplicable_iff cl sv q).2 hq]
    · have : grpcApplicable cl sv q = false := by
        cases hx : grpcApplicable cl sv q
        · rfl
        · exact absurd ((grpcApplicable_iff cl sv q).1 hx) hq
      simp [hq, this]
  rw [hf]
  rfl

theorem allPermutations_names (cl sv : Bool) (perms : List Perm) :
    (allPermutations cl sv perms).map (·.fullName) = specAllNames cl sv perms := by
  unfold allPermutations specAllNames
  simp only [List.map_append]
  cases cl <;> cases sv <;> simp [filterGRPC_names]


theorem only_iff' {α} [DecidableEq α] (l : List α) (x : α) :
    only l x = true ↔ (l ≠ [] ∧ ∀ y ∈ l, y = x) := by
  unfold only
  cases l <;> simp

theorem misconfigured_iff (s : Suite) : misconfigured s = true ↔ Misconfigured s := by
  unfold misconfigured Misconfigured
  have h := only_iff' s.protocols Proto.connect
  by_cases ho : only s.protocols Proto.connect = true
  · have h' := h.1 ho
    cases s.reliesOnCerts <;> cases s.reliesOnTls <;> cases s.reliesOnGet <;> cases hc : s.cvm <;> simp [ho, h'.1] <;> exact h'.2
  · have ho' : only s.protocols Proto.connect = false := by
      cases hx : only s.protocols Proto.connect
      · rfl
      · exact absurd hx ho
    have h' : ¬ (s.protocols ≠ [] ∧ ∀ y ∈ s.protocols, y = Proto.connect) := fun hx => ho (h.2 hx)
    cases s.reliesOnCerts <;> cases s.reliesOnTls <;> cases s.reliesOnGet <;> cases hc : s.cvm <;> simp [ho', h']
end ConfModel.Library
