import ConfModel.Driver.Common
namespace ConfModel.Driver.C07
open Lean ConfModel.Driver

def handle : Handler := fun op _inp _impl => bad ("C07: unknown op " ++ op)

end ConfModel.Driver.C07
