//go:build verif

package connectconformance

import (
	"sync"

	conformancev1 "connectrpc.com/conformance/internal/gen/proto/go/connectrpc/conformance/v1"
)

// VerifC19ExpandRequestData is expandRequestData.
func VerifC19ExpandRequestData(tc *conformancev1.TestCase) error {
	return expandRequestData(tc)
}

// VerifC19ServerReceiveLimit is the constant the padding is relative to.
func VerifC19ServerReceiveLimit() int64 { return serverReceiveLimit }

// VerifC19ClientReceiveLimit is the limit handed to clients under test.
func VerifC19ClientReceiveLimit() int64 { return clientReceiveLimit }

// VerifC19Loaded is what the runner's own loading glue makes of a set of test files.
type VerifC19Loaded struct {
	ParseErr error
	// the suites as parseTestSuites returns them (after the expand_requests processing)
	Suites map[string]*conformancev1.TestSuite
	LibErr error
	// the library's permutations (testCases) keyed by full name, and their names in the file
	Perms  map[string]*conformancev1.TestCase
	Simple map[string]string
	// number of entries reachable through casesByServer and allPermutations(false, false)
	Grouped, All int
}

// VerifC19Load drives test files through the glue of Run/run: parseTestSuites on the bytes,
// the default configuration (parseConfig without a file), newTestCaseLibrary for the mode.
func VerifC19Load(files map[string][]byte, mode conformancev1.TestSuite_TestMode) VerifC19Loaded {
	var out VerifC19Loaded
	out.Suites, out.ParseErr = parseTestSuites(files)
	if out.ParseErr != nil {
		return out
	}
	// the default configuration (no config file), computed by the real parseConfig once
	verifC19ConfigOnce.Do(func() { verifC19Config, verifC19ConfigErr = parseConfig("", nil) })
	configCases, err := verifC19Config, verifC19ConfigErr
	if err != nil {
		out.LibErr = err
		return out
	}
	lib, err := newTestCaseLibrary(out.Suites, configCases, mode)
	if err != nil {
		out.LibErr = err
		return out
	}
	out.Perms, out.Simple = lib.testCases, lib.testCaseNames
	for _, cases := range lib.casesByServer {
		out.Grouped += len(cases)
	}
	out.All = len(lib.allPermutations(false, false))
	return out
}

var (
	verifC19ConfigOnce sync.Once
	verifC19Config     []configCase
	verifC19ConfigErr  error
)
