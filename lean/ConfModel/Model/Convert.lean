/-
Model of the conversion helpers anchored by C18:

* `internal/errors.go`            ConvertProtoToConnectError / ConvertConnectToProtoError /
                                  ConvertErrorToProtoError
* `internal/grpcutil/errors.go`   ConvertProtoToGrpcError / ConvertGrpcToProtoError
* `internal/grpcutil/metadata.go` ConvertProtoHeaderToMetadata / ConvertMetadataToProtoHeader /
                                  AppendToOutgoingContext / PercentEncodeMessage
* `internal/headers.go`           AddHeaders / AddTrailers / ConvertToProtoHeader
* `internal/codec.go`             StrictJSONCodec / StrictProtoCodec (codec = parameter)

Go strings are byte strings: header values and metadata values are `List UInt8`; names and
type URLs are `List Char` (ASCII in every generated input).  base64 (connect.Encode/
DecodeBinaryHeader), protobuf and protojson are *parameters* of the model.

The model is of the code **after** the `fix:` commits for F10–F13; the behaviour before the
repair is kept next to it (`…Old`) for the witness theorems.
-/
namespace ConfModel.Convert

abbrev Bytes := List UInt8
abbrev Str := List Char

/-! ## errors -/

structure Detail where
  url : Str
  value : Bytes
deriving DecidableEq, Repr

/-- `conformancev1.Error`: `message` is an `optional string`. -/
structure ProtoErr where
  code : Int
  message : Option String
  details : List Detail
deriving DecidableEq, Repr

/-- `connect.Error` as far as the conversions look at it.  An `ErrorDetail` built from an
`Any` keeps the `Any` (full type URL); `Type()` strips everything up to the last `/`. -/
structure ConnectErr where
  code : Int
  message : String
  details : List Detail
deriving DecidableEq, Repr

/-- `google.rpc.Status` inside a grpc-go status error. -/
structure GrpcStatus where
  code : Int
  message : String
  details : List Detail
deriving DecidableEq, Repr

/-- `internal.DefaultAnyResolverPrefix` (tied to the tree by `Generated.C18Facts.anyPrefix`). -/
def anyPrefix : Str := "type.googleapis.com/".toList

/-- connect-go `typeNameFromURL`: `url[strings.LastIndexByte(url, '/')+1:]`. -/
def typeName (url : Str) : Str := (url.reverse.takeWhile (· != '/')).reverse

/-- `GetMessage()` of an optional string field. -/
def ProtoErr.getMessage (e : ProtoErr) : String := e.message.getD ""

/-- `ConvertProtoToConnectError` (for a non-nil error).  `connect.NewErrorDetail` of an
`*anypb.Any` cannot fail, so the `CodeInternal` branch is unreachable. -/
def protoToConnect (e : ProtoErr) : ConnectErr :=
  { code := e.code, message := e.getMessage, details := e.details }

/-- `ConvertConnectToProtoError`: the message is always set; every detail gets the default
prefix in front of its `Type()`. -/
def connectToProto (e : ConnectErr) : ProtoErr :=
  { code := e.code, message := some e.message,
    details := e.details.map (fun d => { url := anyPrefix ++ typeName d.url, value := d.value }) }

/-- `ConvertProtoToGrpcError`: `status.ErrorProto` returns a nil error for code 0 (OK). -/
def protoToGrpc (e : ProtoErr) : Option GrpcStatus :=
  if e.code == 0 then none
  else some { code := e.code, message := e.getMessage, details := e.details }

/-- `ConvertGrpcToProtoError` on a status error (nil error ↦ nil). -/
def grpcToProto : Option GrpcStatus → Option ProtoErr
  | none => none
  | some s => some { code := s.code, message := some s.message, details := s.details }

/-- the errors `ConvertErrorToProtoError` is given -/
inductive GoErr where
  | plain (text : String)
  | connect (e : ConnectErr)
  /-- `fmt.Errorf("…: %w", connectErr)` — `errors.As` finds the wrapped error -/
  | wrapped (e : ConnectErr)
deriving DecidableEq, Repr

def codeUnknown : Int := 2

/-- `ConvertErrorToProtoError` -/
def errorToProto : Option GoErr → Option ProtoErr
  | none => none
  | some (.plain t) => some { code := codeUnknown, message := some t, details := [] }
  | some (.connect e) => some (connectToProto e)
  | some (.wrapped e) => some (connectToProto e)

/-- `ConvertErrorToConnectError`: nil stays nil, a Connect error (also a wrapped one) is itself,
anything else becomes a Connect error of code Unknown with the error's text -/
def errorToConnect : Option GoErr → Option ConnectErr
  | none => none
  | some (.plain t) => some { code := codeUnknown, message := t, details := [] }
  | some (.connect e) => some e
  | some (.wrapped e) => some e

/-- the message carries a value; the only thing a conversion may do to an unset message is
to set it to the empty string (`GetMessage()` is the same). -/
def ProtoErr.normalize (e : ProtoErr) : ProtoErr := { e with message := some e.getMessage }

/-! ## header lists and metadata -/

structure Header where
  name : Str
  values : List Bytes
deriving DecidableEq, Repr

/-- a Go `map[string][]string` built by appends: ordered association list, keys distinct -/
abbrev MD := List (Str × List Bytes)

/-- base64 as used by `connect.EncodeBinaryHeader` / `DecodeBinaryHeader` -/
structure B64 where
  enc : Bytes → Bytes
  dec : Bytes → Option Bytes

def B64.Lawful (c : B64) : Prop := ∀ x, c.dec (c.enc x) = some x

def lowerC (c : Char) : Char :=
  if 'A'.toNat ≤ c.toNat ∧ c.toNat ≤ 'Z'.toNat then Char.ofNat (c.toNat + 32) else c

/-- `strings.ToLower` on ASCII -/
def lower (s : Str) : Str := s.map lowerC

def binSuffix : Str := "-bin".toList

/-- `strings.HasSuffix(key, "-bin")` -/
def isBin (k : Str) : Bool := binSuffix.isSuffixOf k

/-- "if it's not encoded, then just add the raw value" -/
def decVal (c : B64) (v : Bytes) : Bytes := (c.dec v).getD v

def mdGet (md : MD) (k : Str) : List Bytes := (md.lookup k).getD []

def mdKeys (md : MD) : List Str := md.map (·.1)

/-- `md[k] = append(md[k], vs...)` -/
def mdAppend : MD → Str → List Bytes → MD
  | [], k, vs => [(k, vs)]
  | (k', vs') :: t, k, vs => if k' == k then (k', vs' ++ vs) :: t else (k', vs') :: mdAppend t k vs

/-- Generic shape of the three "add every value under a normalised key" loops:
`norm` normalises the key, `tr key` transforms each value. -/
def collectInto (norm : Str → Str) (tr : Str → Bytes → Bytes) (acc : MD) : List Header → MD
  | [] => acc
  | h :: t => collectInto norm tr (mdAppend acc (norm h.name) (h.values.map (tr (norm h.name)))) t

def collect (norm : Str → Str) (tr : Str → Bytes → Bytes) (hs : List Header) : MD :=
  collectInto norm tr [] hs

def decIfBin (c : B64) (k : Str) (v : Bytes) : Bytes := if isBin k then decVal c v else v
def encIfBin (c : B64) (k : Str) (v : Bytes) : Bytes := if isBin k then c.enc v else v

/-- `ConvertProtoHeaderToMetadata` (repaired, F11): values of entries with the same
lower-cased name are appended. -/
def headersToMD (c : B64) (hs : List Header) : MD := collect lower (decIfBin c) hs

/-- the code before the F11 repair: `asMetadata[key] = vals` (last entry wins) -/
def mdSet : MD → Str → List Bytes → MD
  | [], k, vs => [(k, vs)]
  | (k', vs') :: t, k, vs => if k' == k then (k', vs) :: t else (k', vs') :: mdSet t k vs

def headersToMDOld (c : B64) (hs : List Header) : MD :=
  hs.foldl (fun md h => mdSet md (lower h.name) (h.values.map (decIfBin c (lower h.name)))) []

/-- `ConvertMetadataToProtoHeader` (repaired, F13): one header per key, `-bin` values encoded
into a fresh slice.  Returns the headers and the caller's metadata as it is afterwards. -/
def mdToHeaders (c : B64) (md : MD) : List Header :=
  md.map (fun kv => { name := kv.1, values := kv.2.map (encIfBin c kv.1) })

def mdToHeadersSt (c : B64) (md : MD) : List Header × MD := (mdToHeaders c md, md)

/-- before the F13 repair the encoding was done in place in the caller's slices -/
def mdToHeadersStOld (c : B64) (md : MD) : List Header × MD :=
  let md' : MD := md.map (fun kv => (kv.1, kv.2.map (encIfBin c kv.1)))
  (md'.map (fun kv => { name := kv.1, values := kv.2 }), md')

/-- the key/value pairs of a header list, one per value, each value passed through
`tr (norm name)` -/
def pairsOf (norm : Str → Str) (tr : Str → Bytes → Bytes) (hs : List Header) : List (Str × Bytes) :=
  hs.flatMap (fun h => h.values.map (fun v => (h.name, tr (norm h.name) v)))

/-- adding pairs one at a time under a normalised key (`md[norm k] = append(md[norm k], v)`):
grpc-go `metadata.FromOutgoingContext` (`norm = strings.ToLower`) and `http.Header.Add`
(`norm = CanonicalMIMEHeaderKey`) -/
def addPairs (norm : Str → Str) (kvs : List (Str × Bytes)) : MD :=
  kvs.foldl (fun md kv => mdAppend md (norm kv.1) [kv.2]) []

/-- `AppendToOutgoingContext` (repaired, F12): the key/value pairs handed to grpc-go; `-bin`
values are decoded, because grpc-go encodes them on the wire. -/
def appendOutgoing (c : B64) (hs : List Header) : List (Str × Bytes) := pairsOf lower (decIfBin c) hs

def appendOutgoingOld (hs : List Header) : List (Str × Bytes) := pairsOf lower (fun _ v => v) hs

/-- grpc-go `metadata.FromOutgoingContext` over the appended pairs -/
def fromOutgoing (kvs : List (Str × Bytes)) : MD := addPairs lower kvs

/-! `net/textproto.CanonicalMIMEHeaderKey` (used by `http.Header.Add`) -/

def isTokenChar (c : Char) : Bool :=
  c.isAlphanum || "!#$%&'*+-.^_`|~".toList.contains c

def upperC (c : Char) : Char :=
  if 'a'.toNat ≤ c.toNat ∧ c.toNat ≤ 'z'.toNat then Char.ofNat (c.toNat - 32) else c

def canonAux : Bool → Str → Str
  | _, [] => []
  | up, c :: t => (if up then upperC c else lowerC c) :: canonAux (c == '-') t

def canon (s : Str) : Str := if s.all isTokenChar then canonAux true s else s

def trailerPrefix : Str := "Trailer:".toList

/-- `AddHeaders(src, dest)` on an empty `http.Header`: `dest.Add(name, val)` per value (an
entry without values adds nothing) -/
def addHeaders (hs : List Header) : MD := addPairs canon (pairsOf canon (fun _ v => v) hs)

/-- `AddTrailers(src, dest)`: `dest.Add(http.TrailerPrefix+name, val)` -/
def trailerNorm (n : Str) : Str := canon (trailerPrefix ++ n)

def addTrailers (hs : List Header) : MD :=
  addPairs canon (hs.flatMap (fun h => h.values.map (fun v => (trailerPrefix ++ h.name, v))))

/-- `ConvertToProtoHeader` -/
def convertToProtoHeader (md : MD) : List Header := md.map (fun kv => { name := kv.1, values := kv.2 })

/-! ## percent-encoding of `grpc-message` -/

def shouldEscape (b : UInt8) : Bool := b < 0x20 || b > 0x7e || b == 0x25

def upperHex (n : Nat) : UInt8 := if n < 10 then UInt8.ofNat (n + 48) else UInt8.ofNat (n + 55)

/-- `PercentEncodeMessage` -/
def percentEncode : Bytes → Bytes
  | [] => []
  | b :: t => if shouldEscape b then 0x25 :: upperHex (b.toNat / 16) :: upperHex (b.toNat % 16) :: percentEncode t
              else b :: percentEncode t

/-! ## the reference server's own rendering of a Connect error as gRPC status trailers

`internal/app/referenceserver/impl.go`: `grpcStatusTrailers` (used by the hand-built raw gRPC
and gRPC-Web responses of reference mode: a unary error with custom response headers).
base64 and the protobuf encoding of `google.rpc.Status` are outside the model: `bin` is the
decoded message. -/

/-- `google.rpc.Status` as carried in `grpc-status-details-bin`: code, message (UTF-8 bytes), details -/
structure StatusBin where
  code : Int
  message : Bytes
  details : List Detail
deriving DecidableEq, Repr

/-- the three status trailers as they appear on the wire -/
structure StatusTrailers where
  /-- `grpc-status`, decimal -/
  status : Int
  /-- `grpc-message`, percent-encoded -/
  message : Bytes
  /-- `grpc-status-details-bin`, only when the error has details -/
  bin : Option StatusBin
deriving DecidableEq, Repr

/-- `grpcStatusTrailers` on an error given by its parts (`msg` = the UTF-8 bytes of
`err.Message()`): the message is percent-encoded in `grpc-message` and raw inside the
`google.rpc.Status`; every detail gets the default prefix in front of its `Type()`. -/
def statusTrailersOf (code : Int) (msg : Bytes) (details : List Detail) : StatusTrailers :=
  { status := code,
    message := percentEncode msg,
    bin := if details.isEmpty then none
           else some { code := code, message := msg,
                       details := details.map (fun d => { url := anyPrefix ++ typeName d.url, value := d.value }) } }

def grpcStatusTrailers (e : ConnectErr) : StatusTrailers :=
  statusTrailersOf e.code e.message.toUTF8.toList e.details

/-! ## the repository's own decoders of what its encoders write

`internal/app/referenceclient/wire_details.go`, `checkGRPCStatus`: the reference client decodes the
`grpc-message` value (`url.PathUnescape`) and the `grpc-status-details-bin` value (base64, then
`google.rpc.Status`; outside the model as in `statusTrailersOf`) and compares code and message of
the two carriers.  This is the decoding end of `PercentEncodeMessage` / `grpcStatusTrailers`. -/

def lowerHex (n : Nat) : UInt8 := if n < 10 then UInt8.ofNat (n + 48) else UInt8.ofNat (n + 87)

/-- net/url `ishex` / `unhex` -/
def unhexDigit (b : UInt8) : Option Nat :=
  if 0x30 ≤ b && b ≤ 0x39 then some (b.toNat - 0x30)
  else if 0x61 ≤ b && b ≤ 0x66 then some (b.toNat - 0x61 + 10)
  else if 0x41 ≤ b && b ≤ 0x46 then some (b.toNat - 0x41 + 10)
  else none

/-- `url.PathUnescape`: `%` must be followed by two hex digits (either case), anything else is an
`EscapeError` for the whole string; every other byte - `+` included - stands for itself. -/
def pathUnescape : Bytes → Option Bytes
  | [] => some []
  | c :: t =>
    if c == 0x25 then
      match t with
      | a :: b :: t' =>
        match unhexDigit a, unhexDigit b, pathUnescape t' with
        | some x, some y, some r => some (UInt8.ofNat (x * 16 + y) :: r)
        | _, _, _ => none
      | _ => none
    else (pathUnescape t).map (c :: ·)

/-- `url.QueryUnescape`, the decoder of the other escaping mode of net/url (counter-model of the
witness theorem): as above, but `+` stands for a space. -/
def queryUnescape : Bytes → Option Bytes
  | [] => some []
  | c :: t =>
    if c == 0x25 then
      match t with
      | a :: b :: t' =>
        match unhexDigit a, unhexDigit b, queryUnescape t' with
        | some x, some y, some r => some (UInt8.ofNat (x * 16 + y) :: r)
        | _, _, _ => none
      | _ => none
    else (queryUnescape t).map ((if c == 0x2B then 0x20 else c) :: ·)

/-- how one byte of a message is written in a `grpc-message` value -/
inductive Esc where
  | plain | upper | lower
deriving DecidableEq, Repr

def encodeByte (b : UInt8) : Esc → Bytes
  | .plain => [b]
  | .upper => [0x25, upperHex (b.toNat / 16), upperHex (b.toNat % 16)]
  | .lower => [0x25, lowerHex (b.toNat / 16), lowerHex (b.toNat % 16)]

/-- a percent-encoding of a message: every byte with the way it is written -/
def encodeWith : List (UInt8 × Esc) → Bytes
  | [] => []
  | (b, e) :: t => encodeByte b e ++ encodeWith t

/-- the encoding is one the gRPC specification allows: a byte outside 0x20..0x7E and `%` is
never written as itself (any byte may be escaped, with hex digits of either case) -/
def conformant (cs : List (UInt8 × Esc)) : Bool := cs.all (fun be => !(be.2 == .plain && shouldEscape be.1))

/-- the choice `PercentEncodeMessage` makes -/
def ownChoice (m : Bytes) : List (UInt8 × Esc) := m.map (fun b => (b, if shouldEscape b then .upper else .plain))

/-- the two comparisons of `checkGRPCStatus` between the carriers -/
structure StatusDisagreement where
  /-- "grpc-status-details-bin value that disagrees with grpc-status value" -/
  code : Bool
  /-- "grpc-status-details-bin value that disagrees with grpc-message value" -/
  message : Bool
deriving DecidableEq, Repr

/-- `checkGRPCStatus` on well-formed trailers, as far as the decoded values go: without
`grpc-status-details-bin` there is nothing to compare; a `grpc-message` that `PathUnescape`
rejects is not compared either. -/
def clientCheckStatus (t : StatusTrailers) : StatusDisagreement :=
  match t.bin with
  | none => { code := false, message := false }
  | some s =>
    { code := s.code != t.status,
      message := match pathUnescape t.message with
        | some d => d != s.message
        | none => false }

/-! ## strict codecs, relative to an underlying (un)marshaller

`dec` returns the decoded message together with its unknown-field bytes. -/

structure Codec (M : Type) where
  enc : M → Option Bytes
  dec : Bytes → Option (M × Bytes)

/-- a codec that decodes what it encodes, leaving no unknown fields -/
def Codec.RoundTrips {M} (c : Codec M) : Prop := ∀ m d, c.enc m = some d → c.dec d = some (m, [])

inductive StrictResult (M : Type) where
  | ok (m : M)
  | malformed
  | unknownFields
deriving DecidableEq, Repr

/-- `Strict…Codec.Marshal` (repaired, F10: the proto codec marshals with `proto`, not `protojson`) -/
def strictMarshal {M} (c : Codec M) (m : M) : Option Bytes := c.enc m

/-- `Strict…Codec.Unmarshal`: decode, then refuse a non-empty unknown-field set -/
def strictUnmarshal {M} (c : Codec M) (data : Bytes) : StrictResult M :=
  match c.dec data with
  | none => .malformed
  | some (m, unk) => if unk.isEmpty then .ok m else .unknownFields

/-! ## sequences of codec calls

Every `Marshal` / `MarshalStable` / `MarshalAppend` call of `internal/codec.go` returns a
buffer of its own (`proto.Marshal`, `protojson.Marshal`, `json.Compact` into a local
`bytes.Buffer`, `append` to the caller's `dst`) and `Unmarshal` keeps nothing of its
argument.  The heap of results is the list of buffers returned so far: a call appends to that
list and never writes into it. -/

inductive Call (M : Type) where
  /-- `Marshal`, `MarshalStable` or `MarshalAppend` of a message -/
  | encode (m : M)
  /-- `Unmarshal` of the buffer returned by the `i`-th call of the sequence -/
  | decode (i : Nat)

structure CallState (M : Type) where
  /-- what the `i`-th call returned as bytes (`none`: it failed, or it was a decode call) -/
  bufs : List (Option Bytes) := []
  /-- what the `i`-th call returned as a message (`none`: not a decode call / nothing to decode) -/
  msgs : List (Option (StrictResult M)) := []

def callStep {M} (c : Codec M) (st : CallState M) : Call M → CallState M
  | .encode m => { bufs := st.bufs ++ [strictMarshal c m], msgs := st.msgs ++ [none] }
  | .decode i => { bufs := st.bufs ++ [none], msgs := st.msgs ++ [(st.bufs[i]?.join).map (strictUnmarshal c)] }

def runCalls {M} (c : Codec M) : List (Call M) → CallState M → CallState M
  | [], st => st
  | call :: rest, st => runCalls c rest (callStep c st call)

/-- what the code would be with a pooled scratch buffer whose bytes are handed out (the
counter-model used by the witness theorem): every encode call overwrites the one buffer all
earlier results point into -/
def callStepPooled {M} (c : Codec M) (st : CallState M) : Call M → CallState M
  | .encode m => { bufs := st.bufs.map (fun b => b.bind fun _ => strictMarshal c m) ++ [strictMarshal c m],
                   msgs := st.msgs ++ [none] }
  | .decode i => { bufs := st.bufs ++ [none], msgs := st.msgs ++ [(st.bufs[i]?.join).map (strictUnmarshal c)] }

def runCallsPooled {M} (c : Codec M) : List (Call M) → CallState M → CallState M
  | [], st => st
  | call :: rest, st => runCallsPooled c rest (callStepPooled c st call)

/-! ## histories of one message OBJECT

A codec call is handed an object the caller keeps: it was encoded or sized before
(`proto.Size`, `Marshal`, `MarshalAppend`, `MarshalStable`), nested or top-level fields were
changed in between, or the caller went on with a `proto.Clone`.  `internal/codec.go` encodes with
`proto.MarshalOptions{}` / `{Deterministic: true}` / `protojson.MarshalOptions{}`: nothing an
earlier call left in the object is consulted (`UseCachedSize` is off), so every encode call
returns the encoding of the object's CURRENT value.  One entry of `outs` per step. -/

inductive HStep (M : Type) where
  /-- `Marshal` / `MarshalStable` / `MarshalAppend` of the object as it is now -/
  | encode
  /-- `proto.Size` of the object (result dropped) -/
  | size
  /-- the caller changes the object (a field of a nested message, or a top-level field) -/
  | mutate (f : M → M)
  /-- the caller continues with `proto.Clone` of the object -/
  | clone

structure HistState (M : Type) where
  value : M
  outs : List (Option (Option Bytes)) := []

def histStep {M} (c : Codec M) (st : HistState M) : HStep M → HistState M
  | .encode => { value := st.value, outs := st.outs ++ [some (strictMarshal c st.value)] }
  | .size => { value := st.value, outs := st.outs ++ [none] }
  | .mutate f => { value := f st.value, outs := st.outs ++ [none] }
  | .clone => { value := st.value, outs := st.outs ++ [none] }

def runHist {M} (c : Codec M) : List (HStep M) → HistState M → HistState M
  | [], st => st
  | s :: rest, st => runHist c rest (histStep c st s)

/-- the value of the object after a history: only the caller's changes count -/
def valueAfter {M} : List (HStep M) → M → M
  | [], v => v
  | .mutate f :: rest, v => valueAfter rest (f v)
  | _ :: rest, v => valueAfter rest v

/-- the caller's changes of a history alone (every encode / size / clone step removed) -/
def mutationsOf {M} : List (HStep M) → List (HStep M)
  | [] => []
  | .mutate f :: rest => .mutate f :: mutationsOf rest
  | _ :: rest => mutationsOf rest

/-- counter-model (witness only): the object remembers the value its nested sizes were computed
for (`sized`), every sizing / encoding refreshes it only when nothing is remembered yet, and
encoding with `UseCachedSize` fails ("size mismatch") when the remembered value is not the
current one.  A clone remembers nothing. -/
structure HistStateCached (M : Type) where
  value : M
  sized : Option M := none
  outs : List (Option (Option Bytes)) := []

def histStepCached {M} [DecidableEq M] (c : Codec M) (st : HistStateCached M) : HStep M → HistStateCached M
  | .encode =>
    let ok := match st.sized with | none => true | some v => decide (v = st.value)
    { value := st.value, sized := some (st.sized.getD st.value),
      outs := st.outs ++ [some (if ok then strictMarshal c st.value else none)] }
  | .size => { value := st.value, sized := some (st.sized.getD st.value), outs := st.outs ++ [none] }
  | .mutate f => { value := f st.value, sized := st.sized, outs := st.outs ++ [none] }
  | .clone => { value := st.value, sized := none, outs := st.outs ++ [none] }

def runHistCached {M} [DecidableEq M] (c : Codec M) : List (HStep M) → HistStateCached M → HistStateCached M
  | [], st => st
  | s :: rest, st => runHistCached c rest (histStepCached c st s)

end ConfModel.Convert
