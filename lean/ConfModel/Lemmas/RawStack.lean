/-
Lemmas for `Props/C17.lean`, the complete stack: what an exchange shows does not depend on the
process state it starts from.
-/
import ConfModel.Model.RawStack
import ConfModel.Lemmas.RawSeq
import ConfModel.Lemmas.RawBody
namespace ConfModel.RawStack
open ConfModel.RawBody ConfModel.RawMerge ConfModel.RawSeq

/-- the observation of one exchange is the same from every process state -/
theorem serve_seen (compress : Compress) (canon : String → String) (p q : Proc) (x : Exch) :
    (serve compress canon p x).2 = (serve compress canon q x).2 := by
  unfold serve
  cases hp : x.prescribed with
  | none =>
    simp only [Option.map_none, recorded]
    cases (run {} x.handler).1.raw <;> rfl
  | some d =>
    simp only [Option.map_some, recorded, run, step]
    simp [runStep_obs]

theorem serveHist_seen (compress : Compress) (canon : String → String) (xs : List Exch) : ∀ p : Proc,
    (serveHist compress canon p xs).2 = xs.map (seenOf compress canon) := by
  induction xs with
  | nil => intro p; rfl
  | cons x t ih =>
    intro p
    simp only [serveHist, List.map_cons, ih]
    rw [seenOf, serve_seen compress canon p {} x]

theorem serveHist_append (compress : Compress) (canon : String → String) (h1 h2 : List Exch) : ∀ p : Proc,
    (serveHist compress canon p (h1 ++ h2)).2 =
      (serveHist compress canon p h1).2 ++ (serveHist compress canon (serveHist compress canon p h1).1 h2).2 := by
  induction h1 with
  | nil => intro p; rfl
  | cons x t ih => intro p; simp only [List.cons_append, serveHist, ih]

/-- what an exchange with a prescribed raw response shows, spelled out -/
theorem seenOf_prescribed (compress : Compress) (canon : String → String) (x : Exch) (d : RawDef)
    (h : x.prescribed = some d) :
    seenOf compress canon x =
      ⟨true, finishStatus d.status,
       finishHeaders canon [] (corsActual [] x.origin) d.headers d.trailers,
       (obsOf compress ⟨d.body, x.budget⟩).out, d.trailers⟩ := by
  unfold seenOf serve
  simp only [h, Option.map_some, recorded, run, step]
  simp [runStep_obs, finishHeaders, clear]

/-- a handler whose first operation is its own starts the normal response: no raw response is
stored, the wire is the handler's output -/
theorem run_handler_first (o : Op) (t : List Op) (h : RawBodySpec.isHandler o = true) :
    (run {} (o :: t)).1 = { started := true, raw := none, wire := RawBodySpec.handlerEvents (o :: t) } := by
  cases o with
  | setRaw r => simp [RawBodySpec.isHandler, RawBodySpec.evOf] at h
  | write b =>
    have h := (run_started { started := true, raw := none, wire := [Ev.body b] } rfl rfl t).1
    simp [run, step, emit, canSend, h, RawBodySpec.handlerEvents, RawBodySpec.evOf]
  | writeHeader c =>
    have h := (run_started { started := true, raw := none, wire := [Ev.header c] } rfl rfl t).1
    simp [run, step, emit, canSend, h, RawBodySpec.handlerEvents, RawBodySpec.evOf]
  | flush =>
    have h := (run_started { started := true, raw := none, wire := [Ev.flush] } rfl rfl t).1
    simp [run, step, emit, canSend, h, RawBodySpec.handlerEvents, RawBodySpec.evOf]

theorem corsActual_distinct (origin : Option String) : keysDistinct (corsActual [] origin) = true := by
  cases origin <;> rfl

end ConfModel.RawStack
