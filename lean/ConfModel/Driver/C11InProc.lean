/-
C11 driver, op "inproc": the real `runTestCasesForServer` between an in-process server (real
`runInProcess` / `localProcess`) and the real client runner (`runClient` / `clientProcessRunner`)
over the pipes of an in-process scripted client.

The scripted client handles its requests one after the other and the script's barriers (`await`)
make the run deterministic, so the script determines one schedule of the client-runner model:
the driver turns it into an event list, runs **`ClientRunner.run`** (the function C10's theorems
are about) on it, reads off per request whether `sendRequest` accepted it and what its callback
carried (`caseOf`), computes `dies` with **`diesOf`** from the times at which the send loop tests
the server's liveness, and gives the resulting fault script to **`runBatch`**.

`agree` := outcome classes, accepted/refused per request, callbacks per request as the models say;
`holds` := the property on the implementation's output: returned, no panic, exactly the batch names
           have an outcome, `expectedOK` for every case, the loop's WaitGroup balanced
           (`wgBalance` = 0 for every request), the server stopped — and, a healthy one, only after
           every request was handed out and every callback invoked.
-/
import ConfModel.Driver.Common
import ConfModel.Spec.ServerRunner
import ConfModel.Spec.ClientRunner
namespace ConfModel.Driver.C11InProc
open Lean ConfModel.Driver ConfModel.ServerRunner

abbrev Ev := ConfModel.ClientRunner.Event

inductive IAct
  | req | pre (b : Nat) | part (b : Nat) | ans (m : Nat) (k : Kind) | garbage | await (m : Nat)
  | sleep (ms : Nat) | exit (code : Nat)

def parseAnsKind (k : String) : Option Kind :=
  match k with
  | "pass" => some .pass | "mismatch" => some .mismatch | "error" => some .error | "neither" => some .neither
  | _ => none

def parseIAct (j : Json) : Option IAct :=
  match str (field j "k") with
  | "req" => some .req
  | "pre" => some (.pre (nat (field j "b")))
  | "part" => some (.part (nat (field j "b")))
  | "ans" => (parseAnsKind (str (field j "kind"))).map (fun k => .ans (nat (field j "m")) k)
  | "garbage" => some .garbage
  | "await" => some (.await (nat (field j "m")))
  | "sleep" => some (.sleep (nat (field j "ms")))
  | "exit" => some (.exit (nat (field j "code")))
  | _ => none

structure Walk where
  /-- the request the client reads next (or has partly read: `started`) -/
  cur : Nat := 0
  started : Bool := false
  now : Nat := 0
  evs : List Ev := []
  kinds : List (Nat × Kind) := []
  answered : List Nat := []
  awaited : List Nat := []
  /-- time at which the send loop tests the server before it hands out case i -/
  checks : List Nat := [0]
  ended : Bool := false
  invalid : String := ""

def startEvs (i : Nat) : List Ev := [.sStart i, .sLock i, .sRegister i]

/-- the client is gone at time `now`: the write in progress fails, the reader sees the end of the
stream (or has failed already) and drains, every later send is refused -/
def closing (n : Nat) (w : Walk) : Walk :=
  let inFlight : List Ev := if w.started then [.sWriteFail w.cur, .sSetErr w.cur] else []
  let from_ := if w.started then w.cur + 1 else w.cur
  let later : List Ev := (List.range' from_ (n - from_)).flatMap fun j =>
    ([.sStart j, .sLock j, .sRegister j, .sWriteFail j, .sSetErr j] : List Ev)
  { w with ended := true,
           evs := w.evs ++ inFlight ++ [.rRecvEOF, .rCloseSend, .rDrain, .rDone, .pHook] ++ later,
           checks := w.checks ++ List.replicate (n + 1 - w.checks.length) w.now }

def walkStep (n : Nat) (w : Walk) (a : IAct) : Walk :=
  if w.ended || w.invalid != "" then w else
  match a with
  | .req =>
    if w.started then { w with invalid := "the script reads on after a partial read" }
    else if w.cur ≥ n then { w with invalid := "more reads than requests" }
    else { w with evs := w.evs ++ startEvs w.cur ++ [.sWriteOk w.cur], cur := w.cur + 1, checks := w.checks ++ [w.now] }
  | .pre b =>
    if w.started then { w with invalid := "the script reads on after a partial read" }
    else if w.cur ≥ n then { w with invalid := "more reads than requests" }
    else if b < 1 || b > 3 then { w with invalid := "pre needs 1..3 bytes" }
    else { w with evs := w.evs ++ startEvs w.cur, started := true }
  | .part _ =>
    if w.started then { w with invalid := "the script reads on after a partial read" }
    else if w.cur ≥ n then { w with invalid := "more reads than requests" }
    else { w with evs := w.evs ++ startEvs w.cur, started := true }
  | .ans m k =>
    if m ≥ n then { w with invalid := "answer for a case outside the batch" }
    else if w.answered.contains m then { w with invalid := "second answer for a case (racy with the sends in flight)" }
    else if !(m < w.cur || (m == w.cur && w.started)) then
      { w with invalid := "answer for a request the client has not seen a byte of (racy)" }
    else { w with evs := w.evs ++ [.rRecv m, .rLookup, .rFire], kinds := (m, k) :: w.kinds, answered := m :: w.answered }
  | .garbage =>
    if w.cur < n || w.started then { w with invalid := "garbage while requests are still being sent (racy)" }
    else closing n { w with evs := w.evs ++ [.rRecvBad, .rSetErr, .rTerminate, .rAbort, .pExit 1] }
  | .await m =>
    if !w.answered.contains m then { w with invalid := "await for a case that was not answered" }
    else { w with awaited := m :: w.awaited }
  | .sleep ms => if ms > 20000 then { w with invalid := "sleep too long" } else { w with now := w.now + ms }
  | .exit c =>
    if w.started && w.answered.contains w.cur && !w.awaited.contains w.cur then
      { w with invalid := "blind answer for the request in flight not awaited before the exit (racy)" }
    else closing n { w with evs := w.evs ++ [.pExit c] }

def walk (n : Nat) (acts : List IAct) : Walk :=
  let w := acts.foldl (walkStep n) {}
  if w.ended || w.invalid != "" then w else walkStep n w (.exit 0)

def pairs (j : Json) : List (String × String) :=
  (arr j).map fun p => match strList p with | [a, b] => (a, b) | _ => ("?", "?")

/-- last record per name, sorted by name -/
def lastPerName (recs : List (String × String)) : List (String × String) :=
  let names := asSet (recs.map (·.1))
  names.filterMap fun n => (recs.reverse.find? (·.1 == n))

def className : Class → String
  | .pass => "pass" | .fail => "fail" | .setup => "setup" | .norun => "norun" | .noresult => "noresult"

def parseClass (c : String) : Option Class :=
  match c with
  | "pass" => some .pass | "fail" => some .fail | "setup" => some .setup | "norun" => some .norun
  | "noresult" => some .noresult | _ => none

/-- the grace period of process.go (ms): a batch that lasts longer is what `localProcess.result`
gives up on -/
def graceMs : Nat := 5000

def handle (inp impl : Json) : Verdict :=
  let names := strList (field inp "names")
  let n := names.length
  let actsO := (arr (field inp "client")).map parseIAct
  if actsO.any Option.isNone then bad "unknown client action" else
  if names.eraseDups.length != n || n == 0 then bad "batch names not distinct" else
  let acts := actsO.filterMap id
  let w := walk n acts
  if w.invalid != "" then bad w.invalid else
  let exitMs := nat (field inp "serverExitMs")
  let proc : LocalProc := { exit := if exitMs > 0 then some exitMs else none }
  -- the real clock must not decide: every liveness test is at least 1 s away from the server's end
  if exitMs > 0 && w.checks.any (fun c => (if c < exitMs then exitMs - c else c - exitMs) < 1000) then
    bad "liveness test too close to the server's end" else
  if !(isNull (field impl "panic")) then
    { agree := false, holds := false, why := "panic: " ++ str (field impl "panic") } else
  -- the client-runner model under the schedule of the script
  let cs := ConfModel.ClientRunner.run (fun i => i) ConfModel.ClientRunner.init w.evs
  let accepted (i : Nat) : Bool := ConfModel.ClientRunner.Spec.retOf (cs.spc i) == some .ok
  let cbsM (i : Nat) : List (Option Nat) := ConfModel.ClientRunner.Spec.cbsOf cs i
  let modelOK := cs.rpc == .done && (List.range n).all fun i =>
    if accepted i then (cbsM i).length == 1 else (cbsM i).isEmpty
  if !modelOK then bad "model: the schedule of the script does not end in a terminal state" else
  let cases := (List.range n).map fun i =>
    caseOf (accepted i) (match cbsM i with | [some _] => (w.kinds.lookup i) | _ => none)
  -- what the in-process reference server prints on its stderr through the real printer: the model of
  -- `safePrinter.PrefixPrintf` / `Printf`
  let isRef := bool (field inp "isRef")
  let printed : List Char := if !isRef then [] else (arr (field inp "feedback")).flatMap fun f =>
    let m := int (field f "m")
    let fmt := (str (field f "fmt")).toList
    let args := (strList (field f "args")).map String.toList
    if m ≥ 0 then prefixPrintf (names.getD m.toNat "?").toList fmt args else printf fmt args
  -- `runInProcess` prints the error with which the server function returns (`"%v\n"`)
  let printed := printed ++ (if isRef && bool (field inp "serverExitErr") && nat (field inp "serverExitMs") > 0
    then "verif in-process server gives up\n".toList else [])
  let s : Script := {
    cases := cases, isRef := bool (field inp "isRef"), useTLS := false, startErr := false,
    writeErr := false, closeErr := false, resp := .ok, dies := diesOf proc.hookAt w.checks,
    names := names.map String.toList, stderr := printed }
  let out := runBatch s
  let stop := Spec.stopIdx s.dies 0 s.cases
  let mFinal : List (String × String) := (List.range n).filterMap fun i =>
    (out.log.reverse.find? (·.1 == i)).map fun e => (names.getD i "?", className e.2)
  let mOutcomes := (mFinal.toArray.qsort (fun a b => a.1 < b.1)).toList
  -- implementation
  let iOutcomes := pairs (field impl "outcomes")
  let rets := strList (field impl "rets")
  let cbs := natList (field impl "cbs")
  let panics := strList (field impl "panics")
  let hang := bool (field impl "hang")
  let stopCalls := int (field impl "stopCalls")
  let stopCbs := int (field impl "stopCbs")
  let calls := nat (field impl "calls")
  let cbsTotal := nat (field impl "cbsTotal")
  let serverReturned := bool (field impl "serverReturned")
  let retsOK := (List.range n).all fun i =>
    let r := rets.getD i ""
    if i < stop then r == "ok"
    else if i == stop && !dead s.dies stop then (r == "closed" || r == "fail")
    else r == "unsent"
  let cbsOK := (List.range n).all fun i => cbs.getD i 99 == (if i < stop then 1 else 0)
  let healthy := exitMs == 0
  -- stderr of the reference server: forwarded lines and side-band records
  let mFw := out.forwarded.map String.ofList
  let mSb := lastPerName (out.sideband.map fun (a, b) => (String.ofList a, String.ofList b))
  let iFw := strList (field impl "forwarded")
  let iSb := pairs (field impl "sideband")
  let badPrefix := nat (field impl "badPrefix")
  let lines := splitLines s.stderr []
  let namesOK := s.names.all Spec.noSep
  let xFw := if isRef then (Spec.expectForwarded s.names lines).map String.ofList else []
  let xSb := if isRef then lastPerName ((Spec.expectRecords s.names lines).map fun (a, b) => (String.ofList a, String.ofList b)) else []
  let stderrAgree := iFw == mFw && iSb == mSb && badPrefix == 0
  let stderrOK := !namesOK || (iFw == xFw && iSb == xSb && badPrefix == 0)
  let agree := stderrAgree && !hang && panics.isEmpty && iOutcomes == mOutcomes && retsOK && cbsOK && serverReturned &&
    (!healthy || (stopCalls == (calls : Int) && stopCbs == (cbsTotal : Int))) &&
    !(bool (field impl "awaitTimeout")) && str (field impl "clientWait") == "returned"
  -- the property on the implementation's output
  let keysOK := asSet (iOutcomes.map (·.1)) == asSet names && iOutcomes.length == n
  let perCase := (List.range n).all fun i =>
    match (iOutcomes.find? (·.1 == names.getD i "?")).bind (fun p => parseClass p.2) with
    | some c => Spec.expectedOK s i c
    | none => false
  let balanced := (List.range n).all fun i =>
    rets.getD i "" == "unsent" || wgBalance (rets.getD i "" == "ok") (cbs.getD i 0) == 0
  let stoppedLate := !healthy || (stopCalls == (calls : Int) && stopCbs == (cbsTotal : Int))
  let duration := w.checks.foldl max 0
  let why :=
    if hang then "runTestCasesForServer did not return in time"
    else if !panics.isEmpty then "the batch did not end normally: panic in " ++ toString panics ++ " (sendRequest returns " ++ toString rets ++ ", callbacks " ++ toString cbs ++ ", outcomes " ++ toString iOutcomes ++ ")"
    else if !balanced then "a request was both answered and refused, or accepted and never answered: sendRequest returns " ++ toString rets ++ ", callbacks " ++ toString cbs
    else if !keysOK then "outcomes recorded for " ++ toString (iOutcomes.map (·.1)) ++ ", batch is " ++ toString names
    else if !perCase then "outcome classes " ++ toString iOutcomes ++ " contradict the script (healthy server and answered ⇒ own verdict; after the fault ⇒ set-up error)" ++
      (if healthy && duration > graceMs then s!"; the in-process server was healthy, the batch lasted {duration} ms" else "")
    else if !serverReturned then "the in-process server was still running when the batch returned"
    else if !stoppedLate then s!"the healthy in-process server was told to stop after {stopCalls} of {calls} sendRequest calls and {stopCbs} of {cbsTotal} callbacks (batch of {duration} ms)"
    else if !stderrOK then "feedback printed by the reference server for the cases " ++ toString names ++ " was not attributed to the named case: side-band " ++ toString iSb ++ ", passed through " ++ toString iFw ++ "; expected side-band " ++ toString xSb ++ ", passed through " ++ toString xFw
    else ""
  let holds := why == ""
  { agree := agree, holds := holds,
    nontrivial := stop < n || duration > graceMs || cases.any (fun c => match c with | .answer .pass _ => false | _ => true),
    model := Json.mkObj [("outcomes", toJson (mOutcomes.map fun (a, b) => [a, b])), ("stop", toJson stop),
      ("checks", toJson w.checks)],
    why := if holds && !agree then "implementation differs from the model" else why,
    cls := if !printed.isEmpty then "inproc:feedback" else if duration > graceMs then "inproc:slow" else if !healthy then "inproc:server-ends"
      else if stop < n then "inproc:pipe-broken" else "inproc:complete" }

end ConfModel.Driver.C11InProc
