import ConfModel.Driver.Common
import ConfModel.Model.Trie
import ConfModel.Spec.Glob
import ConfModel.Driver.C05
namespace ConfModel.Driver.C08
open Lean ConfModel.Driver ConfModel.Trie ConfModel.Glob

def split (s : String) : List String := s.splitOn "/"
def join (p : List String) : String := "/".intercalate p

/-- Go `bytes.TrimSpace` restricted to ASCII white space (the generator emits no other). -/
def isSp (c : Char) : Bool := c == ' ' || c == '\t' || c == '\n' || c == '\r' || c.toNat == 11 || c.toNat == 12
def trim (s : String) : String :=
  String.ofList ((s.toList.dropWhile isSp).reverse.dropWhile isSp).reverse

def handle : Handler := fun op inp impl =>
  match op with
  | "trie" =>
    let pats := (strList (field inp "pats")).map split
    let names := (strList (field inp "names")).map split
    let implMatch := boolList (field impl "match")
    let implUn := asSet (strList (field impl "unmatched"))
    if !(isNull (field impl "panic")) && str (field impl "panic") != "" then
      { agree := false, holds := false, why := "panic: " ++ str (field impl "panic") } else
    let mMatch := names.map (trieMatch pats)
    let mUn := asSet ((unmatched pats names).map reportName)
    let spec := names.map (fun n => pats.any (fun p => globMatch p n))
    -- the property: verdicts are glob verdicts; a pattern globbing no name is reported
    let mustReport := pats.filter (fun p => names.all (fun n => !globMatch p n))
    let holds := implMatch == spec && mustReport.all (fun p => implUn.contains (reportName p))
    { agree := implMatch == mMatch && implUn == mUn, holds := holds,
      nontrivial := spec.any id && spec.any (!·),
      model := Json.mkObj [("match", toJson mMatch), ("unmatched", toJson mUn)],
      why := if holds then "" else "glob verdicts " ++ toString spec ++ " must-report " ++ toString (mustReport.map join) }
  | "accept" =>
    let run := (strList (field inp "run")).map split
    let skip := (strList (field inp "skip")).map split
    let names := (strList (field inp "names")).map split
    let implA := boolList impl
    let m := names.map (accept run skip)
    let spec := names.map (fun n => (run.isEmpty || run.any (fun p => globMatch p n)) && !(skip.any (fun p => globMatch p n)))
    { agree := implA == m, holds := implA == spec, nontrivial := spec.any id && spec.any (!·), model := toJson m }
  | "validate" =>
    let g (k : String) := (strList (field inp k)).map split
    let names := g "names"
    let cls := str (field impl "class")
    let lst := asSet (strList (field impl "list"))
    let v := validate (g "failing") (g "flaky") (g "run") (g "skip") names
    let (mCls, mList) : String × List String := match v with
      | .ok => ("ok", [])
      | .unmatchedPatterns w u => ("unmatched:" ++ w, asSet (u.map reportName))
      | .ambiguous c => ("ambiguous", asSet (c.map join))
    -- property: ok is only allowed when every pattern globs some name and no name is both
    let all := g "failing" ++ g "flaky" ++ g "run" ++ g "skip"
    let dead := all.filter (fun p => names.all (fun n => !globMatch p n))
    let both := names.filter (fun n => (g "failing").any (fun p => globMatch p n) && (g "flaky").any (fun p => globMatch p n))
    let mustReject := !dead.isEmpty || !both.isEmpty
    let holds := if mustReject then cls != "ok" && cls != "ran" else true
    { agree := cls == mCls && lst == mList, holds := holds, nontrivial := mustReject,
      model := Json.mkObj [("class", mCls), ("list", toJson mList)], cls := mCls,
      why := if holds then "" else "dead patterns " ++ toString (dead.map join) ++ " both " ++ toString (both.map join) }
  | "dispatch" =>
    -- judged by the C05 driver: the names handed to the client are exactly the permutations the
    -- glob semantics select (run patterns, skip patterns, marked gRPC-peer names)
    ConfModel.Driver.C05.handle "run" inp impl
  | "cli" =>
    let files := (arr (field inp "files")).map strList
    let args := strList (field inp "args")
    -- "@k" refers to files[k]; rd returns the trimmed lines
    let rd (f : String) : Option (List String) := (f.toNat?.bind (files[·]?)).map (·.map trim)
    let implP := asSet (strList (field impl "patterns"))
    let m := argsToPatterns rd args
    let plain := args.filter (fun a => !a.startsWith "@")
    let refd := (args.filter (·.startsWith "@")).flatMap (fun a => ((a.drop 1).toString.toNat?.bind (files[·]?)).getD [])
    let fromFiles := refd.map trim |>.filter (fun l => !l.isEmpty && !l.startsWith "#")
    -- property: every supplied pattern takes part
    let holds := (plain ++ fromFiles).all implP.contains
    match m with
    | some ps =>
      { agree := implP == asSet ps, holds := holds, nontrivial := args.length > 1,
        model := toJson (asSet ps),
        why := if holds then "" else "patterns supplied but not honoured: " ++ toString ((plain ++ fromFiles).filter (!implP.contains ·)) }
    | none => { agree := false, holds := holds, why := "model: unreadable file" }
  | _ => bad ("unknown op " ++ op)

end ConfModel.Driver.C08
