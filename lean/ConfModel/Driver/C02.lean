import ConfModel.Driver.Common
import ConfModel.Model.Echo
import ConfModel.Spec.EchoAgree
import ConfModel.Model.EchoLoad
import ConfModel.Spec.EchoExplicit
namespace ConfModel.Driver.C02
open Lean ConfModel.Driver ConfModel.Echo

def hdrs (j : Json) : List Hdr := (arr j).map (fun h => ⟨str (field h "n"), strList (field h "v")⟩)

def errIn (j : Json) : Option Err :=
  if isNull j then none else
    some ⟨nat (field j "code"), (if isNull (field j "msg") then none else some (str (field j "msg"))),
          (natList (field j "details")).map Detail.other⟩

def stOf : String → ST
  | "unary" => .unary | "clientStream" => .clientStream | "serverStream" => .serverStream
  | "halfDuplex" => .halfDuplex | _ => .fullDuplex

def infoOf (j : Json) : Option ReqInfo :=
  if isNull j then none else
    some ⟨hdrs (field j "hdrs"), (intList (field j "reqs")).map (fun i => if i < 0 then 1000000 else i.toNat),
          hdrs (field j "query")⟩

def detailOf (j : Json) : Detail :=
  if !(isNull (field j "info")) then .info ((infoOf (field j "info")).getD ⟨[], [], []⟩)
  else .other (let i := int (field j "other"); if i < 0 then 1000000 else i.toNat)

def errOut (j : Json) : Option Err :=
  if isNull j then none else
    some ⟨nat (field j "code"), (if isNull (field j "msg") then none else some (str (field j "msg"))),
          (arr (field j "details")).map detailOf⟩

def resultOf (j : Json) : Result :=
  ⟨hdrs (field j "hdrs"), hdrs (field j "trls"),
   (arr (field j "payloads")).map (fun p => ⟨str (field p "data"), infoOf (field p "info")⟩), errOut (field j "err")⟩

def tcOf (j : Json) : TC :=
  let st := stOf (str (field j "st"))
  let d := field j "def"
  let hasDef := bool (field j "hasDef")
  let dh := hdrs (field d "hdrs")
  let dt := hdrs (field d "trls")
  let data := strList (field d "data")
  let kind := str (field d "kind")
  let udef : Option UnaryDef :=
    if hasDef && (st == .unary || st == .clientStream) then
      some ⟨dh, dt, match kind with
        | "data" => .data (data.headD "")
        | "error" => (match errIn (field d "err") with | some e => .error e | none => .none)
        | _ => .none⟩
    else none
  let sdef : Option StreamDef :=
    if hasDef && !(st == .unary || st == .clientStream) then some ⟨dh, dt, data, errIn (field d "err")⟩ else none
  { st := st, reqHdrs := hdrs (field j "reqHdrs"), reqs := natList (field j "reqs"), udef := udef, sdef := sdef,
    fdFlag := bool (field j "fdFlag"),
    get := bool (field j "get"),
    -- `populateExpectedUnaryResponse`: CODEC_JSON (2) or anything else
    codec := if nat (field j "codec") == 2 then .json else .proto,
    method := (match str (field j "method") with
      | "idempotent" => .idempotent | "unimplemented" => .unimplemented | _ => .std),
    explicit := if isNull (field j "explicit") then none else some (resultOf (field j "explicit")) }

/-- `http_status_code` of a result in the input / output (absent = not set) -/
def statusOf (j : Json) : Option Nat := if isNull (field j "status") then none else some (nat (field j "status"))

/-- the full test case: `expected_response.http_status_code`, `other_allowed_error_codes` -/
def xtcOf (j : Json) : XTC :=
  ⟨tcOf j, (if isNull (field j "explicit") then none else statusOf (field j "explicit")), natList (field j "otherCodes")⟩

/-- a stored expectation as the harness reports it -/
def expectationOf (res codes : Json) : Expectation := ⟨resultOf res, statusOf res, natList codes⟩

def hdrJ (h : Hdr) : Json := Json.mkObj [("n", h.name), ("v", toJson h.vals)]
def infoJ : Option ReqInfo → Json
  | none => Json.null
  | some ri => Json.mkObj [("hdrs", Json.arr (ri.hdrs.map hdrJ).toArray), ("reqs", toJson ri.reqs),
      ("query", Json.arr (ri.query.map hdrJ).toArray)]
def resultJ (r : Result) : Json :=
  Json.mkObj [("hdrs", Json.arr (r.hdrs.map hdrJ).toArray), ("trls", Json.arr (r.trls.map hdrJ).toArray),
    ("payloads", Json.arr (r.payloads.map (fun p => Json.mkObj [("data", p.data), ("info", infoJ p.info)])).toArray),
    ("err", match r.err with
      | none => Json.null
      | some e => Json.mkObj [("code", e.code), ("msg", match e.msg with | some m => Json.str m | none => Json.null),
          ("details", Json.arr (e.details.map (fun d => match d with
            | .other i => Json.mkObj [("other", i)]
            | .info ri => Json.mkObj [("info", infoJ (some ri))])).toArray)])]

/-- the parameters of the GET request line the expectation speaks about -/
def callQuery (tc : TC) : List Hdr := [⟨"encoding", [tc.codec.encoding]⟩, ⟨"connect", ["v1"]⟩]

/-- the transport as the model renders it for a run: metadata delivered as set, and query parameters
exactly when the call is made with GET — both reference clients choose by the method, and only the
idempotent method (over the Connect protocol, the only one suite VG lists) goes out as a GET -/
def idWire (tc : TC) : Wire :=
  ⟨tc.reqHdrs, id, id, fun h t => mergeHeaders h t, if tc.method == .idempotent then callQuery tc else [], "not implemented"⟩

def has (s sub : String) : Bool := (s.splitOn sub).length > 1

/-- the test case of a permutation: from suite V or VG, under the permutation's codec -/
def permCase (cases getCases : List TC) (p : Json) : Option TC :=
  (if bool (field p "g") then getCases[nat (field p "case")]? else cases[nat (field p "case")]?).map
    (fun tc => { tc with codec := if nat (field p "codec") == 2 then .json else .proto })

/-- what the model says about the verdict of a permutation whose expectation is `e`:
`some true` = passes whichever way error metadata is delivered, `some false` = fails either way -/
def predictedX (tc : TC) (ex : Expectation) : Option Bool :=
  let a := agreeX tc.st ex (actual tc (idWire tc) false) none
  let b := agreeX tc.st ex (actual tc (idWire tc) true) none
  if a && b then some true else if !a && !b then some false else none

/-- the e2e suites state no HTTP status (which status the peers answer with is not C02's subject):
`predictedX` holds the stored expectation against a result without one -/
def permCaseX (cases getCases : List XTC) (p : Json) : Option XTC :=
  (if bool (field p "g") then getCases[nat (field p "case")]? else cases[nat (field p "case")]?).map
    (fun x => { x with tc := { x.tc with codec := if nat (field p "codec") == 2 then .json else .proto } })

/-- the peers' model against a captured client response (the wording of an `unimplemented` error is
the RPC library's: not compared).  Query parameters: echoed exactly for the calls that go out as GET,
and then they contain what the expectation lists. -/
def actualMatches (tc : TC) (a : Result) : Bool :=
  let m := actual tc (idWire tc) false
  let m := if tc.method == .unimplemented then { m with err := m.err.map (fun e => { e with msg := none }) } else m
  agree tc.st m a &&
  (let qs := (infosOf a).map (·.query)
   if tc.method == .idempotent then qs.all (fun q => !q.isEmpty && subsumed (callQuery tc) q)
   else qs.all (·.isEmpty))

def judgeE2E (inp impl : Json) : Verdict :=
    if !(isNull (field impl "panic")) then
      { agree := false, holds := false, why := "panic during the run: " ++ str (field impl "panic") } else
    let xcases := (arr (field inp "cases")).map xtcOf
    let xgetCases := (arr (field inp "getCases")).map xtcOf
    let cases := xcases.map (·.tc)
    let getCases := xgetCases.map (·.tc)
    let perms := arr (field impl "perms")
    let wf := (cases ++ getCases).all (fun tc => WellFormed tc)
    if (xcases ++ xgetCases).any (fun x => x.status.isSome) then bad "e2e case with an explicit http_status_code" else
    -- the generator's hint "wrong on purpose" must be the model's prediction (it only saves re-runs)
    let hintOk := (arr (field inp "cases") ++ arr (field inp "getCases")).all (fun j =>
      let x := xtcOf j
      let tc := x.tc
      let both := [Codec.proto, Codec.json].map (fun c => let t := { tc with codec := c }; (populateX { x with tc := t }).bind (predictedX t))
      if bool (field j "xfail") then both.all (· == some false) else both.all (· == some true) || tc.explicit.isNone)
    if !hintOk then bad "xfail hint of a case differs from the model's prediction" else
    -- property: every permutation of every well-formed case passes; a case that gives its expected
    -- response itself gets the verdict that response deserves (it is used as given)
    let failing0 := perms.filter (fun p =>
      let pass := str (field p "verdict") == "pass"
      match permCaseX xcases xgetCases p with
      | none => !pass
      | some x =>
        match x.tc.explicit, populateX x with
        | none, _ => !pass
        | some _, none => !pass
        | some _, some ex => (match predictedX x.tc ex with | some v => pass != v | none => false))
    -- known finding F22 (schedule-dependent): the grpc-go reference server behind the grpc-web
    -- wrapper over HTTP/1.1 intermittently fails a call with "http: invalid Read on closed Body"
    let isF22 (p : Json) : Bool :=
      let n := str (field p "name")
      has n "HTTPVersion:1/Protocol:PROTOCOL_GRPC_WEB/" && has n "(grpc server impl)" &&
        has (str (field p "why")) "http: invalid Read on closed Body"
    let onlyF22 := !failing0.isEmpty && failing0.all isF22
    let failing := failing0
    -- correspondence: what the wrapped reference client reported is what the model of the peers says
    let disagree := perms.filter (fun p =>
      let a := field p "actual"
      if isNull a || isF22 p then false else
        match permCase cases getCases p with
        | none => true
        | some tc => !(actualMatches tc (resultOf a)))
    -- the permutations of suite VG: Connect only (no gRPC peer takes part), every version x codec x
    -- relevant compression (full-duplex cases not over HTTP/1.1)
    let nv := (natList (field inp "versions")).length
    let nv1 := ((natList (field inp "versions")).filter (· != 1)).length
    let nz := if (natList (field inp "getComps")).isEmpty then (natList (field inp "compressions")).length
              else ((natList (field inp "getComps")).filter (fun z => (natList (field inp "compressions")).contains z)).length
    let nc := (natList (field inp "codecs")).length
    let gPerms := perms.filter (fun p => bool (field p "g"))
    let gWant := (getCases.map (fun tc => (if tc.st == .fullDuplex then nv1 else nv) * nc * nz)).foldl (· + ·) 0
    let gOk := gPerms.length == gWant && gPerms.all (fun p => !(has (str (field p "name")) "(grpc"))
    let runErr := str (field impl "runErr")
    let holds := failing.isEmpty && (!perms.isEmpty || (cases ++ getCases).isEmpty)
    { agree := disagree.isEmpty && gOk && (runErr == "" || !failing.isEmpty), holds := holds || !wf, nontrivial := perms.length > 1,
      model := Json.mkObj [("perms", perms.length), ("disagree", disagree.length), ("getPerms", gWant)],
      cls := str (field inp "mode") ++ (if getCases.isEmpty then "" else "+get"),
      why := if !holds then
          (if onlyF22 then "F22: " else "") ++ "permutations of well-formed cases fail (or pass against a wrong explicit expectation): " ++ toString ((failing.take 3).map (fun p => str (field p "name") ++ " :: " ++ str (field p "verdict") ++ " :: " ++ str (field p "why"))) ++ " runErr=" ++ runErr
        else if !disagree.isEmpty then
          "reported result differs from the model of the peers: " ++ toString ((disagree.take 2).map (fun p => str (field p "name") ++ " actual=" ++ (field p "actual").compress))
        else if !gOk then s!"suite VG: {gPerms.length} permutations, the model expects {gWant} and none against a gRPC peer"
        else "" }

/-! ### the load half: suites described by shape -/

def msgOf : String → EchoLoad.Msg
  | "unary" => .unary | "idempotent" => .idempotent | "clientStream" => .clientStream
  | "serverStream" => .serverStream | "bidi" => .bidi | "unimplemented" => .unimplemented
  | "other" => .other | _ => .broken

def dirOf : String → EchoLoad.Dir
  | "fits" => .fits | "misfit" => .misfit | _ => .absent

def lcaseOf (j : Json) : EchoLoad.Case :=
  { name := str (field j "name"), st := nat (field j "st"), service := bool (field j "service"), method := bool (field j "method"),
    msgs := (strList (field j "msgs")).map msgOf, rawRequest := bool (field j "rawRequest"),
    rawResponse := bool (field j "rawResponse"), explicit := bool (field j "explicit"),
    expand := (strList (field j "expand")).map dirOf }

def lsuiteOf (j : Json) : EchoLoad.Suite :=
  { name := str (field j "name"), mode := nat (field j "mode"), protos := natList (field j "protos"),
    codecs := natList (field j "codecs"), tls := bool (field j "tls"), certs := bool (field j "certs"),
    get := bool (field j "get"), cvm := nat (field j "cvm"), cases := (arr (field j "cases")).map lcaseOf }

def popCaseOf (j : Json) : EchoLoad.Case :=
  { name := "p", st := nat (field j "st"), service := false, method := false,
    msgs := (strList (field j "msgs")).map msgOf, rawRequest := false, rawResponse := false,
    explicit := bool (field j "explicit"), expand := [] }

def allCases (inp : Json) : List TC := ((arr (field inp "cases")) ++ (arr (field inp "getCases"))).map tcOf

def handle : Handler := fun op inp impl =>
  match op with
  | "expected" =>
    let x := xtcOf inp
    let tc := x.tc
    if !(isNull (field impl "panic")) then
      { agree := false, holds := false, why := "panic while deriving the expectation: " ++ str (field impl "panic") } else
    let m := populateX x
    let implErr := str (field impl "err") != ""
    match m with
    | none =>
      -- nothing can be derived (the first request message defines no response) and nothing is given
      { agree := implErr, holds := true, nontrivial := true, model := Json.mkObj [("err", "rejected")],
        cls := str (field inp "st") ++ ":rejected", why := if implErr then "" else "generator accepted a case the model rejects" }
    | some m =>
      if implErr then { agree := false, holds := true, why := "generator returned an error" } else
      let r := expectationOf (field impl "result") (field impl "otherCodes")
      -- the property's own predicate on the implementation's output: a given expectation is what is
      -- stored (result, status), the other allowed codes are where they were, a derived one has no status
      let kept := (match tc.explicit with
        | some e => r.result == e && r.status == x.status
        | none => r.status.isNone) && r.otherCodes == x.otherCodes
      { agree := r == m, holds := kept, nontrivial := tc.udef.isSome || tc.sdef.isSome || tc.explicit.isSome, model := resultJ m.result,
        why := if kept then "" else "an expected response given by the suite (or its status / the other allowed codes) was not kept as given",
        cls := str (field inp "st") ++ (if tc.explicit.isSome then ":explicit" else if tc.get then ":get" else "") }
  | "assertx" =>
    if !(isNull (field impl "panic")) then
      { agree := false, holds := false, why := "panic in populateExpectedResponse / assert: " ++ str (field impl "panic") } else
    let x := xtcOf (field inp "tc")
    let a := resultOf (field inp "actual")
    let aStatus := statusOf (field inp "actual")
    let implErr := str (field impl "err") != ""
    (match populateX x with
    | none => { agree := implErr, holds := true, nontrivial := true, cls := "rejected",
                why := if implErr then "" else "generator accepted a case the model rejects" }
    | some ex =>
      if implErr then { agree := false, holds := true, why := "generator returned an error" } else
      let stored := expectationOf (field impl "stored") (field impl "otherCodes")
      let pass := bool (field impl "pass")
      let want := agreeX x.tc.st ex a aStatus
      -- the property's predicates on the implementation's output: what `assert` used is what the suite
      -- gave (kept); a status named on both sides and different never passes; an error on one side only
      -- never passes, whatever the other allowed codes
      let kept := match x.tc.explicit with
        | some e => stored.result == e && stored.status == x.status && stored.otherCodes == x.otherCodes
        | none => stored.status.isNone && stored.otherCodes == x.otherCodes
      let sharp := !(pass && (!(statusAgree stored.status aStatus) || stored.result.err.isSome != a.err.isSome))
      { agree := bool (field impl "recorded") && pass == want && stored == ex, holds := kept && sharp, nontrivial := x.tc.explicit.isSome,
        model := Json.mkObj [("pass", want)],
        cls := (if x.tc.explicit.isSome then "explicit" else "derived") ++ (if want then ":pass" else ":fail") ++
               (if ex.status.isSome && aStatus.isSome then ":status" else "") ++ (if ex.otherCodes.isEmpty then "" else ":codes"),
        why := if !kept then "the expectation assert used is not the one the suite gave"
          else if !sharp then "assert passed a result with another HTTP status / with an error on one side only"
          else if pass == want then (if stored == ex then "" else "stored expectation differs from the model's")
          else s!"assert verdict pass={pass}, the model of assert on the stored expectation says {want}" })
  | "libexpected" =>
    if !(isNull (field impl "panic")) then
      { agree := false, holds := false, why := "panic while loading the suites: " ++ str (field impl "panic") } else
    let xcases := (arr (field inp "cases")).map xtcOf
    let xgetCases := (arr (field inp "getCases")).map xtcOf
    let cases := xcases.map (·.tc)
    let getCases := xgetCases.map (·.tc)
    let implErr := str (field impl "err") != ""
    -- a case nothing can be derived for makes the whole load fail (every case of these inputs has
    -- permutations under the config)
    let rejected := (cases ++ getCases).any (fun tc => (populate tc).isNone)
    if rejected || implErr then
      { agree := rejected == implErr, holds := true, nontrivial := true, cls := "rejected",
        why := if rejected == implErr then "" else "load verdict differs from the model (a case without a derivable or given expectation must be rejected, and only that)" } else
    let perms := arr (field impl "perms")
    let wrong := perms.filter (fun p =>
      match permCaseX xcases xgetCases p with
      | none => true
      | some x =>
        let tc := x.tc
        let wantMethod := match tc.method, tc.st with
          | .idempotent, _ => "IdempotentUnary" | .unimplemented, _ => "Unimplemented"
          | .std, .unary => "Unary" | .std, .clientStream => "ClientStream" | .std, .serverStream => "ServerStream"
          | .std, _ => "BidiStream"
        !(populateX x == (if isNull (field p "expected") then none else some (expectationOf (field p "expected") (field p "otherCodes"))) &&
          bool (field p "get") == tc.get && str (field p "method") == wantMethod &&
          str (field p "service") == "connectrpc.conformance.v1.ConformanceService"))
    { agree := wrong.isEmpty && !perms.isEmpty, holds := true, nontrivial := true, cls := str (field inp "mode"),
      model := Json.mkObj [("perms", perms.length)],
      why := if wrong.isEmpty then "" else
        "expectation (or method) stored in the library differs from the model: " ++ toString ((wrong.take 2).map (fun p => str (field p "name") ++ " expected=" ++ (field p "expected").compress)) }
  | "load" =>
    let p := !(isNull (field impl "panic"))
    let shapes := arr (field inp "shapes")
    if shapes.isEmpty then
      { agree := true, holds := !p, nontrivial := true, cls := str (field impl "class"),
        why := if p then "loading a parseable suite crashed the runner: " ++ str (field impl "panic") else "" }
    else
      -- the model of the validation says whether this input is rejected (and by which branch, if the
      -- files are visited in the order given)
      let mode := match str (field inp "mode") with | "client" => 1 | "server" => 2 | _ => 0
      let m := EchoLoad.loadErr EchoLoad.cfgApplies mode (shapes.map lsuiteOf)
      let want := match m with | none => "ok" | some _ => "error"
      { agree := !p && str (field impl "class") == want, holds := !p, nontrivial := m.isSome,
        model := Json.mkObj [("class", want), ("branch", match m with | none => "" | some e => toString (repr e))],
        cls := (match m with | none => "accepted" | some e => "rejected:" ++ toString (repr e)),
        why := if p then "loading a parseable suite crashed the runner: " ++ str (field impl "panic")
          else if str (field impl "class") == want then "" else "load verdict " ++ str (field impl "class") ++ ", the model of the validation says " ++ want }
  | "populate" =>
    let p := !(isNull (field impl "panic"))
    let c := popCaseOf inp
    let m := EchoLoad.populateDirect c
    let want := match m with | none => "ok" | some _ => "error"
    { agree := !p && str (field impl "class") == want, holds := !p, nontrivial := m.isSome,
      model := Json.mkObj [("class", want)],
      cls := (match m with | none => "accepted" | some e => "rejected:" ++ toString (repr e)),
      why := if p then "deriving the expectation crashed: " ++ str (field impl "panic")
        else if str (field impl "class") == want then "" else "generator verdict " ++ str (field impl "class") ++ ", the model says " ++ want }
  | "e2e" =>
    -- the main stream must not contain the shape of known finding F07 (it has its own op)
    if (allCases inp).any isF07 then bad "F07-shaped case in the e2e stream" else
    if str (field inp "mode") == "client" && (allCases inp).any isF27 then bad "F27-shaped case in the client-mode e2e stream" else
    -- nor the shape of F31: a GET call under a compression, against the reference-mode reference server
    if str (field inp "mode") != "server" && (allCases inp).any (·.method == .idempotent) && natList (field inp "getComps") != [1] then
      bad "F31-shaped permutations (GET with compression against the reference-mode server) in the e2e stream" else
    judgeE2E inp impl
  | "e2e-f07" =>
    -- only F07-shaped cases: full-duplex, no responses, an error, >= 2 requests
    if !((allCases inp).all isF07) then bad "e2e-f07 input contains a case outside the F07 shape" else
    let v := judgeE2E inp impl
    -- every failure of this op must be the F07 symptom and nothing else
    let perms := arr (field impl "perms")
    let other := perms.filter (fun p => str (field p "verdict") != "pass" &&
      !((str (field p "why")).startsWith "expecting " && (str (field p "why")).endsWith " request messages to be described but instead got 1"))
    if other.isEmpty then { v with why := if v.holds then "" else "F07: " ++ v.why }
    else { v with holds := false, why := "failure other than the F07 symptom: " ++ toString ((other.take 2).map (fun p => str (field p "name") ++ " :: " ++ str (field p "why"))) }
  | "e2e-f27" =>
    -- only F27-shaped cases (empty request stream), mode client
    if !((allCases inp).all isF27) || str (field inp "mode") != "client" then bad "e2e-f27 input outside the F27 shape" else
    let v := judgeE2E inp impl
    -- every failure of this op must be the F27 symptom (grpc-go's own HTTP/2 server, gRPC, timed out) and nothing else
    let perms := arr (field impl "perms")
    let other := perms.filter (fun p => str (field p "verdict") != "pass" &&
      !(has (str (field p "name")) "HTTPVersion:2/Protocol:PROTOCOL_GRPC/" && has (str (field p "name")) "(grpc server impl)" &&
        has (str (field p "why")) "timed out waiting for result from client"))
    if other.isEmpty then { v with why := if v.holds then "" else "F27: " ++ v.why }
    else { v with holds := false, why := "failure other than the F27 symptom: " ++ toString ((other.take 2).map (fun p => str (field p "name") ++ " :: " ++ str (field p "why"))) }
  | "e2e-f31" =>
    -- suite VG only, under identity and one more compression, against the reference-mode reference server
    if !(arr (field inp "cases")).isEmpty || str (field inp "mode") == "server" then bad "e2e-f31 input outside the F31 shape" else
    let v := judgeE2E inp impl
    -- every failure of this op must be the F31 symptom — a GET call of a permutation with a
    -- compression, reported by the reference server as sent uncompressed — and nothing else
    let getCases := (arr (field inp "getCases")).map tcOf
    let perms := arr (field impl "perms")
    let other := perms.filter (fun p => str (field p "verdict") != "pass" &&
      !(!(has (str (field p "name")) "Compression:COMPRESSION_IDENTITY/") &&
        ((permCase [] getCases p).map (·.method == .idempotent)).getD false &&
        (str (field p "why")).startsWith "expected compression " && (str (field p "why")).endsWith "; instead got identity"))
    if other.isEmpty then { v with why := if v.holds then "" else "F31: " ++ v.why }
    else { v with holds := false, why := "failure other than the F31 symptom: " ++ toString ((other.take 2).map (fun p => str (field p "name") ++ " :: " ++ str (field p "why"))) }
  | "e2e-f34" =>
    -- the fixed scenario: every case an error definition; those whose message has a boundary space are the finding
    let f34Msg := " lead and trail "
    let cases := (arr (field inp "cases")).map tcOf
    let msgOf (tc : TC) : String :=
      match tc.udef, tc.sdef with
      | some d, _ => (match d.resp with | .error e => e.msg.getD "" | _ => "")
      | _, some d => (match d.err with | some e => e.msg.getD "" | none => "")
      | _, _ => ""
    if !(arr (field inp "getCases")).isEmpty || !(cases.any (fun tc => msgOf tc == f34Msg)) ||
       !(cases.all (fun tc => msgOf tc == f34Msg || !((msgOf tc).startsWith " " || (msgOf tc).endsWith " "))) then
      bad "e2e-f34 input outside the F34 shape" else
    let v := judgeE2E inp impl
    -- every failure of this op must be the F34 symptom — a gRPC-Web permutation of a boundary-space case
    -- whose ONLY discrepancy is the message without its boundary spaces (as the runner's comparison, or
    -- as the reference-mode client's wire check grpc-message vs grpc-status-details-bin) — and nothing else
    let q (s : String) : String := "\"" ++ s ++ "\""
    let trimmed := "lead and trail"
    let perms := arr (field impl "perms")
    let other := perms.filter (fun p =>
      let why := str (field p "why")
      let bySpace := ((permCase cases [] p).map (fun tc => msgOf tc == f34Msg)).getD false
      let symA := why.startsWith "actual error {code: 9 (failed_precondition), message: " &&
        why.endsWith ("message: " ++ q trimmed ++ "} does not match expected message " ++ q f34Msg) && !(has why "\n") &&
        (why.splitOn "does not match").length == 2
      let feedback := "trailers include 'grpc-status-details-bin' value that disagrees with 'grpc-message' value: " ++ q f34Msg ++ " != " ++ q trimmed
      let rest := ((why.splitOn feedback).foldl (· ++ ·) "").trimAscii.toString
      let symB := why.startsWith feedback && (rest == "" || rest == "|")
      str (field p "verdict") != "pass" &&
        !(has (str (field p "name")) "/Protocol:PROTOCOL_GRPC_WEB/" && bySpace && (symA || symB)))
    -- ... and the captured responses of every OTHER permutation are what the model of the peers says
    let strayCapture := perms.filter (fun p =>
      let a := field p "actual"
      let isF34 := has (str (field p "name")) "/Protocol:PROTOCOL_GRPC_WEB/" && ((permCase cases [] p).map (fun tc => msgOf tc == f34Msg)).getD false
      !(isNull a) && !isF34 && !(((permCase cases [] p).map (fun tc => actualMatches tc (resultOf a))).getD false))
    if !strayCapture.isEmpty then
      { v with holds := false, agree := false, why := "captured response outside the F34 permutations differs from the model of the peers: " ++ toString ((strayCapture.take 2).map (fun p => str (field p "name"))) } else
    if other.isEmpty then { v with why := if v.holds then "" else "F34: " ++ v.why }
    else { v with holds := false, why := "failure other than the F34 symptom: " ++ toString ((other.take 2).map (fun p => str (field p "name") ++ " :: " ++ str (field p "why"))) }
  | _ => bad ("unknown op " ++ op)

end ConfModel.Driver.C02
