import ConfModel.Driver.Common
import ConfModel.Driver.C07
namespace ConfModel.Driver.C01
open Lean ConfModel.Driver ConfModel.Config ConfModel.Library ConfModel.Driver.C07

/-- C01: the number of permutations the Lean models of config expansion (C06) and suite expansion
(C07) predict for one shipped run — the embedded corpus (abstracted by the harness), the config
cases, the run mode — next to what the real library computes.  `model` carries the predicted
counts: the library itself and `allPermutations` with the gRPC client (`allTF`, server-mode
runs) or the gRPC server (`allFT`, client-mode runs) added. -/
def handle : Handler := fun op inp impl =>
  match op with
  | "count" =>
    if !(isNull (field impl "panic")) then
      { agree := false, holds := false, why := "panic: " ++ str (field impl "panic") } else
    let suites := (arr (field inp "suites")).map suiteOf
    let codes := sortedDistinct (natList (field inp "cases"))
    let mode := Mode.ofNum (nat (field inp "mode"))
    let bm := bitmap codes
    let inCases : Case → Bool := fun c => bm.get! c.code == 1
    match newLibrary pathJoin suites inCases mode with
    | .error e => { agree := str (field impl "err") != "", holds := true, nontrivial := false,
                    model := Json.mkObj [("err", toString (repr e))] }
    | .ok lib =>
      let ft := (allPermutations false true lib).length
      let tf := (allPermutations true false lib).length
      { agree := str (field impl "err") == "" && nat (field impl "perms") == lib.length &&
                 nat (field impl "allFT") == ft && nat (field impl "allTF") == tf,
        holds := true, nontrivial := lib.length > 1,
        model := Json.mkObj [("perms", lib.length), ("allFT", ft), ("allTF", tf), ("config", str (field inp "config")), ("mode", nat (field inp "mode"))] }
  | _ => bad ("C01: unknown op " ++ op)

end ConfModel.Driver.C01
