/-
C03 — the path a client's reply takes from the client runner to `testResults.assert`:
`server_runner.go` `runTestCasesForServer`, the part that is executed per test case (the loop body
after the server has answered, and the callback given to `client.sendRequest`), statement by
statement, in the same order.  The arguments that only select logging, tracing and side-band
bookkeeping are `Flags`.  The reply object is threaded through every statement that is handed it
(`after`), so that "the callback leaves the reply as it found it" is a statement about the model.
Core Lean only.
-/
import ConfModel.Model.Assert
namespace ConfModel.AssertPath
open ConfModel.Assert

/-- the arguments of `runTestCasesForServer` that must not influence a verdict -/
structure Flags where
  /-- `logEach` (`-vv`) -/
  logEach : Bool
  /-- a non-nil `tracer` -/
  tracing : Bool
  /-- `isReferenceClient` -/
  refClient : Bool
  /-- `isReferenceServer` -/
  refServer : Bool
  deriving DecidableEq, Repr, Inhabited

/-- what the client runner hands to the callback: `(resp, err)` -/
inductive Reply where
  /-- `err` is a `*failedToGetResultError` -/
  | noResult
  /-- any other `err` -/
  | transport
  /-- `resp.GetError() != nil` -/
  | clientError (msg : String)
  /-- `resp.GetResponse() != nil`, with its `feedback` lines -/
  | response (r : Result) (feedback : List String)
  /-- a response with neither -/
  | neither
  deriving DecidableEq, Repr, Inhabited

/-- what is recorded for the test case -/
inductive Verdict where
  /-- `setOutcome(name, true, err)` -/
  | setup
  /-- `results.failed(name, resp.GetError())` -/
  | clientFailed (msg : String)
  /-- `results.assert(name, testCase, resp.GetResponse())` -/
  | asserted (ds : List Discrepancy)
  /-- "client returned a response with neither an error nor result" -/
  | neither
  deriving DecidableEq, Repr, Inhabited

def Verdict.passed : Verdict → Bool
  | .asserted [] => true
  | _ => false

inductive LogLine where
  | sending | received
  deriving DecidableEq, Repr, Inhabited

structure Delivered where
  verdict : Verdict
  log : List LogLine
  /-- `results.serverSideband[name]` after the callback -/
  sideband : Option String
  /-- the reply object as the callback leaves it -/
  after : Reply
  deriving DecidableEq, Repr, Inhabited

/-- `if logEach { logPrinter.Printf("Sending request for %q...") }` -/
def logSending (f : Flags) : List LogLine := if f.logEach then [.sending] else []

/-- `if logEach && !errors.As(err, &errNoResult) { logPrinter.Printf("Received response for %q...") }`:
the statement is handed the reply and returns it -/
def logReceived (f : Flags) (reply : Reply) : List LogLine × Reply :=
  match f.logEach, reply with
  | true, .noResult => ([], reply)
  | true, _ => ([.received], reply)
  | false, _ => ([], reply)

/-- the `switch` of the callback -/
def record (grace : Int) (st : StreamType) (other : List Nat) (e : Result) (reply : Reply) : Verdict × Reply :=
  match reply with
  | .noResult => (.setup, reply)
  | .transport => (.setup, reply)
  | .clientError msg => (.clientFailed msg, reply)
  | .response a _ => (.asserted (assert grace st other e a), reply)
  | .neither => (.neither, reply)

/-- `if isReferenceClient && resp.GetResponse() != nil { for _, msg := range Feedback { recordSideband } }`
(a map entry per test case: the last line stays) -/
def feedback (f : Flags) (reply : Reply) : Option String × Reply :=
  match f.refClient, reply with
  | true, .response _ fb => (fb.getLast?, reply)
  | _, _ => (none, reply)

/-- one test case through the loop body and the callback -/
def deliver (f : Flags) (grace : Int) (st : StreamType) (other : List Nat) (e : Result) (reply : Reply) : Delivered :=
  let l1 := logSending f
  let (l2, r1) := logReceived f reply
  let (v, r2) := record grace st other e r1
  let (sb, r3) := feedback f r2
  { verdict := v, log := l1 ++ l2, sideband := sb, after := r3 }

/-- a batch: the test cases of one server instance, each with the reply of its request -/
def deliverAll (f : Flags) (grace : Int) : List (StreamType × List Nat × Result × Reply) → List Delivered
  | [] => []
  | (st, other, e, reply) :: rest => deliver f grace st other e reply :: deliverAll f grace rest

end ConfModel.AssertPath
