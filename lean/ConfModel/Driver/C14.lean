import ConfModel.Driver.Common
namespace ConfModel.Driver.C14
open Lean ConfModel.Driver

def handle : Handler := fun op _inp _impl => bad ("C14: unknown op " ++ op)

end ConfModel.Driver.C14
