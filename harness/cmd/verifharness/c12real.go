package main

// C12 — the REAL reference server, as createServer builds it.
//
// The ops of c12.go drive the handler returned by referenceServerChecks directly. What a
// client meets is the chain createServer assembles around it (CORS, raw responder, the checks,
// the "HTTP/1.1 bidi stream pretends to be HTTP/2" wrapper, connect-go's mux) inside a real
// net/http, h2c or HTTP/3 server with or without TLS. Op
//
//   real : {srv, e:[7], a:[7], v:[3], proc, full, name, times, trailers, timeout}
//
// starts such a server (reference mode, HTTP version srv, TLS / client certificates as a says)
// on a loopback port, sends `times` times the request a conformant client sends for procedure
// proc with actual aspects a (c12Render: the same renderer the matrix op and the Lean model
// use) and the runner's expectation headers for e - a well-formed RPC over a real connection
// with plain net/http / x/net/http2 / quic-go transports - reads the response to its end and
// reports the feedback the server printed on its stderr, plus what the RPC's response tells
// about the request the server implementation saw (timeout_ms, the timeout header).
//
// a[0] is the HTTP version the client really speaks (0: HTTP/1.1, 1: HTTP/2, 2: HTTP/3).

import (
	"bytes"
	"context"
	"crypto/tls"
	"encoding/base64"
	"encoding/binary"
	"encoding/json"
	"errors"
	"fmt"
	"io"
	"net"
	"net/http"
	"net/url"
	"strconv"
	"strings"
	"sync"
	"time"

	"connectrpc.com/conformance/internal"
	rs "connectrpc.com/conformance/internal/app/referenceserver"
	"connectrpc.com/conformance/internal/compression"
	conformancev1 "connectrpc.com/conformance/internal/gen/proto/go/connectrpc/conformance/v1"
	"connectrpc.com/conformance/internal/verifharness/gen"
	"github.com/quic-go/quic-go"
	"github.com/quic-go/quic-go/http3"
	"golang.org/x/net/http2"
	"google.golang.org/protobuf/encoding/protojson"
	"google.golang.org/protobuf/proto"
)

func init() {
	gen.RegisterOp("c12", "real", func(c *gen.Ctx, raw json.RawMessage) any {
		return c12Real(c, gen.Into[c12RealIn](raw))
	})
}

type c12RealIn struct {
	Srv      int     `json:"srv"` // HTTP version the server is configured for: 1, 2, 3
	E        [7]int  `json:"e"`
	A        [7]int  `json:"a"`
	V        [3]int  `json:"v"`
	Proc     string  `json:"proc"` // Unary | IdempotentUnary | ClientStream | ServerStream | BidiStream
	Full     bool    `json:"full"` // BidiStream: full duplex (HTTP/2 only)
	Name     string  `json:"name"`
	Times    int     `json:"times"`
	Trailers int     `json:"trailers"`
	Timeout  *string `json:"timeout"`       // hex; sent in the timeout header of the actual protocol
	Pad      *c12Pad `json:"pad,omitempty"` // a value the feedback echoes made longer (c12ApplyPad: expect | timeout)
	// Traced: the server is given a tracer (runner started with --trace): createServer installs
	// tracer.TracingHandler around the checks
	Traced bool `json:"traced,omitempty"`
	// GetBody (GET requests only): 0 no body; 1 a body of one byte (Content-Length: 1); 2 a body
	// of unknown length that turns out to be empty (HTTP/1.1: Transfer-Encoding: chunked with only
	// the last chunk; HTTP/2, 3: HEADERS without END_STREAM, then an empty DATA frame)
	GetBody int `json:"getBody,omitempty"`
}

type c12RealObs struct {
	Fb     []string `json:"fb"`
	Named  bool     `json:"named"`
	Ms     *string  `json:"ms"`     // request_info.timeout_ms of the first response message
	SeenTO int      `json:"seenTO"` // values of the timeout header echoed in request_info.request_headers
	Status int      `json:"status"`
	Proto  int      `json:"proto"` // HTTP major version of the exchange as the client saw it
	OK     bool     `json:"ok"`    // the RPC succeeded and its response carries a payload
	Err    string   `json:"err,omitempty"`
	// Lines: every line of the server's stderr during this exchange as written, with what the real
	// runTestCasesForServer made of it (record | forward | skip) and the test case it was recorded for
	Lines [][3]string `json:"lines"`
}

// ---------------------------------------------------------------- certificates (once per process)

var c12Certs struct {
	once                                         sync.Once
	serverCert, serverKey, clientCert, clientKey []byte
	err                                          error
}

func c12GetCerts() error {
	c12Certs.once.Do(func() {
		c12Certs.serverCert, c12Certs.serverKey, c12Certs.err = internal.NewServerCert()
		if c12Certs.err == nil {
			c12Certs.clientCert, c12Certs.clientKey, c12Certs.err = internal.NewClientCert()
		}
	})
	return c12Certs.err
}

// ---------------------------------------------------------------- messages

func c12Marshal(codec int, m proto.Message) []byte {
	var b []byte
	var err error
	if codec == 1 {
		b, err = protojson.Marshal(m)
	} else {
		b, err = proto.Marshal(m)
	}
	if err != nil {
		panic(err)
	}
	return b
}

func c12Unmarshal(codec int, b []byte, m proto.Message) error {
	if codec == 1 {
		return protojson.Unmarshal(b, m)
	}
	return proto.Unmarshal(b, m)
}

func c12Messages(proc string, full bool) []proto.Message {
	unary := &conformancev1.UnaryResponseDefinition{Response: &conformancev1.UnaryResponseDefinition_ResponseData{ResponseData: []byte("ok")}}
	stream := &conformancev1.StreamResponseDefinition{ResponseData: [][]byte{[]byte("r1"), []byte("r2")}}
	switch proc {
	case "Unary":
		return []proto.Message{&conformancev1.UnaryRequest{ResponseDefinition: unary, RequestData: []byte("a")}}
	case "IdempotentUnary":
		return []proto.Message{&conformancev1.IdempotentUnaryRequest{ResponseDefinition: unary, RequestData: []byte("a")}}
	case "ClientStream":
		return []proto.Message{
			&conformancev1.ClientStreamRequest{ResponseDefinition: unary, RequestData: []byte("a")},
			&conformancev1.ClientStreamRequest{RequestData: []byte("b")}}
	case "ServerStream":
		return []proto.Message{&conformancev1.ServerStreamRequest{ResponseDefinition: stream, RequestData: []byte("a")}}
	case "BidiStream":
		return []proto.Message{
			&conformancev1.BidiStreamRequest{ResponseDefinition: stream, FullDuplex: full, RequestData: []byte("a")},
			&conformancev1.BidiStreamRequest{RequestData: []byte("b")}}
	}
	panic("c12: unknown procedure " + proc)
}

type c12HasPayload interface {
	proto.Message
	GetPayload() *conformancev1.ConformancePayload
}

func c12ResponseMessage(proc string) c12HasPayload {
	switch proc {
	case "Unary":
		return &conformancev1.UnaryResponse{}
	case "IdempotentUnary":
		return &conformancev1.IdempotentUnaryResponse{}
	case "ClientStream":
		return &conformancev1.ClientStreamResponse{}
	case "ServerStream":
		return &conformancev1.ServerStreamResponse{}
	default:
		return &conformancev1.BidiStreamResponse{}
	}
}

func c12Streaming(proc string) bool { return proc != "Unary" && proc != "IdempotentUnary" }

// ---------------------------------------------------------------- transports

type c12Transport struct {
	rt    http.RoundTripper
	close func()
}

func c12NewTransport(a [7]int) (*c12Transport, error) {
	var tlsConf *tls.Config
	if a[5] == 1 {
		var cert, key []byte
		if a[6] == 1 {
			cert, key = c12Certs.clientCert, c12Certs.clientKey
		}
		var err error
		tlsConf, err = internal.NewClientTLSConfig(c12Certs.serverCert, cert, key)
		if err != nil {
			return nil, err
		}
	}
	switch a[0] {
	case 0:
		t := &http.Transport{DisableCompression: true, TLSClientConfig: tlsConf,
			TLSNextProto: map[string]func(string, *tls.Conn) http.RoundTripper{}} // never HTTP/2
		if tlsConf != nil {
			tlsConf.NextProtos = []string{"http/1.1"}
		}
		return &c12Transport{rt: t, close: t.CloseIdleConnections}, nil
	case 1:
		t := &http2.Transport{DisableCompression: true}
		if tlsConf != nil {
			tlsConf.NextProtos = []string{"h2"}
			t.TLSClientConfig = tlsConf
		} else {
			t.AllowHTTP = true
			t.DialTLSContext = func(ctx context.Context, network, addr string, _ *tls.Config) (net.Conn, error) {
				return (&net.Dialer{}).DialContext(ctx, network, addr)
			}
		}
		return &c12Transport{rt: t, close: t.CloseIdleConnections}, nil
	case 2:
		if tlsConf == nil {
			return nil, errors.New("HTTP/3 needs TLS")
		}
		t := &http3.Transport{DisableCompression: true, TLSClientConfig: tlsConf,
			QUICConfig: &quic.Config{MaxIdleTimeout: 20 * time.Second, KeepAlivePeriod: 5 * time.Second}}
		return &c12Transport{rt: t, close: func() { _ = t.Close() }}, nil
	}
	return nil, errors.New("bad version")
}

// ---------------------------------------------------------------- one exchange

// c12MidKey: a func() in the context of a full-duplex exchange is called once the first response
// message has been read (op realoverlap runs other requests at that point).
type c12MidKey struct{}

type c12PlainReader struct{ io.Reader } // hides Len(): chunked / no content-length, so that trailers can follow

func c12RealEnvelope(comp int, payload []byte) []byte {
	if comp != 0 {
		return c13Envelope(1, c13Compress(comp, payload))
	}
	return c13Envelope(0, payload)
}

// c12Decompress undoes the coding a response header announces (connect-go answers in the
// coding of the request unless told otherwise).
func c12Decompress(name string, data []byte) ([]byte, error) {
	for i, n := range c12Comps {
		if n == name || (name == "" && i == 0) {
			d, err := compression.GetDecompressor(conformancev1.Compression(i + 1))
			if err != nil {
				return nil, err
			}
			if err := d.Reset(bytes.NewReader(data)); err != nil {
				return nil, err
			}
			return io.ReadAll(d)
		}
	}
	return nil, fmt.Errorf("unknown response coding %q", name)
}

func c12ReadEnvelope(r io.Reader) (flags byte, payload []byte, err error) {
	var hdr [5]byte
	if _, err = io.ReadFull(r, hdr[:]); err != nil {
		return 0, nil, err
	}
	payload = make([]byte, binary.BigEndian.Uint32(hdr[1:]))
	_, err = io.ReadFull(r, payload)
	return hdr[0], payload, err
}

func c12RealExchange(ctx context.Context, tr http.RoundTripper, addr string, in c12RealIn, r c12Req) (obs c12RealObs) {
	fail := func(err error) c12RealObs {
		obs.Err = strings.SplitN(err.Error(), "\n", 2)[0]
		return obs
	}
	codec, comp, protocol := in.A[3], in.A[4], in.A[2]
	msgs := c12Messages(in.Proc, in.Full)
	scheme := "http"
	if in.A[5] == 1 {
		scheme = "https"
	}
	target := scheme + "://" + addr + "/connectrpc.conformance.v1.ConformanceService/" + in.Proc
	enveloped := protocol != 0 || c12Streaming(in.Proc)
	var body []byte
	var frames [][]byte
	if r.Method == http.MethodGet {
		q := url.Values{}
		for _, kv := range r.Query {
			if kv[0] == "message" {
				q.Add("message", base64.RawURLEncoding.EncodeToString(c13Compress(comp, c12Marshal(codec, msgs[0]))))
				q.Add("base64", "1")
				continue
			}
			q.Add(kv[0], kv[1])
		}
		target += "?" + q.Encode()
	} else if enveloped {
		for _, m := range msgs {
			f := c12RealEnvelope(comp, c12Marshal(codec, m))
			frames = append(frames, f)
			body = append(body, f...)
		}
	} else {
		body = c13Compress(comp, c12Marshal(codec, msgs[0]))
	}
	duplex := in.Proc == "BidiStream" && in.Full
	var reqBody io.Reader = http.NoBody
	var pw *io.PipeWriter
	switch {
	case r.Method == http.MethodGet:
		switch in.GetBody {
		case 1:
			reqBody = bytes.NewReader([]byte("x"))
		case 2:
			reqBody = c12PlainReader{strings.NewReader("")}
		}
	case duplex:
		var pr *io.PipeReader
		pr, pw = io.Pipe()
		reqBody = pr
	case r.Trailers > 0:
		reqBody = c12PlainReader{bytes.NewReader(body)}
	default:
		reqBody = bytes.NewReader(body)
	}
	req, err := http.NewRequestWithContext(ctx, r.Method, target, reqBody)
	if err != nil {
		return fail(err)
	}
	if r.Method == http.MethodGet && in.GetBody == 2 {
		req.ContentLength = -1
		if in.A[0] == 0 {
			req.TransferEncoding = []string{"chunked"} // no probing of the body by the transport: send it chunked
		}
	}
	for _, kv := range r.Headers {
		req.Header[kv[0]] = append(req.Header[kv[0]], kv[1])
	}
	if protocol == 0 && r.Method != http.MethodGet {
		req.Header.Set("Connect-Protocol-Version", "1")
	}
	if in.Timeout != nil {
		name := "Grpc-Timeout"
		if protocol == 0 {
			name = "Connect-Timeout-Ms"
		}
		req.Header[name] = []string{string(c13Un(*in.Timeout))}
	}
	if r.Trailers > 0 {
		req.Trailer = http.Header{}
		for i := 0; i < r.Trailers; i++ {
			req.Trailer["X-Trailer-"+strconv.Itoa(i)] = []string{"v"}
		}
	}
	var resp *http.Response
	var respBody []byte
	if duplex {
		type rtResult struct {
			resp *http.Response
			err  error
		}
		ch := make(chan rtResult, 1)
		go func() {
			resp, err := tr.RoundTrip(req)
			ch <- rtResult{resp, err}
		}()
		// A write fails when the server has already finished its response (an error response):
		// the transport then closes the request body. That is not a failure of the exchange.
		stop := context.AfterFunc(ctx, func() { _ = pw.CloseWithError(ctx.Err()) })
		defer stop()
		_, werr := pw.Write(frames[0])
		var res rtResult
		select {
		case res = <-ch:
		case <-ctx.Done():
			return fail(ctx.Err())
		}
		if res.err != nil {
			_ = pw.CloseWithError(res.err)
			return fail(res.err)
		}
		resp = res.resp
		defer resp.Body.Close()
		// one response message per request message, interleaved
		for i := range frames {
			if i > 0 && werr == nil {
				_, werr = pw.Write(frames[i])
			}
			flags, payload, err := c12ReadEnvelope(resp.Body)
			if errors.Is(err, io.EOF) { // the response ended early (an error response): stop sending
				break
			}
			if err != nil {
				_ = pw.CloseWithError(err)
				return fail(fmt.Errorf("full duplex: response message %d: %w", i, err))
			}
			respBody = append(respBody, c13Envelope(flags, payload)...)
			if i == 0 {
				// the server implementation has answered the first message: the request is inside the
				// handler chain and stays there until the request body ends
				if mid, ok := ctx.Value(c12MidKey{}).(func()); ok {
					mid()
				}
			}
		}
		_ = pw.Close()
		rest, err := io.ReadAll(resp.Body)
		if err != nil {
			return fail(err)
		}
		respBody = append(respBody, rest...)
	} else {
		resp, err = tr.RoundTrip(req)
		if err != nil {
			return fail(err)
		}
		defer resp.Body.Close()
		respBody, err = io.ReadAll(resp.Body)
		if err != nil {
			return fail(err)
		}
	}
	obs.Status = resp.StatusCode
	obs.Proto = resp.ProtoMajor
	// what the RPC answered
	var first []byte
	rpcOK := resp.StatusCode == http.StatusOK
	respCoding := resp.Header.Get("Grpc-Encoding")
	if protocol == 0 {
		respCoding = resp.Header.Get("Connect-Content-Encoding")
	}
	inflate := func(flags byte, payload []byte) []byte {
		if flags&1 == 0 {
			return payload
		}
		b, err := c12Decompress(respCoding, payload)
		if err != nil {
			rpcOK = false
			return nil
		}
		return b
	}
	if !enveloped {
		var err error // Connect unary: the whole body is coded
		if first, err = c12Decompress(resp.Header.Get("Content-Encoding"), respBody); err != nil {
			rpcOK = false
		}
	} else {
		rest := respBody
		sawEnd := false
		for len(rest) >= 5 {
			n := int(binary.BigEndian.Uint32(rest[1:5]))
			if 5+n > len(rest) {
				rpcOK = false
				break
			}
			flags, payload := rest[0], inflate(rest[0], rest[5:5+n])
			rest = rest[5+n:]
			switch {
			case flags&0x80 != 0: // gRPC-Web trailers
				sawEnd = true
				if !strings.Contains(strings.ToLower(string(payload)), "grpc-status: 0\r\n") {
					rpcOK = false
				}
			case flags&0x02 != 0: // Connect end-stream
				sawEnd = true
				var es map[string]json.RawMessage
				if json.Unmarshal(payload, &es) != nil || es["error"] != nil {
					rpcOK = false
				}
			case first == nil:
				first = payload
			}
		}
		switch protocol {
		case 1:
			if resp.Trailer.Get("Grpc-Status") != "0" {
				rpcOK = false
			}
		default:
			if !sawEnd {
				rpcOK = false
			}
		}
	}
	if first != nil {
		m := c12ResponseMessage(in.Proc)
		if err := c12Unmarshal(codec, first, m); err == nil && m.GetPayload() != nil {
			if info := m.GetPayload().GetRequestInfo(); info != nil {
				if info.TimeoutMs != nil {
					s := strconv.FormatInt(*info.TimeoutMs, 10)
					obs.Ms = &s
				}
				for _, h := range info.RequestHeaders {
					if k := http.CanonicalHeaderKey(h.Name); k == "Connect-Timeout-Ms" || k == "Grpc-Timeout" {
						obs.SeenTO += len(h.Value)
					}
				}
				obs.OK = rpcOK
			}
		}
	}
	return obs
}

func c12Real(c *gen.Ctx, in c12RealIn) []c12RealObs {
	out := []c12RealObs{}
	failAll := func(err error) []c12RealObs {
		return append(out, c12RealObs{Fb: []string{}, Lines: [][3]string{}, Err: strings.SplitN(err.Error(), "\n", 2)[0]})
	}
	if err := c12GetCerts(); err != nil {
		return failAll(err)
	}
	var clientCA []byte
	if in.A[6] == 1 {
		clientCA = c12Certs.clientCert
	}
	srv, err := rs.VerifC12StartRealTraced(int32(in.Srv), in.A[5] == 1, c12Certs.serverCert, c12Certs.serverKey, clientCA, in.Traced)
	if err != nil {
		return failAll(err)
	}
	if in.Traced {
		c.E.Count("real:server-with-tracer")
	} else {
		c.E.Count("real:server-without-tracer")
	}
	stopped := false
	defer func() {
		if !stopped {
			srv.Stop()
		}
	}()
	tr, err := c12NewTransport(in.A)
	if err != nil {
		return failAll(err)
	}
	defer tr.close()
	r := c12Render(c12MatrixIn{E: in.E, A: in.A, V: in.V, Name: in.Name})
	r.Trailers = in.Trailers
	if in.Name == "" { // the header is absent rather than empty
		r.Headers = r.Headers[1:]
	}
	if in.Pad != nil {
		c12ApplyPad(&r, *in.Pad)
	}
	ctx, cancel := context.WithTimeout(context.Background(), 30*time.Second)
	defer cancel()
	var stderrs []string
	for i := 0; i < in.Times; i++ {
		obs := c12RealExchange(ctx, tr.rt, srv.Addr, in, r)
		out = append(out, obs)
		stderrs = append(stderrs, srv.Stderr())
	}
	tr.close()
	rest := srv.Stop()
	stopped = true
	if len(stderrs) > 0 {
		stderrs[len(stderrs)-1] += rest
	}
	// The server's stderr is read the way the runner reads it (server_runner.go): each line goes
	// through the real runTestCasesForServer for a batch containing this test case.
	batch := c12Batch(in.Name)
	for i := range out {
		lines, raw := c12ReadStderr(batch, stderrs[i])
		out[i].Lines = raw
		c.E.Add("stderr-lines-read-by-the-real-runner", len(raw))
		out[i].Fb, out[i].Named = c12Classes(c, lines, in.Name)
		switch {
		case out[i].Err != "":
			c.E.Count("real:exchange-failed")
		case out[i].OK:
			c.E.Count("real:rpc-ok")
		default:
			c.E.Count("real:rpc-error-response")
		}
		if len(out[i].Fb) == 0 {
			c.E.Count("real:no-feedback")
		} else {
			c.E.Count("real:feedback")
		}
	}
	c.E.Count(fmt.Sprintf("real:server-http%d:client-http%d:tls%d%d", in.Srv, in.A[0]+1, in.A[5], in.A[6]))
	c.E.Count("real:proc:" + in.Proc)
	return out
}

// ---------------------------------------------------------------- generator

type c12RealTransport struct{ srv, version, tls, cert int }

// server version x what the client really speaks x TLS x client certificate
var c12RealTransports = []c12RealTransport{
	{1, 0, 0, 0}, {2, 1, 0, 0}, {2, 0, 0, 0}, // plain: HTTP/1.1, h2c, HTTP/1.1 against the h2c server
	{1, 0, 1, 0}, {1, 0, 1, 1}, {2, 1, 1, 0}, {2, 1, 1, 1}, {2, 0, 1, 0}, // TLS: HTTP/1.1, HTTP/2 (ALPN), HTTP/1.1 against the HTTP/2 server
	{3, 2, 1, 0}, {3, 2, 1, 1}, // HTTP/3
}

type c12RealProc struct {
	proc string
	get  bool
	full bool
}

var c12RealProcs = []c12RealProc{
	{"Unary", false, false}, {"IdempotentUnary", false, false}, {"IdempotentUnary", true, false},
	{"ClientStream", false, false}, {"ServerStream", false, false}, {"BidiStream", false, false}, {"BidiStream", false, true},
}

func c12ASCII(s string) bool {
	for i := 0; i < len(s); i++ {
		if s[i] < 0x20 || s[i] > 0x7e {
			return false
		}
	}
	return true
}

func c12B(b bool) int {
	if b {
		return 1
	}
	return 0
}

func c12RealGen(c *gen.Ctx) {
	r := c.R
	thorough := c.Thorough()
	var ins []c12RealIn
	n := int(c.Seed)
	mk := func(t c12RealTransport, p c12RealProc, protocol, codec, comp int) c12RealIn {
		a := [7]int{t.version, c12B(p.get), protocol, codec, comp, t.tls, t.cert}
		n++
		// the server without / with a tracer, alternating (the matching requests of (a) and the GET
		// requests of (g) go to both)
		return c12RealIn{Srv: t.srv, E: a, A: a, V: [3]int{c12B(c12Streaming(p.proc)), n % 2, (n / 2) % 2},
			Proc: p.proc, Full: p.full, Name: "Real/" + p.proc, Times: 1, Traced: (n/2)%2 == 1}
	}
	each := func(f func(t c12RealTransport, p c12RealProc, protocol int)) {
		for _, t := range c12RealTransports {
			for _, p := range c12RealProcs {
				if p.full && t.version != 1 { // full duplex: HTTP/2 only
					continue
				}
				for protocol := 0; protocol < 3; protocol++ {
					if p.get && protocol != 0 {
						continue
					}
					f(t, p, protocol)
				}
			}
		}
	}
	// (a) every transport x procedure x protocol: a request that matches in every aspect and
	// every single-aspect deviation of the expectation; codec and compression rotate with the
	// seed (thorough: all twelve for the match, rotating for the deviations)
	each(func(t c12RealTransport, p c12RealProc, protocol int) {
		combos := [][2]int{{n % 2, (n / 2) % 6}}
		if thorough {
			combos = nil
			for codec := 0; codec < 2; codec++ {
				for comp := 0; comp < 6; comp++ {
					combos = append(combos, [2]int{codec, comp})
				}
			}
		}
		for ci, cc := range combos {
			in := mk(t, p, protocol, cc[0], cc[1])
			ins = append(ins, in)
			c.E.Count("kind:real-match")
			if ci%4 == 0 || p.get { // the same request against the other configuration of the server
				other := in
				other.Traced = !in.Traced
				ins = append(ins, other)
				c.E.Count("kind:real-match-other-configuration")
			}
			if ci%4 != 0 {
				continue
			}
			for k := 0; k < 7; k++ {
				for d := 1; d < c12Dims[k]; d++ {
					dev := in
					dev.E[k] = (in.A[k] + d) % c12Dims[k]
					dev.Name = "Real/one-off"
					ins = append(ins, dev)
					c.E.Count("kind:real-single-deviation")
				}
			}
		}
	})
	// (b) random expected tuples
	nRand := 150
	if thorough {
		nRand = 1500
	}
	for i := 0; i < nRand; i++ {
		t := gen.Pick(r, c12RealTransports)
		p := gen.Pick(r, c12RealProcs)
		if p.full && t.version != 1 {
			p.full = false
		}
		protocol := r.Intn(3)
		if p.get {
			protocol = 0
		}
		in := mk(t, p, protocol, r.Intn(2), r.Intn(6))
		in.E = c12Tuple(r.Intn(864))
		in.Name = "Real/random"
		ins = append(ins, in)
		c.E.Count("kind:real-random-expectation")
	}
	// (c) a repeated request, request trailers, a request without test name
	each(func(t c12RealTransport, p c12RealProc, protocol int) {
		if !thorough && (n+protocol)%3 != 0 {
			n++
			return
		}
		in := mk(t, p, protocol, r.Intn(2), r.Intn(6))
		in.Times = 2
		in.Name = "Real/twice"
		ins = append(ins, in)
		c.E.Count("kind:real-repeat")
		if !p.get && t.version != 2 { // quic-go's HTTP/3 client does not send request trailers
			in = mk(t, p, protocol, r.Intn(2), r.Intn(6))
			in.Trailers = r.Range(1, 2)
			in.Name = "Real/trailers"
			ins = append(ins, in)
			c.E.Count("kind:real-trailers")
		}
		in = mk(t, p, protocol, r.Intn(2), r.Intn(6))
		in.Name = ""
		ins = append(ins, in)
		c.E.Count("kind:real-no-name")
	})
	// (d) the timeout header end to end: zero, boundary, saturating and ungrammatical values
	connectVals := []string{"0", "0000000000", "1", "1000", "9999999999", "10000000000", "+5", "-0", "", "5x", "00000000005"}
	grpcVals := []string{"0S", "0n", "00000000H", "1n", "999999n", "1000000n", "999u", "1000u", "1m", "5S", "1M", "1H", "2562047H", "2562048H", "99999999H",
		"99999999S", "99999999M", "5", "123456789S", "+5S", "5x", "S", "", "5 S", "-1S"}
	for ti, t := range c12RealTransports {
		if !thorough && ti != 0 && ti != 1 && ti != 6 {
			continue
		}
		for protocol := 0; protocol < 3; protocol++ {
			vals := grpcVals
			if protocol == 0 {
				vals = connectVals
			}
			for vi, v := range vals {
				p := c12RealProcs[(vi+ti+protocol+n)%len(c12RealProcs)]
				if p.full && t.version != 1 {
					p.full = false
				}
				if p.get && protocol != 0 {
					p = c12RealProcs[0]
				}
				in := mk(t, p, protocol, r.Intn(2), r.Intn(6))
				hv := c12Hex(v)
				in.Timeout = &hv
				in.Name = "Real/timeout"
				ins = append(ins, in)
				c.E.Count("kind:real-timeout")
			}
		}
	}
	// (e) test case names are arbitrary strings: names that mean something to a formatter or to a
	// "name: message" reader, on a deviating request sent twice (feedback for the aspect and for the
	// repetition must both be attributed to the test case by the real runner)
	nOdd := 60
	if thorough {
		nOdd = 600
	}
	for i := 0; i < nOdd; i++ {
		t := c12RealTransports[(i+n)%len(c12RealTransports)]
		if !thorough && t.version == 2 && i%4 != 0 { // HTTP/3 set-up is the slowest
			t = c12RealTransports[i%2]
		}
		p := gen.Pick(r, c12RealProcs)
		if p.full && t.version != 1 {
			p.full = false
		}
		protocol := r.Intn(3)
		if p.get {
			protocol = 0
		}
		in := mk(t, p, protocol, r.Intn(2), r.Intn(6))
		switch r.Intn(4) {
		case 0:
			in.E = c12Tuple(r.Intn(864))
		case 1: // matches: only the repetition is reported
		default:
			d := gen.Pick(r, []int{0, 2, 3, 4}) // version, protocol, codec, compression
			in.E[d] = (in.A[d] + 1) % c12Dims[d]
		}
		in.Times = 2
		in.Name = c12OddName(r, i)
		for strings.ContainsAny(in.Name, "\t") || !c12ASCII(in.Name) { // header values over HTTP/2 and 3: visible ASCII
			in.Name = c12OddName(r, r.Intn(1000)*3+1)
		}
		ins = append(ins, in)
		c.E.Count("kind:real-odd-name")
	}
	// (g) GET requests and their bodies, against the server with and without a tracer: no body,
	// a body of unknown length that is empty (still a conformant request: nothing may be reported),
	// a body of one byte; matching in every aspect and with one deviating aspect
	for ti, t := range c12RealTransports {
		if !thorough && (ti+n)%2 == 0 && ti > 2 {
			continue
		}
		for traced := 0; traced < 2; traced++ {
			for body := 0; body < 3; body++ {
				for dev := 0; dev < 2; dev++ {
					in := mk(t, c12RealProc{"IdempotentUnary", true, false}, 0, r.Intn(2), r.Intn(6))
					in.Traced = traced == 1
					in.GetBody = body
					in.Name = "Real/get-body-" + strconv.Itoa(body)
					if dev == 1 {
						d := gen.Pick(r, []int{0, 1, 2, 3, 4})
						in.E[d] = (in.A[d] + 1) % c12Dims[d]
					}
					ins = append(ins, in)
					c.E.Count("kind:real-get-body")
				}
			}
		}
	}
	// (f) feedback as long as the client makes it: a value the checks echo (an expectation header,
	// a timeout header) of 4 KiB .. 200 KiB, on a request sent twice - the long line, the lines
	// around it and the lines of the second exchange must all reach the real runner
	nLong := 6
	if thorough {
		nLong = 40
	}
	for i := 0; i < nLong; i++ {
		t := c12RealTransports[i%3] // HTTP/1.1, h2c, HTTP/1.1 against the h2c server
		p := c12RealProcs[(i+n)%len(c12RealProcs)]
		if p.full && t.version != 1 {
			p.full = false
		}
		protocol := r.Intn(3)
		if p.get {
			protocol = 0
		}
		in := mk(t, p, protocol, r.Intn(2), r.Intn(6))
		d := gen.Pick(r, []int{0, 3, 4})
		in.E[d] = (in.A[d] + 1) % c12Dims[d]
		in.Times = 2
		in.Name = "Real/long-feedback"
		in.Pad = &c12Pad{Kind: []string{"expect", "timeout"}[i%2], N: []int{r.Range(65400, 65600), 70000, r.Range(4000, 4200), r.Range(100000, 200000)}[(i/2)%4]}
		ins = append(ins, in)
		c.E.Count("kind:real-long-feedback")
	}
	anyIns := make([]any, len(ins))
	for i := range ins {
		anyIns[i] = ins[i]
	}
	c.DoParallel("real", anyIns, 8)
}
