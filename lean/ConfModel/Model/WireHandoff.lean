/-
Model of the reference client's per-call trace hand-off
(`internal/app/referenceclient/wire_details.go`): `withWireCapture` puts a `wireWrapper`
(`traceAvailable` channel + `trace`) into the call's context, `wireTracer.Complete` →
`setWireTrace` stores the trace of the call in the wrapper found through the request's context
and closes the channel, `examineWireDetails` — the per-call waiter — selects on that channel
and on a one-second grace timer.

Operations are atomic.  The end of the grace period of a pending wait is an abstract event
(`grace k`): the model says nothing about durations, only about orders.  The state of the call's
context is recorded (`ctxDone`) but — as in the code — never consulted.
-/
namespace ConfModel.WireHandoff

structure Call where
  /-- the context was prepared with `withWireCapture` -/
  wrapped : Bool
  /-- `wrapper.trace` once `traceAvailable` is closed -/
  avail : Option Nat
  /-- the call's context is cancelled / past its deadline -/
  ctxDone : Bool
  /-- `examineWireDetails` sits in its `select` -/
  waiting : Bool
deriving DecidableEq, Repr

structure St where
  calls : Nat → Call

def upd (f : Nat → Call) (k : Nat) (c : Call) : Nat → Call := fun x => if x = k then c else f x

/-- `bare` lists the calls whose context carries no wire wrapper -/
def init (bare : List Nat) : St := ⟨fun k => ⟨!bare.contains k, none, false, false⟩⟩

inductive Op
  | begin (k : Nat)                 -- examineWireDetails(ctx of call k) starts
  | ctxDone (k : Nat)               -- the context of call k is done
  | complete (k : Nat) (t : Nat)    -- wireTracer.Complete(trace of call k) → setWireTrace
  | grace (k : Nat)                 -- the grace period of k's pending wait ends
  | join (k : Nat)                  -- wait for k's examination to return
  | peek (k : Nat)                  -- look whether it has returned
deriving DecidableEq, Repr

inductive Obs
  | none
  | trace (t : Nat)     -- the examination returned with this trace (0: a trace without response)
  | waiting             -- it has not returned
  | notFound            -- "completed trace not found in call context"
  | notConfigured       -- "call context not configured"
  | busy | idle         -- (harness) an examination of k is still in flight / none is
  | panic               -- close of a closed channel: setWireTrace called twice for one context
deriving DecidableEq, Repr

def step (s : St) : Op → St × Obs
  | .begin k =>
    let c := s.calls k
    if c.waiting then (s, .busy)
    else if !c.wrapped then (s, .notConfigured)
    else match c.avail with
      | some t => (s, .trace t)
      | Option.none => (⟨upd s.calls k { c with waiting := true }⟩, .waiting)
  | .ctxDone k => (⟨upd s.calls k { s.calls k with ctxDone := true }⟩, .none)
  | .complete k t =>
    let c := s.calls k
    if !c.wrapped then (s, .none)
    else match c.avail with
      | some _ => (s, .panic)
      | Option.none => (⟨upd s.calls k { c with avail := some t }⟩, .none)
  | .grace k =>
    let c := s.calls k
    if c.waiting then
      (⟨upd s.calls k { c with waiting := false }⟩,
        match c.avail with | some t => .trace t | Option.none => .notFound)
    else (s, .idle)
  | .join k | .peek k =>
    let c := s.calls k
    if c.waiting then
      match c.avail with
      | some t => (⟨upd s.calls k { c with waiting := false }⟩, .trace t)
      | Option.none => (s, .waiting)
    else (s, .idle)

def exec : St → List Op → St × List Obs
  | s, [] => (s, [])
  | s, o :: os =>
    let r1 := step s o
    let r2 := exec r1.1 os
    (r2.1, r1.2 :: r2.2)

end ConfModel.WireHandoff
