//go:build verif

package connectconformance

import (
	"bytes"
	"context"
	"errors"
	"fmt"
	"strings"
	"sync"
	"time"

	"connectrpc.com/conformance/internal"
	conformancev1 "connectrpc.com/conformance/internal/gen/proto/go/connectrpc/conformance/v1"
	"connectrpc.com/conformance/internal/tracer"
	"google.golang.org/protobuf/proto"
)

// The path a client's reply takes from the wire to testResults.assert: the REAL
// runTestCasesForServer with a scripted server process and a scripted client runner whose reply is
// decoded from wire bytes.  Every flag that should only affect logging / tracing / side-band
// bookkeeping is an input.

// VerifC03PathFlags are the arguments of runTestCasesForServer that must not affect the verdict.
type VerifC03PathFlags struct {
	LogEach   bool `json:"v"`  // -vv
	Tracing   bool `json:"t"`  // a tracer is attached
	RefClient bool `json:"rc"` // isReferenceClient
	RefServer bool `json:"rs"` // isReferenceServer
}

// VerifC03PathObs is what one run through the path left behind.
type VerifC03PathObs struct {
	Hang     bool     `json:"hang"`
	Recorded bool     `json:"recorded"`
	Setup    bool     `json:"setup"`    // outcome.setupError
	Texts    []string `json:"-"`        // individual error texts (classified by the caller)
	// the reply object handed to the callback, after the run, compared with a deep copy taken before
	Mutated bool `json:"mutated"`
	// a sentinel in the spare capacity of a header / trailer / payload / detail slice was overwritten
	SpareTouched bool `json:"spareTouched"`
	// the test case definition (expected response, request) after the run differs from a deep copy
	DefMutated bool `json:"defMutated"`
	Sending    int  `json:"sending"`  // log lines `Sending request for "<name>"...`
	Received   int  `json:"received"` // log lines `Received response for "<name>"...`
	OtherLog   int  `json:"otherLog"` // any other log / error-printer line
	// the side-band message recorded for the case (reference client feedback), "" when none
	Sideband    string `json:"sideband"`
	HasSideband bool   `json:"hasSideband"`
}

type verifC03Proc struct {
	mu      sync.Mutex
	done    bool
	doneCh  chan struct{}
	actions []func(error)
}

func (p *verifC03Proc) result() error { <-p.doneCh; return nil }

func (p *verifC03Proc) abort() {
	p.mu.Lock()
	if p.done {
		p.mu.Unlock()
		return
	}
	p.done = true
	acts := p.actions
	p.actions = nil
	close(p.doneCh)
	p.mu.Unlock()
	for _, a := range acts {
		a(nil)
	}
}

func (p *verifC03Proc) whenDone(action func(error)) {
	p.mu.Lock()
	if p.done {
		p.mu.Unlock()
		action(nil)
		return
	}
	p.actions = append(p.actions, action)
	p.mu.Unlock()
}

type verifC03NopWriteCloser struct{}

func (verifC03NopWriteCloser) Write(b []byte) (int, error) { return len(b), nil }
func (verifC03NopWriteCloser) Close() error                { return nil }

type verifC03Printer struct {
	mu    sync.Mutex
	lines []string
}

func (p *verifC03Printer) Printf(msg string, args ...any) {
	p.mu.Lock()
	defer p.mu.Unlock()
	p.lines = append(p.lines, fmt.Sprintf(msg, args...))
}

func (p *verifC03Printer) PrefixPrintf(prefix, msg string, args ...any) {
	p.mu.Lock()
	defer p.mu.Unlock()
	p.lines = append(p.lines, prefix+": "+fmt.Sprintf(msg, args...))
}

// verifC03Client hands the scripted reply to the callback of the one request it is sent.
type verifC03Client struct {
	reply  *conformancev1.ClientCompatResponse
	cbErr  error
	tr     *tracer.Tracer
	async  bool
	wg     sync.WaitGroup
	called int
}

func (c *verifC03Client) sendRequest(req *conformancev1.ClientCompatRequest, whenDone func(string, *conformancev1.ClientCompatResponse, error)) error {
	c.called++
	name := req.GetTestName()
	if c.tr != nil {
		c.tr.Complete(tracer.Trace{TestName: name})
	}
	if c.async {
		c.wg.Add(1)
		go func() {
			defer c.wg.Done()
			whenDone(name, c.reply, c.cbErr)
		}()
		return nil
	}
	whenDone(name, c.reply, c.cbErr)
	return nil
}

func (c *verifC03Client) closeSend()              {}
func (c *verifC03Client) waitForResponses() error { return nil }
func (c *verifC03Client) isRunning() bool         { return true }
func (c *verifC03Client) stop()                   {}

var verifC03Sentinel = &conformancev1.Header{Name: "verif-sentinel"}

// verifC03Respare rebuilds the repeated fields of the decoded result with exactly `spare` elements of
// spare capacity, filled with a sentinel (spare < 0: leave the slices as proto.Unmarshal made them).
// check reports whether any sentinel was overwritten.
func verifC03Respare(res *conformancev1.ClientResponseResult, spare int) (check func() bool) {
	if res == nil || spare < 0 {
		return func() bool { return false }
	}
	var checks []func() bool
	hdrs := func(p *[]*conformancev1.Header) {
		old := *p
		s := make([]*conformancev1.Header, len(old), len(old)+spare)
		copy(s, old)
		full := s[:cap(s)]
		for i := len(old); i < len(full); i++ {
			full[i] = verifC03Sentinel
		}
		*p = s
		checks = append(checks, func() bool {
			for i := len(old); i < len(full); i++ {
				if full[i] != verifC03Sentinel {
					return true
				}
			}
			return false
		})
	}
	hdrs(&res.ResponseHeaders)
	hdrs(&res.ResponseTrailers)
	reqInfo := func(ri *conformancev1.ConformancePayload_RequestInfo) {
		if ri == nil {
			return
		}
		hdrs(&ri.RequestHeaders)
		if ri.ConnectGetInfo != nil {
			hdrs(&ri.ConnectGetInfo.QueryParams)
		}
	}
	for _, p := range res.Payloads {
		reqInfo(p.RequestInfo)
	}
	{
		old := res.Payloads
		sentinel := &conformancev1.ConformancePayload{Data: []byte("verif-sentinel")}
		s := make([]*conformancev1.ConformancePayload, len(old), len(old)+spare)
		copy(s, old)
		full := s[:cap(s)]
		for i := len(old); i < len(full); i++ {
			full[i] = sentinel
		}
		res.Payloads = s
		checks = append(checks, func() bool {
			for i := len(old); i < len(full); i++ {
				if full[i] != sentinel {
					return true
				}
			}
			return false
		})
	}
	for _, h := range append(append([]*conformancev1.Header{}, res.ResponseHeaders...), res.ResponseTrailers...) {
		old := h.Value
		s := make([]string, len(old), len(old)+spare)
		copy(s, old)
		full := s[:cap(s)]
		for i := len(old); i < len(full); i++ {
			full[i] = "verif-sentinel"
		}
		h.Value = s
		checks = append(checks, func() bool {
			for i := len(old); i < len(full); i++ {
				if full[i] != "verif-sentinel" {
					return true
				}
			}
			return false
		})
	}
	return func() bool {
		for _, c := range checks {
			if c() {
				return true
			}
		}
		return false
	}
}

// VerifC03Path sends one reply through the real runTestCasesForServer.
//
//   - definition: the test case (its ExpectedResponse is what assert compares with)
//   - replyWire: a serialized ClientCompatResponse (decoded here with proto.Unmarshal, as the client
//     runner does), or nil when the client runner reports cbErr instead
//   - cbKind: "" (reply), "noresult" (failedToGetResultError), "transport" (another error)
//   - spare: see verifC03Respare
func VerifC03Path(definition *conformancev1.TestCase, replyWire []byte, cbKind string, spare int, async bool, flags VerifC03PathFlags) VerifC03PathObs {
	var obs VerifC03PathObs
	name := definition.GetRequest().GetTestName()
	defBefore := proto.Clone(definition)

	var reply *conformancev1.ClientCompatResponse
	var cbErr error
	switch cbKind {
	case "":
		reply = &conformancev1.ClientCompatResponse{}
		if err := proto.Unmarshal(replyWire, reply); err != nil {
			panic("c03path: reply does not decode: " + err.Error())
		}
	case "noresult":
		cbErr = &failedToGetResultError{errNoOutcome}
	case "transport":
		cbErr = errors.New("verif: client pipe error")
	default:
		panic("c03path: unknown callback kind " + cbKind)
	}
	spareTouched := verifC03Respare(reply.GetResponse(), spare)
	var before proto.Message
	if reply != nil {
		before = proto.Clone(reply)
	}

	var tr *tracer.Tracer
	if flags.Tracing {
		tr = &tracer.Tracer{}
	}
	results := newResults(1, &testTrie{}, &testTrie{}, tr)
	logs, errs := &verifC03Printer{}, &verifC03Printer{}
	var srv bytes.Buffer
	if err := internal.WriteDelimitedMessage(&srv, &conformancev1.ServerCompatResponse{Host: "127.0.0.1", Port: 12345}); err != nil {
		panic(err)
	}
	proc := &verifC03Proc{doneCh: make(chan struct{})}
	starter := func(_ context.Context, _ bool) (*process, error) {
		return &process{processController: proc, stdin: verifC03NopWriteCloser{}, stdout: &srv, stderr: strings.NewReader("")}, nil
	}
	client := &verifC03Client{reply: reply, cbErr: cbErr, tr: tr, async: async}
	meta := serverInstance{protocol: conformancev1.Protocol_PROTOCOL_CONNECT, httpVersion: conformancev1.HTTPVersion_HTTP_VERSION_1}
	done := make(chan struct{})
	go func() {
		defer close(done)
		runTestCasesForServer(context.Background(), flags.RefClient, flags.RefServer, meta, []*conformancev1.TestCase{definition},
			nil, nil, starter, logs, errs, results, client, tr, flags.LogEach)
	}()
	select {
	case <-done:
	case <-time.After(15 * time.Second):
		obs.Hang = true
		proc.abort()
		return obs
	}
	client.wg.Wait()
	results.traceWaitGroup.Wait()

	results.mu.Lock()
	outcome, ok := results.outcomes[name]
	obs.Sideband, obs.HasSideband = results.serverSideband[name]
	results.mu.Unlock()
	obs.Recorded = ok
	obs.Setup = outcome.setupError
	obs.Texts = []string{}
	switch failure := outcome.actualFailure.(type) {
	case nil:
	case multiErrors:
		for _, e := range failure {
			obs.Texts = append(obs.Texts, e.Error())
		}
	default:
		obs.Texts = append(obs.Texts, failure.Error())
	}
	if reply != nil {
		obs.Mutated = !proto.Equal(before, reply)
	}
	obs.SpareTouched = spareTouched()
	obs.DefMutated = !proto.Equal(defBefore, definition)
	logs.mu.Lock()
	for _, l := range logs.lines {
		switch {
		case strings.HasPrefix(l, fmt.Sprintf("Sending request for %q", name)):
			obs.Sending++
		case strings.HasPrefix(l, fmt.Sprintf("Received response for %q", name)):
			obs.Received++
		default:
			obs.OtherLog++
		}
	}
	logs.mu.Unlock()
	errs.mu.Lock()
	obs.OtherLog += len(errs.lines)
	errs.mu.Unlock()
	return obs
}
