import ConfModel.Driver.Common
import ConfModel.Driver.C08
open ConfModel.Driver

def handlers : List (String × Handler) := [
  ("c08", ConfModel.Driver.C08.handle)
]

def main (args : List String) : IO UInt32 := do
  match args with
  | [area] =>
    match handlers.lookup area with
    | some h =>
      loop h (← IO.getStdin) (← IO.getStdout)
      return 0
    | none => IO.eprintln s!"unknown area {area}"; return 2
  | _ => IO.eprintln "usage: confdriver <area> < lines.jsonl"; return 2
