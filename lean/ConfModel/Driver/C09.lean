import ConfModel.Driver.Common
import ConfModel.Model.Delimited
import ConfModel.Spec.Framing
import ConfModel.Model.SyncPipe
import ConfModel.Model.PeerLoop
namespace ConfModel.Driver.C09
open Lean ConfModel.Driver ConfModel.Delimited ConfModel.Framing

def ending (s : String) : Ending :=
  match s with
  | "eof" => .eofSeparate
  | "eofWithData" => .eofWithLastData
  | "fail" => .fail
  | _ => .stall

/-- canonical text of a result; a time-out is shown as the text the code prints for its
progress triple -/
def showRes (limit : Nat) : Res → String
  | .msg b => "msg:" ++ hex b
  | .eof => "eof"
  | .unexpectedEOF => "unexpectedEOF"
  | .fail => "fail"
  | .tooLarge n => s!"tooLarge:{n}/{limit}"
  | .timeout pd k n =>
    match timeoutReport pd k n with
    | .complete => "timeout:complete"
    | .nothing => "timeout:nothing"
    | .partialRead w k n => s!"timeout:{w}:{k}/{n}"

def showImpl (j : Json) : String :=
  let err := str (field j "err")
  if err == "" then
    (if isNull (field j "msg") then "hdr:" ++ toString (strList (field j "hdr")) else "msg:" ++ str (field j "msg"))
  else if err == "tooLarge" then s!"tooLarge:{nat (field j "size")}/{nat (field j "limit")}"
  else if err == "timeout" then
    (if str (field j "what") == "nothing" then "timeout:nothing"
     else s!"timeout:{str (field j "what")}:{nat (field j "read")}/{nat (field j "of")}")
  else err

def isWs (b : UInt8) : Bool := b == 0x20 || b == 0x0a || b == 0x0d || b == 0x09

def lastD (l : List String) (d : String) : String := l.getLast?.getD d


/-! ### op "site": the runners' call sites of `ReadDelimitedMessage` -/

def stream (inp : Json) (hexKey fillKey : String) : Bytes :=
  unhex (str (field inp hexKey)) ++ List.replicate (nat (field inp fillKey)) 0

def capsOf (chunk len : Nat) : List Nat := if chunk == 0 then [] else List.replicate (len / chunk + 2) chunk

/-- does the class of the error that ended the reading say what the result says? -/
def termMatches (limit : Nat) (r : Json) : Res → Bool
  | .eof => str (field r "err") == "eof"
  | .unexpectedEOF => str (field r "err") == "unexpectedEOF"
  | .tooLarge n => str (field r "err") == "tooLarge" && int (field r "size") == Int.ofNat n && int (field r "limit") == Int.ofNat limit
  | _ => false

/-- One site: `r` is what the real code did there (messages accepted, class of the final error,
bytes consumed, largest buffer), `results`/`used` what a reader of the byte string `d` must have
done: `msgs` messages, then either a framed message that was rejected for its content (the reading
stops there) or the end reported by the reader. -/
def siteOK (limit : Nat) (isServer : Bool) (r : Json) (results : List Res) (used maxAlloc : Nat) (exactBuf : Bool) : Bool :=
  let msgs := nat (field r "msgs")
  let err := str (field r "err")
  let content := err == "unmarshal" || err == "name"
  let front := (results.take msgs).all Res.isMsg && results.length ≥ msgs
  let last :=
    if err == "" then isServer && msgs == 1 && results.length == 1
    else if content then results.length == msgs + 1 && (results.drop msgs).all Res.isMsg
    else results.length == msgs + 1 && (match results.drop msgs with | [t] => termMatches limit r t | _ => false)
  front && last && nat (field r "consumed") == used &&
    (if exactBuf then nat (field r "maxBuf") == maxAlloc else nat (field r "maxBuf") ≤ Nat.max 4 limit)

def siteHandle (inp impl : Json) : Verdict :=
  if bool (field impl "crashed") then
    { agree := false, holds := false, cls := "crashed",
      why := s!"the runner died while reading a peer's stdout ({str (field impl "how")}: {str (field impl "detail")})" } else
  if nat (field impl "frozenMs") > 0 then
    { agree := true, holds := true, nontrivial := false, cls := "site:set-aside" } else
  if bool (field impl "hang") then { agree := false, holds := false, why := "the runner did not return within 15 s" } else
  let chunk := nat (field inp "chunk")
  let judge (site : Site) (r : Json) (d : Bytes) : Bool × Bool × String :=
    let isServer := site == .server
    let count := if isServer then 1 else nat (field r "msgs") + 1
    let out := readAllWith (readAt site) count ⟨d, capsOf chunk d.length, .eofSeparate⟩
    let agree := siteOK site.limit isServer r out.results (d.length - out.rest.data.length) (out.allocs.foldl Nat.max 0) true
    let spec := expected site.limit count d .eofSeparate
    let holds := siteOK site.limit isServer r spec (consumed site.limit count d) 0 false
    (agree, holds, if holds then "" else
      s!"site {repr site} (limit {site.limit}): a reader of this stream must report {spec.map (showRes site.limit)} having consumed {consumed site.limit count d} bytes and asked for no buffer above the limit; the runner accepted {nat (field r "msgs")} message(s), ended with '{str (field r "err")}' size {int (field r "size")} limit {int (field r "limit")}, consumed {nat (field r "consumed")}, largest buffer {nat (field r "maxBuf")}")
  let srv := field impl "srv"
  let cli := field impl "cli"
  if !(bool (field srv "used")) then { agree := false, holds := false, why := "the server's response was never read" } else
  let (a1, h1, w1) := judge .server srv (stream inp "serverOut" "serverFill")
  let cliUsed := bool (field cli "used")
  let (a2, h2, w2) := if cliUsed then judge .client cli (stream inp "clientOut" "clientFill") else (true, true, "")
  -- the client's stream is read exactly when the server's response was accepted and a real client runner is used
  let reach := cliUsed == (str (field inp "client") == "real" && str (field srv "err") == "" && nat (field impl "sent") > 0)
  let holds := h1 && h2
  { agree := a1 && a2 && reach, holds := holds, nontrivial := true,
    cls := "site:" ++ (if cliUsed then "client:" ++ str (field cli "err") else "server:" ++ str (field srv "err")),
    why := if !h1 then w1 else if !h2 then w2 else if !(a1 && a2 && reach) then "implementation differs from the model" else "" }

/-! ### op "pipe": the real reader over real pipes with write boundaries -/

/-- frame ends of the messages among the results, from offset `off` -/
def endsOf : Nat → List Res → List Nat
  | off, .msg b :: t => (off + 4 + b.length) :: endsOf (off + 4 + b.length) t
  | _, _ => []

def pipeHandle (inp impl : Json) : Verdict :=
  let writes := (strList (field inp "writes")).map unhex
  let expect := natList (field inp "expect")
  let max := nat (field inp "max")
  let count := nat (field inp "count")
  let closed := str (field inp "end") == "close"
  let eb := str (field inp "kind") == "io"
  let d := writes.flatten
  -- the generator's claim "so many messages are complete after write i" against the declarative cut
  let expectOK := (List.range writes.length).all fun i =>
    (frames max count (writes.take (i + 1)).flatten).1.length == expect.getD i 0
  if !expectOK || expect.length != writes.length then bad "pipe: the generator's expect list is not the model's" else
  if bool (field impl "overtaken") || nat (field impl "frozenMs") > 0 then
    { agree := true, holds := true, nontrivial := false, cls := "pipe:set-aside" } else
  let out := SyncPipe.readAll true max count (SyncPipe.Pipe.fresh writes (if closed then .closed else .stall) eb)
  let mRes := out.results.map (showRes max)
  let iRes := (arr (field impl "results")).map showImpl
  let iAfter := natList (field impl "after")
  let hang := bool (field impl "hang")
  let late := natList (field impl "late")
  let timely := bool (field impl "timely")
  let specRes := expected max count d (if closed then .eofSeparate else .stall)
  let spec := specRes.map (showRes max)
  let nMsgs := (specRes.filter Res.isMsg).length
  let need := (endsOf 0 specRes).map (SyncPipe.needed writes)
  -- every message was returned before the writer had to go on: after[i] ≤ needed writes (end of frame i)
  let prompt := (List.range nMsgs).all fun i => iAfter.getD i (writes.length + 1) ≤ need.getD i 0
  let holds := !hang && iRes == spec && prompt && late.isEmpty && timely
  let agree := !hang && iRes == mRes && iAfter.take nMsgs == out.mets.take nMsgs && late.isEmpty
  { agree := agree, holds := holds, nontrivial := !d.isEmpty,
    cls := "pipe:" ++ str (field inp "kind") ++ ":" ++ ((lastD spec "none").splitOn ":").head!,
    model := Json.mkObj [("results", toJson mRes), ("mets", toJson out.mets)],
    why := if holds then (if agree then "" else "implementation differs from the model") else
      (if hang then s!"pipe: the reader had not returned 6 s after the end of the time-out period ({nat (field inp "timeoutMs")} ms) — it never does; returned before: {iRes}; must report {spec}"
       else if iRes != spec then s!"pipe: expected {spec}, got {iRes}"
       else if !prompt || !late.isEmpty then s!"pipe: a complete message was not returned until the peer wrote again (or closed): returned after write {iAfter.take nMsgs}, complete after write {need}; writer's patience ran out after write(s) {late}"
       else s!"pipe: the time-out did not come within [period, period + 5 s]") }

/-! ### op "clientstall": reader idle, then a request, then the client stalls -/

def stallHandle (inp impl : Json) : Verdict :=
  let d := unhex (str (field inp "partial"))
  let site := Site.client
  let period := site.timeoutMs
  -- what a reader at that site must report when the stream falls silent after `d`
  let mRes := (readAllWith (readAt site) 1 ⟨d, [], .stall⟩).results.map (showRes site.limit)
  let spec := (expected site.limit 1 d .stall).map (showRes site.limit)
  let err := str (field impl "err")
  let iRes : List String :=
    if err == "timeout" then
      [if str (field impl "what") == "nothing" then "timeout:nothing"
       else s!"timeout:{str (field impl "what")}:{nat (field impl "read")}/{nat (field impl "of")}"]
    else [err]
  let el := nat (field impl "elapsedMs")
  -- within the period, counted from the beginning of the read (generous margin: 10 s; 1 s of slack
  -- before, for the op sees the read begin a moment after the reader started its clock)
  let timely := period ≤ el + 1000 && el ≤ period + 10000
  if nat (field impl "frozenMs") > 0 then
    { agree := true, holds := true, nontrivial := false, cls := "clientstall:set-aside" } else
  if !(bool (field impl "leadOK")) || !(bool (field impl "idleFirst")) then
    { agree := false, holds := true, nontrivial := false, why := "driver: clientstall: the schedule (reader idle first, lead answered) could not be set up" } else
  let holds := err == "timeout" && iRes == spec && timely
  { agree := holds && iRes == mRes && nat (field impl "periodMs") == period, holds := holds, nontrivial := true,
    cls := "clientstall:" ++ (if d.isEmpty then "nothing" else if d.length < 4 then "prefix" else "message"),
    model := Json.mkObj [("results", toJson mRes), ("periodMs", toJson period)],
    why := if holds then "" else
      if err == "none" then s!"clientstall: the reader was waiting idle, then a request was sent and the client stalled after {d.length} byte(s): no time-out error {el} ms after the beginning of the read (period of the site: {period} ms) — the case has no outcome, the client is not aborted"
      else if err != "timeout" || iRes != spec then s!"clientstall: expected {spec}, got {iRes}"
      else s!"clientstall: the time-out error came {el} ms after the beginning of the read; the period of the site is {period} ms" }

/-! ### op "session": a long session through one stream decoder -/

def sessionHandle (inp impl : Json) : Verdict :=
  let sent := ((arr (field inp "plan")).map fun s => nat (field s "n")).foldl (· + ·) 0
  let got := nat (field impl "got")
  let last := str (field impl "last")
  -- `roundtrip_decoder`: every message comes back, then a clean end of input — whatever the volume
  let holds := got == sent && nat (field impl "sent") == sent && int (field impl "firstBad") == -1 && last == "eof"
  { agree := holds, holds := holds, nontrivial := true,
    cls := "session:" ++ (if bool (field inp "json") then "json" else "binary"),
    model := Json.mkObj [("got", toJson sent), ("last", "eof")],
    why := if holds then "" else
      s!"session: {sent} messages ({nat (field impl "bytes")} bytes, message boundaries after each segment at {(arr (field impl "marks")).map (fun m => nat m)}) were written to one decoder; {got} came back, then '{last}' (first different message: {int (field impl "firstBad")})" }

/-! ### op "peerloop": every peer command's own read loop, under every partition of stdin into reads -/

def peerloopHandle (inp impl : Json) : Verdict :=
  if str (field impl "err") != "" then bad ("peerloop: " ++ str (field impl "err")) else
  let peer := str (field inp "peer")
  let js := bool (field inp "json")
  let server := peer == "grpcserver" || peer == "referenceserver"
  let want := strList (field impl "want")
  let got := strList (field impl "got")
  let exit := str (field impl "exit")
  let valueEnds := natList (field impl "valueEnds")
  let textEnds := natList (field impl "textEnds")
  let cutAt := nat (field impl "cutAt")
  -- the declarative reading of the bytes handed out: messages that are complete, and whether only
  -- white space (JSON) / nothing (binary) follows the last complete one
  let complete := (valueEnds.filter (· ≤ cutAt)).length
  let clean := (complete == 0 && cutAt == 0) || (complete > 0 && cutAt ≤ textEnds.getD (complete - 1) 0)
  let count := if server then 1 else want.length + 1
  let wantGot := if server then (if complete ≥ 1 then ["server"] else []) else want.take complete
  let inOrder := server || nat (field inp "p") == 1
  let namesOK := if inOrder then got == wantGot else got.isPerm wantGot
  -- a clean end ⇒ clean exit; a truncated stream ⇒ error exit (binary: unexpected EOF); a server needs its one message
  let exitOK :=
    if server then (if complete ≥ 1 then exit == "ok" else if cutAt == 0 then exit == "eof" else exit != "ok" && exit != "hang" && exit != "eof")
    else if clean then exit == "ok"
    else if js then exit != "ok" && exit != "hang" && exit != "eof" else exit == "unexpectedEOF"
  let holds := namesOK && exitOK && !(bool (field impl "outJunk"))
  -- model (binary variant): the loop over ONE read-ahead decoder on the pieces as handed out
  let data := unhex (str (field impl "stream"))
  let mRes := PeerLoop.loopOne 4294967295 count [] (PeerLoop.pieces (natList (field impl "pieces")) data)
  let sRes := expected 4294967295 count data .eofSeparate
  let mMsgs := (mRes.filter Res.isMsg).length
  let mLast := match mRes.getLast? with | some .eof => "eof" | some .unexpectedEOF => "unexpectedEOF" | some (.msg _) => "msg" | _ => "other"
  let iLast := if server then (if got.length == 1 && exit == "ok" then "msg" else exit) else (if exit == "ok" then "eof" else exit)
  let agree :=
    if js then holds
    else mRes == sRes && mMsgs == got.length && mLast == iLast && endsOf 0 mRes == (valueEnds.take complete).take count
  { agree := agree, holds := holds, nontrivial := cutAt > 0,
    cls := "peerloop:" ++ peer ++ (if js then ":json:" else ":binary:") ++ str (field inp "reads") ++ ":" ++ str (field inp "cut"),
    model := if js then Json.null else Json.mkObj [("results", toJson (mRes.map (showRes 4294967295)))],
    why := if holds then (if agree then "" else "implementation differs from the model") else
      s!"peerloop: {peer}{if js then " -json" else ""} was given {cutAt} of the {nat (field impl "len")} bytes of {want.length} message(s) ({complete} complete, {if clean then "clean end" else "truncated"}) in reads of {natList (field impl "pieces")} bytes: it must answer exactly {wantGot}{if inOrder then " in this order" else ""} and exit {if clean || (server && complete ≥ 1) then "without error" else "with an error"}; it answered {got} and exited '{exit}' {str (field impl "exitText")}" }

def handle : Handler := fun op inp impl =>
  if !(isNull (field impl "panic")) then
    { agree := false, holds := false, why := "panic: " ++ str (field impl "panic") } else
  match op with
  | "site" => siteHandle inp impl
  | "pipe" => pipeHandle inp impl
  | "session" => sessionHandle inp impl
  | "clientstall" => stallHandle inp impl
  | "peerloop" => peerloopHandle inp impl
  | "read" =>
    let data := unhex (str (field inp "bytes"))
    let caps := natList (field inp "caps")
    let e := ending (str (field inp "ending"))
    let via := str (field inp "via")
    let max := if via == "dec" then 4294967295 else nat (field inp "max")
    let count := nat (field inp "count")
    let r : Reader := ⟨data, caps, e⟩
    let out := if via == "dec" then decodeAll count r else readAll max count r
    let mRes := out.results.map (showRes max)
    let mConsumed := data.length - out.rest.data.length
    let mMaxBuf := out.allocs.foldl Nat.max 0
    let iRes := (arr (field impl "results")).map showImpl
    let iConsumed := nat (field impl "consumed")
    let iMaxBuf := nat (field impl "maxBuf")
    let timely := bool (field impl "timely")
    -- the property: the results are those of the declarative cut of the byte string (which
    -- knows nothing about caps), exactly the consumed bytes were taken, no buffer above the
    -- limit was asked for, time-outs came within the window
    let spec := (expected max count data e).map (showRes max)
    let sConsumed := consumed max count data
    let bufOk := via == "dec" || iMaxBuf ≤ Nat.max 4 max
    let holds := iRes == spec && iConsumed == sConsumed && bufOk && timely
    { agree := iRes == mRes && iConsumed == mConsumed && iMaxBuf == mMaxBuf,
      holds := holds,
      nontrivial := !data.isEmpty,
      cls := via ++ ":" ++ ((lastD spec "none").splitOn ":").head!,
      model := Json.mkObj [("results", toJson mRes), ("consumed", mConsumed), ("maxBuf", mMaxBuf)],
      why := if holds then "" else
        s!"framing: expected {spec} consumed {sConsumed}, got {iRes} consumed {iConsumed} maxBuf {iMaxBuf} timely {timely}" }
  | "enc" =>
    let bodies := (strList (field impl "bodies")).map unhex
    -- the history of writes: `none` for a write that returned an error (it must have written nothing)
    let failed := natList (field impl "failed")
    let bad := natList (field inp "bad")
    let nIn := Nat.max (arr (field inp "hdrs")).length (arr (field inp "bodies")).length
    let hist : List (Option Bytes) := ((List.range nIn).foldl (fun (acc : List (Option Bytes) × List Bytes) i =>
      if failed.contains i then (acc.1 ++ [none], acc.2)
      else (acc.1 ++ [acc.2.head?], acc.2.tail)) ([], bodies)).1
    let want := hex (writeHistory hist)
    let got := str (field impl "stream")
    -- round trip: what the real reader of the same variant makes of the written stream
    let readBack := bool (field inp "readBack")
    let iBack := (arr (field impl "back")).map showImpl
    let wantBack := bodies.map (fun b => "msg:" ++ hex b) ++ ["eof"]
    let backOK := !readBack || iBack == wantBack
    let holds := got == want && backOK && bodies.length + failed.length == nIn
    { agree := holds && failed == bad, holds := holds, nontrivial := !bodies.isEmpty,
      cls := "enc:" ++ str (field inp "via") ++ (if readBack then ":roundtrip" else ""),
      model := if got == want then Json.null else Json.mkObj [("stream", want)],
      why := if got != want then
          s!"encoder ({str (field inp "via")}): the bytes on the wire are not prefix+message for message sizes {bodies.map List.length}: {got.length / 2} bytes written, {want.length / 2} expected"
        else if !backOK then
          s!"round trip ({str (field inp "via")}): messages of sizes {bodies.map List.length} were read back as {iBack.map (fun x => x.take 40)}"
        else "" }
  | "peer" =>
    -- the reference client must have read every request written to its stdin, however the byte
    -- stream was split across reads, in the binary and in the JSON wire variant
    if !(isNull (field impl "panic")) then
      { agree := false, holds := false, why := "panic: " ++ str (field impl "panic") } else
    let got := strList (field impl "got")
    let want := strList (field impl "want")
    let holds := got == want && !want.isEmpty
    { agree := holds, holds := holds, nontrivial := nat (field inp "chunk") > 0, cls := if bool (field inp "json") then "peer-json" else "peer-binary",
      why := if holds then "" else s!"reference client answered {got.length} of {want.length} requests written to its stdin (chunk {nat (field inp "chunk")}): " ++ str (field impl "runErr") ++ str (field impl "err") }
  | "json" =>
    -- messages that cannot be encoded (`bad`) must leave nothing in the stream: only the others count
    let badJ := natList (field inp "bad")
    let allHdrs := (arr (field inp "hdrs")).map (fun h => let l := strList h; if l.isEmpty then [""] else l)
    let hdrs := ((List.range allHdrs.length).filter (fun i => !badJ.contains i)).map (fun i => allHdrs.getD i [""])
    let e := ending (str (field inp "ending"))
    let count := nat (field inp "count")
    let total := nat (field impl "len")
    let cut := int (field inp "cut")
    let n := if cut < 0 then total else Nat.min cut.toNat total
    let valueEnds := natList (field impl "valueEnds")
    let textEnds := natList (field impl "textEnds")
    let complete := (valueEnds.filter (· ≤ n)).length
    let iRes := (arr (field impl "results")).map showImpl
    let wantMsgs := ((hdrs.take complete).take count).map (fun h => "hdr:" ++ toString h)
    let iMsgs := iRes.filter (·.startsWith "hdr:")
    let iLast := lastD iRes "none"
    -- only white space after the last complete message?
    let clean := complete == 0 && n == 0 || (complete > 0 && n ≤ (textEnds.getD (complete - 1) 0))
    let holds :=
      iMsgs == wantMsgs && iRes.length ≤ wantMsgs.length + 1 &&
      (if count ≤ complete then iRes.length == count
       else iRes.length == complete + 1 &&
         (if clean then (if e == .fail then iLast == "fail" else iLast == "eof")
          else iLast != "eof" && !iLast.startsWith "hdr:"))
    { agree := holds, holds := holds, nontrivial := n > 0,
      cls := if count ≤ complete then "more" else if clean then "clean" else "cut",
      why := if holds then "" else s!"json: {complete} complete messages, clean={clean}, got {iRes}" }
  | _ => bad ("unknown op " ++ op)

end ConfModel.Driver.C09
