//go:build verif

package connectconformance

import (
	"bytes"
	"context"
	"sync"
	"time"

	"connectrpc.com/conformance/internal"
	conformancev1 "connectrpc.com/conformance/internal/gen/proto/go/connectrpc/conformance/v1"
)

// VerifC19SrvSpec names one server instance the runner starts a server process for.
type VerifC19SrvSpec struct {
	Protocol    int32 `json:"protocol"`
	HTTPVersion int32 `json:"http"`
	UseTLS      bool  `json:"tls"`
	ClientCerts bool  `json:"certs"`
	IsRef       bool  `json:"isRef"` // the server is the reference server (and the client the reference client)
}

// VerifC19SrvObs is what the server process found on its stdin.
type VerifC19SrvObs struct {
	Req      *conformancev1.ServerCompatRequest // nil: no decodable request
	Err      string                             // why there is none
	Trailing int                                // bytes on stdin after the request
	Closed   bool                               // stdin was closed by the runner
	Hang     bool
}

type verifC19Stdin struct {
	mu     sync.Mutex
	buf    bytes.Buffer
	closed bool
}

func (w *verifC19Stdin) Write(b []byte) (int, error) {
	w.mu.Lock()
	defer w.mu.Unlock()
	return w.buf.Write(b)
}

func (w *verifC19Stdin) Close() error {
	w.mu.Lock()
	defer w.mu.Unlock()
	w.closed = true
	return nil
}

// VerifC19ServerRequest runs the real runTestCasesForServer for the given server instance on a
// scripted server process (it answers with a well-formed ServerCompatResponse) and no test
// cases, and returns the ServerCompatRequest the runner wrote to the process's stdin.
func VerifC19ServerRequest(spec VerifC19SrvSpec) VerifC19SrvObs {
	stdin := &verifC19Stdin{}
	proc := &verifC11Proc{doneCh: make(chan struct{})}
	starter := func(_ context.Context, _ bool) (*process, error) {
		return &process{
			processController: proc,
			stdin:             stdin,
			stdout:            bytes.NewReader(verifC11RespBytes(spec.UseTLS)),
			stderr:            bytes.NewReader(nil),
		}, nil
	}
	c11 := &VerifC11Spec{Dies: -1}
	client := &verifC11Client{spec: c11, proc: func() *verifC11Proc { return proc }}
	meta := serverInstance{
		protocol:          conformancev1.Protocol(spec.Protocol),
		httpVersion:       conformancev1.HTTPVersion(spec.HTTPVersion),
		useTLS:            spec.UseTLS,
		useTLSClientCerts: spec.ClientCerts,
	}
	results := newResults(0, &testTrie{}, &testTrie{}, nil)
	serverCreds, clientCreds := verifC11Creds(true) // run() always holds them; the runner drops what the instance does not use
	done := make(chan struct{})
	go func() {
		defer close(done)
		runTestCasesForServer(context.Background(), !spec.IsRef, spec.IsRef, meta, nil, serverCreds, clientCreds, starter,
			verifNopPrinter{}, verifNopPrinter{}, results, client, nil, false)
	}()
	var obs VerifC19SrvObs
	select {
	case <-done:
	case <-time.After(15 * time.Second):
		obs.Hang = true
		proc.stop()
	}
	stdin.mu.Lock()
	data := append([]byte(nil), stdin.buf.Bytes()...)
	obs.Closed = stdin.closed
	stdin.mu.Unlock()
	rd := bytes.NewReader(data)
	var req conformancev1.ServerCompatRequest
	if err := internal.ReadDelimitedMessage(rd, &req, "runner", time.Second, 1<<20); err != nil {
		obs.Err = err.Error()
		return obs
	}
	obs.Req = &req
	obs.Trailing = rd.Len()
	return obs
}
