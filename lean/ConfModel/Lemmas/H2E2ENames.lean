/-
End-to-end (C15): the per-test-name invariant linking the property's bookkeeping (open /
held back / due / superseded streams of a name) with the retry collector observed at that
name, and its preservation under the kinds of change a wire event can cause.
-/
import ConfModel.Lemmas.H2E2EColl
set_option linter.unusedSimpArgs false
set_option linter.unusedVariables false
namespace ConfModel.H2

structure AccOK (acc : List Expect) : Prop where
  nodup : (acc.map (·.id)).Nodup
  fresh : ∀ e ∈ acc, e.isOpen = true → e.flushedAfter = false ∧ e.superseded = false
  uniq : ∀ e1 ∈ acc, ∀ e2 ∈ acc, e1.name = e2.name → e1.name ≠ "" → e1.superseded = false → e2.superseded = false →
    e1.id = e2.id

theorem eq_of_id : ∀ (acc : List Expect), (acc.map (·.id)).Nodup → ∀ e1 ∈ acc, ∀ e2 ∈ acc, e1.id = e2.id → e1 = e2
  | [], _, _, h, _, _, _ => by simp at h
  | x :: acc, hn, e1, h1, e2, h2, hid => by
    simp only [List.map_cons, List.nodup_cons] at hn
    rcases List.mem_cons.mp h1 with h1' | h1' <;> rcases List.mem_cons.mp h2 with h2' | h2'
    · rw [h1', h2']
    · exfalso; apply hn.1; rw [← h1', hid]; exact List.mem_map_of_mem h2'
    · exfalso; apply hn.1; rw [← h2', ← hid]; exact List.mem_map_of_mem h1'
    · exact eq_of_id acc hn.2 e1 h1' e2 h2' hid

/-- the per-name invariant: `W` = what the collector holds back for `n`, `O` = what it has
delivered for `n` -/
def NOK (isServer : Bool) (n : String) (acc : List Expect) (W : Option Trace) (O : List Trace) : Prop :=
  (∀ e ∈ acc, e.name = n → e.superseded = false →
      (e.isOpen = true → W = none ∧ O = []) ∧
      (e.isOpen = false → e.held = true → ∃ t, W = some t ∧ O = [] ∧ TRel isServer e t) ∧
      (e.isOpen = false → e.held = false → W = none ∧ ∃ t, O = [t] ∧ TRel isServer e t)) ∧
  ((∀ e ∈ acc, e.name = n → e.superseded = true) → W = none ∧ O = [])

/-- nothing that `n` can see changes -/
theorem NOK_stable {isServer : Bool} {n : String} {acc : List Expect} {W : Option Trace} {O : List Trace}
    (φ : Expect → Expect) (h : NOK isServer n acc W O)
    (hname : ∀ e ∈ acc, (φ e).name = e.name) (hsup : ∀ e ∈ acc, e.name = n → (φ e).superseded = e.superseded)
    (hopen : ∀ e ∈ acc, e.name = n → (φ e).isOpen = e.isOpen)
    (hclosed : ∀ e ∈ acc, e.name = n → e.isOpen = false → (φ e).core = e.core ∧ (φ e).held = e.held) :
    NOK isServer n (acc.map φ) W O := by
  refine ⟨fun e' he' hn hs => ?_, fun hall => ?_⟩
  · obtain ⟨e, he, rfl⟩ := List.mem_map.mp he'
    have hen : e.name = n := by rw [← hname e he]; exact hn
    have hes : e.superseded = false := by rw [← hsup e he hen]; exact hs
    have h1 := h.1 e he hen hes
    have ho := hopen e he hen
    refine ⟨fun hx => h1.1 (by rw [← ho]; exact hx), fun hx hh => ?_, fun hx hh => ?_⟩
    · have hc := hclosed e he hen (by rw [← ho]; exact hx)
      obtain ⟨t, a, b, c⟩ := h1.2.1 (by rw [← ho]; exact hx) (by rw [← hc.2]; exact hh)
      exact ⟨t, a, b, TRel_congr c hc.1.symm⟩
    · have hc := hclosed e he hen (by rw [← ho]; exact hx)
      obtain ⟨a, t, b, c⟩ := h1.2.2 (by rw [← ho]; exact hx) (by rw [← hc.2]; exact hh)
      exact ⟨a, t, b, TRel_congr c hc.1.symm⟩
  · apply h.2
    intro e he hen
    have := hall (φ e) (List.mem_map_of_mem he) (by rw [hname e he]; exact hen)
    rw [hsup e he hen] at this; exact this

theorem held_iff (e : Expect) :
    e.held = (!e.isOpen && (e.ending.err e.id).retryable && !e.flushedAfter && !e.superseded) := rfl

/-- the open stream `x` of name `n` ends with the completed trace `t` -/
theorem NOK_close {isServer : Bool} {n : String} {acc : List Expect} {W : Option Trace} {O : List Trace}
    (φ : Expect → Expect) (h : NOK isServer n acc W O) (hacc : AccOK acc) (x : Expect) (hx : x ∈ acc) (hxn : x.name = n)
    (hn0 : n ≠ "") (hxo : x.isOpen = true)
    (hname : ∀ e ∈ acc, (φ e).name = e.name) (hsup : ∀ e ∈ acc, (φ e).superseded = e.superseded)
    (hid : ∀ e ∈ acc, (φ e).id = e.id)
    (hx' : (φ x).isOpen = false) (hfl : (φ x).flushedAfter = false) (t : Trace) (ht : TRel isServer (φ x) t) :
    NOK isServer n (acc.map φ) (stepFor n W (.complete t)).1 (O ++ (stepFor n W (.complete t)).2) := by
  have hxf := hacc.fresh x hx hxo
  have h0 := (h.1 x hx hxn hxf.2).1 hxo
  have htn : t.name = n := by rw [ht.1, hname x hx]; exact hxn
  have hW : W = none := h0.1
  have hO : O = [] := h0.2
  subst hW hO
  have hsx : (φ x).superseded = false := by rw [hsup x hx]; exact hxf.2
  refine ⟨fun e' he' hn hs => ?_, fun hall => ?_⟩
  · obtain ⟨e, he, rfl⟩ := List.mem_map.mp he'
    have hen : e.name = n := by rw [← hname e he]; exact hn
    have hes : e.superseded = false := by rw [← hsup e he]; exact hs
    have hex : e = x := eq_of_id acc hacc.nodup e he x hx
      (hacc.uniq e he x hx (hen.trans hxn.symm) (by rw [hen]; exact hn0) hes hxf.2)
    subst hex
    have hheld : (φ e).held = t.err.retryable := by
      rw [held_iff, hx', hfl, hsx, ht.2.1]; simp
    cases hr : t.err.retryable with
    | true =>
      simp only [stepFor, htn, beq_self_eq_true, if_true, hr, List.append_nil]
      refine ⟨fun hc => (by rw [hx'] at hc; cases hc), fun _ _ => ⟨t, by trivial, by trivial, ht⟩, fun _ hh => ?_⟩
      rw [hheld, hr] at hh; cases hh
    | false =>
      simp only [stepFor, htn, beq_self_eq_true, if_true, hr, Bool.false_eq_true, if_false, List.nil_append]
      refine ⟨fun hc => (by rw [hx'] at hc; cases hc), fun _ hh => ?_, fun _ _ => ⟨by trivial, t, by trivial, ht⟩⟩
      rw [hheld, hr] at hh; cases hh
  · have := hall (φ x) (List.mem_map_of_mem hx) (by rw [hname x hx]; exact hxn)
    rw [hsx] at this; cases this

/-- a flush (`cancel`, or every retry timer firing): what is held back for `n` is delivered -/
theorem NOK_flush {isServer : Bool} {n : String} {acc : List Expect} {W : Option Trace} {O : List Trace}
    (φ : Expect → Expect) (h : NOK isServer n acc W O)
    (hname : ∀ e ∈ acc, (φ e).name = e.name) (hsup : ∀ e ∈ acc, (φ e).superseded = e.superseded)
    (hopen : ∀ e ∈ acc, e.name = n → e.isOpen = true → φ e = e)
    (hclosed : ∀ e ∈ acc, e.name = n → e.isOpen = false → (φ e).core = e.core ∧ (φ e).isOpen = false ∧ (φ e).held = false) :
    NOK isServer n (acc.map φ) none (O ++ W.toList) := by
  refine ⟨fun e' he' hn hs => ?_, fun hall => ?_⟩
  · obtain ⟨e, he, rfl⟩ := List.mem_map.mp he'
    have hen : e.name = n := by rw [← hname e he]; exact hn
    have hes : e.superseded = false := by rw [← hsup e he]; exact hs
    have h1 := h.1 e he hen hes
    cases ho : e.isOpen with
    | true =>
      rw [hopen e he hen ho]
      have := h1.1 ho
      rw [this.1, this.2]
      refine ⟨fun _ => ⟨rfl, rfl⟩, fun hc => (by rw [ho] at hc; cases hc), fun hc => (by rw [ho] at hc; cases hc)⟩
    | false =>
      have hc := hclosed e he hen ho
      refine ⟨fun hx => (by rw [hc.2.1] at hx; cases hx), fun _ hh => (by rw [hc.2.2] at hh; cases hh), fun _ _ => ?_⟩
      cases hh : e.held with
      | true =>
        obtain ⟨t, a, b, c⟩ := h1.2.1 ho hh
        subst a b
        exact ⟨rfl, t, rfl, TRel_congr c hc.1.symm⟩
      | false =>
        obtain ⟨a, t, b, c⟩ := h1.2.2 ho hh
        subst a b
        exact ⟨rfl, t, rfl, TRel_congr c hc.1.symm⟩
  · have := h.2 (fun e he hen => by
      have := hall (φ e) (List.mem_map_of_mem he) (by rw [hname e he]; exact hen)
      rw [hsup e he] at this; exact this)
    rw [this.1, this.2]; exact ⟨rfl, rfl⟩

theorem NOK_append_other {isServer : Bool} {n : String} {acc : List Expect} {W : Option Trace} {O : List Trace}
    (h : NOK isServer n acc W O) (e0 : Expect) (hne : e0.name ≠ n) : NOK isServer n (acc ++ [e0]) W O := by
  refine ⟨fun e he hn hs => ?_, fun hall => ?_⟩
  · rcases List.mem_append.mp he with he | he
    · exact h.1 e he hn hs
    · simp only [List.mem_singleton] at he; subst he; exact absurd hn hne
  · exact h.2 (fun e he hen => hall e (List.mem_append_left _ he) hen)

/-- a new stream of name `n` opens while the earlier ones of that name are held back or superseded -/
theorem NOK_new {isServer : Bool} {n : String} {acc : List Expect} {W : Option Trace} {O : List Trace}
    (h : NOK isServer n acc W O) (hn0 : n ≠ "")
    (hodd : acc.any (fun x => x.name == n && !x.held && !x.superseded) = false)
    (e0 : Expect) (h0n : e0.name = n) (h0o : e0.isOpen = true) :
    O = [] ∧ NOK isServer n (acc.map (supOne n) ++ [e0]) none O := by
  have hall : ∀ e ∈ acc, e.name = n → e.superseded = false → e.held = true := by
    intro e he hen hes
    cases hh : e.held with
    | true => rfl
    | false =>
      have : acc.any (fun x => x.name == n && !x.held && !x.superseded) = true :=
        List.any_eq_true.mpr ⟨e, he, by simp [hen, hh, hes]⟩
      rw [hodd] at this; cases this
  have hO : O = [] := by
    by_cases hex : ∃ e ∈ acc, e.name = n ∧ e.superseded = false
    · obtain ⟨e, he, hen, hes⟩ := hex
      have hh := hall e he hen hes
      have hc : e.isOpen = false := by
        cases ho : e.isOpen with
        | false => rfl
        | true => simp [Expect.held, ho] at hh
      obtain ⟨t, _, b, _⟩ := (h.1 e he hen hes).2.1 hc hh
      exact b
    · have := h.2 (fun e he hen => by
        cases hs : e.superseded with
        | true => rfl
        | false => exact absurd ⟨e, he, hen, hs⟩ hex)
      exact this.2
  refine ⟨hO, fun e he hn hs => ?_, fun hall' => ?_⟩
  · rcases List.mem_append.mp he with he | he
    · obtain ⟨x, hx, rfl⟩ := List.mem_map.mp he
      have hxn : x.name = n := by rw [← supOne_name n x]; exact hn
      rw [supOne_superseded] at hs
      have hxs : x.superseded = false := by
        cases hq : x.superseded with
        | false => rfl
        | true => simp [hq] at hs
      have hh := hall x hx hxn hxs
      simp [hxs, hxn, hh, hn0] at hs
    · simp only [List.mem_singleton] at he; subst he
      refine ⟨fun _ => ⟨rfl, hO⟩, fun hc => (by rw [h0o] at hc; cases hc), fun hc => (by rw [h0o] at hc; cases hc)⟩
  · exact ⟨rfl, hO⟩

end ConfModel.H2
