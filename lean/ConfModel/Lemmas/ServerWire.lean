/-
Helper lemmas for C11: what the batch model makes of the BYTES of a peer's stdout
(`Resp.stream`, `casesOfClientStream`), from the lemmas about the length-prefixed reader.
-/
import ConfModel.Lemmas.Delimited
import ConfModel.Lemmas.ServerRunner
namespace ConfModel.ServerRunner
open ConfModel.Delimited ConfModel.Framing Spec

theorem leadingMsgs_append (msgs : List Bytes) (x : Res) (hx : x.isMsg = false) :
    leadingMsgs (msgs.map Res.msg ++ [x]) = msgs.length := by
  induction msgs with
  | nil => cases x <;> simp_all [leadingMsgs, Res.isMsg]
  | cons m ms ih => simp [leadingMsgs, ih]

/-- the reading loop at a call site is `readAll` with the limit of the site -/
theorem readAllWith_readAt (s : Site) (k : Nat) (r : Reader) :
    readAllWith (readAt s) k r = readAll s.limit k r := rfl

/-- after `msgs` the client announces `p` bytes, more than the limit of the site: whatever number
of messages the reader is asked for (at least one more than came), the results are the messages
and then `tooLarge` -/
theorem results_msgs_then_oversize (s : Site) (msgs : List Bytes) (extra p : Nat) (rest : Bytes)
    (caps : List Nat) (e : Ending) (hf : Fits s.limit msgs) (hp : s.limit < p) (h32 : p < 4294967296) :
    (readAllWith (readAt s) (msgs.length + (extra + 1))
        ⟨msgs.flatMap encode ++ (putBe32 p ++ rest), caps, e⟩).results
      = msgs.map Res.msg ++ [Res.tooLarge p] := by
  rw [readAllWith_readAt]
  obtain ⟨_, h, _⟩ := readAll_spec s.limit e (msgs.length + (extra + 1))
    (msgs.flatMap encode ++ (putBe32 p ++ rest)) caps
  rw [h]
  unfold expected
  rw [frames_msgs s.limit msgs (extra + 1) _ hf, frames_oversize s.limit extra p rest hp h32]
  simp [tailRes]

/-- a stream of fewer than four bytes (also the empty one) is never framed -/
theorem readAt_short (s : Site) (d : Bytes) (h : d.length < 4) :
    (readAt s ⟨d, [], .eofSeparate⟩).res.isMsg = false := by
  obtain ⟨_, h'⟩ := readMessage_prefix_short s.limit d [] .eofSeparate h
  unfold readAt
  rw [h']
  simp only [endRes_not_msg]

/-- a stream whose first four bytes announce more than the limit is never framed -/
theorem readAt_oversize (s : Site) (b0 b1 b2 b3 : UInt8) (rest : Bytes)
    (h : s.limit < be32 [b0, b1, b2, b3]) :
    (readAt s ⟨b0 :: b1 :: b2 :: b3 :: rest, [], .eofSeparate⟩).res = .tooLarge (be32 [b0, b1, b2, b3]) := by
  obtain ⟨_, h'⟩ := readMessage_tooLarge s.limit (b0 :: b1 :: b2 :: b3 :: rest) [] .eofSeparate (by simp) h
  unfold readAt
  rw [h']
  rfl

/-- a stream that ends before the announced number of bytes has come is never framed -/
theorem readAt_truncated (s : Site) (b0 b1 b2 b3 : UInt8) (rest : Bytes)
    (h : rest.length < be32 [b0, b1, b2, b3]) :
    (readAt s ⟨b0 :: b1 :: b2 :: b3 :: rest, [], .eofSeparate⟩).res.isMsg = false := by
  by_cases hb : s.limit < be32 [b0, b1, b2, b3]
  · rw [readAt_oversize s b0 b1 b2 b3 rest hb]; rfl
  · obtain ⟨_, h'⟩ := readMessage_body_short s.limit (b0 :: b1 :: b2 :: b3 :: rest) [] .eofSeparate
      (by simp) (by simpa using Nat.not_lt.mp hb) (by simpa using h)
    unfold readAt
    rw [h']
    simp only [endRes_not_msg]

/-- `respCert` of a stream the reader does not frame -/
theorem respCert_stream_none (d : Bytes) (body : Option Bool)
    (h : (readAt .server ⟨d, [], .eofSeparate⟩).res.isMsg = false) :
    respCert (.stream d body) = none := by
  unfold respCert
  cases hr : (readAt .server ⟨d, [], .eofSeparate⟩).res <;> simp_all [Res.isMsg]

theorem setupFault_of_respCert_none (s : Script) (h : respCert s.resp = none) : setupFault s = true := by
  unfold setupFault
  rw [h]
  simp

end ConfModel.ServerRunner
