package main

// C16 at the runner's glue around the tracer slots: the op "glue" drives the REAL
// runTestCasesForServer (server_runner.go) with a real *tracer.Tracer, real testResults
// (fetchTrace) and a scripted client; per test case the producer completes the trace at a
// scripted point relative to what the runner does with the case: while the request is
// announced, inside client.sendRequest, between its return and the response callback, inside
// the callback before the outcome is recorded, after it, later from another goroutine, never;
// the response arrives inside sendRequest, after it, or only after the whole batch was
// handed over.  The slots are never touched by the harness: Init / Await / Clear are the
// runner's and the results' own calls.

import (
	"encoding/json"
	"fmt"
	"strings"

	cc "connectrpc.com/conformance/internal/app/connectconformance"
	"connectrpc.com/conformance/internal/verifharness/gen"
)

type c16GlueIn struct {
	Cases []cc.VerifC16GlueCase `json:"cases"`
}

func init() {
	gen.RegisterOp("c16", "glue", func(c *gen.Ctx, raw json.RawMessage) any {
		in := gen.Into[c16GlueIn](raw)
		out := cc.VerifC16Glue(in.Cases)
		// "late" is a wall-clock observation (see op "results"): repeated, reported only when
		// it is late three times in a row
		for attempt := 0; attempt < 2 && out.Wait == "late" && !out.Hang; attempt++ {
			c.E.Count("glue:repeated-late")
			out = cc.VerifC16Glue(in.Cases)
		}
		c.E.Count("glue:wait-" + out.Wait)
		return out
	})
	// c16.go's init has run (files are initialised in name order): the glue scripts come first
	prev := areas["c16"]
	areas["c16"] = func(c *gen.Ctx) error {
		c16GlueGen(c)
		return prev(c)
	}
}

// c16GlueCompose builds the script of one case: the response arrives in phase rp
// (1 sending, 2 pending, 3 held), the case's own trace is completed in phase cp
// (0 announce, 1 sending, 2 pending, 3 held, 4 never) and, when both fall into one phase,
// rel says where (0 before the response, 1 inside the callback, 2 after it, 3 after it and
// delayed); extra[p] are further tokens put at the beginning of phase p.
func c16GlueCompose(name string, id, rp, cp, rel int, fails bool, extra [4][]string) []string {
	own := fmt.Sprintf("c:%s:%d", name, id)
	var ph [4][]string
	for p := 0; p < 4; p++ {
		ph[p] = append(ph[p], extra[p]...)
		switch {
		case fails && p >= 1:
			if p == 1 && cp == 1 {
				ph[p] = append(ph[p], own)
			}
		case p == rp && p == cp:
			switch rel {
			case 0:
				ph[p] = append(ph[p], own, "r")
			case 1:
				ph[p] = append(ph[p], fmt.Sprintf("rc:%s:%d", name, id))
			case 2:
				ph[p] = append(ph[p], "r", "p", own)
			default:
				ph[p] = append(ph[p], "r", fmt.Sprintf("d:%s:%d:%d", name, id, 60+20*rel))
			}
		case p == rp:
			ph[p] = append(ph[p], "r")
		case p == cp:
			ph[p] = append(ph[p], own)
		}
	}
	steps := append([]string{}, ph[0]...)
	steps = append(steps, "s")
	steps = append(steps, ph[1]...)
	if fails {
		return append(steps, "err")
	}
	steps = append(steps, "ret")
	steps = append(steps, ph[2]...)
	if len(ph[3]) > 0 {
		steps = append(steps, "h")
		steps = append(steps, ph[3]...)
	}
	return steps
}

func c16GlueGen(c *gen.Ctx) {
	r := c.R
	var ins []any
	seen := map[string]bool{}
	slow, slowBudget := 0, 2
	if c.Thorough() {
		slowBudget = 12
	}
	// generator-side bookkeeping for the budget only: does some waiter run into its deadline?
	waits := func(cases []cc.VerifC16GlueCase) bool {
		for i, cs := range cases {
			own := ":" + cs.Name + ":"
			found := false
			for _, later := range cases[i:] {
				_ = later
			}
			for j, other := range cases {
				for _, tok := range other.Steps {
					if (strings.HasPrefix(tok, "c"+own) || strings.HasPrefix(tok, "rc"+own) || strings.HasPrefix(tok, "d"+own)) && j >= i {
						found = true
					}
				}
			}
			if !found {
				return true
			}
			if cs.Steps[len(cs.Steps)-1] == "err" {
				break
			}
		}
		return false
	}
	add := func(cases ...cc.VerifC16GlueCase) {
		key, _ := json.Marshal(cases)
		if seen[string(key)] {
			return
		}
		if waits(cases) {
			if slow >= slowBudget {
				return
			}
			slow++
			c.E.Count("glue:script-with-a-timeout")
		}
		seen[string(key)] = true
		for _, cs := range cases {
			c.E.Count("glue:kind-" + cs.Kind)
		}
		ins = append(ins, c16GlueIn{Cases: cases})
	}
	kinds := []string{"failed", "assert", "empty", "pass", "cberr"}
	none := [4][]string{}
	// one case: EVERY placement of the completion against every placement of the response
	for ki, kind := range kinds {
		for rp := 1; rp <= 3; rp++ {
			for cp := 0; cp <= 3; cp++ {
				for rel := 0; rel <= 3; rel++ {
					if cp != rp && rel > 0 {
						continue
					}
					if ki >= 2 && rel == 3 {
						continue
					}
					c.E.Count(fmt.Sprintf("glue:placement-resp%d-compl%d", rp, cp))
					add(cc.VerifC16GlueCase{Name: "a", Kind: kind, Steps: c16GlueCompose("a", 7, rp, cp, rel, false, none)})
				}
			}
		}
	}
	// the first completion wins, a foreign one changes nothing, wherever they are
	for p := 0; p < 4; p++ {
		for q := p; q < 4; q++ {
			var ex [4][]string
			ex[p] = append(ex[p], "c:a:7")
			ex[q] = append(ex[q], "c:z:5", "c:a:8")
			add(cc.VerifC16GlueCase{Name: "a", Kind: "failed", Steps: c16GlueCompose("a", 9, 2, 4, 0, false, ex)})
			add(cc.VerifC16GlueCase{Name: "a", Kind: "assert", Steps: c16GlueCompose("a", 9, 3, 4, 0, false, ex)})
		}
	}
	// the time-out path: nothing is ever completed; the request cannot be handed over
	add(cc.VerifC16GlueCase{Name: "a", Kind: "failed", Steps: []string{"s", "ret", "r"}})
	add(cc.VerifC16GlueCase{Name: "a", Kind: "failed", Steps: []string{"s", "err"}},
		cc.VerifC16GlueCase{Name: "b", Kind: "failed", Steps: []string{"s", "ret", "r"}})
	// the pipe breaks, but the trace of the case was completed: its waiter does not wait
	add(cc.VerifC16GlueCase{Name: "a", Kind: "failed", Steps: []string{"s", "c:a:7", "ret", "r"}},
		cc.VerifC16GlueCase{Name: "b", Kind: "failed", Steps: []string{"c:b:8", "s", "c:c:9", "err"}},
		cc.VerifC16GlueCase{Name: "c", Kind: "failed", Steps: []string{"s", "ret", "r"}})
	// a trace completed for a case the runner has not turned to yet has no slot: it is dropped
	// (that is Complete's documented no-op), the case's own completion later is what counts
	add(cc.VerifC16GlueCase{Name: "a", Kind: "failed", Steps: []string{"c:b:5", "s", "c:a:7", "c:b:6", "ret", "r"}},
		cc.VerifC16GlueCase{Name: "b", Kind: "failed", Steps: []string{"s", "ret", "c:b:8", "r"}})
	// batches of two and three: random placements, cross-name completions
	names := []string{"a", "b", "c"}
	nRandom := 160
	if c.Thorough() {
		nRandom = 3000
	}
	for i := 0; i < nRandom; i++ {
		n := 2 + r.Intn(2)
		cases := make([]cc.VerifC16GlueCase, 0, n)
		failAt := -1
		if r.Intn(8) == 0 {
			failAt = r.Intn(n)
		}
		for k := 0; k < n; k++ {
			rp, cp, rel := 1+r.Intn(3), r.Intn(4), 0
			if cp == rp {
				rel = r.Intn(4)
			}
			var ex [4][]string
			for e := r.Intn(3); e > 0; e-- {
				p := r.Intn(4)
				var who string
				switch {
				case p == 2: // pending: only names that are initialised already, or never
					who = append(append([]string{}, names[:k+1]...), "z")[r.Intn(k+2)]
				default:
					who = append(append([]string{}, names[:n]...), "z")[r.Intn(n+1)]
				}
				ex[p] = append(ex[p], fmt.Sprintf("c:%s:%d", who, 20+10*k+e))
			}
			cases = append(cases, cc.VerifC16GlueCase{Name: names[k], Kind: kinds[r.Intn(3+r.Intn(3))],
				Steps: c16GlueCompose(names[k], 7+k, rp, cp, rel, k == failAt, ex)})
		}
		add(cases...)
	}
	c.DoParallel("glue", ins, 16)
}
