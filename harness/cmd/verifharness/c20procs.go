package main

// C20 — construction under different resource conditions. "Every supported compression
// round-trips" is claimed for every process the runner and the reference peers may run in:
// the constructors of internal/compression must deliver working instances whatever
// runtime.GOMAXPROCS is (a one-CPU container, GOMAXPROCS=1, `go test -cpu 1`, a large host).
// The `procs` operation sets GOMAXPROCS for the duration of ONE fresh construction of
// compressor and decompressor (no cached instance, no cached stream) and a round trip of a few
// messages through that pair, and restores the previous value. It is only ever run serially.

import (
	"bytes"
	"encoding/hex"
	"encoding/json"
	"io"
	"net/http"
	"runtime"
	"strings"
	"sync"

	"connectrpc.com/conformance/internal"
	"connectrpc.com/conformance/internal/compression"
	conformancev1 "connectrpc.com/conformance/internal/gen/proto/go/connectrpc/conformance/v1"
	"connectrpc.com/conformance/internal/tracer"
	"connectrpc.com/conformance/internal/verifharness/gen"
	"connectrpc.com/connect"
)

func init() {
	gen.RegisterOp("c20", "procs", func(_ *gen.Ctx, raw json.RawMessage) any { return c20Procs(gen.Into[c20ProcsIn](raw)) })
}

type c20ProcsIn struct {
	Procs int   `json:"procs"` // runtime.GOMAXPROCS while constructing and using the instances
	Enc   int32 `json:"enc"`
	// how the instances are obtained:
	//   ""       compression.GetCompressor / GetDecompressor
	//   "tracer" compression.GetCompressor / tracer.GetDecompressor(name)
	//   "raw"    internal.WriteRawMessageContents (constructs its own compressor) / GetDecompressor
	Via  string   `json:"via"`
	Msgs []string `json:"msgs"` // hex
}
type c20ProcsOut struct {
	Set  int      `json:"set"`  // GOMAXPROCS in force while the instances were constructed
	Outs []string `json:"outs"` // per message: data:<hex> | err:<stage> | panic:…
}

// c20ProcsMu: GOMAXPROCS is process-wide; one `procs` operation at a time.
var c20ProcsMu sync.Mutex

func c20Procs(in c20ProcsIn) c20ProcsOut {
	c20ProcsMu.Lock()
	defer c20ProcsMu.Unlock()
	out := c20ProcsOut{Outs: []string{}}
	if in.Procs < 1 {
		in.Procs = 1
	}
	prev := runtime.GOMAXPROCS(in.Procs)
	defer runtime.GOMAXPROCS(prev)
	out.Set = runtime.GOMAXPROCS(0)

	var comp connect.Compressor
	var dec connect.Decompressor
	if p := gen.Recover(func() {
		if in.Via != "raw" {
			c, err := compression.GetCompressor(conformancev1.Compression(in.Enc))
			if err != nil {
				panic(err)
			}
			comp = c
		}
		if in.Via == "tracer" {
			dec = tracer.GetDecompressor(c20Names[in.Enc])
		} else {
			d, err := compression.GetDecompressor(conformancev1.Compression(in.Enc))
			if err != nil {
				panic(err)
			}
			dec = d
		}
	}); p != "" {
		for range in.Msgs {
			out.Outs = append(out.Outs, "panic:construct:"+p)
		}
		return out
	}
	for _, m := range in.Msgs {
		data, _ := hex.DecodeString(m)
		res := ""
		if p := gen.Recover(func() {
			var buf bytes.Buffer
			if in.Via == "raw" {
				mc := &conformancev1.MessageContents{
					Compression: conformancev1.Compression(in.Enc),
					Data:        &conformancev1.MessageContents_Binary{Binary: data},
				}
				if err := internal.WriteRawMessageContents(mc, &buf); err != nil {
					res = "err:compress"
					return
				}
			} else {
				comp.Reset(&buf)
				if _, err := comp.Write(data); err != nil {
					res = "err:compress"
					return
				}
				if err := comp.Close(); err != nil {
					res = "err:compress"
					return
				}
				comp.Reset(io.Discard)
			}
			var src io.Reader = bytes.NewBuffer(append([]byte{}, buf.Bytes()...))
			if buf.Len() == 0 {
				src = http.NoBody
			}
			if err := dec.Reset(src); err != nil {
				res = "err:reset"
				return
			}
			r := c20ReadAll(dec)
			if strings.HasPrefix(r, "data:") {
				res = r
			} else {
				res = "err:read"
			}
			_ = dec.Close()
			_ = dec.Reset(http.NoBody)
		}); p != "" {
			res = "panic:" + p
		}
		out.Outs = append(out.Outs, res)
	}
	return out
}

// c20ProcsGen: every encoding x every way of obtaining the instances x GOMAXPROCS in
// {1, 2, 3, 4, 8, NumCPU, 2*NumCPU, 64}, serially.
func c20ProcsGen(c *gen.Ctx) {
	r := c.R
	ncpu := runtime.NumCPU()
	procs := []int{1, 2, 3, 4, 8, ncpu, 2 * ncpu, 64}
	seen := map[int]bool{}
	n := 0
	for _, p := range procs {
		if seen[p] {
			continue
		}
		seen[p] = true
		for enc := int32(0); enc <= 6; enc++ {
			for _, via := range []string{"", "tracer", "raw"} {
				if via == "tracer" && enc == 0 {
					continue
				}
				reps := 1
				if c.Thorough() {
					reps = 4
				}
				for k := 0; k < reps; k++ {
					msgs := []string{gen.Hex([]byte("hello, conformance! hello, conformance!")), "", gen.Hex(c20Payload(r, 2048))}
					if k > 0 || p == 1 {
						msgs = append(msgs, gen.Hex(c20Payload(r, 65536)))
					}
					c.Do("procs", c20ProcsIn{Procs: p, Enc: enc, Via: via, Msgs: msgs})
					n++
				}
			}
		}
	}
	c.E.Add("constructions-under-gomaxprocs", n)
}
