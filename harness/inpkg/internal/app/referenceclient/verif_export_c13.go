//go:build verif

package referenceclient

import (
	"bytes"
	"context"
	"errors"
	"fmt"
	"net/http"
	"sync"

	conformancev1 "connectrpc.com/conformance/internal/gen/proto/go/connectrpc/conformance/v1"
	"connectrpc.com/conformance/internal/tracer"
)

// verifC13Printer collects the messages the examiners print.
type verifC13Printer struct {
	mu   sync.Mutex
	msgs []string
}

func (p *verifC13Printer) Printf(msg string, args ...any) {
	p.mu.Lock()
	defer p.mu.Unlock()
	p.msgs = append(p.msgs, fmt.Sprintf(msg, args...))
}

func (p *verifC13Printer) PrefixPrintf(prefix, msg string, args ...any) {
	p.Printf(prefix+": "+msg, args...)
}

func (p *verifC13Printer) take() []string {
	p.mu.Lock()
	defer p.mu.Unlock()
	out := p.msgs
	p.msgs = nil
	if out == nil {
		out = []string{}
	}
	return out
}

// VerifC13ExamineGRPCEndStream is examineGRPCEndStream: the parsed trailers and the messages.
func VerifC13ExamineGRPCEndStream(endStream string) (http.Header, []string) {
	p := &verifC13Printer{}
	h := examineGRPCEndStream(endStream, p)
	return h, p.take()
}

// VerifC13CheckGRPCStatus is checkGRPCStatus.
func VerifC13CheckGRPCStatus(h http.Header) []string {
	p := &verifC13Printer{}
	checkGRPCStatus(h, p)
	return p.take()
}

// VerifC13ExamineConnectError is examineConnectError.
func VerifC13ExamineConnectError(b []byte) []string {
	p := &verifC13Printer{}
	examineConnectError(b, p)
	return p.take()
}

// VerifC13ExamineConnectEndStream is examineConnectEndStream.
func VerifC13ExamineConnectEndStream(b []byte) []string {
	p := &verifC13Printer{}
	examineConnectEndStream(b, p)
	return p.take()
}

// VerifC13CheckBinaryMetadata is checkBinaryMetadata.
func VerifC13CheckBinaryMetadata(what string, md []*conformancev1.Header) []string {
	p := &verifC13Printer{}
	checkBinaryMetadata(what, md, p)
	return p.take()
}

func VerifC13ValidFieldName(s string) bool  { return isValidHTTPFieldName(s) }
func VerifC13ValidFieldValue(s string) bool { return isValidHTTPFieldValue(s) }

// VerifC13Wire describes a completed HTTP exchange as examineWireDetails sees it.
type VerifC13Wire struct {
	NoResponse  bool
	StatusCode  int
	Header      http.Header
	Trailer     http.Header
	TraceErr    bool
	EndStream   *string // content of a ResponseBodyEndStream event
	BodyData    bool    // a ResponseBodyData event precedes it
	CapturedBuf []byte  // what the wireReader captured of the body (unary JSON errors)
}

// VerifC13ExamineWire runs examineWireDetails on a context prepared with withWireCapture
// and a trace stored through setWireTrace, exactly as the round tripper does.
func VerifC13ExamineWire(w VerifC13Wire) (statusCode int, ok bool, msgs []string) {
	ctx := withWireCapture(context.Background())
	wrapper, _ := ctx.Value(wireCtxKey{}).(*wireWrapper)
	wrapper.buf = bytes.NewBuffer(append([]byte(nil), w.CapturedBuf...))
	req, _ := http.NewRequestWithContext(ctx, http.MethodPost, "http://localhost/x", http.NoBody)
	trace := tracer.Trace{TestName: "verif", Request: req}
	if !w.NoResponse {
		trace.Response = &http.Response{StatusCode: w.StatusCode, Header: w.Header, Trailer: w.Trailer, ProtoMajor: 2}
		if trace.Response.Header == nil {
			trace.Response.Header = http.Header{}
		}
	}
	if w.TraceErr {
		trace.Err = errors.New("verif: trace error")
	}
	if w.BodyData {
		trace.Events = append(trace.Events, &tracer.ResponseBodyData{Len: 5})
	}
	if w.EndStream != nil {
		trace.Events = append(trace.Events, &tracer.ResponseBodyEndStream{Content: *w.EndStream})
	}
	setWireTrace(ctx, trace)
	p := &verifC13Printer{}
	statusCode, ok = examineWireDetails(ctx, p)
	return statusCode, ok, p.take()
}

// VerifC13DebugData is examineConnectErrorDetailDebugData (the protojson comparison of a
// detail's "debug" member with its "value"), which the Lean model takes as an oracle.
func VerifC13DebugData(i int, msgName string, data []byte, debugJSON []byte) []string {
	p := &verifC13Printer{}
	examineConnectErrorDetailDebugData(i, msgName, data, debugJSON, p)
	return p.take()
}
