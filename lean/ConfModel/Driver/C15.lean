import ConfModel.Driver.Common
namespace ConfModel.Driver.C15
open Lean ConfModel.Driver

def handle : Handler := fun op _inp _impl => bad ("C15: unknown op " ++ op)

end ConfModel.Driver.C15
