/-
C20 — every supported compression round-trips, also when instances are reused.
Property theorems only.

The third-party algorithms are a parameter `l : Lib`; the theorems hold for every `l` with
`l.Lawful` (a fresh library reader returns `b` on `l.enc b`) — what else the library does on
other inputs (corrupt, truncated, empty) is arbitrary.  The assumption that a library `Reset`
restores a fresh reader is part of the model (`Rd.reset`) and is what the implementation half
of the correspondence tests.  The theorems are about the repository's wrappers.
-/
import ConfModel.Lemmas.Compression
import ConfModel.Generated.C20Facts
namespace ConfModel.Props.C20
open ConfModel.Compression ConfModel.CompressionSpec

/-- One message through a pooled instance returns the message, **in whatever state** the
instance is (closed, reset on an empty body, after a failed decode, never used). -/
theorem cycle_valid (l : Lib) (hl : l.Lawful) (s : St) (b : Bytes) :
    (cycle l s (l.enc b)).2 = .data b :=
  cycle_valid_aux l hl s b

/-- For every history of a pooled instance — messages with arbitrary (valid, corrupt,
truncated, empty) sources, stray closes, resets on an empty body, stray reads — and every
position in it: a step that carries a valid encoding of `b` returns exactly `b`. -/
theorem reuse_roundtrip (l : Lib) (hl : l.Lawful) (k : Kind) (h : List HStep) (i : Nat) (b : Bytes)
    (hi : h[i]? = some (.msg (l.enc b))) : (runH l (init k) h).2[i]? = some (.data b) :=
  runH_valid l hl (init k) h i b hi

/-- in particular after any history whatsoever -/
theorem reuse_after_any_history (l : Lib) (hl : l.Lawful) (k : Kind) (h : List HStep) (b : Bytes) :
    (hstep l (runH l (init k) h).1 (.msg (l.enc b))).2 = .data b :=
  cycle_valid_aux l hl _ b

/-- non-vacuity: a lawful library (identity with a one-byte header that a fresh reader checks) and a
history with a failed decode, a stray close and an empty reset before the valid message -/
def toyLib : Lib :=
  { enc := fun b => 7 :: b,
    look := fun s => match s with | 7 :: b => ⟨true, some b⟩ | [] => ⟨false, none⟩ | _ => ⟨true, none⟩ }

theorem toyLib_lawful : toyLib.Lawful := fun _ => rfl

example : (runH toyLib (init .zstd) [.msg [9, 9], .close, .resetEmpty, .read, .msg (toyLib.enc [1, 2])]).2 =
    [.err, .ok, .err, .err, .data [1, 2]] := by decide

example : (runH toyLib (init .deflate) [.msg [9, 9], .close, .resetEmpty, .msg (toyLib.enc [1, 2])]).2 =
    [.err, .err, .err, .data [1, 2]] := by decide

/-- `Close` twice is `Close` once: same state, and the second call cannot panic if the first did not. -/
theorem close_idempotent (l : Lib) (s : St) :
    (step l (step l s .close).1 .close).1 = (step l s .close).1 ∧
    ((step l s .close).2 ≠ .panic → (step l (step l s .close).1 .close).2 ≠ .panic) := by
  cases s with
  | noop r => cases r <;> simp [step]
  | gzip f r => cases f <;> simp [step]
  | brotli r => simp [step]
  | snappy r => simp [step]
  | zstd d => cases d <;> simp [step]
  | deflate r =>
    cases r with
    | none => simp [step]
    | some o => cases o <;> simp [step, okIf] <;> split <;> simp

/-- A closed zstd decompressor (decoder discarded) reads as EOF — no nil dereference —, and so
does a deflate decompressor that was never reset. -/
theorem read_after_close_eof (l : Lib) (d : Option Rd) :
    step l (step l (.zstd d) .close).1 .readAll = (.zstd none, .data []) ∧
    step l (init .deflate) .readAll = (.deflate none, .data []) := by
  cases d <;> simp [step, init]

/-- the zstd decoder discarded by `Close` is recreated by the next `Reset` -/
theorem zstd_recreated (l : Lib) (d : Option Rd) (src : Bytes) :
    (step l (step l (.zstd d) .close).1 (.reset src)).1 = .zstd (some (.fresh (l.look src).read)) := by
  cases d <;> simp [step, Rd.reset]

/-- the deflate error sentinel is replaced by the next good `Reset` -/
theorem deflate_sentinel_replaced (l : Lib) (hl : l.Lawful) (b : Bytes) :
    (step l (.deflate (some none)) (.reset (l.enc b))).1 = .deflate (some (some (.fresh (some b)))) := by
  simp [step, Rd.reset, hl b]

/-- Once an instance has been reset (`noop`) / reset successfully (`gzip`), and always for the
four wrappers, no method call panics, and that stays so. -/
theorem no_panic (l : Lib) (s : St) (hs : safe s = true) (op : Op) :
    (step l s op).2 ≠ .panic ∧ safe (step l s op).1 = true :=
  step_safe l s hs op

/-- a valid message makes every instance safe (whatever its state) -/
theorem safe_after_valid (l : Lib) (hl : l.Lawful) (s : St) (b : Bytes) :
    safe (step l s (.reset (l.enc b))).1 = true :=
  reset_valid_safe l hl s b

/-- A pooled compressor used for a list of messages (`Reset(dst); Write(m); Close()` each)
leaves in the i-th destination exactly the encoding of the i-th message. -/
theorem compressor_reuse (l : Lib) (ms : List Bytes) :
    (compressAll l cinit ms).done ++ (compressAll l cinit ms).dst.toList = ms.map l.enc := by
  have := compressAll_sinks l cinit ms rfl
  simpa [cinit] using this

/-- within the model's tables a name and its enum value denote the same algorithm -/
theorem names_model : ∀ e ∈ [1, 2, 3, 4, 5, 6], (nameOfEnum e).bind algOfName = algOfEnum e := by decide

/-- The tables extracted from the current tree (constants, `GetCompressor`/`GetDecompressor`,
`tracer.GetDecompressor`, `checkCompression`, server and client registrations) are
consistent: the same name denotes the same algorithm everywhere, all six and only those. -/
theorem names_consistent : consistent Generated.C20Facts.tables = true := by decide

end ConfModel.Props.C20
