//go:build verif

package tracer

import (
	"context"
	"io"
	"net/http"
	"strings"
	"sync"
	"time"
)

// C16, "the trace handed over is final": the real TracingHandler around scripted handlers
// that set HTTP trailers, observed by consumers that look at the trace at the moment it is
// completed (a collector that deep-copies it inside Complete, a waiter that is already
// blocked in Tracer.Await) and again after the handler has returned.

// VerifC16HAct is one step of a scripted handler.
//
//	set / add      w.Header().Set / Add (Key, Val)
//	declare        w.Header().Set("Trailer", Names joined by ", ")   (declareAdd: Add)
//	wh             w.WriteHeader(Status)
//	w              w.Write (Ok=false: the underlying writer fails)
//	flush          Flush
//	readEof / readErr / closeReq   request body: Read that ends with io.EOF / with an error, Close
//	cancel         the request's context is cancelled (the client went away); the step waits
//	               until the middleware's goroutine has handed the trace over, if it is the one to do so
//	panic          the handler panics
type VerifC16HAct struct {
	K      string   `json:"k"`
	Key    string   `json:"key,omitempty"`
	Val    string   `json:"val,omitempty"`
	Names  []string `json:"names,omitempty"`
	Status int      `json:"s,omitempty"`
	Ok     bool     `json:"ok,omitempty"`
}

// VerifC16Snap is a deep copy of what a consumer can see of a trace at one moment.
type VerifC16Snap struct {
	Events  []string `json:"events"`
	HasResp bool     `json:"hasResp"`
	Status  int      `json:"status"`
	Header  [][]string `json:"header"` // sorted by key, each entry: key, values...
	Trailer [][]string `json:"trailer"`
	Err     string     `json:"err"`
}

// verifC16Dump renders a header map as a list of [key, values...] sorted by key.
func verifC16Dump(h http.Header) [][]string {
	out := [][]string{}
	for _, k := range VerifSortedKeys(h) {
		out = append(out, append([]string{k}, h[k]...))
	}
	return out
}

func verifC16Snapshot(tr *Trace) *VerifC16Snap {
	s := &VerifC16Snap{Events: VerifBodyEvents(*tr), Header: [][]string{}, Trailer: [][]string{}, Err: VerifErrClass(tr.Err)}
	if tr.Err != nil && strings.HasPrefix(tr.Err.Error(), "panic: ") {
		s.Err = "panic"
	}
	if tr.Response != nil {
		s.HasResp = true
		s.Status = tr.Response.StatusCode
		s.Header = verifC16Dump(tr.Response.Header)
		s.Trailer = verifC16Dump(tr.Response.Trailer)
	}
	return s
}

// verifC16Collector deep-copies the trace inside Complete, forwards it to the real Tracer
// and — when gated — does not return before the blocked waiter has looked at what it got
// (a slow collector: the completing goroutine cannot run ahead of the consumer).
type verifC16Collector struct {
	mu     sync.Mutex
	next   *Tracer
	n      int
	first  Trace
	at     *VerifC16Snap
	gate   chan struct{} // nil: not gated
	gated  bool          // the gate timed out
	notify chan struct{} // closed at the first Complete
}

func (c *verifC16Collector) Complete(tr Trace) {
	c.mu.Lock()
	c.n++
	first := c.n == 1
	if first {
		c.first = tr
		c.at = verifC16Snapshot(&tr)
	}
	c.mu.Unlock()
	c.next.Complete(tr)
	if first {
		close(c.notify)
		if c.gate != nil {
			select {
			case <-c.gate:
			case <-time.After(5 * time.Second):
				c.mu.Lock()
				c.gated = true
				c.mu.Unlock()
			}
		}
	}
}

type verifC16Body struct {
	next error
}

func (b *verifC16Body) Read([]byte) (int, error) { return 0, b.next }
func (b *verifC16Body) Close() error              { return nil }

// verifC16RW is the scripted http.ResponseWriter below the middleware.
type verifC16RW struct {
	h        http.Header
	wrote    bool
	failNext bool
	status   int
	atWH     [][]string // the header map when the header was written
	declared []string   // the trailer names announced by then (what a server would honour)
}

func (w *verifC16RW) Header() http.Header { return w.h }
func (w *verifC16RW) Flush()              {}
func (w *verifC16RW) WriteHeader(code int) {
	if w.wrote {
		return
	}
	w.wrote = true
	w.status = code
	w.atWH = verifC16Dump(w.h)
	w.declared = []string{}
	for _, v := range w.h.Values("Trailer") {
		for _, n := range strings.Split(v, ",") {
			if n = strings.TrimSpace(n); n != "" {
				w.declared = append(w.declared, n)
			}
		}
	}
}
func (w *verifC16RW) Write(p []byte) (int, error) {
	w.WriteHeader(http.StatusOK)
	if w.failNext {
		w.failNext = false
		return 0, VerifErrInner
	}
	return len(p), nil
}

// VerifC16HandoffIn: Waiter = none | blocked (its Await has entered the select before the
// handler starts) | late (Await after the handler returned).
type VerifC16HandoffIn struct {
	Acts   []VerifC16HAct `json:"acts"`
	Waiter string         `json:"waiter"`
	Gate   bool           `json:"gate"`
}

type VerifC16HandoffOut struct {
	Completions int           `json:"completions"`
	AtComplete  *VerifC16Snap `json:"atComplete"` // the collector's copy, taken inside Complete
	Final       *VerifC16Snap `json:"final"`      // the same trace, read again at the end
	Waiter      string        `json:"waiter"`     // none | t | ctx | err | stuck
	AtWake      *VerifC16Snap `json:"atWake"`     // what the waiter saw when Await returned
	WaiterFinal *VerifC16Snap `json:"waiterFinal"`
	GateTimeout bool          `json:"gateTimeout"`
	Panicked    bool          `json:"panicked"`
	// the scripted ResponseWriter below the middleware: what a server would put on the wire
	Status      int        `json:"status"`
	HeaderAtWH  [][]string `json:"headerAtWH"`
	Declared    []string   `json:"declared"`
	HeaderAtEnd [][]string `json:"headerAtEnd"`
}

// VerifC16Handoff runs one scripted handler through the real TracingHandler with a real
// Tracer behind the snapshotting collector.
func VerifC16Handoff(in VerifC16HandoffIn) VerifC16HandoffOut {
	var out VerifC16HandoffOut
	const name = "verif/case"
	trc := &Tracer{}
	trc.Init(name)
	coll := &verifC16Collector{next: trc, notify: make(chan struct{})}
	type woke struct {
		kind string
		tr   *Trace
		snap *VerifC16Snap
	}
	wake := make(chan woke, 1)
	wctx, wcancel := context.WithTimeout(context.Background(), 20*time.Second)
	defer wcancel()
	looked := make(chan struct{})
	await := func(ctx context.Context) {
		tr, err := trc.Await(ctx, name)
		var r woke
		switch {
		case err == nil && tr != nil:
			r = woke{"t", tr, verifC16Snapshot(tr)} // the consumer looks as soon as it wakes
		case err == nil:
			r = woke{kind: "err"}
		default:
			r = woke{kind: verifAwaitResult(nil, err)}
		}
		close(looked) // ... and only then lets a gated collector go on
		wake <- r
	}
	var w woke
	haveW := false
	if in.Waiter == "blocked" {
		pctx := &verifProbeCtx{Context: wctx, entered: make(chan struct{})}
		if in.Gate {
			coll.gate = looked
		}
		go await(pctx)
		select {
		case <-pctx.entered:
		case w = <-wake: // must not happen: nothing is completed yet
			haveW = true
		}
	}

	rw := &verifC16RW{h: http.Header{}}
	body := &verifC16Body{next: io.EOF}
	ctx, cancel := context.WithCancel(context.Background())
	defer cancel()
	req := verifRequest(nil).WithContext(ctx)
	req.Body = body
	handler := http.HandlerFunc(func(w http.ResponseWriter, r *http.Request) {
		var buf [16]byte
		for _, a := range in.Acts {
			switch a.K {
			case "set":
				w.Header().Set(a.Key, a.Val)
			case "add":
				w.Header().Add(a.Key, a.Val)
			case "declare":
				w.Header().Set("Trailer", strings.Join(a.Names, ", "))
			case "declareAdd":
				w.Header().Add("Trailer", strings.Join(a.Names, ", "))
			case "wh":
				w.WriteHeader(a.Status)
			case "w":
				rw.failNext = !a.Ok
				_, _ = w.Write([]byte{1, 2, 3})
			case "flush":
				if f, ok := w.(http.Flusher); ok {
					f.Flush()
				}
			case "readEof":
				body.next = io.EOF
				_, _ = r.Body.Read(buf[:])
			case "readErr":
				body.next = VerifErrInner
				_, _ = r.Body.Read(buf[:])
			case "closeReq":
				_ = r.Body.Close()
			case "cancel":
				cancel()
				// the RequestCanceled event comes from the middleware's goroutine; if the
				// builder is still open that goroutine hands the trace over: wait for it
				select {
				case <-coll.notify:
				case <-time.After(5 * time.Second):
				}
			case "panic":
				panic("verif: scripted panic")
			}
		}
	})
	func() {
		defer func() {
			if r := recover(); r != nil {
				out.Panicked = true
			}
		}()
		TracingHandler(handler, coll).ServeHTTP(rw, req)
	}()
	rw.WriteHeader(http.StatusOK) // what net/http does when a handler returns without writing
	out.Status, out.HeaderAtWH, out.Declared, out.HeaderAtEnd = rw.status, rw.atWH, rw.declared, verifC16Dump(rw.h)
	select {
	case <-coll.notify:
	case <-time.After(5 * time.Second):
	}
	switch in.Waiter {
	case "late":
		go await(wctx)
		fallthrough
	case "blocked":
		if !haveW {
			select {
			case w = <-wake:
			case <-time.After(10 * time.Second):
				w = woke{kind: "stuck"}
			}
		}
		out.Waiter = w.kind
		out.AtWake = w.snap
		if w.tr != nil {
			out.WaiterFinal = verifC16Snapshot(w.tr)
		}
	default:
		out.Waiter = "none"
	}
	coll.mu.Lock()
	out.Completions = coll.n
	out.AtComplete = coll.at
	if coll.n > 0 {
		out.Final = verifC16Snapshot(&coll.first)
	}
	out.GateTimeout = coll.gated
	coll.mu.Unlock()
	return out
}
