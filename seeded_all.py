#!/usr/bin/env python3
"""Re-evaluates every seeded regression with the quick check of its own property (C01 seeds last)."""
import os, json, glob, subprocess, sys
VERIF = os.path.dirname(os.path.abspath(__file__))
ids = sorted(os.path.basename(d) for d in glob.glob(os.path.join(VERIF, "seeded", "S-*")))
ids = [i for i in ids if "C01" not in i] + [i for i in ids if "C01" in i]
if len(sys.argv) > 1: ids = [i for i in ids if any(a in i for a in sys.argv[1:])]
miss = []
for i in ids:
    d = os.path.join(VERIF, "seeded", i)
    if not os.path.exists(os.path.join(d, "patch.diff")): continue
    ev = os.path.join(d, "eval.json")
    pass  # keep cross-property records; the own-property record is overwritten
    subprocess.run(["python3", os.path.join(VERIF, "seeded_eval.py"), i], capture_output=True, text=True)
    e = json.load(open(ev)) if os.path.exists(ev) else {}
    own = json.load(open(os.path.join(d, "meta.json")))["property"] + ":quick"
    ok = bool(e.get(own, {}).get("detected"))
    print(i, "caught" if ok else "MISSED", {k: v.get("wall_s") for k, v in e.items()}, flush=True)
    if not ok: miss.append(i)
subprocess.run(["git", "checkout", "evidence/"], cwd=VERIF, capture_output=True)
print("missed:", miss)
