/-
C03 — result assertion flags every semantic deviation, allows only documented leniency.
Property theorems only; helper lemmas live in `ConfModel.Lemmas.Assert`.
All statements are for results of any size (any number of payloads, details, headers, values),
every stream type, every list of allowed codes and every grace period `g` (the code's value is
regenerated into `ConfModel.Generated.C03Facts.grace` on every run).
-/
import ConfModel.Lemmas.Assert
import ConfModel.Model.AssertPath
import ConfModel.Lemmas.AssertSeq
import ConfModel.Model.AssertLib
namespace ConfModel.Props.C03
open ConfModel.Assert ConfModel.Agree

/-- **Headline.**  Under `WellFormed` (names inside one header list distinct up to case),
`assert` records no error exactly when the reported result agrees with the expected one up to the
documented leniencies. -/
theorem assert_nil_iff (g : Int) (st : StreamType) (other : List Nat) (e a : Result)
    (hw : WellFormed e a) : assert g st other e a = [] ↔ Agree g st other e a := by
  obtain ⟨he, hh, ht, hp, hd⟩ := hw
  unfold assert Agree
  simp only [List.append_eq_nil_iff]
  rw [checkError_nil_iff g other _ _ hd, checkPayloads_nil_iff g _ _ hp,
    checkMetadata_nil_iff st e a he hh ht, checkStatus_nil_iff, and_assoc, and_assoc]

/-- non-vacuity: a well-formed pair that agrees although it differs (name case, an extra
trailer, values joined, another allowed code, timeout inside the window, status absent) -/
example :
    let e : Result := ⟨[⟨"X-A", ["1".toList, "2".toList]⟩], [⟨[1, 2], some ⟨[], some 1000, [⟨"M", [7]⟩], []⟩⟩],
      some ⟨5, none, []⟩, [], 0, some 200⟩
    let a : Result := ⟨[⟨"x-a", ["1, 2".toList]⟩], [⟨[1, 2], some ⟨[], some 600, [⟨"M", [7]⟩], []⟩⟩],
      some ⟨9, some "whatever", []⟩, [⟨"extra", []⟩], 3, none⟩
    WellFormed e a ∧ assert 500 .serverStream [9] e a = [] ∧ a ≠ e := by decide

/-! ### Leniency lemmas -/

/-- Values joined on a comma, with or without a following space, canonicalise like the separate
values (read right to left: splitting at a comma); for values without commas, the first not
ending and (for the bare comma) the second not starting with a space. -/
theorem canon_join (pre post : List Val) (v1 v2 : Val) (h1 : ',' ∉ v1) (h2 : ',' ∉ v2)
    (h3 : v1.getLast? ≠ some ' ') :
    canon (pre ++ (v1 ++ ',' :: ' ' :: v2) :: post) = canon (pre ++ v1 :: v2 :: post) ∧
    (v2.head? ≠ some ' ' → canon (pre ++ (v1 ++ ',' :: v2) :: post) = canon (pre ++ v1 :: v2 :: post)) := by
  have hv1 := canonVal_clean v1 h1
  have hv2 := canonVal_clean v2 h2
  constructor
  · simp only [canon, List.flatMap_append, List.flatMap_cons, canonVal_join_comma_space v1 v2 h1 h2 h3, hv1, hv2]
    simp
  · intro h4
    simp only [canon, List.flatMap_append, List.flatMap_cons, canonVal_join_comma v1 v2 h1 h2 h3 h4, hv1, hv2]
    simp

example : canon ["a b".toList, "c".toList] = canon ["a b, c".toList] ∧ canon ["a b,c".toList] = ["a b".toList, "c".toList] := by
  decide

/-- Values without a comma are their own canonical form (so order and content of such values
is compared exactly). -/
theorem canon_clean (vs : List Val) (h : ∀ v ∈ vs, ',' ∉ v) : canon vs = vs := by
  induction vs with
  | nil => rfl
  | cons v t ih =>
    simp only [canon, List.flatMap_cons] at ih ⊢
    rw [canonVal_clean v (h v List.mem_cons_self), ih (fun x hx => h x (List.mem_cons_of_mem _ hx))]
    rfl

/-- The case of header names is irrelevant, on the reported side … -/
theorem name_case_actual (w : What) (exp act act' : List Header)
    (h : act.map (fun h => (lower h.name, h.values)) = act'.map (fun h => (lower h.name, h.values))) :
    checkHeaders w exp act = checkHeaders w exp act' := by
  unfold checkHeaders checkHeader
  simp only [lookupLast_congr act act' h]

/-- … and on the expected side. -/
theorem name_case_expected (w : What) (exp exp' act : List Header)
    (h : exp.map (fun h => (lower h.name, h.values)) = exp'.map (fun h => (lower h.name, h.values))) :
    checkHeaders w exp act = checkHeaders w exp' act := by
  induction exp generalizing exp' with
  | nil => cases exp' <;> simp_all [checkHeaders]
  | cons x t ih =>
    cases exp' with
    | nil => simp at h
    | cons y t' =>
      simp only [List.map_cons, List.cons.injEq, Prod.mk.injEq] at h
      have := ih t' h.2
      simp only [checkHeaders, List.flatMap_cons] at this ⊢
      rw [this]
      simp only [checkHeader, h.1.1, h.1.2]

/-- Extra metadata is allowed: a reported entry whose name (up to case) no expected entry has
changes nothing, wherever it is inserted. -/
theorem extra_metadata (w : What) (exp pre post : List Header) (x : Header)
    (hx : ∀ h ∈ exp, lower x.name ≠ lower h.name) :
    checkHeaders w exp (pre ++ x :: post) = checkHeaders w exp (pre ++ post) := by
  induction exp with
  | nil => rfl
  | cons h t ih =>
    have hx' : ∀ h ∈ t, lower x.name ≠ lower h.name := fun y hy => hx y (List.mem_cons_of_mem _ hy)
    have := ih hx'
    simp only [checkHeaders, List.flatMap_cons] at this ⊢
    rw [this]
    simp only [checkHeader, lookupLast_insert pre post x _ (hx h List.mem_cons_self)]

/-- Another allowed code is as good as the expected code. -/
theorem other_code (g : Int) (other : List Nat) (e a : Err) (h : a.code ∈ other) :
    checkError g (some e) (some a) other = checkError g (some { e with code := a.code }) (some a) other := by
  simp [checkError, h]

/-- When the expected message is unspecified, the reported message is not looked at. -/
theorem message_unspecified (g : Int) (other : List Nat) (e a : Err) (m : Option String)
    (h : e.message = none) :
    checkError g (some e) (some { a with message := m }) other = checkError g (some e) (some a) other := by
  simp [checkError, h]

/-- The echoed timeout is accepted exactly inside the window `[max 0 (t - g), t]` — both
boundaries included — and named `timeoutRange` outside. -/
theorem timeout_window (g t u : Int) :
    (max 0 (t - g) ≤ u ∧ u ≤ t → checkTimeout g (some t) (some u) = []) ∧
    (¬ (max 0 (t - g) ≤ u ∧ u ≤ t) → checkTimeout g (some t) (some u) = [.timeoutRange]) := by
  constructor
  · intro h; exact (checkTimeout_nil_iff g (some t) (some u)).2 h
  · intro h
    have hne : checkTimeout g (some t) (some u) ≠ [] := fun hn => h ((checkTimeout_nil_iff g (some t) (some u)).1 hn)
    simp only [checkTimeout] at hne ⊢
    by_cases hc : (decide (u > t) || decide (u < if t - g < 0 then 0 else t - g)) = true
    · rw [if_pos hc]
    · rw [if_neg hc] at hne; exact absurd rfl hne

/-- both boundaries and one beyond each, for the code's constant -/
example : checkTimeout 500 (some 2000) (some 2000) = [] ∧ checkTimeout 500 (some 2000) (some 1500) = [] ∧
    checkTimeout 500 (some 2000) (some 2001) = [.timeoutRange] ∧ checkTimeout 500 (some 2000) (some 1499) = [.timeoutRange] ∧
    checkTimeout 500 (some 300) (some 0) = [] ∧ checkTimeout 500 (some 300) (some (-1)) = [.timeoutRange] := by decide

/-- An absent HTTP status on either side is never a discrepancy. -/
theorem status_absent (e a : Option Int) (h : e = none ∨ a = none) : checkStatus e a = [] := by
  rcases h with h | h <;> subst h
  · cases a <;> rfl
  · cases e <;> rfl

/-- The number of unsent requests is not compared. -/
theorem unsent_ignored (g : Int) (st : StreamType) (other : List Nat) (e a : Result) (n m : Nat) :
    assert g st other { e with numUnsent := n } { a with numUnsent := m } = assert g st other e a := rfl

/-- Request headers, timeout and query parameters are only verified on the first response. -/
theorem later_request_info_lenient (g : Int) (e a a' : ReqInfo) (h : a'.requests = a.requests) :
    checkRequestInfo g e a' false = checkRequestInfo g e a false := by
  simp [checkRequestInfo, h]

/-- Query parameters that were not echoed at all are not compared (service.proto: a server may be
unable to populate them). -/
theorem query_not_echoed (g : Int) (e a : ReqInfo) (first : Bool) (h : a.queryParams = []) :
    checkRequestInfo g e a first = checkRequestInfo g { e with queryParams := [] } a first := by
  simp [checkRequestInfo, h]

/-- On a unary or client-stream error without payloads, metadata reported all as headers or all
as trailers is accepted when it carries the merged bag. -/
theorem merged_metadata (st : StreamType) (e a : Result)
    (he : NamesDistinct e.headers) (hh : NamesDistinct a.headers) (ht : NamesDistinct a.trailers)
    (hm : Mergeable st e)
    (h : Subsumed (mergedBag e.headers e.trailers) a.headers ∨ Subsumed (mergedBag e.headers e.trailers) a.trailers) :
    checkMetadata st e a = [] :=
  (checkMetadata_nil_iff st e a he hh ht).2 (Or.inr ⟨hm, h⟩)

example :
    let e : Result := ⟨[⟨"x-a", ["1".toList]⟩], [], some ⟨3, none, []⟩, [⟨"X-A", ["2".toList]⟩, ⟨"x-b", []⟩], 0, none⟩
    let a : Result := ⟨[], [], some ⟨3, none, []⟩, [⟨"x-b", []⟩, ⟨"x-a", ["1".toList, "2".toList]⟩], 0, none⟩
    checkMetadata .unary e a = [] ∧ checkMetadata .serverStream e a ≠ [] := by decide

/-- Outside that situation headers are compared with headers and trailers with trailers. -/
theorem metadata_not_merged (st : StreamType) (e a : Result) (h : ¬ Mergeable st e)
    (he : NamesDistinct e.headers) (hh : NamesDistinct a.headers) (ht : NamesDistinct a.trailers) :
    checkMetadata st e a = [] ↔ Subsumed e.headers a.headers ∧ Subsumed e.trailers a.trailers := by
  rw [checkMetadata_nil_iff st e a he hh ht]
  simp [MetadataAgree, h]

/-! ### Deviation lemmas: the discrepancy is reported and names the position -/

/-- A payload whose bytes differ is named by its (1-based) index, at every index. -/
theorem flip_payload_byte (g : Int) (st : StreamType) (other : List Nat) (e a : Result) (i : Nat)
    (he : i < e.payloads.length) (ha : i < a.payloads.length)
    (hd : (a.payloads[i]).data ≠ (e.payloads[i]).data) :
    .payloadData (i + 1) ∈ assert g st other e a := by
  have := mem_checkPayloadsFrom_data g 0 e.payloads a.payloads i he ha hd
  simp only [Nat.zero_add] at this
  unfold assert checkPayloads
  simp only [List.mem_append]
  exact Or.inl (Or.inl (Or.inr (Or.inr this)))

/-- A dropped or inserted payload (any position) is named. -/
theorem payload_count (g : Int) (st : StreamType) (other : List Nat) (e a : Result)
    (h : a.payloads.length ≠ e.payloads.length) : .payloadCount ∈ assert g st other e a := by
  unfold assert checkPayloads
  simp [h]

/-- An error where none was expected, or none where one was expected. -/
theorem error_presence (g : Int) (st : StreamType) (other : List Nat) (e a : Result) :
    (e.error = none → a.error ≠ none → .unexpectedError ∈ assert g st other e a) ∧
    (e.error ≠ none → a.error = none → .missingError ∈ assert g st other e a) := by
  unfold assert
  constructor
  · intro h1 h2
    cases ha : a.error with
    | none => exact absurd ha h2
    | some x => simp [h1, checkError]
  · intro h1 h2
    cases he : e.error with
    | none => exact absurd he h1
    | some x => simp [h2, checkError]

/-- A code that is neither the expected nor another allowed one. -/
theorem change_code (g : Int) (st : StreamType) (other : List Nat) (e a : Result) (ee ae : Err)
    (h1 : e.error = some ee) (h2 : a.error = some ae) (hc : ee.code ≠ ae.code) (ho : ae.code ∉ other) :
    .code ∈ assert g st other e a := by
  unfold assert
  simp [h1, h2, checkError, hc, ho]

/-- A specified message that differs. -/
theorem change_message (g : Int) (st : StreamType) (other : List Nat) (e a : Result) (ee ae : Err) (m : String)
    (h1 : e.error = some ee) (h2 : a.error = some ae) (hm : ee.message = some m) (hd : m ≠ ae.message.getD "") :
    .message ∈ assert g st other e a := by
  unfold assert
  simp [h1, h2, checkError, hm, hd]

/-- A dropped or inserted error detail (any position). -/
theorem detail_count (g : Int) (st : StreamType) (other : List Nat) (e a : Result) (ee ae : Err)
    (h1 : e.error = some ee) (h2 : a.error = some ae) (hl : ee.details.length ≠ ae.details.length) :
    .detailCount ∈ assert g st other e a := by
  unfold assert
  simp [h1, h2, checkError, hl]

/-- An altered error detail is named by its index, at every index (two `RequestInfo` details are
compared field by field instead, see `detail_request_info`). -/
theorem alter_detail (g : Int) (st : StreamType) (other : List Nat) (e a : Result) (ee ae : Err) (i : Nat)
    (h1 : e.error = some ee) (h2 : a.error = some ae)
    (hi : i < ee.details.length) (hi' : i < ae.details.length) (hne : ee.details[i] ≠ ae.details[i])
    (hri : ¬ ((∃ r, ee.details[i] = .reqInfo r) ∧ (∃ r, ae.details[i] = .reqInfo r))) :
    .detail (i + 1) ∈ assert g st other e a := by
  have := mem_checkDetailsFrom g 0 ee.details ae.details i hi hi' hne hri
  simp only [Nat.zero_add] at this
  unfold assert
  simp only [h1, h2, checkError, List.mem_append]
  exact Or.inl (Or.inl (Or.inl (Or.inr this)))

/-- Two `RequestInfo` details at the same index are compared like the request information of a
first response: whatever `checkRequestInfo` names (headers, timeout, query parameters, echoed
requests) is recorded, at every index. -/
theorem detail_request_info (g : Int) (st : StreamType) (other : List Nat) (e a : Result) (ee ae : Err) (i : Nat)
    (h1 : e.error = some ee) (h2 : a.error = some ae)
    (hi : i < ee.details.length) (hi' : i < ae.details.length) (er ar : ReqInfo)
    (he : ee.details[i] = .reqInfo er) (ha : ae.details[i] = .reqInfo ar) (d : Discrepancy)
    (hd : d ∈ checkRequestInfo g er ar true) : d ∈ assert g st other e a := by
  have := mem_checkDetailsFrom_reqInfo g 0 ee.details ae.details i hi hi' er ar he ha d hd
  unfold assert
  simp only [h1, h2, checkError, List.mem_append]
  exact Or.inl (Or.inl (Or.inl (Or.inr this)))

/-- Swapping two payloads whose bytes differ is named at both positions. -/
theorem swap_payloads (g : Int) (st : StreamType) (other : List Nat) (e a : Result) (i j : Nat)
    (hi : i < e.payloads.length) (hj : j < e.payloads.length)
    (hi' : i < a.payloads.length) (hj' : j < a.payloads.length)
    (hsi : a.payloads[i] = e.payloads[j]) (hsj : a.payloads[j] = e.payloads[i])
    (hd : (e.payloads[i]).data ≠ (e.payloads[j]).data) :
    .payloadData (i + 1) ∈ assert g st other e a ∧ .payloadData (j + 1) ∈ assert g st other e a := by
  constructor
  · exact flip_payload_byte g st other e a i hi hi' (by rw [hsi]; exact fun h => hd h.symm)
  · exact flip_payload_byte g st other e a j hj hj' (by rw [hsj]; exact hd)

/-- An altered echoed request is named by its index, for the k-th request of the n-th payload. -/
theorem alter_request (g : Int) (st : StreamType) (other : List Nat) (e a : Result) (i k : Nat)
    (he : i < e.payloads.length) (ha : i < a.payloads.length)
    (hk : k < ((e.payloads[i]).reqInfo.getD .empty).requests.length)
    (hk' : k < ((a.payloads[i]).reqInfo.getD .empty).requests.length)
    (hd : ((e.payloads[i]).reqInfo.getD .empty).requests[k] ≠ ((a.payloads[i]).reqInfo.getD .empty).requests[k]) :
    .request (k + 1) ∈ assert g st other e a := by
  have hr := mem_checkRequests 1 _ _ k hk hk' hd
  rw [Nat.add_comm] at hr
  have hri : Discrepancy.request (k + 1) ∈
      checkRequestInfo g ((e.payloads[i]).reqInfo.getD .empty) ((a.payloads[i]).reqInfo.getD .empty) (0 + i == 0) := by
    unfold checkRequestInfo
    exact List.mem_append_right _ hr
  have := mem_checkPayloadsFrom_reqInfo g 0 e.payloads a.payloads i he ha _ hri
  unfold assert checkPayloads
  simp only [List.mem_append]
  exact Or.inl (Or.inl (Or.inr (Or.inr this)))

/-- A different number of echoed requests in the n-th payload. -/
theorem request_count (g : Int) (st : StreamType) (other : List Nat) (e a : Result) (i : Nat)
    (he : i < e.payloads.length) (ha : i < a.payloads.length)
    (hl : ((a.payloads[i]).reqInfo.getD .empty).requests.length ≠ ((e.payloads[i]).reqInfo.getD .empty).requests.length) :
    .requestCount ∈ assert g st other e a := by
  have hri : Discrepancy.requestCount ∈
      checkRequestInfo g ((e.payloads[i]).reqInfo.getD .empty) ((a.payloads[i]).reqInfo.getD .empty) (0 + i == 0) := by
    unfold checkRequestInfo
    simp [hl]
  have := mem_checkPayloadsFrom_reqInfo g 0 e.payloads a.payloads i he ha _ hri
  unfold assert checkPayloads
  simp only [List.mem_append]
  exact Or.inl (Or.inl (Or.inr (Or.inr this)))

/-- The echoed timeout of the first response outside the window, absent, or unexpected. -/
theorem timeout_outside (g : Int) (st : StreamType) (other : List Nat) (e a : Result)
    (he : 0 < e.payloads.length) (ha : 0 < a.payloads.length) (d : Discrepancy)
    (hd : d ∈ checkTimeout g ((e.payloads[0]).reqInfo.getD .empty).timeoutMs ((a.payloads[0]).reqInfo.getD .empty).timeoutMs) :
    d ∈ assert g st other e a := by
  have hri : d ∈ checkRequestInfo g ((e.payloads[0]).reqInfo.getD .empty) ((a.payloads[0]).reqInfo.getD .empty) (0 + 0 == 0) := by
    unfold checkRequestInfo
    simp only [Nat.add_zero, beq_self_eq_true, if_true, List.mem_append]
    exact Or.inl (Or.inl (Or.inl (Or.inr hd)))
  have := mem_checkPayloadsFrom_reqInfo g 0 e.payloads a.payloads 0 he ha _ hri
  unfold assert checkPayloads
  simp only [List.mem_append]
  exact Or.inl (Or.inl (Or.inr (Or.inr this)))

/-- A removed (or renamed) expected entry is named, for every entry of any header list. -/
theorem remove_header (w : What) (exp act : List Header) (h : Header) (hm : h ∈ exp)
    (hno : ∀ h' ∈ act, lower h'.name ≠ lower h.name) :
    .headerMissing w (lower h.name) ∈ checkHeaders w exp act :=
  mem_checkHeaders_missing w exp act h hm hno

/-- An entry whose values differ after canonicalisation (a changed, dropped, added or reordered
k-th value) is named, for every entry of any header list. -/
theorem alter_header_value (w : What) (exp act : List Header) (hd : NamesDistinct act)
    (h : Header) (hm : h ∈ exp) (h' : Header) (hm' : h' ∈ act) (hn : lower h'.name = lower h.name)
    (hc : canon h.values ≠ canon h'.values) :
    .headerValues w (lower h.name) ∈ checkHeaders w exp act :=
  mem_checkHeaders_values w exp act hd h hm h' hm' hn hc

/-- Response headers and trailers: outside the merged-metadata situation whatever `checkHeaders`
names is recorded. -/
theorem response_metadata_reported (g : Int) (st : StreamType) (other : List Nat) (e a : Result)
    (hnm : mergeable st e = false) (d : Discrepancy)
    (hd : d ∈ checkHeaders .responseHeaders e.headers a.headers ∨ d ∈ checkHeaders .responseTrailers e.trailers a.trailers) :
    d ∈ assert g st other e a := by
  unfold assert checkMetadata
  simp only [hnm, Bool.false_eq_true, if_false, List.mem_append]
  exact Or.inl (Or.inr hd)

/-- Request headers and query parameters echoed in the first response: whatever `checkHeaders`
names is recorded. -/
theorem request_metadata_reported (g : Int) (st : StreamType) (other : List Nat) (e a : Result)
    (he : 0 < e.payloads.length) (ha : 0 < a.payloads.length) (d : Discrepancy)
    (hd : d ∈ checkHeaders .requestHeaders ((e.payloads[0]).reqInfo.getD .empty).headers ((a.payloads[0]).reqInfo.getD .empty).headers) :
    d ∈ assert g st other e a := by
  have hri : d ∈ checkRequestInfo g ((e.payloads[0]).reqInfo.getD .empty) ((a.payloads[0]).reqInfo.getD .empty) (0 + 0 == 0) := by
    unfold checkRequestInfo
    simp only [Nat.add_zero, beq_self_eq_true, if_true, List.mem_append]
    exact Or.inl (Or.inl (Or.inl (Or.inl hd)))
  have := mem_checkPayloadsFrom_reqInfo g 0 e.payloads a.payloads 0 he ha _ hri
  unfold assert checkPayloads
  simp only [List.mem_append]
  exact Or.inl (Or.inl (Or.inr (Or.inr this)))

/-- Differing HTTP status codes. -/
theorem status_differs (g : Int) (st : StreamType) (other : List Nat) (e a : Result) (x y : Int)
    (h1 : e.httpStatus = some x) (h2 : a.httpStatus = some y) (hne : x ≠ y) :
    .status ∈ assert g st other e a := by
  unfold assert
  simp [h1, h2, checkStatus, hne]

/-- non-vacuity of the deviation lemmas: the third payload, the second detail, the second value of
a repeated trailer, the timeout just below the window -/
example :
    let p (b : UInt8) (t : Option Int) : Payload := ⟨[b], some ⟨[], t, [], []⟩⟩
    let e : Result := ⟨[], [p 1 (some 2000), p 2 none, p 3 none], some ⟨3, none, [.other ⟨"D", [1]⟩, .other ⟨"D", [2]⟩]⟩,
      [⟨"x-t", ["1".toList, "2".toList]⟩], 0, none⟩
    let a : Result := ⟨[], [p 1 (some 1499), p 2 none, p 4 none], some ⟨3, none, [.other ⟨"D", [1]⟩, .other ⟨"D", [9]⟩]⟩,
      [⟨"x-t", ["1".toList, "3".toList]⟩], 0, none⟩
    assert 500 .serverStream [] e a =
      [.detail 2, .timeoutRange, .payloadData 3, .headerValues .responseTrailers "x-t"] := by decide

/-! ### The path from the client runner to `assert` (`runTestCasesForServer`, per test case)

`AssertPath.deliver` is the loop body and the callback of `runTestCasesForServer`, statement by
statement; `Flags` are the arguments that select logging (`-vv`), tracing and the reference-mode
bookkeeping.  The correspondence run drives the real function with replies decoded from wire bytes
(slices with spare capacity) and compares verdict, discrepancies, log lines and side-band with
`deliver`, and the reply object after the run with a deep copy taken before. -/

open ConfModel.AssertPath in
/-- **The verdict does not depend on the logging / tracing / reference-mode flags**: for every
reply of the client runner, every expected result and any two settings of the flags. -/
theorem path_verdict_flag_independent (f f' : Flags) (g : Int) (st : StreamType) (other : List Nat)
    (e : Result) (reply : Reply) :
    (deliver f g st other e reply).verdict = (deliver f' g st other e reply).verdict := by
  cases reply <;> cases f <;> cases f' <;> rename_i l _ _ _ l' _ _ _ <;> cases l <;> cases l' <;> rfl

open ConfModel.AssertPath in
/-- A reported result reaches `assert` untouched: what is recorded is what `assert` says about the
result the client reported, whatever the flags and the feedback lines. -/
theorem path_response_is_assert (f : Flags) (g : Int) (st : StreamType) (other : List Nat)
    (e a : Result) (fb : List String) :
    (deliver f g st other e (.response a fb)).verdict = .asserted (assert g st other e a) := by
  cases f; rename_i l _ _ _; cases l <;> rfl

open ConfModel.AssertPath in
/-- The callback leaves the reply object as it found it (every statement that is handed the reply
returns it unchanged), for every reply and every setting of the flags. -/
theorem path_preserves_reply (f : Flags) (g : Int) (st : StreamType) (other : List Nat)
    (e : Result) (reply : Reply) : (deliver f g st other e reply).after = reply := by
  cases reply <;> cases f <;> rename_i l _ r _ <;> cases l <;> cases r <;> rfl

open ConfModel.AssertPath in
/-- **End to end**: under `WellFormed`, a test case whose client reported a result is recorded as
passed exactly when the reported result agrees with the expected one up to the documented
leniencies — in every logging / tracing / reference mode. -/
theorem path_passed_iff_agree (f : Flags) (g : Int) (st : StreamType) (other : List Nat)
    (e a : Result) (fb : List String) (hw : WellFormed e a) :
    (deliver f g st other e (.response a fb)).verdict.passed = true ↔ Agree g st other e a := by
  rw [path_response_is_assert, ← assert_nil_iff g st other e a hw]
  cases assert g st other e a <;> simp [Verdict.passed]

open ConfModel.AssertPath in
/-- non-vacuity: very verbose, traced, both reference modes; the pair of `assert_nil_iff`'s example
passes, and the same reply with the expected header reported as a trailer does not -/
example :
    let f : Flags := ⟨true, true, true, true⟩
    let e : Result := ⟨[⟨"X-A", ["1".toList, "2".toList]⟩], [⟨[1, 2], none⟩], none, [], 0, some 200⟩
    let a : Result := ⟨[⟨"x-a", ["1, 2".toList]⟩, ⟨"vary", []⟩, ⟨"Vary", []⟩], [⟨[1, 2], none⟩], none, [⟨"extra", []⟩], 3, none⟩
    let b : Result := ⟨[⟨"vary", []⟩, ⟨"Vary", []⟩, ⟨"z", []⟩], [⟨[1, 2], none⟩], none, [⟨"x-a", ["1, 2".toList]⟩], 3, none⟩
    (deliver f 500 .serverStream [] e (.response a ["fb"])).verdict.passed = true ∧
    (deliver f 500 .serverStream [] e (.response b ["fb"])).verdict
      = .asserted [.headerMissing .responseHeaders "x-a"] ∧
    (deliver f 500 .serverStream [] e (.response b ["fb"])).after = .response b ["fb"] := by decide

open ConfModel.AssertPath in
/-- No reply other than a reported result can make a test case pass. -/
theorem path_passed_only_response (f : Flags) (g : Int) (st : StreamType) (other : List Nat)
    (e : Result) (reply : Reply) (h : (deliver f g st other e reply).verdict.passed = true) :
    ∃ a fb, reply = .response a fb ∧ assert g st other e a = [] := by
  cases reply with
  | response a fb =>
    refine ⟨a, fb, rfl, ?_⟩
    rw [path_response_is_assert] at h
    cases hd : assert g st other e a with
    | nil => rfl
    | cons x xs => rw [hd] at h; simp [Verdict.passed] at h
  | _ => cases f; rename_i l _ _ _; cases l <;> simp [deliver, logSending, logReceived, record, feedback, Verdict.passed] at h

open ConfModel.AssertPath in
example : ∃ a fb, (AssertPath.Reply.response ⟨[], [], none, [], 0, none⟩ ["x"]) = .response a fb ∧
    assert 500 .unary [] ⟨[], [], none, [], 0, none⟩ a = [] := ⟨_, _, rfl, by decide⟩

open ConfModel.AssertPath in
/-- The log lines are a function of `logEach` and of whether a result was obtained only: nothing
is logged without `-vv`, and the flags other than `logEach` never change the log. -/
theorem path_log_only_logEach (f f' : Flags) (g : Int) (st : StreamType) (other : List Nat)
    (e : Result) (reply : Reply) (h : f.logEach = f'.logEach) :
    (deliver f g st other e reply).log = (deliver f' g st other e reply).log ∧
    (f.logEach = false → (deliver f g st other e reply).log = []) := by
  cases f; cases f'; simp only at h; subst h
  rename_i l _ _ _ _ _ _
  cases reply <;> cases l <;> simp [deliver, logSending, logReceived]

open ConfModel.AssertPath in
example : (deliver ⟨true, false, false, false⟩ 500 .unary [] default .neither).log = [.sending, .received] ∧
    (deliver ⟨true, false, false, false⟩ 500 .unary [] default .noResult).log = [.sending] := by decide

open ConfModel.AssertPath in
/-- A whole batch (the test cases of one server instance): the verdicts are independent of the flags
and every reply is left as it was. -/
theorem path_batch_flag_independent (f f' : Flags) (g : Int)
    (cases : List (StreamType × List Nat × Result × Reply)) :
    (deliverAll f g cases).map (·.verdict) = (deliverAll f' g cases).map (·.verdict) ∧
    (deliverAll f g cases).map (·.after) = cases.map (fun c => c.2.2.2) := by
  induction cases with
  | nil => exact ⟨rfl, rfl⟩
  | cons c rest ih =>
    obtain ⟨st, other, e, reply⟩ := c
    simp only [deliverAll, List.map_cons]
    rw [ih.1, ih.2, path_verdict_flag_independent f f', path_preserves_reply]
    exact ⟨rfl, rfl⟩

/-! ### What `assert` publishes: one `testResults` accumulator under a sequence of calls

`AssertSeq.run` is the accumulator under any sequence of `assert` / `failed` / `setOutcome` /
`failedToStart` / `failRemaining` / `recordSideband` calls with repeated names; `published` is what
`report` works on.  The correspondence run issues such sequences on one real `testResults` and
compares the stored outcome of every name and the names `report` lists as FAILED. -/

open ConfModel.AssertSeq in
/-- **The stored verdict of a name is that of its last comparison**: after any call sequence in
which the last call that stores an outcome for `n` is `assert n … e a` (before it anything; after it
anything that does not store for `n`, `failRemaining` and side-band messages included), the outcome
of `n` is what the Assert model says about that last pair — not a setup error, and failed exactly
with `assert`'s discrepancies. -/
theorem seq_published_last_assert (g : Int) (pre post : List Call) (n : String) (st : StreamType)
    (other : List Nat) (e a : Result) (hpost : ∀ c ∈ post, c.writes n = false) :
    get (run g (pre ++ .assert n st other e a :: post)).outcomes n = some (verdictOf (assert g st other e a)) := by
  unfold run
  rw [List.foldl_append, List.foldl_cons]
  apply foldl_keeps g n _ post _ hpost
  simp only [step]
  exact get_set_same _ _ _

open ConfModel.AssertSeq in
/-- … and that is what `report` shows: when no side-band message was recorded for `n`, `report`
lists `n` as FAILED exactly when the last comparison found a discrepancy. -/
theorem seq_report_last_assert (g : Int) (pre post : List Call) (n : String) (st : StreamType)
    (other : List Nat) (e a : Result) (hpost : ∀ c ∈ post, c.writes n = false)
    (hsb : ∀ c ∈ pre ++ post, c.isSidebandFor n = false) :
    listedFailed (run g (pre ++ .assert n st other e a :: post)) n = !(assert g st other e a).isEmpty ∧
    hasOutcome (run g (pre ++ .assert n st other e a :: post)) n = true := by
  have hnone : get (run g (pre ++ .assert n st other e a :: post)).sideband n = none := by
    unfold run
    apply foldl_sideband_none g n _ _ _ rfl
    intro c hc
    rcases List.mem_append.mp hc with h | h
    · exact hsb c (List.mem_append_left _ h)
    · rcases List.mem_cons.mp h with h | h
      · subst h; rfl
      · exact hsb c (List.mem_append_right _ h)
  have hp := seq_published_last_assert g pre post n st other e a hpost
  unfold listedFailed hasOutcome published
  rw [processSideband_other n _ _ hnone, hp]
  cases assert g st other e a <;> simp [verdictOf]

open ConfModel.AssertSeq in
/-- **End to end over call sequences**: under `WellFormed`, `report` does not list `n` as FAILED
exactly when the LAST reported result for `n` agrees with the expected one up to the documented
leniencies — whatever was compared or recorded for `n` (or any other name) before. -/
theorem seq_report_iff_agree (g : Int) (pre post : List Call) (n : String) (st : StreamType)
    (other : List Nat) (e a : Result) (hpost : ∀ c ∈ post, c.writes n = false)
    (hsb : ∀ c ∈ pre ++ post, c.isSidebandFor n = false) (hw : WellFormed e a) :
    listedFailed (run g (pre ++ .assert n st other e a :: post)) n = false ↔ Agree g st other e a := by
  rw [(seq_report_last_assert g pre post n st other e a hpost hsb).1, ← assert_nil_iff g st other e a hw]
  cases assert g st other e a <;> simp

open ConfModel.AssertSeq in
/-- non-vacuity: a conforming result, then a deviating one for the same name (third payload), a
`failRemaining` over the name and a side-band message for another name: listed as FAILED; and the
other order: not listed -/
example :
    let p (b : UInt8) : Payload := ⟨[b], none⟩
    let e : Result := ⟨[], [p 1, p 2, p 3], none, [], 0, none⟩
    let bad : Result := ⟨[], [p 1, p 2, p 4], none, [], 0, none⟩
    let post : List Call := [.remaining ["s/a", "s/b"], .sideband "s/b" "note", .failed "s/c"]
    (∀ c ∈ post, c.writes "s/a" = false) ∧
    listedFailed (run 500 ([.setup "s/a", .assert "s/a" .serverStream [] e e] ++ .assert "s/a" .serverStream [] e bad :: post)) "s/a" = true ∧
    get (run 500 ([.setup "s/a", .assert "s/a" .serverStream [] e e] ++ .assert "s/a" .serverStream [] e bad :: post)).outcomes "s/a"
      = some ⟨false, some (.discrepancies [.payloadData 3])⟩ ∧
    listedFailed (run 500 ([.assert "s/a" .serverStream [] e bad] ++ .assert "s/a" .serverStream [] e e :: post)) "s/a" = false ∧
    listedFailed (run 500 ([.assert "s/a" .serverStream [] e bad] ++ .assert "s/a" .serverStream [] e e :: post)) "s/b" = true := by
  decide

/-! ### The definition `assert` is given: the permutations of the library (`Model/AssertLib.lean`) -/

open ConfModel.AssertLib in
/-- **Copies preserve the verdict.** The copy of a test case that runs against a gRPC reference
implementation (`markCopy`: a clone whose name gets the marker) is judged exactly as its original,
for every reported result. -/
theorem copy_preserves_verdict (g : Int) (m : Marker) (d : Def) (a : Result) :
    verdictOf g (markCopy m d) a = verdictOf g d a := rfl

open ConfModel.AssertLib in
/-- Every object of `allPermutations` — the originals and the client / server / both copies —
carries the definition of one of the library's originals and is judged as that original. -/
theorem perm_verdict_of_original (g : Int) (ds : List Def) (c s : Bool) (p : Def)
    (hp : p ∈ allPermutations ds c s) :
    ∃ d ∈ ds, p.st = d.st ∧ p.other = d.other ∧ p.expected = d.expected ∧
      ∀ a, verdictOf g p a = verdictOf g d a := by
  have hcopy : ∀ m, p ∈ copies m ds → ∃ d ∈ ds, p.st = d.st ∧ p.other = d.other ∧ p.expected = d.expected ∧
      ∀ a, verdictOf g p a = verdictOf g d a := by
    intro m hm
    unfold copies at hm
    obtain ⟨d, hd, rfl⟩ := List.mem_map.mp hm
    exact ⟨d, (List.mem_filter.mp hd).1, rfl, rfl, rfl, fun _ => rfl⟩
  unfold allPermutations at hp
  simp only [List.mem_append] at hp
  rcases hp with ((hp | hp) | hp) | hp
  · exact ⟨p, hp, rfl, rfl, rfl, fun _ => rfl⟩
  · by_cases hc : c = true
    · rw [if_pos hc] at hp; exact hcopy _ hp
    · rw [if_neg hc] at hp; cases hp
  · by_cases hs : s = true
    · rw [if_pos hs] at hp; exact hcopy _ hp
    · rw [if_neg hs] at hp; cases hp
  · by_cases hb : (c && s) = true
    · rw [if_pos hb] at hp; exact hcopy _ hp
    · rw [if_neg hb] at hp; cases hp

open ConfModel.AssertLib in
/-- … hence, under `WellFormed`, a permutation passes iff the reported result `Agree`s with the
definition of the suite entry it was made from — with ITS list of alternative codes. -/
theorem perm_passes_iff_agree (g : Int) (ds : List Def) (c s : Bool) (p : Def) (a : Result)
    (hp : p ∈ allPermutations ds c s) (hw : ∀ d ∈ ds, WellFormed d.expected a) :
    ∃ d ∈ ds, (verdictOf g p a = [] ↔ Agree g d.st d.other d.expected a) := by
  obtain ⟨d, hd, _, _, _, hv⟩ := perm_verdict_of_original g ds c s p hp
  exact ⟨d, hd, by rw [hv a]; exact assert_nil_iff g d.st d.other d.expected a (hw d hd)⟩

open ConfModel.AssertLib in
/-- non-vacuity, and the witness that the definition matters: a case expecting `deadline_exceeded`
(4) that also allows `canceled` (1), eligible for both kinds of copy, answered with `canceled`:
all four permutations pass; the same copy WITHOUT its alternative codes reports the code. -/
example :
    let e : Result := ⟨[], [], some ⟨4, none, []⟩, [], 0, none⟩
    let a : Result := ⟨[], [], some ⟨1, none, []⟩, [], 0, none⟩
    let d : Def := ⟨"s/case", .unary, [1], e, true, true⟩
    (allPermutations [d] true true).length = 4 ∧
    (∀ p ∈ allPermutations [d] true true, verdictOf 500 p a = []) ∧
    WellFormed d.expected a ∧
    verdictOf 500 (dropOther (markCopy .server d)) a = [.code] ∧
    verdictOf 500 (dropOther (markCopy .server d)) a ≠ verdictOf 500 (markCopy .server d) a := by
  decide

end ConfModel.Props.C03
