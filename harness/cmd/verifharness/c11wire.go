package main

import (
	"encoding/json"
	"time"

	cc "connectrpc.com/conformance/internal/app/connectconformance"
	"connectrpc.com/conformance/internal/verifharness/gen"
)

// C11 op "wire": the real runTestCasesForServer fed with the BYTES its peers put on their stdout
// (see verif_export_c11wire.go), run in a child process so that the death of the runner is an
// observation.
//
//	wire  <VerifC11WireSpec>  ->  <VerifC11WireObs> | {"crashed": true, "how": …}

func init() {
	gen.RegisterOp("c11", "wire", func(_ *gen.Ctx, raw json.RawMessage) any {
		if c11InChild() {
			spec := gen.Into[cc.VerifC11WireSpec](raw)
			obs, frozen := c09Steady(5*time.Second, func() cc.VerifC11WireObs { return cc.VerifC11WireRun(spec) })
			obs.FrozenMs = frozen
			return obs
		}
		return c11ChildRun("c11", "wire", raw, 90*time.Second)
	})
}

func c11Be32(n uint32) []byte { return []byte{byte(n >> 24), byte(n >> 16), byte(n >> 8), byte(n)} }

// c11WirePrefixes: length prefixes around everything that matters for a reader with limit lim
// reading a well-formed body of bodyLen bytes: 0, the body length and its neighbours, the body length
// with one more bit set in each of the upper bytes (a reader that keeps only some of the 32 bits
// would take these for the body length), the limit and its neighbours, the other site's limit, the
// sign boundary of a 32-bit integer, the last values of the range, and one value for several first
// bytes >= 0x80.
func c11WirePrefixes(lim uint32, bodyLen uint32) []uint32 {
	ps := []uint32{
		0, 1, 3, bodyLen - 1, bodyLen, bodyLen + 1, 0xff, 0x100, 0xffff,
		0x10000 | bodyLen, 0x1000000 | bodyLen, 0x80000000 | bodyLen, 0xffff0000 | bodyLen, 0x100 + bodyLen,
		lim - 1, lim, lim + 1, lim + 2, 2 * lim, 1 << 20, 1<<20 + 1, 16 << 20, 16<<20 + 1, 17 << 20,
		0x7ffffffe, 0x7fffffff, 0x80000000, 0x80000001, 0x80000000 + lim, 0xfffffffe, 0xffffffff,
		0x81000000, 0x90000010, 0xc3a90000, 0xefbbbf4c, 0xfeff004c, 0xfffe4c00, 0xff000000, 0xffffff00,
	}
	seen := map[uint32]bool{}
	var out []uint32
	for _, p := range ps {
		if !seen[p] {
			seen[p] = true
			out = append(out, p)
		}
	}
	return out
}

// text a peer may print on stdout instead of a length-prefixed message
var c11WireTexts = [][]byte{
	[]byte("\xef\xbb\xbfListening on 127.0.0.1:8080\n"),       // UTF-8 byte-order mark
	[]byte("\xff\xfeL\x00i\x00s\x00t\x00e\x00n\x00"),           // UTF-16 LE with BOM
	[]byte("\xfe\xff\x00L\x00i\x00s\x00t"),                     // UTF-16 BE with BOM
	[]byte("\xc3\x9cberwachung gestartet\n"),                   // non-ASCII text
	[]byte("\xe2\x9c\x93 server ready\n"),                      //
	[]byte("Poop!"),                                            // ASCII text (a positive size above both limits)
	[]byte("\x1b[32mready\x1b[0m\n"),                           // colour codes
	[]byte("\n"), []byte("ok\n"), []byte("\x80"), []byte("\xff\xff\xff"), // fewer than four bytes
	[]byte("\x80\x00\x00\x00"), []byte("\xff\xff\xff\xff"),
}

// c11WireOracle: what decoding will say about the first frame of the server's stdout if it is
// complete and within the limit (otherwise the answer does not matter: "junk").
func c11WireOracle(s cc.VerifC11WireSpec, limit int) string {
	out := append(c09Unhex(s.ServerOut), make([]byte, s.ServerFill)...)
	if len(out) < 4 {
		return "junk"
	}
	p := int(out[0])<<24 | int(out[1])<<16 | int(out[2])<<8 | int(out[3])
	if p > limit || p > len(out)-4 {
		return "junk"
	}
	if p == 0 {
		return "empty"
	}
	return cc.VerifC11WireDecodes(out[4 : 4+p])
}

func c11WireScenarios(c *gen.Ctx) []any {
	var ins []any
	srvLimit, cliLimit := cc.VerifC11WireLimits()
	add := func(kind string, s cc.VerifC11WireSpec) {
		c.E.Count("kind:wire-" + kind)
		s.ServerBody = c11WireOracle(s, srvLimit)
		ins = append(ins, s)
	}
	plain, cert := cc.VerifC11WireServerBody(false), cc.VerifC11WireServerBody(true)
	okServer := gen.Hex(append(c11Be32(uint32(len(plain))), plain...))
	okServerCert := gen.Hex(append(c11Be32(uint32(len(cert))), cert...))
	pickN := func() int { return c.R.Range(1, 3) }
	chunks := []int{0, 0, 1, 3, 7}

	// S. the server's stdout: every prefix of the list x what follows it
	for _, p := range c11WirePrefixes(uint32(srvLimit), uint32(len(plain))) {
		follows := []string{"none", "body"}
		if p != 0 && p <= 64 {
			follows = append(follows, "zeros")
		}
		if !c.Thorough() && p > 0x100 && p != uint32(srvLimit)+1 && p>>31 == 0 {
			follows = []string{gen.Pick(c.R, follows)}
		}
		for _, f := range follows {
			s := cc.VerifC11WireSpec{Names: c11Names(pickN()), IsRef: c.R.Bool(), Client: "scripted", Chunk: gen.Pick(c.R, chunks), ServerBody: "junk"}
			out := c11Be32(p)
			switch f {
			case "body":
				body := plain
				if c.R.Chance(1, 3) {
					body = cert
					s.UseTLS = c.R.Bool()
				}
				out = append(out, body...)
			case "zeros":
				s.ServerFill = int(p)
			}
			s.ServerOut = gen.Hex(out)
			if s.Client == "scripted" && c.R.Chance(1, 3) {
				s.Client = "real"
				s.ClientValid = len(s.Names)
				s.ClientOut = gen.Hex(cc.VerifC11WireClientFrames(s.Names, s.ClientValid))
			}
			add("server-prefix", s)
		}
	}
	for _, text := range c11WireTexts {
		for _, isRef := range []bool{false, true} {
			add("server-text", cc.VerifC11WireSpec{Names: c11Names(pickN()), IsRef: isRef, Client: "scripted", Chunk: gen.Pick(c.R, chunks),
				ServerOut: gen.Hex(text), ServerBody: "junk"})
		}
	}
	// a correct response whose well-formed body is preceded by one of the byte-order marks: the
	// mark is the prefix
	add("server-text", cc.VerifC11WireSpec{Names: c11Names(2), Client: "scripted", ServerOut: gen.Hex([]byte("\xef\xbb\xbf")) + okServer, ServerBody: "junk"})

	// C. the client's stdout behind the real client runner: lead well-formed responses, then a
	// prefix of the list and what follows it
	for _, p := range c11WirePrefixes(uint32(cliLimit), 20) {
		n := pickN()
		leads := []int{c.R.Range(0, n)}
		if c.Thorough() || p>>31 == 1 || p == uint32(cliLimit)+1 {
			leads = []int{0, n - 1, n}
		}
		for _, lead := range leads {
			if lead < 0 {
				continue
			}
			s := cc.VerifC11WireSpec{Names: c11Names(n), IsRef: c.R.Bool(), Client: "real", Chunk: gen.Pick(c.R, chunks),
				ServerOut: okServer, ServerBody: "plain", ClientValid: lead}
			if c.R.Chance(1, 4) {
				s.ServerOut, s.ServerBody, s.UseTLS = okServerCert, "cert", true
			}
			out := append(cc.VerifC11WireClientFrames(s.Names, lead), c11Be32(p)...)
			switch {
			case p != 0 && p <= 64 && c.R.Bool():
				s.ClientFill = int(p) // a whole frame that cannot be decoded
			case c.R.Bool():
				s.ClientFill = c.R.Range(1, 9) // fewer bytes than announced (or more, for p < 9: then another frame of zeros)
				if p < 16 {
					s.ClientFill = 0
				}
			}
			s.ClientOut = gen.Hex(out)
			add("client-prefix", s)
		}
	}
	for _, text := range c11WireTexts {
		n := pickN()
		lead := c.R.Range(0, n)
		s := cc.VerifC11WireSpec{Names: c11Names(n), IsRef: c.R.Bool(), Client: "real", Chunk: gen.Pick(c.R, chunks),
			ServerOut: okServer, ServerBody: "plain", ClientValid: lead}
		s.ClientOut = gen.Hex(append(cc.VerifC11WireClientFrames(s.Names, lead), text...))
		add("client-text", s)
	}
	// the client's stdout simply ends after lead answers
	for n := 1; n <= 3; n++ {
		for lead := 0; lead <= n; lead++ {
			add("client-ends", cc.VerifC11WireSpec{Names: c11Names(n), IsRef: lead%2 == 0, Client: "real", Chunk: gen.Pick(c.R, chunks),
				ServerOut: okServer, ServerBody: "plain", ClientValid: lead, ClientOut: gen.Hex(cc.VerifC11WireClientFrames(c11Names(n), lead))})
		}
	}

	// R. random first bytes: any byte value as the first byte of the server's / the client's stdout
	nRand := 40
	if c.Thorough() {
		nRand = 600
	}
	for i := 0; i < nRand; i++ {
		first := byte(c.R.Intn(256))
		if c.R.Chance(2, 3) {
			first |= 0x80
		}
		garbage := append([]byte{first}, c.R.Bytes(c.R.Range(0, 12))...)
		n := pickN()
		if c.R.Bool() {
			add("random-server", cc.VerifC11WireSpec{Names: c11Names(n), IsRef: c.R.Bool(), Client: "scripted", Chunk: gen.Pick(c.R, chunks),
				ServerOut: gen.Hex(garbage), ServerBody: "junk"})
		} else {
			lead := c.R.Range(0, n)
			if len(garbage) >= 4 && garbage[0] == 0 && garbage[1] == 0 {
				garbage[1] = 0x40 // keep the announced size above what follows: the frame is never complete
			}
			add("random-client", cc.VerifC11WireSpec{Names: c11Names(n), IsRef: c.R.Bool(), Client: "real", Chunk: gen.Pick(c.R, chunks),
				ServerOut: okServer, ServerBody: "plain", ClientValid: lead,
				ClientOut: gen.Hex(append(cc.VerifC11WireClientFrames(c11Names(n), lead), garbage...))})
		}
	}
	return ins
}
