/-
C15 layer 2 — streams: model of `tracingHTTP2Conn.handleFrame`, `getStreamLocked`,
`newStreamLocked`, `receiveResponseLocked`, `closeStreamLocked`, `setMaxStreamIDLocked`,
`cancelAll`, and of `Read`/`Write`/`Close` gluing the three layers together
(internal/tracer/http2.go).  The model is of the repaired code:
  F18a  a stream ended by the peer before response headers still gets its ResponseBodyEnd;
  F18c  `responseTracer.emitUnfinished` is only called once the tracer is bound to a builder;
  F18d  response trailers of a stream whose builder ignored the response (no test name) are skipped.
Layer 2 is a transducer: it consumes decoded frames and emits the operations it performs on
the retry collector (layer 3), tagged with the stream id they originate from.
-/
import ConfModel.Model.H2Frame
import ConfModel.Model.H2Data
import ConfModel.Model.H2Retry
namespace ConfModel.H2

/-! ### header helpers (`makeHeaders`, `http.Header.Get`, `propertiesFromHeaders`) -/

def isPseudo (n : String) : Bool := n.startsWith ":"

/-- `makeHeaders`: pseudo-headers dropped -/
def regular (f : Fields) : Fields := f.filter (fun p => !isPseudo p.1)

/-- `http.Header.Get` on `makeHeaders(frame)` (field names are case-insensitive) -/
def getHeader (f : Fields) (name : String) : String :=
  match (regular f).find? (fun p => p.1.toLower == name) with
  | some p => p.2
  | none => ""

/-- `getPseudoHeader` -/
def getPseudo (f : Fields) (name : String) : String :=
  match f.find? (fun p => p.1 == name) with
  | some p => p.2
  | none => ""

/-- `GetDecompressor` restricted to what the C15 generator negotiates -/
def decOf (enc : String) : DecKind :=
  if enc.toLower == "" || enc.toLower == "identity" then .identity else .broken

/-- `propertiesFromHeaders` -/
def propsOf (f : Fields) : Bool × DecKind :=
  let ct := (getHeader f "content-type").toLower
  if getHeader f "content-encoding" != "" then (false, .broken)
  else if ct.startsWith "application/connect" then (true, decOf (getHeader f "connect-content-encoding"))
  else if ct.startsWith "application/grpc" then (true, decOf (getHeader f "grpc-encoding"))
  else (false, .broken)

def testNameHeader : String := "x-test-case-name"

/-! ### streams -/

structure Stream where
  builder : Builder
  reqCfg : DCfg
  reqDT : DSt
  gotResponse : Bool       -- also: responseTracer.builder != nil
  respCfg : DCfg
  respDT : DSt
deriving DecidableEq, Repr, Inhabited

def reqEv : DEv → Ev
  | .data e l => .reqData e l 0
  | .eos c => .respEos c
def respEv : DEv → Ev
  | .data e l => .respData e l 0
  | .eos c => .respEos c

def Stream.addEvs (st : Stream) (evs : List Ev) : Stream × List Trace :=
  let r := st.builder.addAll evs
  ({ st with builder := r.1 }, r.2)

/-- `stream.requestTracer.emitUnfinished()` -/
def Stream.flushReq (st : Stream) : Stream × List Trace :=
  let r := dataFlush st.reqDT
  { st with reqDT := r.1 }.addEvs (r.2.map reqEv)

/-- `stream.responseTracer.emitUnfinished()`, guarded by `responseTracer.builder != nil` -/
def Stream.flushResp (st : Stream) : Stream × List Trace :=
  if st.gotResponse then
    let r := dataFlush st.respDT
    { st with respDT := r.1 }.addEvs (r.2.map respEv)
  else (st, [])

/-- `newStreamLocked` (without the table insertion) -/
def newStream (fields : Fields) : Stream :=
  let p := propsOf fields
  { builder := { trace := { Trace.empty with name := getHeader fields testNameHeader, req := fields, events := [.reqStart] },
                 reqCount := 0, respCount := 0 },
    reqCfg := { isReq := true, isStream := p.1, dec := p.2 },
    reqDT := DSt.init,
    gotResponse := false,
    respCfg := { isReq := false, isStream := false, dec := .broken },
    respDT := DSt.init }

/-- `receiveResponseLocked` -/
def Stream.receiveResponse (st : Stream) (fields : Fields) : Stream × List Trace :=
  let p := propsOf fields
  { st with gotResponse := true, respCfg := { isReq := false, isStream := p.1, dec := p.2 } }.addEvs [.respStart fields]

/-- the event part of `closeStreamLocked` -/
def Stream.close (st : Stream) (isReq : Bool) (err : Err) : Stream × List Trace :=
  if isReq then
    let r1 := st.flushReq
    let r2 := r1.1.addEvs [.reqEnd err]
    (r2.1, r1.2 ++ r2.2)
  else
    let r1 := st.flushReq
    let r2 := r1.1.flushResp
    let r3 := r2.1.addEvs [.respEnd err]
    (r3.1, r1.2 ++ r2.2 ++ r3.2)

/-- what `setMaxStreamIDLocked` and the server side of `cancelAll` do to a stream -/
def Stream.abort (st : Stream) (err : Err) : Stream × List Trace := st.close false err

/-- the client side of `cancelAll` -/
def Stream.cancelClient (st : Stream) (err : Err) : Stream × List Trace :=
  let r1 := st.flushReq
  let r2 := r1.1.addEvs [.reqEnd err, .canceled]
  (r2.1, r1.2 ++ r2.2)

/-! ### stream table -/

abbrev Tbl := List (Nat × Stream)

def tGet (id : Nat) : Tbl → Option Stream
  | [] => none
  | p :: t => if p.1 = id then some p.2 else tGet id t

def tDel (id : Nat) (t : Tbl) : Tbl := t.filter (fun p => p.1 != id)

def tSet (id : Nat) (st : Stream) (t : Tbl) : Tbl := (id, st) :: tDel id t

structure L2 where
  isServer : Bool
  streams : Tbl
  maxId : Nat
deriving DecidableEq, Repr, Inhabited

/-- operations on the retry collector, tagged with the originating stream -/
abbrev Ops := List (Nat × COp)

def completes (ts : List Trace) : List COp := ts.map COp.complete

def tag (id : Nat) (ops : List COp) : Ops := ops.map (fun o => (id, o))

/-- `closeStreamLocked`, seen from the stream: the new table entry (`none` = deleted) and the
collector operations -/
def closeLocal (st : Stream) (isReq : Bool) (err : Err) : Option Stream × List COp :=
  let r := st.close isReq err
  (if !isReq || err != .none then none else some r.1, completes r.2)

def frameSid : Frame → Option Nat
  | .headers id _ _ => some id
  | .data id _ _ => some id
  | .rst id _ => some id
  | _ => none

/-- HEADERS on an existing stream: response headers, request trailers or response trailers -/
def headersUpdate (st : Stream) (isReq : Bool) (fields : Fields) : Stream × List Trace :=
  if !isReq && !st.gotResponse then st.receiveResponse fields
  else if isReq then
    ({ st with builder := { st.builder with trace := { st.builder.trace with reqTrailers := some (regular fields) } } }, [])
  else if st.builder.trace.resp.isSome then
    ({ st with builder := { st.builder with trace := { st.builder.trace with respTrailers := some (regular fields) } } }, [])
  else (st, [])

/-- DATA on an existing stream: the payload goes through the direction's `dataTracer` -/
def dataUpdate (st : Stream) (isReq : Bool) (payload : Bytes) : Stream × List Trace :=
  if isReq then
    let d := dataTrace st.reqCfg st.reqDT payload
    { st with reqDT := d.1 }.addEvs (d.2.map reqEv)
  else
    let d := dataTrace st.respCfg st.respDT payload
    { st with respDT := d.1 }.addEvs (d.2.map respEv)

/-- `if frame.StreamEnded() { closeStreamLocked(…, nil) }` -/
def finishStep (r0 : Stream × List Trace) (es isReq : Bool) : Option Stream × List COp :=
  if es then
    let r2 := closeLocal r0.1 isReq .none
    (r2.1, completes r0.2 ++ r2.2)
  else (some r0.1, completes r0.2)

/-- What a HEADERS / DATA / RST_STREAM frame for stream `id` does to that stream's table
entry `cur` (`none` = no such stream): the branches of `handleFrame` with `getStreamLocked`,
`newStreamLocked`, `receiveResponseLocked`, `closeStreamLocked`.  Nothing but the entry of
`id` (and `maxStreamID`, read only) is involved. -/
def streamStep (maxId : Nat) (isReq : Bool) (id : Nat) (cur : Option Stream) : Frame → Option Stream × List COp
  | .headers _ fields es =>
    match cur with
    | some st => finishStep (headersUpdate st isReq fields) es isReq
    | none =>
      if !isReq then (none, [])
      else if maxId != 0 && id > maxId then (none, [])   -- stream ID too high; ignore
      else
        let st := newStream fields
        let r := finishStep (st, []) es isReq
        (r.1, COp.newAttempt st.builder.trace.name :: r.2)
  | .data _ payload es =>
    match cur with
    | none => (none, [])
    | some st => finishStep (dataUpdate st isReq payload) es isReq
  | .rst _ code =>
    match cur with
    | none => (none, [])
    | some st => closeLocal st isReq (.stream id code)
  | _ => (cur, [])

def tPut (id : Nat) : Option Stream → Tbl → Tbl
  | none, t => tDel id t
  | some st, t => tSet id st t

/-- `setMaxStreamIDLocked` -/
def setMax (c : L2) (last : Nat) (err : Err) : L2 × Ops :=
  let gone := c.streams.filter (fun p => p.1 > last)
  ({ c with maxId := last, streams := c.streams.filter (fun p => !(p.1 > last)) },
   gone.flatMap (fun p => tag p.1 (completes (p.2.abort err).2)))

/-- `handleFrame` -/
def handleFrame (c : L2) (isReq : Bool) (f : Frame) : L2 × Ops :=
  match f with
  | .goaway last code => setMax c last (.conn code)
  | .other => (c, [])
  | f =>
    match frameSid f with
    | some id =>
      let r := streamStep c.maxId isReq id (tGet id c.streams) f
      ({ c with streams := tPut id r.1 c.streams }, tag id r.2)
    | none => (c, [])

def handleFrames (c : L2) (isReq : Bool) : List Frame → L2 × Ops
  | [] => (c, [])
  | f :: fs =>
    let r := handleFrame c isReq f
    let r2 := handleFrames r.1 isReq fs
    (r2.1, r.2 ++ r2.2)

/-- all frames of a connection in the order the tracer handles them, each with its direction -/
def runL2 (c : L2) : List (Bool × Frame) → L2 × Ops
  | [] => (c, [])
  | df :: l =>
    let r := handleFrame c df.1 df.2
    let r2 := runL2 r.1 l
    (r2.1, r.2 ++ r2.2)

/-- the collector operations that originate from stream `i` -/
def opsFor (i : Nat) (ops : Ops) : List COp := (ops.filter (fun o => o.1 == i)).map (·.2)

/-- what there is to know about stream `i` in the connection state -/
structure View where
  cur : Option Stream
  maxId : Nat
deriving DecidableEq, Repr, Inhabited

def view (i : Nat) (c : L2) : View := { cur := tGet i c.streams, maxId := c.maxId }

/-- does a frame concern stream `i` (GOAWAY concerns every stream) -/
def concernsStream (i : Nat) : Frame → Bool
  | .goaway _ _ => true
  | f => frameSid f == some i

/-- the tracer as seen by one stream: what a frame does to the view of stream `i` -/
def viewStep (i : Nat) (v : View) (isReq : Bool) (f : Frame) : View × List COp :=
  match f with
  | .goaway last code =>
    ({ cur := if i > last then none else v.cur, maxId := last },
     match v.cur with
     | some st => if i > last then completes (st.abort (.conn code)).2 else []
     | none => [])
  | f =>
    if frameSid f = some i then
      let r := streamStep v.maxId isReq i v.cur f
      ({ cur := r.1, maxId := v.maxId }, r.2)
    else (v, [])

def runView (i : Nat) (v : View) : List (Bool × Frame) → View × List COp
  | [] => (v, [])
  | df :: l =>
    let r := viewStep i v df.1 df.2
    let r2 := runView i r.1 l
    (r2.1, r.2 ++ r2.2)

/-- `cancelAll` (the stream part; `collector.cancel()` follows) -/
def cancelAll (c : L2) (err : Err) : L2 × Ops :=
  ({ c with streams := [] },
   c.streams.flatMap (fun p => tag p.1 (completes (if c.isServer then p.2.abort err else p.2.cancelClient err).2))
     ++ [(0, COp.cancel)])

/-! ### what is observed of a delivered trace (canonical form shared with the harness) -/

/-- `http.Header` built by `makeHeaders`, canonical: keys lower-cased and sorted, values in order -/
def insertSorted (k : String) : List String → List String
  | [] => [k]
  | x :: xs => if k < x then k :: x :: xs else if k == x then x :: xs else x :: insertSorted k xs

def groupHeaders (f : Fields) : List (String × List String) :=
  let r := regular f
  let keys := r.foldl (fun acc p => insertSorted p.1.toLower acc) []
  keys.map (fun k => (k, (r.filter (fun p => p.1.toLower == k)).map (·.2)))

/-- `makeResponse`: status code (500 if absent or not a number) -/
def statusOf (f : Fields) : Nat :=
  let s := getPseudo f ":status"
  if s.isEmpty then 500 else
  if s.all Char.isDigit then s.toNat?.getD 500 else 500

/-- `makeRequest`: path / query split at the first `?` (`strings.Contains`, `strings.SplitN(path, "?", 2)`),
`ForceQuery` = there is a `?` with nothing behind it -/
def pathOf (f : Fields) : String × String × Bool :=
  let p := getPseudo f ":path"
  let l := p.toList
  if l.contains '?' then
    let q := (l.dropWhile (fun c => c != '?')).drop 1
    (String.ofList (l.takeWhile (fun c => c != '?')), String.ofList q, q.isEmpty)
  else (p, "", false)

inductive OEv
  | reqStart
  | reqData (env : Option Env) (len idx : Nat)
  | reqEnd (err : Err)
  | respStart (status : Nat)
  | respData (env : Option Env) (len idx : Nat)
  | respEos (content : Bytes)
  | respEnd (err : Err)
  | canceled
deriving DecidableEq, Repr, Inhabited

def Ev.obs : Ev → OEv
  | .reqStart => .reqStart
  | .reqData e l i => .reqData e l i
  | .reqEnd e => .reqEnd e
  | .respStart f => .respStart (statusOf f)
  | .respData e l i => .respData e l i
  | .respEos c => .respEos c
  | .respEnd e => .respEnd e
  | .canceled => .canceled

/-- the observable content of a trace handed to the collector -/
structure Obs where
  name : String
  method : String
  scheme : String
  authority : String
  path : String
  query : String
  forceQuery : Bool
  headers : List (String × List String)
  hasResp : Bool
  status : Nat
  respHeaders : List (String × List String)
  respTrailers : List (String × List String)
  err : Err
  events : List OEv
deriving DecidableEq, Repr, Inhabited

def Trace.obs (t : Trace) : Obs :=
  { name := t.name,
    method := getPseudo t.req ":method", scheme := getPseudo t.req ":scheme", authority := getPseudo t.req ":authority",
    path := (pathOf t.req).1, query := (pathOf t.req).2.1, forceQuery := (pathOf t.req).2.2,
    headers := groupHeaders t.req,
    hasResp := t.resp.isSome,
    status := match t.resp with | some f => statusOf f | none => 0,
    respHeaders := match t.resp with | some f => groupHeaders f | none => [],
    respTrailers := match t.respTrailers with | some f => groupHeaders f | none => [],
    err := t.err,
    events := t.events.map Ev.obs }

/-! ### the wrapped connection -/

structure Conn (σ : Type) where
  l2 : L2
  coll : Coll
  rd : FSt σ       -- readTracer
  wr : FSt σ       -- writeTracer

def Conn.init {σ : Type} (isServer : Bool) (hpR hpW : σ) : Conn σ :=
  { l2 := { isServer := isServer, streams := [], maxId := 0 }, coll := Coll.init,
    rd := FSt.init isServer hpR, wr := FSt.init (!isServer) hpW }

/-- what the inner connection's call returned besides the bytes / the byte count: nothing, or an
error of one of the three kinds the code tells apart.  Any of them may accompany any number of
bytes (`io.Reader`: "n > 0 bytes and a non-nil error" is a legal result of one call). -/
inductive IOErr
  | ok
  | eof                         -- io.EOF (not a net.Error)
  | timeout (tag : String)      -- net.Error with Timeout() = true
  | fail (tag : String)         -- any other error
deriving DecidableEq, Repr, Inhabited

/-- One call on the wrapped connection with the result of the inner connection's call.
`read data err`: the inner `Read` returned `n = data.length` bytes (`data = buf[:n]`, possibly
empty) *and* `err` (possibly none) in the same call.  `write data n err`: `Write(data)` was
called and the inner `Write` returned `(n, err)` with `n ≤ data.length` (a short write when
`n < data.length`). -/
inductive Call
  | read (data : Bytes) (err : IOErr)
  | write (data : Bytes) (n : Nat) (err : IOErr)
  | close (err : IOErr)
  | timers                                   -- retryWait elapses: every pending retry timer fires
deriving DecidableEq, Repr, Inhabited

def applyOps (c : Coll) (ops : Ops) : Coll := c.run (ops.map (·.2))

/-! ### layers 2 + 3 on the sequence of wire events -/

/-- what happens on the wire / to the connection, in the order the tracer gets to see it -/
inductive WEv
  | frame (isReq : Bool) (f : Frame)
  | lost (err : Err)       -- connection ended: failed Read/Write, or Close
  | timers                 -- retryWait elapsed
deriving DecidableEq, Repr, Inhabited

/-- stream table and retry collector on one wire event: a decoded frame goes through
`handleFrame`, the end of the connection through `cancelAll`, `retryWait` elapsing fires every
pending retry timer -/
def wstep (s : L2 × Coll) : WEv → L2 × Coll
  | .frame isReq f =>
    let r := handleFrame s.1 isReq f
    (r.1, applyOps s.2 r.2)
  | .lost err =>
    let r := cancelAll s.1 err
    (r.1, applyOps s.2 r.2)
  | .timers => (s.1, s.2.run (s.2.waiting.map (fun p => COp.timesUp p.1)))

def runW (s : L2 × Coll) (ws : List WEv) : L2 × Coll := ws.foldl wstep s

variable {σ : Type}

def Conn.cancelAll (c : Conn σ) (err : Err) : Conn σ :=
  let r := ConfModel.H2.cancelAll c.l2 err
  { c with l2 := r.1, coll := applyOps c.coll r.2 }

/-- One call on the wrapped connection; `decR`/`decW` are the frame decoders of the two directions.
`Read`: `n, err = c.Conn.Read(data); c.readTracer.trace(data[:n])` comes first, whatever `err`
is — the tracer is fed exactly the bytes the caller receives; then `err != nil`: a timeout is
ignored, anything else (`io.EOF` included) is `cancelAll(err)`.
`Write`: `c.writeTracer.trace(data)` comes first, before the inner `Write` — the whole argument,
whatever `(n, err)` the inner connection then returns; then `err != nil` (timeouts included) is
`cancelAll(err)`; a short count without an error changes nothing. -/
def Conn.step (decR decW : Bytes → σ → Option (Frame × σ)) (c : Conn σ) : Call → Conn σ
  | .read data err =>
    let t := frameTrace decR c.rd data
    let r := handleFrames c.l2 c.rd.isReq t.2
    let c1 : Conn σ := { c with rd := t.1, l2 := r.1, coll := applyOps c.coll r.2 }
    match err with
    | .ok => c1
    | .timeout _ => c1
    | .eof => c1.cancelAll (.io "EOF")
    | .fail tag => c1.cancelAll (.io tag)
  | .write data _ err =>
    let t := frameTrace decW c.wr data
    let r := handleFrames c.l2 c.wr.isReq t.2
    let c1 : Conn σ := { c with wr := t.1, l2 := r.1, coll := applyOps c.coll r.2 }
    match err with
    | .ok => c1
    | .eof => c1.cancelAll (.io "EOF")
    | .timeout tag => c1.cancelAll (.io tag)
    | .fail tag => c1.cancelAll (.io tag)
  | .close err =>
    match err with
    | .ok => c.cancelAll (.closed "")
    | .eof => c.cancelAll (.closed "EOF")
    | .timeout tag => c.cancelAll (.closed tag)
    | .fail tag => c.cancelAll (.closed tag)
  | .timers => { c with coll := c.coll.run (c.coll.waiting.map (fun p => COp.timesUp p.1)) }

/-- the connection's end as the tracer sees it after a call of the inner connection -/
def lostAfterRead : IOErr → List WEv
  | .ok => []
  | .timeout _ => []
  | .eof => [.lost (.io "EOF")]
  | .fail tag => [.lost (.io tag)]
def lostAfterWrite : IOErr → List WEv
  | .ok => []
  | .eof => [.lost (.io "EOF")]
  | .timeout tag => [.lost (.io tag)]
  | .fail tag => [.lost (.io tag)]
def closeErr : IOErr → Err
  | .ok => .closed ""
  | .eof => .closed "EOF"
  | .timeout tag => .closed tag
  | .fail tag => .closed tag

/-- the wire events one call gives rise to: the frames that layer 1 completes with the bytes
of this call (in order, tagged with the direction), then possibly the loss of the connection -/
def Conn.callEvents (decR decW : Bytes → σ → Option (Frame × σ)) (c : Conn σ) : Call → List WEv
  | .read data err => (frameTrace decR c.rd data).2.map (WEv.frame c.rd.isReq) ++ lostAfterRead err
  | .write data _ err => (frameTrace decW c.wr data).2.map (WEv.frame c.wr.isReq) ++ lostAfterWrite err
  | .close err => [.lost (closeErr err)]
  | .timers => [.timers]

/-- the wire events of a sequence of calls (`Props.C15.conn_run_eq_runW`: running the calls is
running layers 2 + 3 on these events) -/
def Conn.wireEvents (decR decW : Bytes → σ → Option (Frame × σ)) (c : Conn σ) : List Call → List WEv
  | [] => []
  | call :: calls => c.callEvents decR decW call ++ Conn.wireEvents decR decW (c.step decR decW call) calls

def Conn.run (decR decW : Bytes → σ → Option (Frame × σ)) (c : Conn σ) (calls : List Call) : Conn σ :=
  calls.foldl (Conn.step decR decW) c

/-- What the caller of `Read`/`Write`/`Close` gets back: the inner connection's result,
unchanged (the tracer only looks at `data[:n]`). -/
def Conn.result (inner : Nat × IOErr × Bytes) : Nat × IOErr × Bytes := inner

/-- the inner connection's result of a call: (count, error, bytes placed in the caller's buffer) -/
def Call.inner : Call → Nat × IOErr × Bytes
  | .read data err => (data.length, err, data)
  | .write _ n err => (n, err, [])
  | .close err => (0, err, [])
  | .timers => (0, .ok, [])

/-- the bytes a call hands to the frame tracer of its direction: for `Read` the `n` bytes the
inner connection delivered, for `Write` the whole argument -/
def Call.traced : Call → Bytes
  | .read data _ => data
  | .write data _ _ => data
  | _ => []

end ConfModel.H2
