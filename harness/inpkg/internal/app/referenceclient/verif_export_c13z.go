//go:build verif

package referenceclient

import (
	"context"
	"io"
	"net/http"
)

// VerifC13Response is the answer of an (in-memory) server to one request.
type VerifC13Response struct {
	StatusCode int
	Header     http.Header
	Trailer    http.Header
	Body       []byte
	// Chunk: the body is delivered in reads of at most this many bytes (0: as large as the caller asks)
	Chunk int
}

type verifC13RoundTripper func(*http.Request) (*http.Response, error)

func (f verifC13RoundTripper) RoundTrip(req *http.Request) (*http.Response, error) { return f(req) }

type verifC13Body struct {
	data  []byte
	chunk int
}

func (b *verifC13Body) Read(p []byte) (int, error) {
	if len(b.data) == 0 {
		return 0, io.EOF
	}
	n := len(p)
	if b.chunk > 0 && n > b.chunk {
		n = b.chunk
	}
	if n > len(b.data) {
		n = len(b.data)
	}
	copy(p, b.data[:n])
	b.data = b.data[n:]
	return n, nil
}

func (b *verifC13Body) Close() error { return nil }

// VerifC13Exchange performs one complete HTTP exchange the way the reference client does:
// the request context is prepared with withWireCapture, the round trip goes through
// newWireCaptureTransport (tracer.TracingRoundTripper + wireReader) on top of a transport
// that answers with r, the response body is read to its end and closed, and then
// examineWireDetails inspects what the tracer and the wire reader captured.
func VerifC13Exchange(r VerifC13Response) (statusCode int, ok bool, msgs []string, err error) {
	base := verifC13RoundTripper(func(req *http.Request) (*http.Response, error) {
		return &http.Response{
			Status:     http.StatusText(r.StatusCode),
			StatusCode: r.StatusCode,
			Proto:      "HTTP/2.0", ProtoMajor: 2,
			Header:        r.Header.Clone(),
			Trailer:       r.Trailer.Clone(),
			Body:          &verifC13Body{data: append([]byte(nil), r.Body...), chunk: r.Chunk},
			ContentLength: -1,
			Request:       req,
		}, nil
	})
	ctx := withWireCapture(context.Background())
	req, err := http.NewRequestWithContext(ctx, http.MethodPost,
		"http://verif.invalid/connectrpc.conformance.v1.ConformanceService/Unary", http.NoBody)
	if err != nil {
		return 0, false, nil, err
	}
	req.Header.Set("X-Test-Case-Name", "verif/c13")
	resp, err := newWireCaptureTransport(base, nil).RoundTrip(req)
	if err != nil {
		return 0, false, nil, err
	}
	if _, err := io.Copy(io.Discard, resp.Body); err != nil {
		return 0, false, nil, err
	}
	_ = resp.Body.Close()
	p := &verifC13Printer{}
	statusCode, ok = examineWireDetails(ctx, p)
	return statusCode, ok, p.take(), nil
}

// VerifC13Capture drives the real wireReader over a body delivered in the given chunk sizes
// (cyclically; 0 = as much as the caller asks) with a caller that reads bufSize bytes at a time:
// what the caller received and what the wrapper's buffer captured.
func VerifC13Capture(body []byte, chunks []int, bufSize int) (received, captured []byte) {
	ctx := withWireCapture(context.Background())
	wrapper, _ := ctx.Value(wireCtxKey{}).(*wireWrapper)
	src := &verifC13CycleBody{data: append([]byte(nil), body...), chunks: chunks}
	rd := &wireReader{body: src, wrapper: wrapper}
	buf := make([]byte, bufSize)
	for {
		n, err := rd.Read(buf)
		received = append(received, buf[:n]...)
		if err != nil {
			break
		}
	}
	_ = rd.Close()
	return received, append([]byte(nil), wrapper.buf.Bytes()...)
}

type verifC13CycleBody struct {
	data   []byte
	chunks []int
	i      int
}

func (b *verifC13CycleBody) Read(p []byte) (int, error) {
	if len(b.data) == 0 {
		return 0, io.EOF
	}
	n := len(p)
	if len(b.chunks) > 0 {
		if c := b.chunks[b.i%len(b.chunks)]; c > 0 && n > c {
			n = c
		}
		b.i++
	}
	if n > len(b.data) {
		n = len(b.data)
	}
	copy(p, b.data[:n])
	b.data = b.data[n:]
	if len(b.data) == 0 {
		return n, io.EOF // last bytes together with EOF, as many readers do
	}
	return n, nil
}

func (b *verifC13CycleBody) Close() error { return nil }
