import ConfModel.Model.Run
namespace ConfModel.Run

theorem filter_length_set {α} (p : α → Bool) (l : List α) (i : Nat) (a b : α) (h : l[i]? = some a) :
    ((l.set i b).filter p).length + (if p a then 1 else 0) = (l.filter p).length + (if p b then 1 else 0) := by
  induction l generalizing i with
  | nil => simp at h
  | cons x xs ih =>
    cases i with
    | zero =>
      simp at h; subst h
      simp only [List.set_cons_zero, List.filter_cons]
      cases p x <;> cases p b <;> simp <;> omega
    | succ i =>
      simp at h
      have := ih i h
      simp only [List.set_cons_succ, List.filter_cons]
      cases p x <;> simp <;> omega

theorem alive_le_holding (s : List PC) : aliveCount s ≤ holdingCount s := by
  induction s with
  | nil => simp [aliveCount, holdingCount]
  | cons x xs ih =>
    simp only [aliveCount, holdingCount, List.filter_cons] at ih ⊢
    cases x <;> simp [PC.holds] <;> omega

/-- a step never lets the number of held permits exceed `max` -/
theorem step_inv (max : Nat) (s s' : List PC) (i : Nat) (h : holdingCount s ≤ max)
    (hs : stepThread max s i = some s') : holdingCount s' ≤ max := by
  unfold stepThread at hs
  cases hg : s[i]? with
  | none => simp [hg] at hs
  | some pc =>
    simp only [hg] at hs
    cases pc with
    | idle =>
      by_cases hl : holdingCount s < max
      · simp only [hl, if_true, Option.some.injEq] at hs; subst hs
        have := filter_length_set PC.holds s i .idle .holding hg
        simp [PC.holds] at this
        simp only [holdingCount]; simp only [holdingCount] at hl; omega
      · simp [hl] at hs
    | holding =>
      simp only [Option.some.injEq] at hs; subst hs
      have := filter_length_set PC.holds s i .holding .alive hg
      simp [PC.holds] at this
      simp only [holdingCount] at h ⊢; omega
    | alive =>
      simp only [Option.some.injEq] at hs; subst hs
      have := filter_length_set PC.holds s i .alive .stopped hg
      simp [PC.holds] at this
      simp only [holdingCount] at h ⊢; omega
    | stopped =>
      simp only [Option.some.injEq] at hs; subst hs
      have := filter_length_set PC.holds s i .stopped .done hg
      simp [PC.holds] at this
      simp only [holdingCount] at h ⊢; omega
    | done => simp at hs

end ConfModel.Run
