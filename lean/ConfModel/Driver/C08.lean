import ConfModel.Driver.Common
import ConfModel.Model.Trie
import ConfModel.Spec.Glob
import ConfModel.Driver.C05
import ConfModel.Model.Marked
import ConfModel.Spec.RunVerdict
namespace ConfModel.Driver.C08
open Lean ConfModel.Driver ConfModel.Trie ConfModel.Glob

def split (s : String) : List String := s.splitOn "/"
def join (p : List String) : String := "/".intercalate p

/-- Go `bytes.TrimSpace` restricted to ASCII white space (the generator emits no other). -/
def isSp (c : Char) : Bool := c == ' ' || c == '\t' || c == '\n' || c == '\r' || c.toNat == 11 || c.toNat == 12
def trim (s : String) : String :=
  String.ofList ((s.toList.dropWhile isSp).reverse.dropWhile isSp).reverse

/-! ### op "marked": the known-failing / known-flaky patterns at work in `testResults` -/

open ConfModel.Report ConfModel.RunVerdict in
/-- one line of the call script: "<kind> <name>[,<name>…]" -/
def markedOps (code : String) : Option (List Marked.Op) :=
  match code.splitOn " " with
  | [k, rest] =>
    let ns := rest.splitOn ","
    match k with
    | "pass" => some (ns.map (Marked.Op.outcome · false .none))
    | "assert" => some (ns.map (Marked.Op.outcome · false .assertion))
    | "clienterr" => some (ns.map (Marked.Op.outcome · false .clientError))
    | "neither" => some (ns.map (Marked.Op.outcome · false .other))
    | "setup" => some (ns.map (Marked.Op.outcome · true .other))
    | "cnr" => some (ns.map (Marked.Op.outcome · true .couldNotRun))
    | "start" => some [Marked.Op.start ns]
    | "remaining" => some [Marked.Op.remaining ns]
    | "sideband" => some (ns.map (Marked.Op.sideband · "peer feedback"))
    | _ => none
  | _ => none

open ConfModel.Report ConfModel.RunVerdict in
/-- what happened to case `n`, in the words of the property: the last outcome stored for it wins;
`failRemaining` only speaks about a case nothing is known of yet -/
def markedKind (ops : List Marked.Op) (n : String) : Kind :=
  ops.foldl (fun k op => match op with
    | .outcome m s f =>
      if m != n then k
      else if s then (if f == Fail.couldNotRun then Kind.couldNotRun else Kind.setupErr)
      else if f == Fail.none then Kind.pass
      else if f == Fail.assertion then Kind.assertFail else Kind.clientErr
    | .start ns => if ns.contains n then Kind.setupErr else k
    | .remaining ns => if ns.contains n && k == Kind.missing then Kind.noResult else k
    | .sideband _ _ => k) Kind.missing

def markedNames (ops : List Marked.Op) : List String :=
  (ops.flatMap fun op => match op with
    | .outcome m _ _ => [m]
    | .start ns => ns
    | .remaining ns => ns
    | .sideband m _ => [m]).eraseDups

open ConfModel.Report ConfModel.RunVerdict in
def handleMarked (inp impl : Json) : Verdict :=
  if bool (field impl "invalid") then
    { agree := true, holds := true, nontrivial := false, cls := "invalid-input" } else
  if !(isNull (field impl "panic")) then
    { agree := false, holds := false, why := "panic: " ++ str (field impl "panic") } else
  match ((strList (field inp "ops")).map markedOps).mapM id with
  | none => bad "marked: malformed call script"
  | some opss =>
  let ops := opss.flatten
  let failing := (strList (field inp "failing")).map split
  let flaky := (strList (field inp "flaky")).map split
  let names := markedNames ops
  -- the property's reading: a case is known-failing / known-flaky iff its name globs such a pattern
  let isF (n : String) : Bool := failing.any (fun p => globMatch p (split n))
  let isK (n : String) : Bool := flaky.any (fun p => globMatch p (split n))
  let ambiguous := names.any (fun n => isF n && isK n)
  let cases : List Case := names.map fun n =>
    { name := n, kind := markedKind ops n
      mark := if isF n then .failing else if isK n then .flaky else .unmarked
      feedback := ops.any (fun op => match op with | .sideband m _ => m == n | _ => false) }
  let wantFailed := sortStrings (specFailedNames cases)
  let wantInfo := sortStrings (specInfoNames cases)
  let iFailed := sortStrings (strList (field impl "failedNames"))
  let iInfo := sortStrings (strList (field impl "infoNames"))
  let iOk := bool (field impl "ok")
  let unparsed := strList (field impl "unparsed")
  -- the model
  let m := Marked.markedReport failing flaky names.length ops
  let agree := unparsed.isEmpty && iOk == m.ok && iFailed == sortStrings m.failedNames && iInfo == sortStrings m.infoNames
  let model := Json.mkObj [("ok", m.ok), ("failedNames", toJson (sortStrings m.failedNames)), ("infoNames", toJson (sortStrings m.infoNames))]
  -- run() rejects pattern lists under which a name is both: nothing is claimed for those
  if ambiguous then { agree := agree, holds := true, nontrivial := false, model := model, cls := "ambiguous" } else
  let marked := cases.filter (fun c => c.mark != .unmarked)
  let why :=
    if iInfo != wantInfo then
      "marked: INFO (failed as expected) names " ++ toString iInfo ++ " but the cases that ran, failed and glob-match a known-failing/known-flaky pattern are " ++ toString wantInfo
    else if iFailed != wantFailed then
      "marked: FAILED names " ++ toString iFailed ++ " but by the glob verdicts on the names they are " ++ toString wantFailed
    else ""
  { agree := agree, holds := why.isEmpty, model := model, why := why,
    nontrivial := !marked.isEmpty && cases.any (fun c => c.feedback || c.kind != .pass),
    cls := if marked.any (fun c => c.feedback) then "feedback-on-marked" else if marked.isEmpty then "none-marked" else "marked" }

def handle : Handler := fun op inp impl =>
  match op with
  | "trie" =>
    let pats := (strList (field inp "pats")).map split
    let names := (strList (field inp "names")).map split
    let implMatch := boolList (field impl "match")
    let implUn := asSet (strList (field impl "unmatched"))
    if !(isNull (field impl "panic")) && str (field impl "panic") != "" then
      { agree := false, holds := false, why := "panic: " ++ str (field impl "panic") } else
    let mMatch := names.map (trieMatch pats)
    let mUn := asSet ((unmatched pats names).map reportName)
    let spec := names.map (fun n => pats.any (fun p => globMatch p n))
    -- the property: verdicts are glob verdicts; a pattern globbing no name is reported
    let mustReport := pats.filter (fun p => names.all (fun n => !globMatch p n))
    let holds := implMatch == spec && mustReport.all (fun p => implUn.contains (reportName p))
    { agree := implMatch == mMatch && implUn == mUn, holds := holds,
      nontrivial := spec.any id && spec.any (!·),
      model := Json.mkObj [("match", toJson mMatch), ("unmatched", toJson mUn)],
      why := if holds then "" else "glob verdicts " ++ toString spec ++ " must-report " ++ toString (mustReport.map join) }
  | "accept" =>
    let run := (strList (field inp "run")).map split
    let skip := (strList (field inp "skip")).map split
    let names := (strList (field inp "names")).map split
    let implA := boolList impl
    let m := names.map (accept run skip)
    let spec := names.map (fun n => (run.isEmpty || run.any (fun p => globMatch p n)) && !(skip.any (fun p => globMatch p n)))
    { agree := implA == m, holds := implA == spec, nontrivial := spec.any id && spec.any (!·), model := toJson m }
  | "validate" =>
    let g (k : String) := (strList (field inp k)).map split
    let names := g "names"
    let cls := str (field impl "class")
    let lst := asSet (strList (field impl "list"))
    let v := validate (g "failing") (g "flaky") (g "run") (g "skip") names
    let (mCls, mList) : String × List String := match v with
      | .ok => ("ok", [])
      | .unmatchedPatterns w u => ("unmatched:" ++ w, asSet (u.map reportName))
      | .ambiguous c => ("ambiguous", asSet (c.map join))
    -- property: ok is only allowed when every pattern globs some name and no name is both
    let all := g "failing" ++ g "flaky" ++ g "run" ++ g "skip"
    let dead := all.filter (fun p => names.all (fun n => !globMatch p n))
    let both := names.filter (fun n => (g "failing").any (fun p => globMatch p n) && (g "flaky").any (fun p => globMatch p n))
    let mustReject := !dead.isEmpty || !both.isEmpty
    let holds := if mustReject then cls != "ok" && cls != "ran" else true
    { agree := cls == mCls && lst == mList, holds := holds, nontrivial := mustReject,
      model := Json.mkObj [("class", mCls), ("list", toJson mList)], cls := mCls,
      why := if holds then "" else "dead patterns " ++ toString (dead.map join) ++ " both " ++ toString (both.map join) }
  | "dispatch" =>
    -- judged by the C05 driver: the names handed to the client are exactly the permutations the
    -- glob semantics select (run patterns, skip patterns, marked gRPC-peer names)
    ConfModel.Driver.C05.handle "run" inp impl
  | "cli" =>
    let files := (arr (field inp "files")).map strList
    let args := strList (field inp "args")
    -- "@k" refers to files[k]; rd returns the trimmed lines
    let rd (f : String) : Option (List String) := (f.toNat?.bind (files[·]?)).map (·.map trim)
    let implP := asSet (strList (field impl "patterns"))
    let m := argsToPatterns rd args
    let plain := args.filter (fun a => !a.startsWith "@")
    let refd := (args.filter (·.startsWith "@")).flatMap (fun a => ((a.drop 1).toString.toNat?.bind (files[·]?)).getD [])
    let fromFiles := refd.map trim |>.filter (fun l => !l.isEmpty && !l.startsWith "#")
    -- property: every supplied pattern takes part
    let holds := (plain ++ fromFiles).all implP.contains
    match m with
    | some ps =>
      { agree := implP == asSet ps, holds := holds, nontrivial := args.length > 1,
        model := toJson (asSet ps),
        why := if holds then "" else "patterns supplied but not honoured: " ++ toString ((plain ++ fromFiles).filter (!implP.contains ·)) }
    | none =>
      -- a pattern file that cannot be read: the invocation must be refused with an error that
      -- names the file (never run with the remaining patterns, never with none)
      let e := str (field impl "err")
      let refused := implP.isEmpty && (e.splitOn "no such file").length > 1
      { agree := refused, holds := refused, nontrivial := true, cls := "unreadable-file",
        model := Json.mkObj [("refused", true)],
        why := if refused then "" else "a pattern file that does not exist was not refused: " ++ e }
  | "marked" => handleMarked inp impl
  | _ => bad ("unknown op " ++ op)

end ConfModel.Driver.C08
