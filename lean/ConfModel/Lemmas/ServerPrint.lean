/-
Helper lemmas for C11: the lines the reference server prints through `safePrinter.PrefixPrintf`
(`Model/ServerRunner.lean: prefixPrintf`) and what the runner's stderr reader makes of them.
-/
import ConfModel.Lemmas.ServerRunner
namespace ConfModel.ServerRunner
open Spec

/-- a printed text that survives the line reader and the trimming: not empty, no newline inside,
no white space at its end -/
def solid (m : List Char) : Prop := (∃ m' d, m = m' ++ [d] ∧ isSpace d = false) ∧ '\n' ∉ m

/-- a name that can stand at the beginning of a line: starts with a non-space, no newline inside -/
def nameOK (nm : List Char) : Prop := (∃ c t, nm = c :: t ∧ isSpace c = false) ∧ '\n' ∉ nm

theorem endLine_solid (l : List Char) (m' : List Char) (d : Char) (h : l = m' ++ [d]) (hd : isSpace d = false) :
    endLine l = l ++ ['\n'] := by
  unfold endLine
  have : l.getLast? = some d := by rw [h]; simp
  rw [this]
  have hne : d ≠ '\n' := by
    intro hh; subst hh; simp [isSpace] at hd
  simp [hne]

/-- the printed feedback line is `name: message\n` -/
theorem prefixPrintf_solid (nm fmt : List Char) (args : List (List Char)) (hm : solid (sprintf fmt args)) :
    prefixPrintf nm fmt args = nm ++ ':' :: ' ' :: sprintf fmt args ++ ['\n'] := by
  obtain ⟨⟨m', d, hmd, hd⟩, _⟩ := hm
  unfold prefixPrintf
  rw [endLine_solid (nm ++ ':' :: ' ' :: sprintf fmt args) (nm ++ ':' :: ' ' :: m') d (by rw [hmd]; simp) hd]

theorem trim_line (nm m : List Char) (hn : nameOK nm) (hm : solid m) :
    trim (nm ++ ':' :: ' ' :: m ++ ['\n']) = nm ++ ':' :: ' ' :: m := by
  obtain ⟨⟨c, t, hc, hcs⟩, _⟩ := hn
  obtain ⟨⟨m', d, hmd, hd⟩, _⟩ := hm
  subst hc
  subst hmd
  unfold trim
  have h1 : (c :: t ++ ':' :: ' ' :: (m' ++ [d]) ++ ['\n']).dropWhile isSpace
      = c :: t ++ ':' :: ' ' :: (m' ++ [d]) ++ ['\n'] := by
    simp [List.dropWhile, hcs]
  rw [h1]
  have h2 : (c :: t ++ ':' :: ' ' :: (m' ++ [d]) ++ ['\n']).reverse
      = '\n' :: d :: (c :: t ++ ':' :: ' ' :: m').reverse := by
    simp
  rw [h2]
  have hsp : isSpace '\n' = true := by decide
  simp only [List.dropWhile, hsp, hd]
  simp

/-- `ReadString('\n')` over a text without newline, followed by a newline and more: one line, then
the rest -/
theorem splitLines_line (t rest : List Char) (h : '\n' ∉ t) : ∀ acc,
    splitLines (t ++ '\n' :: rest) acc = (acc.reverse ++ t ++ ['\n']) :: splitLines rest [] := by
  induction t with
  | nil => intro acc; simp [splitLines]
  | cons c cs ih =>
    intro acc
    have hc : c ≠ '\n' := by intro hh; subst hh; simp at h
    have hcs : '\n' ∉ cs := by intro hh; exact h (List.mem_cons_of_mem _ hh)
    simp only [List.cons_append, splitLines]
    have : (c == '\n') = false := by simp [hc]
    rw [this]
    simp only [Bool.false_eq_true, if_false]
    rw [ih hcs (c :: acc)]
    simp

/-- a stream of complete lines is cut into exactly those lines -/
theorem splitLines_lines : ∀ (ts : List (List Char)), (∀ t ∈ ts, '\n' ∉ t) →
    splitLines (ts.flatMap (fun t => t ++ ['\n'])) [] = ts.map (fun t => t ++ ['\n'])
  | [], _ => by simp [splitLines]
  | t :: ts, h => by
    have ht : '\n' ∉ t := h t (by simp)
    have hts : ∀ x ∈ ts, '\n' ∉ x := fun x hx => h x (by simp [hx])
    simp only [List.flatMap_cons, List.map_cons]
    have : t ++ ['\n'] ++ ts.flatMap (fun t => t ++ ['\n']) = t ++ '\n' :: ts.flatMap (fun t => t ++ ['\n']) := by simp
    rw [this, splitLines_line t _ ht [], splitLines_lines ts hts]
    simp

end ConfModel.ServerRunner
