package main

// C19, second sentence: the receive limit is sharp. The real reference server and the real
// reference client run in-process (RunInReferenceMode), talking over loopback; requests are
// sized with the real expandRequestData.

import (
	"context"
	"encoding/json"
	"fmt"
	"io"
	"strings"
	"sync"
	"time"

	"connectrpc.com/conformance/internal"
	cc "connectrpc.com/conformance/internal/app/connectconformance"
	"connectrpc.com/conformance/internal/app/referenceclient"
	"connectrpc.com/conformance/internal/app/referenceserver"
	conformancev1 "connectrpc.com/conformance/internal/gen/proto/go/connectrpc/conformance/v1"
	"connectrpc.com/conformance/internal/verifharness/gen"
	"google.golang.org/protobuf/proto"
	"google.golang.org/protobuf/types/known/anypb"
)

func init() {
	gen.RegisterOp("c19", "sharp", func(c *gen.Ctx, raw json.RawMessage) any {
		in := gen.Into[c19SharpIn](raw)
		out := c19Sharp(in)
		c.E.Count("sharp:" + in.Side + ":" + out.Outcome)
		return out
	})
}

type c19SharpIn struct {
	Side        string `json:"side"`        // server | client
	Protocol    int32  `json:"protocol"`    // 1 connect, 2 grpc, 3 grpc-web
	Compression int32  `json:"compression"` // 1 identity, 2 gzip, 3 br, 4 zstd, 5 deflate, 6 snappy
	Stream      string `json:"stream"`      // unary | clientstream (server side only)
	Delta       int64  `json:"delta"`       // message size - limit
}

type c19SharpOut struct {
	Limit   int64  `json:"limit"`
	Size    int64  `json:"size"`    // uncompressed size of the message the limit applies to
	Outcome string `json:"outcome"` // ok | resource_exhausted | code:N | internal
	Detail  string `json:"detail,omitempty"`
}

type c19Peers struct {
	mu       sync.Mutex
	err      error
	host     string
	port     uint32
	toClient io.WriteCloser
	fromCl   io.ReadCloser
	seq      int
}

var c19PeersOnce sync.Once
var c19P c19Peers

type c19NopCloser struct{ io.Writer }

func (c19NopCloser) Close() error { return nil }

func c19StartPeers() {
	ctx := context.Background()
	// reference server
	sin, sinW := io.Pipe()
	soutR, sout := io.Pipe()
	go func() {
		err := referenceserver.RunInReferenceMode(ctx, []string{"referenceserver", "-port", "0", "-bind", "127.0.0.1"}, sin, sout, c19NopCloser{io.Discard}, nil)
		sout.CloseWithError(fmt.Errorf("reference server ended: %v", err))
	}()
	go func() {
		_ = internal.WriteDelimitedMessage(sinW, &conformancev1.ServerCompatRequest{
			Protocol:            conformancev1.Protocol_PROTOCOL_CONNECT,
			HttpVersion:         conformancev1.HTTPVersion_HTTP_VERSION_2,
			MessageReceiveLimit: uint32(cc.VerifC19ServerReceiveLimit()),
		})
		sinW.Close()
	}()
	var resp conformancev1.ServerCompatResponse
	if err := internal.ReadDelimitedMessage(soutR, &resp, "reference server", 20*time.Second, 1<<20); err != nil {
		c19P.err = err
		return
	}
	c19P.host, c19P.port = resp.Host, resp.Port
	// reference client
	cin, cinW := io.Pipe()
	coutR, cout := io.Pipe()
	go func() {
		err := referenceclient.RunInReferenceMode(ctx, []string{"referenceclient"}, cin, cout, c19NopCloser{io.Discard}, nil)
		cout.CloseWithError(fmt.Errorf("reference client ended: %v", err))
	}()
	c19P.toClient, c19P.fromCl = cinW, coutR
}

// c19Call sends one request through the reference client and returns its result.
func c19Call(req *conformancev1.ClientCompatRequest) (*conformancev1.ClientResponseResult, error) {
	c19PeersOnce.Do(c19StartPeers)
	c19P.mu.Lock()
	defer c19P.mu.Unlock()
	if c19P.err != nil {
		return nil, c19P.err
	}
	c19P.seq++
	req.TestName = fmt.Sprintf("verif/c19/%08d", c19P.seq) // fixed width: the name is echoed in the response
	req.Host, req.Port = c19P.host, c19P.port
	req.RequestHeaders = []*conformancev1.Header{{Name: "x-test-case-name", Value: []string{req.TestName}}} // as the runner does
	req.HttpVersion = conformancev1.HTTPVersion_HTTP_VERSION_2
	req.Codec = conformancev1.Codec_CODEC_PROTO
	errc := make(chan error, 1)
	go func() { errc <- internal.WriteDelimitedMessage(c19P.toClient, req) }()
	var resp conformancev1.ClientCompatResponse
	if err := internal.ReadDelimitedMessage(c19P.fromCl, &resp, "reference client", 60*time.Second, 64<<20); err != nil {
		c19P.err = err
		return nil, err
	}
	if err := <-errc; err != nil {
		c19P.err = err
		return nil, err
	}
	if resp.TestName != req.TestName {
		return nil, fmt.Errorf("response for %q, want %q", resp.TestName, req.TestName)
	}
	if e := resp.GetError(); e != nil {
		return nil, fmt.Errorf("client error: %s", e.Message)
	}
	return resp.GetResponse(), nil
}

func c19Outcome(res *conformancev1.ClientResponseResult) string {
	if res.GetError() == nil {
		return "ok"
	}
	if res.GetError().GetCode() == conformancev1.Code_CODE_RESOURCE_EXHAUSTED {
		return "resource_exhausted"
	}
	return fmt.Sprintf("code:%d", int32(res.GetError().GetCode()))
}

func c19Sharp(in c19SharpIn) c19SharpOut {
	svc := "connectrpc.conformance.v1.ConformanceService"
	req := &conformancev1.ClientCompatRequest{
		Protocol:    conformancev1.Protocol(in.Protocol),
		Compression: conformancev1.Compression(in.Compression),
		Service:     &svc,
	}
	fail := func(err error) c19SharpOut {
		return c19SharpOut{Outcome: "internal", Detail: strings.SplitN(err.Error(), "\n", 2)[0]}
	}
	switch in.Side {
	case "server":
		limit := cc.VerifC19ServerReceiveLimit()
		tc := &conformancev1.TestCase{Request: req}
		def := &conformancev1.UnaryResponseDefinition{Response: &conformancev1.UnaryResponseDefinition_ResponseData{ResponseData: []byte("test response")}}
		var sized int // index of the message under the limit test
		if in.Stream == "clientstream" {
			req.Method, req.StreamType = proto.String("ClientStream"), conformancev1.StreamType_STREAM_TYPE_CLIENT_STREAM
			a1, _ := anypb.New(&conformancev1.ClientStreamRequest{ResponseDefinition: def, RequestData: []byte("first")})
			a2, _ := anypb.New(&conformancev1.ClientStreamRequest{RequestData: []byte("second")})
			req.RequestMessages = []*anypb.Any{a1, a2}
			tc.ExpandRequests = []*conformancev1.TestCase_ExpandedSize{{}, {SizeRelativeToLimit: proto.Int32(int32(in.Delta))}}
			sized = 1
		} else {
			req.Method, req.StreamType = proto.String("Unary"), conformancev1.StreamType_STREAM_TYPE_UNARY
			a1, _ := anypb.New(&conformancev1.UnaryRequest{ResponseDefinition: def})
			req.RequestMessages = []*anypb.Any{a1}
			tc.ExpandRequests = []*conformancev1.TestCase_ExpandedSize{{SizeRelativeToLimit: proto.Int32(int32(in.Delta))}}
		}
		if err := cc.VerifC19ExpandRequestData(tc); err != nil {
			return fail(err)
		}
		m, err := req.RequestMessages[sized].UnmarshalNew()
		if err != nil {
			return fail(err)
		}
		res, err := c19Call(req)
		if err != nil {
			return fail(err)
		}
		return c19SharpOut{Limit: limit, Size: int64(proto.Size(m)), Outcome: c19Outcome(res)}
	case "client":
		req.Method, req.StreamType = proto.String("Unary"), conformancev1.StreamType_STREAM_TYPE_UNARY
		def := &conformancev1.UnaryResponseDefinition{Response: &conformancev1.UnaryResponseDefinition_ResponseData{ResponseData: make([]byte, 3000)}}
		a1, _ := anypb.New(&conformancev1.UnaryRequest{ResponseDefinition: def})
		req.RequestMessages = []*anypb.Any{a1}
		// measure the response without a limit
		probe := proto.Clone(req).(*conformancev1.ClientCompatRequest)
		res, err := c19Call(probe)
		if err != nil {
			return fail(err)
		}
		if len(res.GetPayloads()) != 1 {
			return fail(fmt.Errorf("probe call: %d payloads, error %v", len(res.GetPayloads()), res.GetError()))
		}
		size := int64(proto.Size(&conformancev1.UnaryResponse{Payload: res.Payloads[0]}))
		limit := size - in.Delta
		req.MessageReceiveLimit = uint32(limit)
		res, err = c19Call(req)
		if err != nil {
			return fail(err)
		}
		if len(res.GetPayloads()) == 1 {
			// the message that actually passed the limit
			size = int64(proto.Size(&conformancev1.UnaryResponse{Payload: res.Payloads[0]}))
		}
		return c19SharpOut{Limit: limit, Size: size, Outcome: c19Outcome(res)}
	}
	return fail(fmt.Errorf("side?"))
}

func c19SharpGen(c *gen.Ctx) {
	for _, side := range []string{"server", "client"} {
		for protocol := int32(1); protocol <= 3; protocol++ {
			for comp := int32(1); comp <= 6; comp++ {
				for delta := int64(-1); delta <= 1; delta++ {
					c.Do("sharp", c19SharpIn{Side: side, Protocol: protocol, Compression: comp, Stream: "unary", Delta: delta})
					if side == "server" && protocol != 3 && (c.Thorough() || comp%2 == 0) {
						c.Do("sharp", c19SharpIn{Side: side, Protocol: protocol, Compression: comp, Stream: "clientstream", Delta: delta})
					}
				}
			}
		}
	}
	if c.Thorough() {
		for _, delta := range []int64{-100, 2, 10, 1000} {
			for comp := int32(1); comp <= 6; comp++ {
				c.Do("sharp", c19SharpIn{Side: "server", Protocol: 1, Compression: comp, Stream: "unary", Delta: delta})
				c.Do("sharp", c19SharpIn{Side: "client", Protocol: 2, Compression: comp, Stream: "unary", Delta: delta})
			}
		}
	}
}
