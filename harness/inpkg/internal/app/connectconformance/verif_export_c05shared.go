//go:build verif

package connectconformance

import (
	"context"
	"encoding/binary"
	"fmt"
	"io"
	"sort"
	"sync"
	"sync/atomic"
	"time"

	"connectrpc.com/conformance/internal"
	conformancev1 "connectrpc.com/conformance/internal/gen/proto/go/connectrpc/conformance/v1"
	"google.golang.org/protobuf/proto"
)

// C05, op "shared": several server batches — one real runTestCasesForServer each, with an in-process
// server behind the real runInProcess — run side by side and share ONE real client runner (runClient /
// clientProcessRunner over the real pipes of an in-process scripted client), the way run() lets up to
// --max-servers batches share the client under test.  What is scripted is only what the client does:
//
//  1. it takes and answers its first After requests properly;
//  2. Stall: it then stops reading its input until every batch that still has something to send has
//     a sender inside sendRequest — one of them blocked in the pipe write (it holds sendMu), the
//     others queued behind it — and a little longer;
//  3. Fail: its output then ends: a response for a test name nobody asked for (unknown), a second
//     response for a name (dup), an oversize length prefix (over), bytes that are no message
//     (garbage), or it simply returns (exit0 / exit1); none: it goes on serving properly;
//  4. Then (after a failure other than exit): drain — it keeps reading its input up to its end for a
//     while longer (after DrainDelayMs), whatever the runner signals; return — it returns as soon as
//     the runner aborts it.
//
// Whatever the interleaving of the batches' senders with the runner's output reader: every batch
// returns with its server stopped, every permutation has exactly one outcome and was handed to the
// client at most once (exactly once, answered, when the client does not fail), with the host and port
// of its own batch's server; a request the runner accepted gets its completion callback exactly once.
type VerifC05SharedSpec struct {
	Batches      []int  `json:"batches"`
	After        int    `json:"after"`
	Stall        bool   `json:"stall"`
	Fail         string `json:"fail"`
	Then         string `json:"then"`
	DrainDelayMs int    `json:"drainDelayMs"`
	TimeoutS     int    `json:"timeoutS"`
}

type VerifC05SharedObs struct {
	Valid    bool          `json:"valid"`    // the input is a scenario (not a mutated one)
	Names    [][]string    `json:"names"`    // per batch: its permutations
	Handed   []string      `json:"handed"`   // test names the client decoded from its input, sorted, one entry per message
	AddrOK   bool          `json:"addrOK"`   // every decoded request carried host and port of its own batch's server
	Outcomes [][][2]string `json:"outcomes"` // per batch: sorted (name, class)
	Rets     [][]string    `json:"rets"`     // per batch, per case: what the real sendRequest returned: ok | closed | dup | fail | unsent
	Cbs      [][]int       `json:"cbs"`      // per batch, per case: invocations of the completion callback
	Hang     []int         `json:"hang"`     // batches that had not returned when the watchdog fired
	SrvAlive []int         `json:"srvAlive"` // batches whose server was still running when the batch returned
	Stalled  bool          `json:"stalled"`  // the stall was reached as scripted (else the client went on after 2 s)
	Failed   bool          `json:"failed"`   // the client got to the scripted end of its output
	Wait     string        `json:"wait"`     // waitForResponses after the batches: returned | hang | "" (not reached)
	Elapsed  int64         `json:"elapsedMs"`
}

// verifC05SharedMux is the view one batch has of the shared client runner: it delegates to the real
// one and counts.
type verifC05SharedMux struct {
	inner   clientRunner
	batch   int
	idx     map[string]int
	mu      *sync.Mutex
	rets    []string
	cbs     []int
	entered *[]int // per batch: sendRequest calls begun
	left    *[]int // per batch: sendRequest calls returned
}

func (w *verifC05SharedMux) sendRequest(req *conformancev1.ClientCompatRequest, whenDone func(string, *conformancev1.ClientCompatResponse, error)) error {
	i, ok := w.idx[req.TestName]
	if !ok {
		panic("c05 shared: request for a name outside the batch: " + req.TestName)
	}
	w.mu.Lock()
	(*w.entered)[w.batch]++
	w.mu.Unlock()
	err := w.inner.sendRequest(req, func(name string, resp *conformancev1.ClientCompatResponse, err error) {
		w.mu.Lock()
		w.cbs[i]++
		w.mu.Unlock()
		whenDone(name, resp, err)
	})
	w.mu.Lock()
	w.rets[i] = verifC10SendClass(err)
	(*w.left)[w.batch]++
	w.mu.Unlock()
	return err
}
func (w *verifC05SharedMux) closeSend()              { w.inner.closeSend() }
func (w *verifC05SharedMux) waitForResponses() error { return w.inner.waitForResponses() }
func (w *verifC05SharedMux) isRunning() bool         { return w.inner.isRunning() }
func (w *verifC05SharedMux) stop()                   { w.inner.stop() }

func verifC05SharedName(b, i int) string { return fmt.Sprintf("Shared/batch%d/case%d", b, i) }

func VerifC05Shared(spec VerifC05SharedSpec) VerifC05SharedObs {
	obs := VerifC05SharedObs{Names: [][]string{}, Handed: []string{}, Outcomes: [][][2]string{}, Rets: [][]string{}, Cbs: [][]int{}, Hang: []int{}, SrvAlive: []int{}}
	total := 0
	for _, n := range spec.Batches {
		if n < 1 || n > 16 {
			return obs
		}
		total += n
	}
	okFail := map[string]bool{"none": true, "unknown": true, "dup": true, "over": true, "garbage": true, "exit0": true, "exit1": true}
	if len(spec.Batches) < 1 || len(spec.Batches) > 6 || !okFail[spec.Fail] || spec.After < 0 || spec.After > total ||
		(spec.Fail == "dup" && spec.After < 1) || (spec.Then != "drain" && spec.Then != "return") || spec.DrainDelayMs < 0 || spec.DrainDelayMs > 1000 {
		return obs
	}
	obs.Valid = true
	nb := len(spec.Batches)
	var mu sync.Mutex
	entered, left := make([]int, nb), make([]int, nb)
	muxes := make([]*verifC05SharedMux, nb)
	cases := make([][]*conformancev1.TestCase, nb)
	batchOf := map[string]int{}
	for b, n := range spec.Batches {
		m := &verifC05SharedMux{batch: b, idx: map[string]int{}, mu: &mu, rets: make([]string, n), cbs: make([]int, n), entered: &entered, left: &left}
		names := make([]string, n)
		for i := 0; i < n; i++ {
			name := verifC05SharedName(b, i)
			names[i] = name
			m.idx[name] = i
			m.rets[i] = "unsent"
			batchOf[name] = b
			cases[b] = append(cases[b], &conformancev1.TestCase{
				Request:          &conformancev1.ClientCompatRequest{TestName: name},
				ExpectedResponse: &conformancev1.ClientResponseResult{Payloads: []*conformancev1.ConformancePayload{{Data: []byte("data")}}},
			})
		}
		muxes[b] = m
		obs.Names = append(obs.Names, names)
	}

	// ---- the scripted client ----
	var cmu sync.Mutex
	handed := []string{}
	addrOK := true
	var stalled, failed atomic.Bool
	var cr *clientProcessRunner
	crReady := make(chan struct{})
	client := func(ctx context.Context, _ []string, in io.ReadCloser, out, _ io.WriteCloser) error {
		// reads one request; false at the end of the input
		readReq := func() (*conformancev1.ClientCompatRequest, bool) {
			var pre [4]byte
			if _, err := io.ReadFull(in, pre[:]); err != nil {
				return nil, false
			}
			body := make([]byte, binary.BigEndian.Uint32(pre[:]))
			if _, err := io.ReadFull(in, body); err != nil {
				return nil, false
			}
			req := &conformancev1.ClientCompatRequest{}
			if err := proto.Unmarshal(body, req); err != nil {
				return nil, false
			}
			cmu.Lock()
			handed = append(handed, req.TestName)
			if b, ok := batchOf[req.TestName]; !ok || req.Host != "127.0.0.1" || int(req.Port) != 9000+b {
				addrOK = false
			}
			cmu.Unlock()
			return req, true
		}
		answer := func(name string) error {
			return internal.WriteDelimitedMessage(out, verifC11InResponse(name, "pass"))
		}
		last := ""
		for k := 0; k < spec.After; k++ {
			req, ok := readReq()
			if !ok {
				return nil
			}
			if err := answer(req.TestName); err != nil {
				return nil
			}
			last = req.TestName
		}
		if spec.Stall {
			<-crReady
			// every batch that has not finished sending has a sender inside sendRequest, and one
			// request is registered with the runner (its sender is in, or on its way into, the write)
			inPosition := func() bool {
				mu.Lock()
				busy := 0
				for b := range entered {
					// a batch stops sending after its last request and at its first refused one
					finished := left[b] >= spec.Batches[b]
					for _, r := range muxes[b].rets {
						if r != "ok" && r != "unsent" {
							finished = true
						}
					}
					switch {
					case entered[b] > left[b]:
						busy++
					case !finished: // between two sends
						mu.Unlock()
						return false
					}
				}
				mu.Unlock()
				if busy == 0 {
					return true // nothing left to send at all
				}
				cr.pendingMu.Lock()
				n := len(cr.pendingOps)
				cr.pendingMu.Unlock()
				return n > 0
			}
			deadline := time.Now().Add(2 * time.Second)
			for !inPosition() && time.Now().Before(deadline) {
				time.Sleep(200 * time.Microsecond)
			}
			if inPosition() {
				stalled.Store(true)
			}
			time.Sleep(20 * time.Millisecond) // the queued senders have passed their first check and wait for sendMu
		}
		switch spec.Fail {
		case "none":
			for {
				req, ok := readReq()
				if !ok {
					return nil
				}
				if err := answer(req.TestName); err != nil {
					return nil
				}
			}
		case "exit0":
			failed.Store(true)
			return nil
		case "exit1":
			failed.Store(true)
			return errVerifC10Exit
		case "unknown":
			_ = answer("Shared/no such test case")
		case "dup":
			_ = answer(last)
		case "over":
			var pre [4]byte
			binary.BigEndian.PutUint32(pre[:], uint32(maxClientResponseSize+1))
			_, _ = out.Write(pre[:])
		case "garbage":
			_, _ = out.Write([]byte{0, 0, 0, 3, 0xff, 0xff, 0xff})
		}
		failed.Store(true)
		if spec.Then == "return" {
			<-ctx.Done()
			return errVerifC10Aborted
		}
		// a client that keeps taking its input a little longer, whatever the runner signals
		time.Sleep(time.Duration(spec.DrainDelayMs) * time.Millisecond)
		for {
			if _, ok := readReq(); !ok {
				return nil
			}
		}
	}

	clientCtx, clientCancel := context.WithCancel(context.Background())
	defer clientCancel()
	runner, err := runClient(clientCtx, runInProcess([]string{"verif-client"}, client))
	if err != nil {
		panic(fmt.Sprintf("c05 shared: runClient: %v", err))
	}
	cr = runner.(*clientProcessRunner) //nolint:forcetypeassert
	close(crReady)
	defer func() { go runner.stop() }()

	// ---- the batches ----
	results := newResults(total, &testTrie{}, &testTrie{}, nil)
	srvRunning := make([]atomic.Bool, nb)
	srvAliveAtReturn := make([]atomic.Bool, nb)
	returned := make([]chan struct{}, nb)
	t0 := time.Now()
	for b := range spec.Batches {
		b := b
		muxes[b].inner = runner
		returned[b] = make(chan struct{})
		server := func(ctx context.Context, _ []string, in io.ReadCloser, out, _ io.WriteCloser) error {
			srvRunning[b].Store(true)
			defer srvRunning[b].Store(false)
			req := &conformancev1.ServerCompatRequest{}
			if err := internal.ReadDelimitedMessage(in, req, "runner", 10*time.Second, maxServerResponseSize); err != nil {
				return err
			}
			if err := internal.WriteDelimitedMessage(out, &conformancev1.ServerCompatResponse{Host: "127.0.0.1", Port: uint32(9000 + b)}); err != nil {
				return err
			}
			<-ctx.Done()
			return nil
		}
		meta := serverInstance{protocol: conformancev1.Protocol_PROTOCOL_CONNECT, httpVersion: conformancev1.HTTPVersion(1 + b%2)}
		go func() {
			defer close(returned[b])
			runTestCasesForServer(context.Background(), false, false, meta, cases[b], nil, nil,
				runInProcess([]string{"verif-server"}, server), verifNopPrinter{}, verifNopPrinter{}, results, muxes[b], nil, false)
			srvAliveAtReturn[b].Store(srvRunning[b].Load())
		}()
	}
	timeout := spec.TimeoutS
	if timeout <= 0 || timeout > 120 {
		timeout = 15
	}
	dog := VerifNewDog(timeout)
	defer dog.Stop()
	watchdog := dog.C
	fired := false
	for b := range returned {
		if !fired {
			select {
			case <-returned[b]:
			case <-watchdog:
				fired = true
			}
		}
		select {
		case <-returned[b]:
			if srvAliveAtReturn[b].Load() {
				obs.SrvAlive = append(obs.SrvAlive, b)
			}
		default:
			obs.Hang = append(obs.Hang, b)
		}
	}
	// what run() does with its client after the last batch
	if len(obs.Hang) == 0 {
		runner.closeSend()
		waited := make(chan struct{})
		go func() { _ = runner.waitForResponses(); close(waited) }()
		wdog := VerifNewDog(10)
		select {
		case <-waited:
			obs.Wait = "returned"
		case <-wdog.C:
			obs.Wait = "hang"
		}
		wdog.Stop()
	}
	obs.Elapsed = time.Since(t0).Milliseconds()
	clientCancel()
	if len(obs.Hang) > 0 {
		// let a client that is still reading get to the end of its input (the lost batch goroutines stay)
		_ = cr.proc.stdin.Close()
	}
	time.Sleep(2 * time.Millisecond) // a stray late callback (if any) shows itself
	obs.Stalled = stalled.Load()
	obs.Failed = failed.Load()
	cmu.Lock()
	obs.Handed = append(obs.Handed, handed...)
	obs.AddrOK = addrOK
	cmu.Unlock()
	sort.Strings(obs.Handed)
	mu.Lock()
	for b := range muxes {
		obs.Rets = append(obs.Rets, append([]string{}, muxes[b].rets...))
		obs.Cbs = append(obs.Cbs, append([]int{}, muxes[b].cbs...))
	}
	mu.Unlock()
	results.mu.Lock()
	for b := range muxes {
		outs := [][2]string{}
		for name, o := range results.outcomes {
			if batchOf[name] == b {
				outs = append(outs, [2]string{name, verifC11Class(o)})
			}
		}
		sort.Slice(outs, func(i, j int) bool { return outs[i][0] < outs[j][0] })
		obs.Outcomes = append(obs.Outcomes, outs)
	}
	results.mu.Unlock()
	return obs
}
