//go:build verif

package connectconformance

import (
	"errors"
	"net/http"
	"regexp"
	"sort"
	"strconv"
	"strings"
	"sync"
	"time"

	"connectrpc.com/conformance/internal"
	conformancev1 "connectrpc.com/conformance/internal/gen/proto/go/connectrpc/conformance/v1"
	"connectrpc.com/conformance/internal/tracer"
)

// VerifC16Case is what report() showed for one case that has an outcome.
type VerifC16Case struct {
	Name    string `json:"name"`
	Failed  bool   `json:"failed"`  // a "FAILED: <name>" block was printed
	Printed int    `json:"printed"` // id of the trace printed in that block, -1 if none
	Stored  int    `json:"stored"`  // id of the trace kept for the case, -1 if none
}

// VerifC16Out is the observation of one script.
type VerifC16Out struct {
	Cases []VerifC16Case `json:"cases"`
	// how long report() took: prompt (well below TraceTimeout), timeout (about TraceTimeout:
	// some waiter ran into its deadline), late (a wait outlived its context)
	Report string `json:"report"`
}

var verifC16TraceRE = regexp.MustCompile(`verif-trace-(\d+)`)

func verifC16Trace(name string, id int) tracer.Trace {
	return tracer.Trace{
		TestName: name,
		Response: &http.Response{StatusCode: id},
		Events: []tracer.Event{&tracer.ResponseStart{Response: &http.Response{
			Status: "verif-trace-" + strconv.Itoa(id), ContentLength: -1,
		}}},
	}
}

// VerifC16Results drives the runner's consumer of the tracer — the real testResults with a
// real *tracer.Tracer — the way runTestCasesForServer and the client runner do: Init(name)
// before the request goes out, then an outcome for the name (setOutcome / failed / assert,
// each of which starts fetchTrace's waiter), finally report(). The producer's side
// (Tracer.Complete, normally called by the tracing middleware when the HTTP operation
// ends) is scripted relative to that:
//
//	i:<name>            tracer.Init
//	x:<name>            tracer.Clear
//	c:<name>:<id>       tracer.Complete now
//	d:<name>:<id>:<ms>  tracer.Complete ms milliseconds after this step (from another goroutine)
//	o:<name>:<kind>     outcome: fail (setOutcome with an error) | failed (client error result) |
//	                    assert (result that does not match) | pass (result that matches)
//	s:<ms>              pause
//
// report() is called when the script ends (delayed completions may still be pending).
func VerifC16Results(steps []string) VerifC16Out {
	tr := &tracer.Tracer{}
	res := newResults(0, &testTrie{}, &testTrie{}, tr)
	def := func(name string) *conformancev1.TestCase {
		return &conformancev1.TestCase{
			Request: &conformancev1.ClientCompatRequest{TestName: name, StreamType: conformancev1.StreamType_STREAM_TYPE_UNARY},
			ExpectedResponse: &conformancev1.ClientResponseResult{
				Payloads: []*conformancev1.ConformancePayload{{Data: []byte("data")}},
			},
		}
	}
	var delayed sync.WaitGroup
	num := func(s string) int {
		n, err := strconv.Atoi(s)
		if err != nil {
			panic("VerifC16Results: bad number " + s)
		}
		return n
	}
	for _, st := range steps {
		f := strings.Split(st, ":")
		switch {
		case f[0] == "i" && len(f) == 2:
			tr.Init(f[1])
		case f[0] == "x" && len(f) == 2:
			tr.Clear(f[1])
		case f[0] == "c" && len(f) == 3:
			tr.Complete(verifC16Trace(f[1], num(f[2])))
		case f[0] == "d" && len(f) == 4:
			trace, d := verifC16Trace(f[1], num(f[2])), time.Duration(num(f[3]))*time.Millisecond
			delayed.Add(1)
			go func() {
				defer delayed.Done()
				time.Sleep(d)
				tr.Complete(trace)
			}()
		case f[0] == "s" && len(f) == 2:
			time.Sleep(time.Duration(num(f[1])) * time.Millisecond)
		case f[0] == "o" && len(f) == 3:
			switch f[2] {
			case "fail":
				res.setOutcome(f[1], false, errors.New("it failed"))
			case "failed":
				res.failed(f[1], &conformancev1.ClientErrorResult{Message: "client could not do it"})
			case "assert":
				res.assert(f[1], def(f[1]), &conformancev1.ClientResponseResult{
					Payloads: []*conformancev1.ConformancePayload{{Data: []byte("other")}},
				})
			case "pass":
				res.assert(f[1], def(f[1]), &conformancev1.ClientResponseResult{
					Payloads: []*conformancev1.ConformancePayload{{Data: []byte("data")}},
				})
			default:
				panic("VerifC16Results: unknown outcome " + f[2])
			}
		default:
			panic("VerifC16Results: unknown step " + st)
		}
	}
	printer := &internal.SimplePrinter{}
	t0 := time.Now()
	res.report(printer)
	took := time.Since(t0)
	out := VerifC16Out{Cases: []VerifC16Case{}}
	switch {
	case took < tracer.TraceTimeout/2:
		out.Report = "prompt"
	case took < tracer.TraceTimeout+tracer.TraceTimeout/2:
		out.Report = "timeout"
	default:
		out.Report = "late"
	}
	// what was printed per case
	printed := map[string]*VerifC16Case{}
	var cur *VerifC16Case
	inTrace := false
	for _, line := range printer.Messages {
		switch {
		case strings.HasPrefix(line, "FAILED: "):
			name := strings.TrimPrefix(line, "FAILED: ")
			if i := strings.IndexAny(name, ":\n "); i >= 0 {
				name = name[:i]
			}
			cur = &VerifC16Case{Name: name, Failed: true, Printed: -1}
			printed[name] = cur
			inTrace = false
		case strings.HasPrefix(line, "---- HTTP Trace ----"):
			inTrace = true
		case strings.HasPrefix(line, "--------------------"):
			inTrace = false
		case inTrace && cur != nil:
			if m := verifC16TraceRE.FindStringSubmatch(line); m != nil {
				cur.Printed = num(m[1])
			} else if cur.Printed == -1 {
				cur.Printed = -2 // a trace block without our marker
			}
		}
	}
	res.mu.Lock()
	for name := range res.outcomes {
		c := VerifC16Case{Name: name, Printed: -1, Stored: -1}
		if p := printed[name]; p != nil {
			c.Failed, c.Printed = true, p.Printed
		}
		if t := res.traces[name]; t != nil {
			c.Stored = -2
			if t.Response != nil {
				c.Stored = t.Response.StatusCode
			}
		}
		out.Cases = append(out.Cases, c)
	}
	res.mu.Unlock()
	sort.Slice(out.Cases, func(i, j int) bool { return out.Cases[i].Name < out.Cases[j].Name })
	delayed.Wait()
	return out
}
