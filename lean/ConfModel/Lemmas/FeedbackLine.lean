import ConfModel.Model.FeedbackLine
import ConfModel.Lemmas.ServerRunner
namespace ConfModel.FeedbackLine
open ConfModel.ServerRunner

theorem splitLines_oneLine (l acc : List Char) (h : oneLine l = true) :
    splitLines (l ++ ['\n']) acc = [acc.reverse ++ l ++ ['\n']] := by
  induction l generalizing acc with
  | nil => simp [splitLines]
  | cons c t ih =>
    have hc : (c == '\n') = false := by
      simp [oneLine] at h
      simp only [beq_eq_false_iff_ne, ne_eq]
      intro e; exact h.1 e.symm
    have ht : oneLine t = true := by simp [oneLine] at h ⊢; exact h.2
    simp only [List.cons_append, splitLines, hc, Bool.false_eq_true, if_false]
    rw [ih (c :: acc) ht]
    simp

theorem endsClean_concat (l : List Char) (h : endsClean l = true) :
    ∃ t c, l = t ++ [c] ∧ isSpace c = false := by
  unfold endsClean at h
  cases hl : l.getLast? with
  | none => simp [hl] at h
  | some c =>
    simp [hl] at h
    obtain ⟨t, rfl⟩ := List.getLast?_eq_some_iff.mp hl
    exact ⟨t, c, rfl, h⟩

theorem trim_clean (c : Char) (mid : List Char) (d : Char) (hc : isSpace c = false) (hd : isSpace d = false) :
    trim (c :: mid ++ [d] ++ ['\n']) = c :: mid ++ [d] := by
  unfold trim
  have h1 : (c :: mid ++ [d] ++ ['\n']).dropWhile isSpace = c :: mid ++ [d] ++ ['\n'] := by
    simp [hc]
  rw [h1]
  have h2 : (c :: mid ++ [d] ++ ['\n']).reverse = '\n' :: d :: (c :: mid).reverse := by simp
  rw [h2]
  have hn : isSpace '\n' = true := by decide
  have h3 : ('\n' :: d :: (c :: mid).reverse).dropWhile isSpace = d :: (c :: mid).reverse := by
    rw [List.dropWhile_cons_of_pos hn, List.dropWhile_cons_of_neg (by simp [hd])]
  rw [h3]
  simp

/-- `name: msg` (after trimming) with `name` in the batch and no `": "` inside `name` is recorded for `name` -/
theorem lineAct_recorded (names : List (List Char)) (nm msg : List Char) (hm : nm ∈ names)
    (hsep : splitSep nm = none) (l : List Char) (ht : trim l = nm ++ ':' :: ' ' :: msg) :
    lineAct names l = .record nm msg := by
  unfold lineAct
  simp only [ht]
  have hne : (nm ++ ':' :: ' ' :: msg).isEmpty = false := by cases nm <;> simp
  simp only [hne, Bool.false_eq_true, if_false]
  rw [splitSep_append nm msg hsep]
  simp [hm]

end ConfModel.FeedbackLine
