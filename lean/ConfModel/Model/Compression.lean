/-
Model of `internal/compression/*.go` (C20): the life cycle of the six decompressor wrappers
as connect-go's pools drive them, the compressor side, and the naming tables.

gzip, zlib, brotli, zstd and snappy are third-party algorithms: they enter as a parameter
`Lib` — `enc`, and `look src` = what a *fresh* library reader does on the source `src`
(whether `Reset` succeeds, and what reading everything returns).  The single assumption
about the libraries is built into `Rd.reset`: a library `Reset(src)` (or a newly constructed
reader) behaves like a fresh reader on `src`, whatever the reader went through before.
What the repository adds — and what is modelled branch by branch — are the wrappers.
-/
namespace ConfModel.Compression

abbrev Bytes := List UInt8

/-- behaviour of a fresh library reader on one source -/
structure Look where
  resetOk : Bool
  /-- reading everything after that `Reset`: the bytes, or `none` for an error -/
  read : Option Bytes
deriving DecidableEq, Repr

structure Lib where
  enc : Bytes → Bytes
  look : Bytes → Look

/-- decompressing what the compressor produced returns the original bytes -/
def Lib.Lawful (l : Lib) : Prop := ∀ b, l.look (l.enc b) = ⟨true, some b⟩

/-- state of a library reader (`gzip.Reader`, `zlib` reader, `brotli.Reader`, `zstd.Decoder`,
`snappy.Reader`, or the plain source for identity) -/
inductive Rd where
  | fresh (r : Option Bytes)
  | drained
  | failed
deriving DecidableEq, Repr

inductive Out where
  | ok
  | err
  | data (b : Bytes)
  | panic
deriving DecidableEq, Repr

/-- library `Reset(src)` / construction over `src`: a fresh reader (the assumption) -/
def Rd.reset (l : Lib) (src : Bytes) : Rd × Bool := (.fresh (l.look src).read, (l.look src).resetOk)

/-- `io.ReadAll`: the data, or an error; afterwards EOF (or the sticky error) -/
def Rd.readAll : Rd → Out × Rd
  | .fresh (some b) => (.data b, .drained)
  | .fresh none => (.err, .failed)
  | .drained => (.data [], .drained)
  | .failed => (.err, .failed)

inductive Kind where
  | noop | gzip | brotli | zstd | deflate | snappy
deriving DecidableEq, Repr

/-- wrapper state.  `none` = no reader yet (the embedded nil interface of `noOpDecompressor`, a
`gzip.Reader{}` never reset, `deflateDecompressor.reader == nil`, `zstdDecompressor.decoder == nil`). -/
inductive St where
  | noop (r : Option Rd)
  /-- `gzip.Reader` used directly; `hasFlate` = its inner decompressor exists (set by the first
  `Reset` that gets past the header) -/
  | gzip (hasFlate : Bool) (r : Option Rd)
  | brotli (r : Option Rd)
  | snappy (r : Option Rd)
  /-- `decoder == nil` after `Close`; recreated by the next `Reset` -/
  | zstd (decoder : Option Rd)
  /-- `reader`: nil, the error sentinel (`zlib.NewReader` failed), or a zlib reader -/
  | deflate (reader : Option (Option Rd))
deriving DecidableEq, Repr

/-- `GetDecompressor` / the `New…Decompressor` constructors -/
def init : Kind → St
  | .noop => .noop none
  | .gzip => .gzip false none
  | .brotli => .brotli none
  | .snappy => .snappy none
  | .zstd => .zstd (some .failed)   -- `zstd.NewReader(nil)`: reads fail until the first Reset
  | .deflate => .deflate none

inductive Op where
  | reset (src : Bytes)
  | readAll
  | close
deriving DecidableEq, Repr

def okIf (b : Bool) : Out := if b then .ok else .err

def readOpt (r : Option Rd) : Out × Option Rd :=
  match r with
  | none => (.panic, none)        -- nil reader inside
  | some rd => ((rd.readAll).1, some (rd.readAll).2)

/-- one method call on a decompressor -/
def step (l : Lib) : St → Op → St × Out
  -- noOpDecompressor: Reset stores the reader; Read/Close go to it (nil before the first Reset)
  | .noop _, .reset src => (.noop (some (Rd.reset l src).1), .ok)
  | .noop r, .readAll => (.noop (readOpt r).2, (readOpt r).1)
  | .noop r, .close => (.noop r, match r with | none => .panic | some _ => .ok)
  -- gzip.Reader: Reset reads the header; the flate reader is created when the header is good
  | .gzip f _, .reset src =>
    let (rd, ok) := Rd.reset l src
    (.gzip (f || ok) (some rd), okIf ok)
  | .gzip f r, .readAll => (.gzip f (readOpt r).2, (readOpt r).1)
  | .gzip f r, .close => (.gzip f r, if f then .ok else .panic)
  -- brotliDecompressor: Reset returns the library's error; Close does nothing
  | .brotli _, .reset src =>
    let (rd, ok) := Rd.reset l src
    (.brotli (some rd), okIf ok)
  | .brotli r, .readAll => (.brotli (readOpt r).2, (readOpt r).1)
  | .brotli r, .close => (.brotli r, .ok)
  -- snappyDecompressor: Reset never returns an error; Close does nothing
  | .snappy _, .reset src => (.snappy (some (Rd.reset l src).1), .ok)
  | .snappy r, .readAll => (.snappy (readOpt r).2, (readOpt r).1)
  | .snappy r, .close => (.snappy r, .ok)
  -- zstdDecompressor: decoder discarded on Close, recreated on Reset, EOF while there is none
  | .zstd _, .reset src =>
    let (rd, ok) := Rd.reset l src
    (.zstd (some rd), okIf ok)
  | .zstd none, .readAll => (.zstd none, .data [])
  | .zstd (some rd), .readAll => (.zstd (some (rd.readAll).2), (rd.readAll).1)
  | .zstd _, .close => (.zstd none, .ok)
  -- deflateDecompressor: a new zlib reader on every Reset, the error sentinel on a bad header
  | .deflate _, .reset src =>
    let (rd, ok) := Rd.reset l src
    if ok then (.deflate (some (some rd)), .ok) else (.deflate (some none), .err)
  | .deflate none, .readAll => (.deflate none, .data [])
  | .deflate (some none), .readAll => (.deflate (some none), .err)
  | .deflate (some (some rd)), .readAll => (.deflate (some (some (rd.readAll).2)), (rd.readAll).1)
  | .deflate none, .close => (.deflate none, .ok)
  | .deflate (some none), .close => (.deflate (some none), .err)
  | .deflate (some (some rd)), .close => (.deflate (some (some rd)), okIf (rd != .failed))

/-- states in which no method call can hit a nil reader -/
def safe : St → Bool
  | .noop r => r.isSome
  | .gzip f r => f && r.isSome
  | .brotli r => r.isSome
  | .snappy r => r.isSome
  | .zstd _ => true
  | .deflate _ => true

/-- one message through a pooled instance, as connect-go's `compressionPool.Decompress` does:
`Reset(src)`; if that worked `ReadAll`, `Close`, `Reset(http.NoBody)`.  (connect-go drops an
instance whose `Reset` failed; the model — like the harness — keeps using it, which is the
harsher history.)  The result is what the caller gets: the message or an error. -/
def cycle (l : Lib) (s : St) (src : Bytes) : St × Out :=
  let (s1, o) := step l s (.reset src)
  if o != .ok then (s1, .err) else
  let (s2, r) := step l s1 .readAll
  let (s3, _) := step l s2 .close
  let (s4, _) := step l s3 (.reset [])
  (s4, r)

/-- steps of a history of one pooled instance -/
inductive HStep where
  | msg (src : Bytes)
  | close
  | resetEmpty
  | read
deriving DecidableEq, Repr

def hstep (l : Lib) (s : St) : HStep → St × Out
  | .msg src => cycle l s src
  | .close => step l s .close
  | .resetEmpty => step l s (.reset [])
  | .read => step l s .readAll

def runH (l : Lib) : St → List HStep → St × List Out
  | s, [] => (s, [])
  | s, h :: t =>
    let (s1, o) := hstep l s h
    let (s2, os) := runH l s1 t
    (s2, o :: os)

/-! ## compressors

The five third-party writers are used directly; the repository's own code is
`noOpCompressor`.  A compressor (`Reset(dst)`, `Write`, `Close`) appends `enc data` to its
current destination. -/

inductive COp where
  | reset
  | write (b : Bytes)
  | close
deriving DecidableEq, Repr

/-- pending data is encoded into the current destination on `Close` -/
structure CState where
  dst : Option Bytes      -- current destination contents (none: no destination yet)
  pending : Bytes
  done : List Bytes       -- finished destinations, oldest first
deriving DecidableEq, Repr

def cinit : CState := { dst := none, pending := [], done := [] }

def cstep (l : Lib) (s : CState) : COp → CState
  | .reset => { dst := some [], pending := [], done := match s.dst with | some d => s.done ++ [d] | none => s.done }
  | .write b => { s with pending := s.pending ++ b }
  | .close => { s with dst := s.dst.map (· ++ l.enc s.pending), pending := [] }

/-- a pooled compressor used for a list of messages: `Reset(dst); Write(m); Close()` each -/
def compressAll (l : Lib) (s : CState) : List Bytes → CState
  | [] => s
  | m :: t => compressAll l (cstep l (cstep l (cstep l s .reset) (.write m)) .close) t

/-- the `Write` calls by which one message reaches the compressor: one call, one per byte,
the chunks of an `io.Copy`, or NONE at all (`bytes.Buffer.WriteTo` on an empty message) -/
def writeChunks (l : Lib) (s : CState) (cs : List Bytes) : CState :=
  cs.foldl (fun s c => cstep l s (.write c)) s

/-- a pooled compressor used for a list of messages, each handed over as a list of chunks:
`Reset(dst); Write(c₁); …; Write(cₖ); Close()` (k ≥ 0) -/
def compressVia (l : Lib) (s : CState) : List (List Bytes) → CState
  | [] => s
  | cs :: t => compressVia l (cstep l (writeChunks l (cstep l s .reset) cs) .close) t

/-! ## construction in an environment

What the process may use when an instance is constructed.  None of the constructors of
`internal/compression` reads it: `zstd.NewWriter(nil)` / `zstd.NewReader(nil)` and the other
library constructors are called with the libraries' defaults, which work for every value. -/

structure Env where
  /-- `runtime.GOMAXPROCS(0)`, at least 1 -/
  procs : Nat
deriving DecidableEq, Repr

/-- `GetDecompressor` / `tracer.GetDecompressor` / the `New…Decompressor` constructors, called in `e` -/
def construct (_e : Env) (k : Kind) : St := init k

/-- `GetCompressor` / the `New…Compressor` constructors, called in `e` -/
def cconstruct (_e : Env) : CState := cinit

/-- a compressor and a decompressor freshly constructed in `e`, used for a list of messages:
each message is compressed into a destination of its own, each destination goes through the
decompressor as one pooled cycle; the results the caller gets -/
def freshRoundTrip (l : Lib) (e : Env) (k : Kind) (ms : List Bytes) : List Out :=
  let c := compressAll l (cconstruct e) ms
  (runH l (construct e k) ((c.done ++ c.dst.toList).map HStep.msg)).2

/-! ## names -/

inductive Alg where
  | identity | gzip | brotli | zstd | zlib | snappy
deriving DecidableEq, Repr

def Alg.label : Alg → String
  | .identity => "identity" | .gzip => "gzip" | .brotli => "brotli"
  | .zstd => "zstd" | .zlib => "zlib" | .snappy => "snappy"

/-- `conformancev1.Compression` number ↦ algorithm (`GetCompressor`, `GetDecompressor`) -/
def algOfEnum : Nat → Option Alg
  | 0 => some .identity | 1 => some .identity | 2 => some .gzip | 3 => some .brotli
  | 4 => some .zstd | 5 => some .zlib | 6 => some .snappy | _ => none

/-- the IANA name of a compression (`checkCompression`; 0 is not a valid expectation) -/
def nameOfEnum : Nat → Option String
  | 1 => some "identity" | 2 => some "gzip" | 3 => some "br"
  | 4 => some "zstd" | 5 => some "deflate" | 6 => some "snappy" | _ => none

/-- encoding name ↦ algorithm (`tracer.GetDecompressor` after lower-casing; "" = identity) -/
def algOfName : String → Option Alg
  | "" => some .identity | "identity" => some .identity | "gzip" => some .gzip | "br" => some .brotli
  | "zstd" => some .zstd | "deflate" => some .zlib | "snappy" => some .snappy | _ => none

def labelOf (a : Option Alg) : String := match a with | some x => x.label | none => "none"

def asciiLower (s : String) : String := String.ofList (s.toList.map Char.toLower)

end ConfModel.Compression
