package main

import (
	"bytes"
	"context"
	"encoding/json"
	"errors"
	"io"
	"os"
	"os/exec"
	"strings"
	"time"

	"connectrpc.com/conformance/internal/verifharness/gen"
)

// Operations that drive goroutines of the real runner which the harness cannot guard with a
// recover() (the response-reading goroutine of runTestCasesForServer, the reader goroutine of
// readDelimitedMessageRaw, consumeOutput of the client runner) are run in a child process:
//
//	verifharness opchild <area> <op>     input (JSON) on stdin, the op's observation on stdout
//
// If the child does not deliver an observation (the Go runtime ended it: an unrecovered panic in
// any goroutine, a fatal error, a kill after the time limit) the parent reports
// {"crashed": true, "how": "panic" | "fatal" | "timeout" | "exit"} as the observation of the op: for the
// runner this is "the whole conformance run died; no case of any batch got an outcome".

const c11ChildEnv = "VERIF_OPCHILD"

func init() { rawCommands["opchild"] = c11ChildMain }

func c11InChild() bool { return os.Getenv(c11ChildEnv) == "1" }

func c11ChildMain(args []string) int {
	if len(args) != 2 {
		os.Stderr.WriteString("usage: verifharness opchild <area> <op>\n")
		return 2
	}
	raw, err := io.ReadAll(os.Stdin)
	if err != nil {
		return 2
	}
	os.Setenv(c11ChildEnv, "1")
	var sink bytes.Buffer
	c := &gen.Ctx{Area: args[0], Seed: 1, Tier: "quick", R: gen.NewRand(1), E: gen.NewEmitter(&sink)}
	impl := c.DoRaw(args[1], raw)
	out, err := json.Marshal(impl)
	if err != nil {
		return 2
	}
	os.Stdout.Write(out)
	return 0
}

// c11ChildRun runs op of area on raw in a child process and returns its observation, or the
// crash record.
func c11ChildRun(area, op string, raw json.RawMessage, limit time.Duration) any {
	exe, err := os.Executable()
	if err != nil {
		panic(err)
	}
	ctx, cancel := context.WithTimeout(context.Background(), limit)
	defer cancel()
	cmd := exec.CommandContext(ctx, exe, "opchild", area, op)
	cmd.Env = append(os.Environ(), c11ChildEnv+"=1")
	cmd.Stdin = bytes.NewReader(raw)
	var stdout, stderr bytes.Buffer
	cmd.Stdout, cmd.Stderr = &stdout, &stderr
	cmd.WaitDelay = 2 * time.Second
	runErr := cmd.Run()
	if runErr == nil && json.Valid(stdout.Bytes()) && stdout.Len() > 0 {
		return json.RawMessage(append([]byte{}, stdout.Bytes()...))
	}
	how := "exit"
	switch {
	case errors.Is(ctx.Err(), context.DeadlineExceeded):
		how = "timeout"
	case strings.Contains(stderr.String(), "panic:"):
		how = "panic"
	case strings.Contains(stderr.String(), "fatal error:"):
		how = "fatal"
	}
	detail := ""
	for _, l := range strings.Split(stderr.String(), "\n") {
		if strings.HasPrefix(l, "panic:") || strings.HasPrefix(l, "fatal error:") {
			detail = l
			break
		}
	}
	return map[string]any{"crashed": true, "how": how, "detail": detail}
}
