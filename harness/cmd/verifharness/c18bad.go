package main

// C18, the malformed stream of the strict codecs (separate from the mostly-valid stream of op
// codec; counted in the evidence): every truncation and every single-byte corruption of valid
// encodings, unknown field numbers of every wire type (groups included) at the top level and
// inside nested messages, end-group without start, invalid wire types, JSON with unknown members
// at any depth / malformed JSON, the stdin/stdout stream codecs (internal.NewCodec) on malformed
// input, and a message that is not a proto.Message.
//
// op codecbad : {codec, type, data, known}  -> what the codec's Unmarshal says (class + reported
//    field number / wire type) and what the protobuf library itself says about the same bytes
//    (parses? unknown fields at the top level / anywhere?). known = the field numbers of the
//    message type with the wire types each accepts, regenerated from the descriptor.

import (
	"bytes"
	"encoding/binary"
	"encoding/hex"
	"encoding/json"
	"fmt"
	"regexp"
	"sort"
	"strconv"

	"connectrpc.com/conformance/internal"
	"connectrpc.com/conformance/internal/verifharness/gen"
	"google.golang.org/protobuf/encoding/protojson"
	"google.golang.org/protobuf/encoding/protowire"
	"google.golang.org/protobuf/proto"
	"google.golang.org/protobuf/reflect/protoreflect"
	"google.golang.org/protobuf/types/known/structpb"
)

func init() {
	gen.RegisterOp("c18", "codecbad", func(_ *gen.Ctx, raw json.RawMessage) any { return c18CodecBad(gen.Into[c18BadIn](raw)) })
}

type c18Known struct {
	Num int   `json:"num"`
	WT  []int `json:"wt"`
}
type c18BadIn struct {
	Codec string     `json:"codec"` // proto | json | stream-proto | stream-json | notproto-proto | notproto-json
	Type  string     `json:"type"`
	Data  string     `json:"data"` // hex
	Known []c18Known `json:"known"`
	// Tables: one field table per message type reachable from Type (index 0 = Type itself),
	// regenerated from the descriptor: the tree the Lean model walks
	Tables []c18Table `json:"tables"`
	Kind   string     `json:"kind"`
}
type c18Entry struct {
	Num int   `json:"num"`
	WT  []int `json:"wt"`
	Msg bool  `json:"msg"` // the field holds messages (singular, repeated, map entry) of table Sub
	Sub int   `json:"sub"`
}
type c18Table struct {
	Lenient bool       `json:"lenient"` // map entry: the library skips other field numbers
	Entries []c18Entry `json:"entries"`
}

// c18TablesOf: the field tables of md and of every message type reachable from it.
func c18TablesOf(md protoreflect.MessageDescriptor) []c18Table {
	index := map[protoreflect.FullName]int{}
	var order []protoreflect.MessageDescriptor
	var visit func(d protoreflect.MessageDescriptor) int
	visit = func(d protoreflect.MessageDescriptor) int {
		if i, ok := index[d.FullName()]; ok {
			return i
		}
		i := len(order)
		index[d.FullName()] = i
		order = append(order, d)
		fds := d.Fields()
		for k := 0; k < fds.Len(); k++ {
			if m := fds.Get(k).Message(); m != nil {
				visit(m)
			}
		}
		return i
	}
	visit(md)
	out := make([]c18Table, len(order))
	for i, d := range order {
		t := c18Table{Lenient: d.IsMapEntry(), Entries: []c18Entry{}}
		for _, k := range c18KnownOf(d) {
			e := c18Entry{Num: k.Num, WT: k.WT}
			if m := d.Fields().ByNumber(protoreflect.FieldNumber(k.Num)).Message(); m != nil {
				e.Msg, e.Sub = true, index[m.FullName()]
			}
			t.Entries = append(t.Entries, e)
		}
		out[i] = t
	}
	return out
}

type c18BadOut struct {
	Class string `json:"class"` // ok | malformed | unknown | unprocessable | end-group | wire-type | not-proto | other:<text>
	Num   int    `json:"num"`   // reported field number
	WT    string `json:"wt"`    // reported wire type name
	// the library on the same bytes
	Parses     bool `json:"parses"`     // proto.Unmarshal / protojson (DiscardUnknown) succeeds
	UnknownTop bool `json:"unknownTop"` // … leaving unknown fields at the top level
	UnknownAny bool `json:"unknownAny"` // … or in any nested message
	Equal      bool `json:"equal"`      // accepted: the decoded message re-encodes to a message equal to the lenient parse
}

var (
	c18ReUnknown = regexp.MustCompile(`^message data includes unrecognized field (\d+) with (varint|fixed32|fixed64|bytes|start-group) wire type$`)
	c18ReEndGrp  = regexp.MustCompile(`^message data included field (\d+) that incorrectly starts with end-group wire type$`)
	c18ReWT      = regexp.MustCompile(`^message data included field (\d+) that uses unknown wire type (\d+)$`)
	c18ReUnproc  = regexp.MustCompile(`^message data included \d+ unprocessable bytes: `)
	c18ReNotMsg  = regexp.MustCompile(`^message type .* is not a proto\.Message$`)
)

func c18KnownOf(md protoreflect.MessageDescriptor) []c18Known {
	var out []c18Known
	fds := md.Fields()
	for i := 0; i < fds.Len(); i++ {
		fd := fds.Get(i)
		var wt int
		switch fd.Kind() {
		case protoreflect.BoolKind, protoreflect.EnumKind, protoreflect.Int32Kind, protoreflect.Sint32Kind, protoreflect.Uint32Kind,
			protoreflect.Int64Kind, protoreflect.Sint64Kind, protoreflect.Uint64Kind:
			wt = int(protowire.VarintType)
		case protoreflect.Sfixed32Kind, protoreflect.Fixed32Kind, protoreflect.FloatKind:
			wt = int(protowire.Fixed32Type)
		case protoreflect.Sfixed64Kind, protoreflect.Fixed64Kind, protoreflect.DoubleKind:
			wt = int(protowire.Fixed64Type)
		case protoreflect.GroupKind:
			wt = int(protowire.StartGroupType)
		default:
			wt = int(protowire.BytesType)
		}
		wts := []int{wt}
		if fd.IsList() && wt != int(protowire.BytesType) && wt != int(protowire.StartGroupType) {
			wts = append(wts, int(protowire.BytesType)) // packed or not, both are accepted
		}
		out = append(out, c18Known{Num: int(fd.Number()), WT: wts})
	}
	return out
}

func c18HasUnknown(m protoreflect.Message, top bool) (atTop, anywhere bool) {
	if len(m.GetUnknown()) > 0 {
		anywhere = true
		atTop = top
	}
	m.Range(func(fd protoreflect.FieldDescriptor, v protoreflect.Value) bool {
		switch {
		case fd.IsMap():
			if fd.MapValue().Message() != nil {
				v.Map().Range(func(_ protoreflect.MapKey, mv protoreflect.Value) bool {
					if _, a := c18HasUnknown(mv.Message(), false); a {
						anywhere = true
					}
					return true
				})
			}
		case fd.IsList():
			if fd.Message() != nil {
				for i := 0; i < v.List().Len(); i++ {
					if _, a := c18HasUnknown(v.List().Get(i).Message(), false); a {
						anywhere = true
					}
				}
			}
		case fd.Message() != nil:
			if _, a := c18HasUnknown(v.Message(), false); a {
				anywhere = true
			}
		}
		return true
	})
	return atTop, anywhere
}

func c18ClassOfErr(err error, out *c18BadOut) {
	if err == nil {
		out.Class = "ok"
		return
	}
	msg := err.Error()
	switch {
	case c18ReUnknown.MatchString(msg):
		m := c18ReUnknown.FindStringSubmatch(msg)
		out.Class, out.WT = "unknown", m[2]
		out.Num, _ = strconv.Atoi(m[1])
	case c18ReEndGrp.MatchString(msg):
		out.Class = "end-group"
	case c18ReWT.MatchString(msg):
		out.Class = "wire-type"
	case c18ReUnproc.MatchString(msg):
		out.Class = "unprocessable"
	case c18ReNotMsg.MatchString(msg):
		out.Class = "not-proto"
	default:
		out.Class = "malformed"
	}
}

func c18CodecBad(in c18BadIn) c18BadOut {
	data, _ := hex.DecodeString(in.Data)
	var out c18BadOut
	isJSON := in.Codec == "json" || in.Codec == "stream-json" || in.Codec == "notproto-json"
	// the library's own view
	lenient := c18NewMsg(in.Type)
	var lerr error
	if isJSON {
		lerr = protojson.UnmarshalOptions{DiscardUnknown: true}.Unmarshal(data, lenient)
		if lerr == nil {
			// unknown members: strict parse of the same text fails although the lenient one succeeds
			out.UnknownAny = protojson.Unmarshal(data, c18NewMsg(in.Type)) != nil
			out.UnknownTop = out.UnknownAny
		}
	} else {
		lerr = proto.Unmarshal(data, lenient)
		if lerr == nil {
			out.UnknownTop, out.UnknownAny = c18HasUnknown(lenient.ProtoReflect(), true)
		}
	}
	out.Parses = lerr == nil
	got := c18NewMsg(in.Type)
	var err error
	switch in.Codec {
	case "proto":
		err = internal.StrictProtoCodec{}.Unmarshal(data, got)
	case "json":
		err = internal.StrictJSONCodec{}.Unmarshal(data, got)
	case "notproto-proto":
		var notMsg struct{ X int }
		err = internal.StrictProtoCodec{}.Unmarshal(data, &notMsg)
		if err != nil {
			_, e2 := internal.StrictProtoCodec{}.Marshal(&notMsg)
			_, e3 := internal.StrictProtoCodec{}.MarshalStable(&notMsg)
			if e2 == nil || e3 == nil {
				err = nil
			}
		}
	case "notproto-json":
		var notMsg struct{ X int }
		err = internal.StrictJSONCodec{}.Unmarshal(data, &notMsg)
		if err != nil {
			_, e2 := internal.StrictJSONCodec{}.Marshal(&notMsg)
			_, e3 := internal.StrictJSONCodec{}.MarshalStable(&notMsg)
			if e2 == nil || e3 == nil {
				err = nil
			}
		}
	case "stream-proto":
		// length-prefixed binary stream of the runner's stdin / stdout protocol
		var buf bytes.Buffer
		var l [4]byte
		binary.BigEndian.PutUint32(l[:], uint32(len(data)))
		buf.Write(l[:])
		buf.Write(data)
		err = internal.NewCodec(false).NewDecoder(&buf).DecodeNext(got)
	case "stream-json":
		err = internal.NewCodec(true).NewDecoder(bytes.NewReader(data)).DecodeNext(got)
	}
	c18ClassOfErr(err, &out)
	if err == nil && out.Parses {
		out.Equal = proto.Equal(got, lenient)
	}
	return out
}

// ---------------------------------------------------------------- generator

func c18BadGen(c *gen.Ctx) {
	r := c.R
	th := c.Thorough()
	n := 0
	types := []string{"connectrpc.conformance.v1.UnaryRequest", "connectrpc.conformance.v1.ClientCompatRequest", "connectrpc.conformance.v1.Header",
		"connectrpc.conformance.v1.ConformancePayload", "connectrpc.conformance.v1.Error", "connectrpc.conformance.v1.ServerCompatResponse"}
	unkField := func(num protowire.Number, kind string) []byte {
		var b []byte
		switch kind {
		case "varint":
			b = protowire.AppendVarint(protowire.AppendTag(b, num, protowire.VarintType), 300)
		case "fixed32":
			b = protowire.AppendFixed32(protowire.AppendTag(b, num, protowire.Fixed32Type), 7)
		case "fixed64":
			b = protowire.AppendFixed64(protowire.AppendTag(b, num, protowire.Fixed64Type), 7)
		case "bytes":
			b = protowire.AppendBytes(protowire.AppendTag(b, num, protowire.BytesType), []byte("zz"))
		case "group":
			b = protowire.AppendTag(b, num, protowire.StartGroupType)
			b = protowire.AppendVarint(protowire.AppendTag(b, 1, protowire.VarintType), 1)
			b = protowire.AppendTag(b, num, protowire.StartGroupType) // nested group
			b = protowire.AppendTag(b, num, protowire.EndGroupType)
			b = protowire.AppendTag(b, num, protowire.EndGroupType)
		case "end-group":
			b = protowire.AppendTag(b, num, protowire.EndGroupType)
		case "wt6":
			b = protowire.AppendVarint(b, uint64(num)<<3|6)
		case "wt7":
			b = protowire.AppendVarint(b, uint64(num)<<3|7)
		case "num0":
			b = protowire.AppendVarint(protowire.AppendVarint(b, 0), 1)
		}
		return b
	}
	kinds := []string{"varint", "fixed32", "fixed64", "bytes", "group", "end-group", "wt6", "wt7", "num0"}
	for _, tn := range types {
		md := c18NewMsg(tn).ProtoReflect().Descriptor()
		known := c18KnownOf(md)
		tables := c18TablesOf(md)
		do := func(codec string, data []byte, kind string) {
			c.Do("codecbad", c18BadIn{Codec: codec, Type: tn, Data: gen.Hex(data), Known: known, Tables: tables, Kind: kind})
			c.E.Count("kind:codecbad-" + kind)
			n++
		}
		per := 3
		if th {
			per = 12
		}
		for k := 0; k < per; k++ {
			m := c18NewMsg(tn).ProtoReflect()
			c18RandMsg(r, m, 3)
			bin, _ := proto.MarshalOptions{Deterministic: true}.Marshal(m.Interface())
			js, _ := internal.StrictJSONCodec{}.MarshalStable(m.Interface())
			do("proto", bin, "valid")
			do("json", js, "valid")
			do("stream-proto", bin, "valid")
			do("stream-json", js, "valid")
			// every truncation, every single-byte corruption (one replacement per position; thorough: 3)
			if len(bin) <= 120 {
				for i := 0; i < len(bin); i++ {
					do("proto", bin[:i], "truncated")
					reps := 1
					if th {
						reps = 3
					}
					for q := 0; q < reps; q++ {
						mb := append([]byte{}, bin...)
						mb[i] ^= byte(1 << uint(r.Intn(8)))
						do("proto", mb, "corrupted")
						if q == 0 && i%3 == 0 {
							do("stream-proto", mb, "corrupted")
						}
					}
				}
			}
			if len(js) <= 160 {
				for i := 0; i < len(js); i++ {
					if i%2 == 0 || th {
						do("json", js[:i], "truncated")
					}
					mb := append([]byte{}, js...)
					mb[i] = gen.Pick(r, []byte{'"', '{', '}', ':', ',', 'x', '0', ' ', '[', ']', '\\'})
					do("json", mb, "corrupted")
					if i%3 == 0 {
						do("stream-json", mb, "corrupted")
					}
				}
			}
			// unknown fields of every wire type: field numbers next to known ones, large, maximal; at the
			// start, at the end; and inside the first nested message field (bytes-typed wrapper)
			nums := []protowire.Number{1999, protowire.Number(md.Fields().Len() + 50), 1<<29 - 1, 100}
			for _, kind := range kinds {
				for _, num := range nums {
					u := unkField(num, kind)
					do("proto", append(append([]byte{}, bin...), u...), "unknown-"+kind)
					do("proto", append(append([]byte{}, u...), bin...), "unknown-"+kind)
					if num == 1999 {
						do("stream-proto", append(append([]byte{}, bin...), u...), "unknown-"+kind)
					}
				}
				// a known field number with a wire type the field does not accept
				if len(known) > 0 {
					kf := known[r.Intn(len(known))]
					if kind != "num0" && kind != "wt6" && kind != "wt7" {
						do("proto", append(append([]byte{}, bin...), unkField(protowire.Number(kf.Num), kind)...), "known-number-"+kind)
					}
				}
				// nested: wrap an unknown field into every message-typed singular field
				fds := md.Fields()
				for i := 0; i < fds.Len(); i++ {
					fd := fds.Get(i)
					if fd.Message() == nil || fd.IsMap() || fd.IsList() || fd.Message().FullName() == "google.protobuf.Any" {
						continue
					}
					inner := unkField(1999, kind)
					nested := protowire.AppendBytes(protowire.AppendTag(nil, fd.Number(), protowire.BytesType), inner)
					do("proto", append(append([]byte{}, bin...), nested...), "nested-unknown-"+kind)
					break
				}
			}
			// JSON: unknown member at the top, nested, in an array element; duplicate member; trailing data
			if len(js) >= 2 && js[0] == '{' {
				inner := bytes.TrimSpace(js[1 : len(js)-1])
				sep := ","
				if len(inner) == 0 {
					sep = ""
				}
				do("json", []byte(`{"zzUnknown":1`+sep+string(inner)+`}`), "json-unknown")
				do("json", []byte(`{`+string(inner)+sep+`"zzUnknown":{"a":[1,{"b":null}]}}`), "json-unknown")
				do("stream-json", []byte(`{`+string(inner)+sep+`"zzUnknown":null}`), "json-unknown")
				do("json", append(append([]byte{}, js...), []byte(` {}`)...), "json-trailing")
				do("json", bytes.Replace(js, []byte(`{`), []byte(`{"zzNested":true,`), 2), "json-unknown-nested")
			}
		}
		for _, d := range [][]byte{nil, {0}, {0xff}, {0x08}, {0x0a, 0x05, 'a'}, {0xff, 0xff, 0xff, 0xff, 0xff, 0xff, 0xff, 0xff, 0xff, 0xff, 0x01}, []byte("null"), []byte("[]"), []byte(`"x"`), []byte("{"), []byte(" ")} {
			for _, codec := range []string{"proto", "json", "stream-proto", "stream-json", "notproto-proto", "notproto-json"} {
				do(codec, d, "tiny")
			}
		}
	}
	n += c18DeepGen(c, unkField, kinds)
	c.E.Add("codecbad", n)
}

// ---------------------------------------------------------------- unknown fields at depth 1, 2, 3

type c18Nested struct {
	msg   protoreflect.Message
	depth int
	pos   string // singular | first | middle | last | only | mapvalue
}

// c18Collect lists the nested message instances of m (not m itself) in a fixed order.
func c18Collect(m protoreflect.Message, depth int, out *[]c18Nested) {
	fds := m.Descriptor().Fields()
	for i := 0; i < fds.Len(); i++ {
		fd := fds.Get(i)
		if !m.Has(fd) {
			continue
		}
		switch {
		case fd.IsMap():
			if fd.MapValue().Message() == nil {
				continue
			}
			var keys []string
			vals := map[string]protoreflect.Message{}
			m.Get(fd).Map().Range(func(k protoreflect.MapKey, v protoreflect.Value) bool {
				keys = append(keys, k.String())
				vals[k.String()] = v.Message()
				return true
			})
			sort.Strings(keys)
			for _, k := range keys {
				*out = append(*out, c18Nested{vals[k], depth + 1, "mapvalue"})
				c18Collect(vals[k], depth+1, out)
			}
		case fd.Message() == nil:
		case fd.IsList():
			l := m.Get(fd).List()
			for k := 0; k < l.Len(); k++ {
				pos := "middle"
				switch {
				case l.Len() == 1:
					pos = "only"
				case k == 0:
					pos = "first"
				case k == l.Len()-1:
					pos = "last"
				}
				*out = append(*out, c18Nested{l.Get(k).Message(), depth + 1, pos})
				c18Collect(l.Get(k).Message(), depth+1, out)
			}
		default:
			*out = append(*out, c18Nested{m.Get(fd).Message(), depth + 1, "singular"})
			c18Collect(m.Get(fd).Message(), depth+1, out)
		}
	}
}

// c18FillDeep populates every message-typed field of m down to the given depth (three elements
// per repeated field, so that there is a first, a middle and a last one) and some scalars.
func c18FillDeep(r *gen.Rand, m protoreflect.Message, depth int) {
	fds := m.Descriptor().Fields()
	seenOneof := map[protoreflect.FullName]bool{}
	for i := 0; i < fds.Len(); i++ {
		fd := fds.Get(i)
		if od := fd.ContainingOneof(); od != nil {
			if seenOneof[od.FullName()] {
				continue
			}
			// prefer a message-typed member of the oneof
			pick := fd
			for k := 0; k < od.Fields().Len(); k++ {
				if od.Fields().Get(k).Message() != nil && r.Bool() {
					pick = od.Fields().Get(k)
				}
			}
			seenOneof[od.FullName()] = true
			fd = pick
		}
		switch {
		case fd.IsMap():
		case fd.Message() != nil && fd.Message().FullName() == "google.protobuf.Any":
			if fd.IsList() {
				l := m.Mutable(fd).List()
				for k := 0; k < 2; k++ {
					e := l.NewElement()
					c18FillMsg(r, e.Message(), 1)
					l.Append(e)
				}
			} else {
				c18FillMsg(r, m.Mutable(fd).Message(), 1)
			}
		case fd.Message() != nil:
			if depth <= 0 {
				continue
			}
			if fd.IsList() {
				l := m.Mutable(fd).List()
				for k := 0; k < 3; k++ {
					e := l.NewElement()
					c18FillDeep(r, e.Message(), depth-1)
					l.Append(e)
				}
			} else {
				c18FillDeep(r, m.Mutable(fd).Message(), depth-1)
			}
		case fd.IsList():
			if r.Bool() {
				m.Mutable(fd).List().Append(c18RandScalar(r, fd))
			}
		default:
			if r.Bool() {
				m.Set(fd, c18RandScalar(r, fd))
			}
		}
	}
}

// c18DeepGen: unknown fields of every wire type next to the known fields of nested messages at
// depth 1, 2 and 3: in singular message fields, in the first / middle / last element of repeated
// message fields, in map values (google.protobuf.Struct) and inside google.protobuf.Any messages.
func c18DeepGen(c *gen.Ctx, unkField func(protowire.Number, string) []byte, kinds []string) int {
	r := c.R
	n := 0
	bases := []proto.Message{}
	for _, tn := range []string{"connectrpc.conformance.v1.UnaryRequest", "connectrpc.conformance.v1.ClientCompatRequest",
		"connectrpc.conformance.v1.ClientResponseResult", "connectrpc.conformance.v1.TestSuite"} {
		m := c18NewMsg(tn)
		c18FillDeep(r, m.ProtoReflect(), 4)
		bases = append(bases, m)
	}
	st, err := structpb.NewStruct(map[string]any{
		"a": map[string]any{"b": map[string]any{"c": 1.0, "d": map[string]any{}}, "e": "x"},
		"k": []any{map[string]any{"l": true}, "s", map[string]any{}},
		"z": map[string]any{},
	})
	if err != nil {
		panic(err)
	}
	bases = append(bases, st)
	for _, base := range bases {
		tn := string(base.ProtoReflect().Descriptor().FullName())
		tables := c18TablesOf(base.ProtoReflect().Descriptor())
		known := c18KnownOf(base.ProtoReflect().Descriptor())
		var nested []c18Nested
		c18Collect(base.ProtoReflect(), 0, &nested)
		clean, _ := proto.MarshalOptions{Deterministic: true}.Marshal(base)
		c.Do("codecbad", c18BadIn{Codec: "proto", Type: tn, Data: gen.Hex(clean), Known: known, Tables: tables, Kind: "deep-valid"})
		n++
		// at most a few instances per (depth, position) class, all kinds of unknown field
		perClass := map[string]int{}
		limit := 2
		if c.Thorough() {
			limit = 8
		}
		for idx, ne := range nested {
			if ne.depth > 3 {
				continue
			}
			class := fmt.Sprintf("d%d-%s", ne.depth, ne.pos)
			if perClass[class] >= limit {
				continue
			}
			perClass[class]++
			for _, kind := range kinds {
				for _, num := range []protowire.Number{1999, 1<<29 - 1} {
					if num != 1999 && kind != "varint" && kind != "group" {
						continue
					}
					cp := proto.Clone(base)
					var again []c18Nested
					c18Collect(cp.ProtoReflect(), 0, &again)
					again[idx].msg.SetUnknown(unkField(num, kind))
					data, err := proto.MarshalOptions{Deterministic: true}.Marshal(cp)
					if err != nil {
						continue
					}
					k := "deep-unknown-" + kind + "-" + class
					c.Do("codecbad", c18BadIn{Codec: "proto", Type: tn, Data: gen.Hex(data), Known: known, Tables: tables, Kind: k})
					c.E.Count("kind:codecbad-deep-" + class)
					n++
				}
			}
		}
		// two nested messages with unknown fields at once, and top-level plus nested
		if len(nested) >= 2 {
			cp := proto.Clone(base)
			var again []c18Nested
			c18Collect(cp.ProtoReflect(), 0, &again)
			again[0].msg.SetUnknown(unkField(1999, "varint"))
			again[len(again)-1].msg.SetUnknown(unkField(2999, "bytes"))
			data, _ := proto.MarshalOptions{Deterministic: true}.Marshal(cp)
			c.Do("codecbad", c18BadIn{Codec: "proto", Type: tn, Data: gen.Hex(data), Known: known, Tables: tables, Kind: "deep-unknown-two"})
			cp.ProtoReflect().SetUnknown(unkField(3999, "fixed32"))
			data, _ = proto.MarshalOptions{Deterministic: true}.Marshal(cp)
			c.Do("codecbad", c18BadIn{Codec: "proto", Type: tn, Data: gen.Hex(data), Known: known, Tables: tables, Kind: "deep-unknown-top-and-nested"})
			n += 2
		}
	}
	return n
}
