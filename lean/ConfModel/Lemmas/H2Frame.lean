/-
The frame-reassembly machine satisfies the `Lawful` conditions, hence is chunk independent.
-/
import ConfModel.Model.H2Frame
import ConfModel.Lemmas.H2Block
set_option linter.unusedSimpArgs false
set_option linter.unusedVariables false
namespace ConfModel.H2
open Machine

variable {σ : Type}

/-- state invariant of `http2FrameTracer` -/
def FInv (s : FSt σ) : Prop :=
  s.pfx.length < frameHeaderLen ∧ (s.expecting = 0 → s.actual = 0) ∧ (s.expecting ≠ 0 → s.actual < s.expecting)

theorem FInv_init (isReq : Bool) (hp : σ) : FInv (FSt.init isReq hp) := by
  simp [FInv, FSt.init, frameHeaderLen]

theorem emit_inv (dec : Bytes → σ → Option (Frame × σ)) (s : FSt σ) (h : FInv s) : FInv (emit dec s).1 := by
  unfold emit
  split
  · exact h
  · split <;> exact h

theorem frame_lawful (dec : Bytes → σ → Option (Frame × σ)) : Lawful (frameMachine dec) FInv where
  need_pos := by
    intro s hi _
    obtain ⟨h1, h2, h3⟩ := hi
    simp only [frameMachine, fNeed]
    by_cases hp : InPreface s
    · rw [if_pos hp]
      omega
    · rw [if_neg hp]
      by_cases he : s.expecting = 0
      · rw [if_pos he]; omega
      · rw [if_neg he]; have := h3 he; omega
  inv_absorb := by
    intro s d hi _ hl
    obtain ⟨h1, h2, h3⟩ := hi
    simp only [frameMachine, fNeed, fAbsorb] at hl ⊢
    by_cases hp : InPreface s
    · simp only [if_pos hp] at hl ⊢; exact ⟨h1, h2, h3⟩
    · simp only [if_neg hp] at hl ⊢
      by_cases he : s.expecting = 0
      · simp only [if_pos he] at hl ⊢
        refine ⟨?_, h2, h3⟩
        simp only [List.length_append]; omega
      · simp only [if_neg he] at hl ⊢
        refine ⟨h1, fun h => absurd h he, fun _ => ?_⟩
        show s.actual + d.length < s.expecting
        omega
  inv_complete := by
    intro s d hi _ hl
    obtain ⟨h1, h2, h3⟩ := hi
    simp only [frameMachine, fNeed, fComplete] at hl ⊢
    by_cases hp : InPreface s
    · simp only [if_pos hp] at hl ⊢
      split <;> exact ⟨h1, h2, h3⟩
    · simp only [if_neg hp] at hl ⊢
      by_cases he : s.expecting = 0
      · simp only [if_pos he] at hl ⊢
        have ha := h2 he
        split
        · apply emit_inv
          rename_i h0
          refine ⟨by simp [frameHeaderLen], fun _ => ha, fun h => absurd h0 h⟩
        · rename_i hne
          refine ⟨by simp [frameHeaderLen], fun h => absurd h hne, fun _ => ?_⟩
          show s.actual < hdrLen (s.pfx ++ d)
          omega
      · simp only [if_neg he] at hl ⊢
        apply emit_inv
        exact ⟨h1, fun _ => rfl, fun h => absurd rfl h⟩
  stopped_absorb := by
    intro s d _ hs _
    simp only [frameMachine, fAbsorb] at hs ⊢
    split
    · exact hs
    · split <;> exact hs
  need_absorb := by
    intro s d hi _ hl
    simp only [frameMachine, fNeed, fAbsorb] at hl ⊢
    by_cases hp : InPreface s
    · simp only [if_pos hp] at hl ⊢
      have hp2 : InPreface { s with preface := s.preface ++ d } := by
        refine ⟨hp.1, ?_⟩
        show (s.preface ++ _).length < prefaceLen
        have := hp.2
        simp only [List.length_append]; omega
      simp only [if_pos hp2, List.length_append]; omega
    · simp only [if_neg hp] at hl ⊢
      by_cases he : s.expecting = 0
      · simp only [if_pos he] at hl ⊢
        simp only [hp, if_false, he, if_true, List.length_append]; omega
      · simp only [if_neg he] at hl ⊢
        simp only [hp, if_false, he, if_false]; omega
  absorb_absorb := by
    intro s a b hi _ hl
    simp only [frameMachine, fNeed, fAbsorb] at hl ⊢
    by_cases hp : InPreface s
    · simp only [if_pos hp] at hl ⊢
      have hp2 : InPreface { s with preface := s.preface ++ a } := by
        refine ⟨hp.1, ?_⟩
        show (s.preface ++ _).length < prefaceLen
        have := hp.2
        simp only [List.length_append]; omega
      simp only [if_pos hp2, List.append_assoc]
    · simp only [if_neg hp] at hl ⊢
      by_cases he : s.expecting = 0
      · simp only [if_pos he] at hl ⊢
        simp only [hp, if_false, he, if_true, List.append_assoc]
      · simp only [if_neg he] at hl ⊢
        simp only [hp, if_false, he, if_false, List.append_assoc, List.length_append, Nat.add_assoc]
  complete_absorb := by
    intro s a b hi _ hl hb
    simp only [frameMachine, fNeed, fAbsorb, fComplete] at hl ⊢
    by_cases hp : InPreface s
    · simp only [if_pos hp] at hl ⊢
      have hp2 : InPreface { s with preface := s.preface ++ a } := by
        refine ⟨hp.1, ?_⟩
        show (s.preface ++ _).length < prefaceLen
        have := hp.2
        simp only [List.length_append]; omega
      simp only [if_pos hp2, List.append_assoc]
    · simp only [if_neg hp] at hl ⊢
      by_cases he : s.expecting = 0
      · simp only [if_pos he] at hl ⊢
        simp only [hp, if_false, he, if_true, List.append_assoc]
      · simp only [if_neg he] at hl ⊢
        simp only [hp, if_false, he, if_false, List.append_assoc]

end ConfModel.H2
