import ConfModel.Spec.ServerChecks
namespace ConfModel.ServerChecks
open ConfModel.ServerChecksSpec

/-! ### evaluating `values` on lists built from literals -/

@[simp] theorem values_nil (k : String) : values [] k = [] := rfl

theorem values_cons (k' v : String) (t : Hdrs) (k : String) :
    values ((k', v) :: t) k = if k' == k then v :: values t k else values t k := by
  simp only [values, List.filterMap_cons]
  split <;> simp_all

theorem values_append (a b : Hdrs) (k : String) : values (a ++ b) k = values a k ++ values b k := by
  simp [values, List.filterMap_append]

theorem values_ite (c : Prop) [Decidable c] (a b : Hdrs) (k : String) :
    values (if c then a else b) k = if c then values a k else values b k := by
  split <;> rfl

/-! ### which header names each part of a rendered request uses -/

theorem values_contentType_ne (a : Aspects) (v : Variant) (k : String)
    (h : ("Content-Type" == k) = false) : values (contentType a v) k = [] := by
  unfold contentType contentTypeF
  split
  · rfl
  · split <;> simp [values_cons, h]

theorem values_encodingHeader_ne (a : Aspects) (v : Variant) (k : String)
    (h1 : ("Content-Encoding" == k) = false) (h2 : ("Connect-Content-Encoding" == k) = false)
    (h3 : ("Grpc-Encoding" == k) = false) : values (encodingHeader a v) k = [] := by
  unfold encodingHeader encodingHeaderF
  split
  · rfl
  · split
    · rfl
    · split
      · cases v.stream <;> simp [values_cons, h1, h2]
      · simp [values_cons, h3]
      · simp [values_cons, h3]

theorem values_teHeader_ne (a : Aspects) (k : String) (h : ("Te" == k) = false) :
    values (teHeader a) k = [] := by
  unfold teHeader teHeaderF
  split <;> simp [values_cons, h]

theorem values_expectHeaders_ne (e : Aspects) (n k : String)
    (h0 : ("X-Test-Case-Name" == k) = false) (h1 : ("X-Expect-Http-Version" == k) = false)
    (h2 : ("X-Expect-Http-Method" == k) = false) (h3 : ("X-Expect-Protocol" == k) = false)
    (h4 : ("X-Expect-Codec" == k) = false) (h5 : ("X-Expect-Compression" == k) = false)
    (h6 : ("X-Expect-Tls" == k) = false) (h7 : ("X-Expect-Client-Cert" == k) = false) :
    values (expectHeaders e n) k = [] := by
  unfold expectHeaders
  cases e.cert <;> simp [values_cons, h0, h1, h2, h3, h4, h5, h6, h7]

theorem values_render (e : Aspects) (n : String) (a : Aspects) (v : Variant) (k : String) :
    values (render e n a v).headers k = values (expectHeaders e n) k ++ values (contentType a v) k
      ++ values (encodingHeader a v) k ++ values (teHeader a) k := by
  simp only [render, values_append]

/-- a header only the runner sets -/
theorem values_render_expect (e : Aspects) (n : String) (a : Aspects) (v : Variant) (k : String)
    (h1 : ("Content-Type" == k) = false) (h2 : ("Content-Encoding" == k) = false)
    (h3 : ("Connect-Content-Encoding" == k) = false) (h4 : ("Grpc-Encoding" == k) = false)
    (h5 : ("Te" == k) = false) :
    values (render e n a v).headers k = values (expectHeaders e n) k := by
  rw [values_render, values_contentType_ne _ _ _ h1, values_encodingHeader_ne _ _ _ h2 h3 h4,
    values_teHeader_ne _ _ h5]
  simp

/-- a header the runner does not set -/
theorem values_render_client (e : Aspects) (n : String) (a : Aspects) (v : Variant) (k : String)
    (h0 : ("X-Test-Case-Name" == k) = false) (h1 : ("X-Expect-Http-Version" == k) = false)
    (h2 : ("X-Expect-Http-Method" == k) = false) (h3 : ("X-Expect-Protocol" == k) = false)
    (h4 : ("X-Expect-Codec" == k) = false) (h5 : ("X-Expect-Compression" == k) = false)
    (h6 : ("X-Expect-Tls" == k) = false) (h7 : ("X-Expect-Client-Cert" == k) = false) :
    values (render e n a v).headers k = values (contentType a v) k
      ++ values (encodingHeader a v) k ++ values (teHeader a) k := by
  rw [values_render, values_expectHeaders_ne e n k h0 h1 h2 h3 h4 h5 h6 h7]
  simp

theorem values_expect_name (e : Aspects) (n : String) :
    values (expectHeaders e n) "X-Test-Case-Name" = [n] := by
  unfold expectHeaders; cases e.cert <;> simp [values_cons]
theorem values_expect_version (e : Aspects) (n : String) :
    values (expectHeaders e n) "X-Expect-Http-Version" = [digit e.version.num] := by
  unfold expectHeaders; cases e.cert <;> simp [values_cons]
theorem values_expect_method (e : Aspects) (n : String) :
    values (expectHeaders e n) "X-Expect-Http-Method" = [e.method.str] := by
  unfold expectHeaders; cases e.cert <;> simp [values_cons]
theorem values_expect_protocol (e : Aspects) (n : String) :
    values (expectHeaders e n) "X-Expect-Protocol" = [digit e.protocol.num] := by
  unfold expectHeaders; cases e.cert <;> simp [values_cons]
theorem values_expect_codec (e : Aspects) (n : String) :
    values (expectHeaders e n) "X-Expect-Codec" = [digit e.codec.num] := by
  unfold expectHeaders; cases e.cert <;> simp [values_cons]
theorem values_expect_compression (e : Aspects) (n : String) :
    values (expectHeaders e n) "X-Expect-Compression" = [digit e.compression.num] := by
  unfold expectHeaders; cases e.cert <;> simp [values_cons]
theorem values_expect_tls (e : Aspects) (n : String) :
    values (expectHeaders e n) "X-Expect-Tls" = [if e.tls then "true" else "false"] := by
  unfold expectHeaders; cases e.cert <;> simp [values_cons]
theorem values_expect_cert (e : Aspects) (n : String) :
    values (expectHeaders e n) "X-Expect-Client-Cert" = if e.cert then [clientCertName] else [] := by
  unfold expectHeaders; cases e.cert <;> simp [values_cons]

/-! ### the client-side values of a rendered request as functions of the aspect fields -/

theorem ct_render (e : Aspects) (n : String) (a : Aspects) (v : Variant) :
    values (render e n a v).headers "Content-Type" =
      values (contentTypeF a.method a.protocol a.codec v.stream v.bareGrpc) "Content-Type" := by
  rw [values_render_client e n a v _ (by decide) (by decide) (by decide) (by decide) (by decide)
    (by decide) (by decide) (by decide),
    values_encodingHeader_ne _ _ _ (by decide) (by decide) (by decide), values_teHeader_ne _ _ (by decide)]
  simp [contentType]

theorem te_render (e : Aspects) (n : String) (a : Aspects) (v : Variant) :
    values (render e n a v).headers "Te" = values (teHeaderF a.method a.protocol) "Te" := by
  rw [values_render_client e n a v _ (by decide) (by decide) (by decide) (by decide) (by decide)
    (by decide) (by decide) (by decide),
    values_encodingHeader_ne _ _ _ (by decide) (by decide) (by decide), values_contentType_ne _ _ _ (by decide)]
  simp [teHeader]

theorem enc_render (e : Aspects) (n : String) (a : Aspects) (v : Variant) (k : String)
    (h0 : ("X-Test-Case-Name" == k) = false) (h1 : ("X-Expect-Http-Version" == k) = false)
    (h2 : ("X-Expect-Http-Method" == k) = false) (h3 : ("X-Expect-Protocol" == k) = false)
    (h4 : ("X-Expect-Codec" == k) = false) (h5 : ("X-Expect-Compression" == k) = false)
    (h6 : ("X-Expect-Tls" == k) = false) (h7 : ("X-Expect-Client-Cert" == k) = false)
    (h8 : ("Content-Type" == k) = false) (h9 : ("Te" == k) = false) :
    values (render e n a v).headers k =
      values (encodingHeaderF a.method a.protocol a.compression v.stream v.explicitIdentity) k := by
  rw [values_render_client e n a v _ h0 h1 h2 h3 h4 h5 h6 h7,
    values_teHeader_ne _ _ h9, values_contentType_ne _ _ _ h8]
  simp [encodingHeader]

theorem noTimeout_render (e : Aspects) (n : String) (a : Aspects) (v : Variant) :
    values (render e n a v).headers "Connect-Timeout-Ms" = [] ∧
    values (render e n a v).headers "Grpc-Timeout" = [] := by
  constructor <;>
  ( rw [values_render, values_expectHeaders_ne e n _ (by decide) (by decide) (by decide) (by decide)
      (by decide) (by decide) (by decide) (by decide), values_contentType_ne _ _ _ (by decide),
      values_encodingHeader_ne _ _ _ (by decide) (by decide) (by decide), values_teHeader_ne _ _ (by decide)]
    rfl )

/-! ### each check on a rendered request -/

theorem fbVersion_render (e : Aspects) (n : String) (a : Aspects) (v : Variant) :
    fbVersion (render e n a v) = if e.version = a.version then [] else [Fb.version] := by
  have hv : values (render e n a v).headers "X-Expect-Http-Version" = [digit e.version.num] := by
    rw [values_render_expect e n a v _ (by decide) (by decide) (by decide) (by decide) (by decide),
      values_expect_version]
  have hm : (render e n a v).major = a.version.num := rfl
  unfold fbVersion
  rw [hv, hm]
  generalize e.version = x
  generalize a.version = y
  cases x <;> cases y <;> decide

theorem protocolBlock_render (e : Aspects) (n : String) (a : Aspects) (v : Variant)
    (hr : a.method = .post ∨ a.protocol = .connect) :
    protocolBlock (render e n a v) = (if e.protocol = a.protocol then [] else [Fb.protocol], none, none) := by
  have hv : values (render e n a v).headers "X-Expect-Protocol" = [digit e.protocol.num] := by
    rw [values_render_expect e n a v _ (by decide) (by decide) (by decide) (by decide) (by decide),
      values_expect_protocol]
  have hm : (render e n a v).method = a.method.str := rfl
  unfold protocolBlock
  rw [hv, ct_render, te_render, (noTimeout_render e n a v).1, (noTimeout_render e n a v).2, hm]
  revert hr
  generalize e.protocol = ep
  generalize a.method = m
  generalize a.protocol = p
  generalize a.codec = c
  generalize v.stream = st
  generalize v.bareGrpc = bg
  cases ep <;> cases m <;> cases p <;> cases c <;> cases st <;> cases bg <;> decide

theorem afterTimeout_render (e : Aspects) (n : String) (a : Aspects) (v : Variant)
    (hr : a.method = .post ∨ a.protocol = .connect) :
    afterTimeout (render e n a v) = render e n a v := by
  unfold afterTimeout
  rw [protocolBlock_render e n a v hr]

theorem query_encoding (m : Method) (c : Codec) (z : Compression) (ex : Bool) :
    values (queryF m c z ex) "encoding" = (match m with | .get => [c.str] | .post => []) := by
  cases m <;> simp [queryF, values_cons, values_ite]

theorem query_compression (m : Method) (c : Codec) (z : Compression) (ex : Bool) :
    values (queryF m c z ex) "compression" =
      (match m with | .get => if announcedF z ex then [z.str] else [] | .post => []) := by
  cases m <;> simp [queryF, values_cons, values_ite]

theorem fbCodec_render (e : Aspects) (n : String) (a : Aspects) (v : Variant)
    (hr : a.method = .post ∨ a.protocol = .connect) :
    fbCodec (render e n a v) = if e.codec = a.codec then [] else [Fb.codec] := by
  have hv : values (render e n a v).headers "X-Expect-Codec" = [digit e.codec.num] := by
    rw [values_render_expect e n a v _ (by decide) (by decide) (by decide) (by decide) (by decide),
      values_expect_codec]
  have hm : (render e n a v).method = a.method.str := rfl
  have hb : (render e n a v).bodyEmpty = (a.method == .get) := rfl
  have hq : (render e n a v).query = queryF a.method a.codec a.compression v.explicitIdentity := rfl
  unfold fbCodec
  rw [hv, ct_render, hm, hb, hq, query_encoding]
  revert hr
  generalize e.codec = ec
  generalize a.method = m
  generalize a.protocol = p
  generalize a.codec = c
  generalize v.stream = st
  generalize v.bareGrpc = bg
  cases ec <;> cases m <;> cases p <;> cases c <;> cases st <;> cases bg <;> decide

/-- the header that announces the compression of a rendered request -/
def kindF (m : Method) (p : Protocol) (stream : Bool) : Option EncHeader :=
  match m with
  | .get => none
  | .post => match p with
    | .connect => some (if stream then .connectStream else .connectUnary)
    | _ => some .grpc

theorem kind_render (m : Method) (p : Protocol) (c : Codec) (st bg : Bool) :
    encodingHeaderFor (first (values (contentTypeF m p c st bg) "Content-Type")) = kindF m p st := by
  cases m <;> cases p <;> cases c <;> cases st <;> cases bg <;> decide

theorem encVals_render (e : Aspects) (n : String) (a : Aspects) (v : Variant) (h : EncHeader) :
    encVals (render e n a v) h =
      values (encodingHeaderF a.method a.protocol a.compression v.stream v.explicitIdentity) h.name := by
  cases h <;>
  exact enc_render e n a v _ (by decide) (by decide) (by decide) (by decide) (by decide) (by decide)
    (by decide) (by decide) (by decide) (by decide)

theorem compressionCore_congr (x : List String) (k : Option EncHeader) (m : String) (q : List String)
    (f g : EncHeader → List String) (h : ∀ y, f y = g y) :
    compressionCore x k m q f = compressionCore x k m q g := by
  have : f = g := funext h
  rw [this]

theorem fbCompression_render (e : Aspects) (n : String) (a : Aspects) (v : Variant) :
    fbCompression (render e n a v) = if e.compression = a.compression then [] else [Fb.compression] := by
  have hv : values (render e n a v).headers "X-Expect-Compression" = [digit e.compression.num] := by
    rw [values_render_expect e n a v _ (by decide) (by decide) (by decide) (by decide) (by decide),
      values_expect_compression]
  have hm : (render e n a v).method = a.method.str := rfl
  have hq : (render e n a v).query = queryF a.method a.codec a.compression v.explicitIdentity := rfl
  unfold fbCompression
  rw [hv, ct_render, hm, hq, query_compression, kind_render,
    compressionCore_congr _ _ _ _ _ _ (encVals_render e n a v)]
  generalize e.compression = ez
  generalize a.method = m
  generalize a.protocol = p
  generalize a.compression = z
  generalize v.stream = st
  generalize v.explicitIdentity = ex
  cases ez <;> cases m <;> cases p <;> cases z <;> cases st <;> cases ex <;> decide

/-- the TLS feedback of a rendered request as a table of the four booleans -/
def tlsFbOf (et ec atls ac : Bool) : List Fb :=
  if et && !atls then [.tlsExpected]
  else if !et && atls then [.plainExpected]
  else if et && atls && (ec != ac) then [.clientCert]
  else []

/-- the one message of a TLS / client-certificate deviation -/
def tlsFbOne (et atls : Bool) : Fb :=
  if et && !atls then .tlsExpected else if !et && atls then .plainExpected else .clientCert

theorem tlsFbOf_eq (et ec atls ac : Bool) :
    tlsFbOf et ec atls ac = if (et == atls && (!et || ec == ac)) = true then [] else [tlsFbOne et atls] := by
  cases et <;> cases ec <;> cases atls <;> cases ac <;> decide

theorem aspect_tlsFbOne (et atls : Bool) : aspectOf (tlsFbOne et atls) = some .tls := by
  cases et <;> cases atls <;> decide

theorem fbTLS_render (e : Aspects) (n : String) (a : Aspects) (v : Variant) :
    fbTLS (render e n a v) = tlsFbOf e.tls e.cert a.tls a.cert := by
  have h1 : values (render e n a v).headers "X-Expect-Tls" = [if e.tls then "true" else "false"] := by
    rw [values_render_expect e n a v _ (by decide) (by decide) (by decide) (by decide) (by decide),
      values_expect_tls]
  have h2 : values (render e n a v).headers "X-Expect-Client-Cert" = if e.cert then [clientCertName] else [] := by
    rw [values_render_expect e n a v _ (by decide) (by decide) (by decide) (by decide) (by decide),
      values_expect_cert]
  have ht : (render e n a v).tls = tlsF a.tls a.cert := rfl
  unfold fbTLS
  rw [h1, h2, ht]
  generalize e.tls = et
  generalize e.cert = ec
  generalize a.tls = atls
  generalize a.cert = ac
  cases et <;> cases ec <;> cases atls <;> cases ac <;> decide

theorem fbMethod_render (e : Aspects) (n : String) (a : Aspects) (v : Variant) :
    fbMethod (render e n a v) = if e.method = a.method then [] else [Fb.method] := by
  have hv : values (render e n a v).headers "X-Expect-Http-Method" = [e.method.str] := by
    rw [values_render_expect e n a v _ (by decide) (by decide) (by decide) (by decide) (by decide),
      values_expect_method]
  have hm : (render e n a v).method = a.method.str := rfl
  unfold fbMethod
  rw [hv, hm]
  generalize e.method = x
  generalize a.method = y
  cases x <;> cases y <;> decide

theorem testName_render (e : Aspects) (n : String) (a : Aspects) (v : Variant) :
    testName (render e n a v) = n := by
  unfold testName
  rw [values_render_expect e n a v _ (by decide) (by decide) (by decide) (by decide) (by decide),
    values_expect_name]
  rfl

/-! ### the body probe only matters for GET -/

theorem withBody_self (r : Req) (p : Probe) (h : p.isEOF = r.bodyEmpty) : withBody r p = r := by
  cases r; simp only [withBody] at *; simp [h]

theorem afterTimeout_withBody (r : Req) (p : Probe) :
    afterTimeout (withBody r p) = withBody (afterTimeout r) p := by
  have hp : protocolBlock (withBody r p) = protocolBlock r := rfl
  unfold afterTimeout
  rw [hp]
  cases (protocolBlock r).2.2 <;> rfl

theorem afterTimeout_method (r : Req) : (afterTimeout r).method = r.method := by
  unfold afterTimeout
  cases (protocolBlock r).2.2 <;> rfl

theorem codecCore_not_get (ev ct : List String) (m : String) (b1 b2 : Bool) (enc : List String)
    (hm : (m == "GET") = false) : codecCore ev ct m b1 enc = codecCore ev ct m b2 enc := by
  unfold codecCore
  simp only [hm, Bool.false_eq_true, if_false]

/-- for any method but GET the checks do not look at the body -/
theorem checks_withBody_not_get (count : Nat) (r : Req) (p : Probe) (hm : (r.method == "GET") = false) :
    checks count (withBody r p) = checks count r := by
  have ht : testName (withBody r p) = testName r := rfl
  have hp : protocolBlock (withBody r p) = protocolBlock r := rfl
  have hv : fbVersion (withBody r p) = fbVersion r := rfl
  have hm' : ((afterTimeout r).method == "GET") = false := by rw [afterTimeout_method]; exact hm
  have hc : fbCodec (withBody (afterTimeout r) p) = fbCodec (afterTimeout r) := by
    unfold fbCodec
    exact codecCore_not_get _ _ _ _ _ _ hm'
  have hz : fbCompression (withBody (afterTimeout r) p) = fbCompression (afterTimeout r) := rfl
  have hl : fbTLS (withBody (afterTimeout r) p) = fbTLS (afterTimeout r) := rfl
  have hmm : fbMethod (withBody (afterTimeout r) p) = fbMethod (afterTimeout r) := rfl
  have htr : fbTrailers (withBody (afterTimeout r) p) = fbTrailers (afterTimeout r) := rfl
  have hh : (withBody (afterTimeout r) p).headers = (afterTimeout r).headers := rfl
  unfold checks
  rw [ht, afterTimeout_withBody, hp, hv]
  simp only [hc, hz, hl, hmm, htr, hh]

theorem render_method_get (e : Aspects) (n : String) (a : Aspects) (v : Variant) :
    ((render e n a v).method == "GET") = (a.method == .get) := by
  cases hm : a.method <;> simp [render, Method.str, hm] <;> decide

/-- the request of a conformant client with a body as a conformant client sends it -/
theorem checks_render_withBody (count : Nat) (e : Aspects) (n : String) (a : Aspects) (v : Variant) (p : Probe)
    (hp : conformantProbe a p = true) :
    checks count (withBody (render e n a v) p) = checks count (render e n a v) := by
  by_cases hg : a.method = .get
  · have : p = .eof := by simpa [conformantProbe, hg] using hp
    subst this
    rw [withBody_self]
    simp [render, hg, Probe.isEOF]
  · apply checks_withBody_not_get
    rw [render_method_get]
    simpa using hg

end ConfModel.ServerChecks
