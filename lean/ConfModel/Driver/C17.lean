import ConfModel.Driver.Common
namespace ConfModel.Driver.C17
open Lean ConfModel.Driver

def handle : Handler := fun op _inp _impl => bad ("C17: unknown op " ++ op)

end ConfModel.Driver.C17
