import ConfModel.Spec.EchoAgree
namespace ConfModel.Echo

theorem subsumed_nil (a : List Hdr) : subsumed [] a = true := rfl

def opaqueOnly (ds : List Detail) : Bool := ds.all (fun d => match d with | .other _ => true | .info _ => false)

theorem detailInfos_opaque (ds : List Detail) (h : opaqueOnly ds = true) : detailInfos ds = [] := by
  induction ds with
  | nil => rfl
  | cons d ds ih =>
    simp only [opaqueOnly, List.all_cons, Bool.and_eq_true] at h
    cases d with
    | other i => simpa [detailInfos] using ih (by simpa [opaqueOnly] using h.2)
    | info ri => simp at h

theorem detailInfos_append_info (ds : List Detail) (h : opaqueOnly ds = true) (ri : ReqInfo) :
    detailInfos (ds ++ [.info ri]) = [ri] := by
  have := detailInfos_opaque ds h
  simp only [detailInfos, List.filterMap_append] at this ⊢
  simp [this]

theorem queryAgree_nil_left (a : List Hdr) : queryAgree [] a = true := rfl
theorem queryAgree_nil_right (e : List Hdr) : queryAgree e [] = true := by simp [queryAgree]

theorem detailsAgree_append_info (ds : List Detail) (h : opaqueOnly ds = true) (eh ah : List Hdr)
    (rs : List ReqId) (eq aq : List Hdr) (hs : subsumed eh ah = true) (hq : queryAgree eq aq = true) :
    detailsAgree (ds ++ [.info ⟨eh, rs, eq⟩]) (ds ++ [.info ⟨ah, rs, aq⟩]) = true := by
  induction ds with
  | nil => simp [detailsAgree, detailAgree, infoAgree, hs, hq]
  | cons d ds ih =>
    simp only [opaqueOnly, List.all_cons, Bool.and_eq_true] at h
    cases d with
    | other i => simp [detailsAgree, detailAgree, ih (by simpa [opaqueOnly] using h.2)]
    | info ri => simp at h

theorem detailsAgree_refl (ds : List Detail) (h : opaqueOnly ds = true) : detailsAgree ds ds = true := by
  induction ds with
  | nil => rfl
  | cons d ds ih =>
    simp only [opaqueOnly, List.all_cons, Bool.and_eq_true] at h
    cases d with
    | other i => simp [detailsAgree, detailAgree, ih (by simpa [opaqueOnly] using h.2)]
    | info ri => simp at h

theorem errAgree_addInfo (e : Err) (h : opaqueOnly e.details = true) (eh ah : List Hdr)
    (rs : List ReqId) (eq aq : List Hdr) (hs : subsumed eh ah = true) (hq : queryAgree eq aq = true) :
    errAgree (some (e.addDetail (.info ⟨eh, rs, eq⟩))) (some (e.addDetail (.info ⟨ah, rs, aq⟩))) = true := by
  simp only [errAgree, Err.addDetail, beq_self_eq_true, Bool.true_and, Bool.and_eq_true]
  refine ⟨?_, detailsAgree_append_info _ h _ _ _ _ _ hs hq⟩
  cases e.msg <;> simp

theorem errAgree_refl (e : Option Err) (h : ∀ x, e = some x → opaqueOnly x.details = true) :
    errAgree e e = true := by
  cases e with
  | none => rfl
  | some x =>
    simp only [errAgree, beq_self_eq_true, Bool.true_and, Bool.and_eq_true]
    refine ⟨?_, detailsAgree_refl _ (h x rfl)⟩
    cases x.msg <;> simp

/-- half-duplex / server-stream payloads: request info on the first response only -/
theorem payloads_flush (tc : TC) (hst : tc.st ≠ .fullDuplex) (seen query : List Hdr)
    (hs : subsumed tc.reqHdrs seen = true) :
    ∀ (data : List String) (idx : Nat),
      payloadsAgreeFrom idx (expectedStreamPayloads tc idx data) (flushPayloads ⟨seen, tc.reqs, query⟩ idx data) = true
  | [], _ => rfl
  | b :: bs, idx => by
    have ih := payloads_flush tc hst seen query hs bs (idx + 1)
    have hinfo : (match tc.st with
        | .fullDuplex =>
          match tc.reqs[idx]? with
          | some r => some (⟨if idx = 0 then tc.reqHdrs else [], [r], []⟩ : ReqInfo)
          | none => none
        | _ => if idx = 0 then some ⟨tc.reqHdrs, tc.reqs, []⟩ else none)
        = if idx = 0 then some ⟨tc.reqHdrs, tc.reqs, []⟩ else none := by
      cases hc : tc.st <;> simp_all
    simp only [expectedStreamPayloads, flushPayloads, payloadsAgreeFrom, hinfo, ih, Bool.and_true,
      beq_self_eq_true, Bool.true_and]
    by_cases h0 : idx = 0
    · subst h0; simp [infoAgree, hs, queryAgree_nil_left]
    · simp [h0, infoAgree]

/-- full-duplex payloads: ping-pong while both requests and responses are left, then the
remaining responses without request info -/
theorem payloads_pingPong (tc : TC) (hst : tc.st = .fullDuplex) (seen query : List Hdr)
    (hs : subsumed tc.reqHdrs seen = true) :
    ∀ (data : List String) (idx : Nat) (rs : List ReqId), rs = tc.reqs.drop idx →
      payloadsAgreeFrom idx (expectedStreamPayloads tc idx data)
        ((pingPong seen query idx rs data).1 ++ (pingPong seen query idx rs data).2.map (fun b => (⟨b, none⟩ : Payload))) = true
  | [], _, rs, _ => by cases rs <;> simp [expectedStreamPayloads, pingPong, payloadsAgreeFrom]
  | b :: bs, idx, [], hrs => by
    -- no request left: the flush phase; expected has no request info either
    have hnone : tc.reqs[idx]? = none := by
      have : tc.reqs.length ≤ idx := by
        have := congrArg List.length hrs; simp at this; omega
      exact List.getElem?_eq_none this
    have ih := payloads_pingPong tc hst seen query hs bs (idx + 1) [] (by
      have : tc.reqs.length ≤ idx + 1 := by
        have := congrArg List.length hrs; simp at this; omega
      simp [List.drop_eq_nil_of_le this])
    simp only [pingPong, List.nil_append, List.map_cons] at ih ⊢
    simp only [expectedStreamPayloads, hst, hnone, payloadsAgreeFrom, beq_self_eq_true, Bool.true_and]
    simp [infoAgree, ih, subsumed_nil, queryAgree_nil_left]
  | b :: bs, idx, r :: rs, hrs => by
    have hget : tc.reqs[idx]? = some r := by
      have : (tc.reqs.drop idx)[0]? = some r := by rw [← hrs]; rfl
      simpa using this
    have hrs' : rs = tc.reqs.drop (idx + 1) := by
      have : (tc.reqs.drop idx).drop 1 = rs := by rw [← hrs]; rfl
      rw [← this, List.drop_drop]
    have ih := payloads_pingPong tc hst seen query hs bs (idx + 1) rs hrs'
    simp only [pingPong, List.cons_append]
    simp only [expectedStreamPayloads, hst, hget, payloadsAgreeFrom, beq_self_eq_true, Bool.true_and, ih,
      Bool.and_true]
    by_cases h0 : idx = 0
    · subst h0; simp [infoAgree, hs, queryAgree_nil_left]
    · simp [h0, infoAgree]

end ConfModel.Echo
