/-
C05 — model of the dispatch loop of `run()` (connectconformance.go): which permutations are
handed to which server batch, and the bookkeeping that bounds the number of live servers.

A permutation is its name (split at `/`) plus the server instance the library grouped it
under (`serverInstanceForCase`); `gOK` says whether the gRPC reference peers support it
(`filterGRPCImplTestCases`).
-/
import ConfModel.Model.Trie
namespace ConfModel.Run
open ConfModel.Trie

structure Inst where
  proto : Nat
  ver : Nat
  tls : Bool
  certs : Bool
deriving DecidableEq, Repr, Inhabited

structure Perm where
  name : List String
  inst : Inst
deriving DecidableEq, Repr, Inhabited

/-- one server batch of `run()`: `casesByServer[inst]` after `filter.apply`; empty batches are
skipped (no server is started for them) -/
def batchFor (perms : List Perm) (run skip : Node) (i : Inst) : List Perm :=
  (perms.filter (fun p => p.inst == i)).filter (fun p => accept run skip p.name)

/-- the batches of one (client, server) pair, in the order of `svrInstances` -/
def plan (perms : List Perm) (run skip : Node) (insts : List Inst) : List (Inst × List Perm) :=
  insts.filterMap (fun i =>
    let b := batchFor perms run skip i
    if b.isEmpty then none else some (i, b))

/-! ### names of the gRPC-peer permutations

`addGRPCMarkerToName(fullName, simpleName, …)`: `strings.TrimSuffix(fullName, simpleName) + marker +
"/" + simpleName`.  The full name is `path.Join(suite, axis components …, simpleName)`; at the level
of path components (names split at `/`, as everywhere in this model) the full name ENDS with the
components of the simple name, and the marker becomes one more component in front of that ending —
wherever else the same components occur in the name (in the suite's name, in an axis component). -/

/-- the full name without its ending of `simple.length` components -/
def namePrefix (full simple : List String) : List String := full.take (full.length - simple.length)

/-- `addGRPCMarkerToName` on path components -/
def markName (full simple : List String) (marker : String) : List String :=
  namePrefix full simple ++ marker :: simple

/-- the variant that cuts the full name at the FIRST place where the components of the simple name
occur (`strings.Cut`) -/
def firstAt (simple : List String) : List String → Nat → Nat
  | [], k => k
  | x :: xs, k => if simple.isPrefixOf (x :: xs) then k else firstAt simple xs (k + 1)
def markAtFirst (full simple : List String) (marker : String) : List String :=
  full.take (firstAt simple full 0) ++ marker :: simple

/-- the name under which a permutation goes to a gRPC reference server -/
def grpcServerMarker : String := "(grpc server impl)"

/-- which permutations the gRPC reference server takes part in (`filterGRPCImplTestCases` with
`serverIsGRPCImpl`): gRPC (HTTP/2) or gRPC-Web (HTTP/1.1, HTTP/2), proto, identity or gzip, no TLS, no
raw response -/
def grpcServerTakes (i : Inst) (codec comp : Nat) (rawResp : Bool) : Bool :=
  i.proto != 1 && (if i.proto == 3 then (i.ver == 1 || i.ver == 2) else i.ver == 2) && codec == 1 && (comp == 1 || comp == 2) &&
    !i.tls && !rawResp

/-! ### server life cycle bookkeeping

Every batch runs in its own goroutine: `sema.Acquire` (in the dispatching loop, before the
goroutine is spawned) · start the server · … · stop the server and wait for it to end ·
`sema.Release`.  A thread's program counter: -/
inductive PC
  | idle      -- not yet acquired
  | holding   -- semaphore acquired, server not started (or start failed)
  | alive     -- server process running
  | stopped   -- server ended (abort + wait), semaphore still held
  | done      -- semaphore released
deriving DecidableEq, Repr, Inhabited

def PC.holds : PC → Bool
  | .holding | .alive | .stopped => true
  | _ => false

def holdingCount (s : List PC) : Nat := (s.filter PC.holds).length
def aliveCount (s : List PC) : Nat := (s.filter (· == .alive)).length

/-- one step of thread `i` (any thread may move at any time; `acquire` only while a permit is free) -/
def stepThread (max : Nat) (s : List PC) (i : Nat) : Option (List PC) :=
  match s[i]? with
  | some .idle => if holdingCount s < max then some (s.set i .holding) else none
  | some .holding => some (s.set i .alive)       -- start the server (a failed start goes on to `stopped` next)
  | some .alive => some (s.set i .stopped)       -- abort and wait for the process to end
  | some .stopped => some (s.set i .done)        -- release
  | _ => none

/-- run a schedule (a list of thread indices); disabled steps are skipped -/
def runSchedule (max : Nat) (s : List PC) : List Nat → List PC
  | [] => s
  | i :: is => runSchedule max ((stepThread max s i).getD s) is

/-! ### the dispatching loop of `run()` and its exits

```
err = func() error {
    var wg sync.WaitGroup
    defer wg.Wait()                                   -- on EVERY exit of the closure
    sema := semaphore.NewWeighted(MaxServers)
    for … each non-empty batch … {
        if err := sema.Acquire(ctx, 1); err != nil { return err }
        if !clientProcess.isRunning() { … return err } -- early return: the client is gone
        wg.Add(1)
        go func() { defer wg.Done(); defer sema.Release(1); runTestCasesForServer(…) }()
    }
    return nil
}()
```
The dispatcher acquires the permit itself and only then spawns the batch thread (`idle → holding`
is the dispatcher's move); a batch thread starts its server, stops it and waits for its end, releases
the permit and is `done` (`wg.Done`).  The dispatcher leaves the loop when every batch was dispatched
or — early — when the client under test is found gone; on either way out it waits until no spawned
thread is left (`draining`) before the closure, and with it `run()`, returns.  (The permit the
dispatcher holds on the early return is not given back; the semaphore dies with the closure.  The
`Acquire` error needs a cancelled context, which only happens after `run()` returned.) -/

inductive DPC
  | looping    -- in the `for` loop
  | draining   -- left the loop (either way), in the deferred `wg.Wait()`
  | returned   -- the closure returned; `run()` goes on to return
deriving DecidableEq, Repr, Inhabited

structure Sys where
  threads : List PC   -- one per non-empty batch, in dispatch order; `idle` = not spawned
  next : Nat          -- the next batch to dispatch
  disp : DPC
  clientUp : Bool     -- `clientProcess.isRunning()`
deriving Repr, Inhabited

inductive Ev
  | dispatch          -- the dispatcher moves
  | thread (i : Nat)  -- batch thread i moves
  | clientDies        -- the client under test terminates (at any time)
deriving DecidableEq, Repr, Inhabited

/-- `wg` counter is zero: every thread is either not spawned or done -/
def allDone (ts : List PC) : Bool := ts.all (fun pc => pc == .idle || pc == .done)

def stepDisp (max : Nat) (s : Sys) : Option Sys :=
  match s.disp with
  | .looping =>
    if s.next < s.threads.length then
      match stepThread max s.threads s.next with       -- `sema.Acquire`: blocks while no permit is free
      | none => none
      | some ts =>
        if s.clientUp then some { s with threads := ts, next := s.next + 1 }   -- spawn
        else some { s with disp := .draining }                                 -- early return
    else some { s with disp := .draining }                                     -- `return nil`
  | .draining => if allDone s.threads then some { s with disp := .returned } else none
  | .returned => none

/-- a spawned batch thread moves (the permit was acquired for it by the dispatcher) -/
def stepBatch (max : Nat) (s : Sys) (i : Nat) : Option Sys :=
  match s.threads[i]? with
  | some .idle => none
  | _ => (stepThread max s.threads i).map (fun ts => { s with threads := ts })

def stepSys (max : Nat) (s : Sys) : Ev → Option Sys
  | .dispatch => stepDisp max s
  | .thread i => stepBatch max s i
  | .clientDies => some { s with clientUp := false }

/-- run a schedule; disabled steps are skipped -/
def execSys (max : Nat) (s : Sys) : List Ev → Sys
  | [] => s
  | e :: es => execSys max ((stepSys max s e).getD s) es

def initSys (n : Nat) : Sys := { threads := List.replicate n .idle, next := 0, disp := .looping, clientUp := true }

/-- a fair schedule for `n` batches: `rounds` rounds of (dispatcher, thread 0, …, thread n-1), the
client dying before round `dies` (if any) -/
def fairSchedule (n rounds : Nat) (dies : Option Nat) : List Ev :=
  (List.range rounds).flatMap (fun r =>
    (if dies == some r then [Ev.clientDies] else []) ++ Ev.dispatch :: (List.range n).map Ev.thread)

/-! ### the start-up handshake of a batch with its server

`runTestCasesForServer`: the reading of the `ServerCompatResponse` is started first (so that a
server which answers without reading is not blocked), then the `ServerCompatRequest` is written,
the server's stdin is **closed**, and only then the response is awaited.  A server may legitimately
read its single request in any of three ways before it answers: not at all, exactly one
length-prefixed message, or everything up to the end of its input. -/

inductive SrvRead
  | blind   -- answers without reading
  | msg     -- answers once the whole request message has arrived
  | eof     -- answers once its input has ended (after the whole request)
deriving DecidableEq, Repr, Inhabited

inductive HStep
  | write   -- write the request
  | close   -- close the server's stdin
  | await   -- block until the response has arrived
deriving DecidableEq, Repr, Inhabited

/-- the server answers in the state (request written?, stdin closed?) -/
def answersIn (need : SrvRead) (written closed : Bool) : Bool :=
  match need with
  | .blind => true
  | .msg => written
  | .eof => written && closed

/-- does the runner's program get its response (instead of blocking until the 10 s time-out, after
which the batch is recorded as a set-up failure and nothing is handed to the client)? -/
def handshakeFrom (need : SrvRead) : Bool → Bool → List HStep → Bool
  | _, _, [] => false
  | _, c, .write :: rest => handshakeFrom need true c rest
  | w, _, .close :: rest => handshakeFrom need w true rest
  | w, c, .await :: _ => answersIn need w c

def handshake (need : SrvRead) (prog : List HStep) : Bool := handshakeFrom need false false prog

/-- the order of the steps in `runTestCasesForServer` -/
def runnerHandshake : List HStep := [.write, .close, .await]

/-! ### whose certificate: what the server of a batch presents and what the client is handed

`run()` makes one key pair per run when some instance uses TLS (`serverCreds`);
`runTestCasesForServer` clears it for a plaintext instance, sends it to the server in the
`ServerCompatRequest`, takes `resp.PemCert` from the server's answer — a TLS batch whose server
reports no certificate is not started — and puts that into `ServerTlsCert` of every request of the
batch.  The in-process reference server (`createServer`) chooses the key pair of its listener:
the files given with `-cert` / `-key` (the operator's, `Flags.TLSCertFile` / `TLSKeyFile`) first,
else the credentials of the request, else a fresh pair; it reports the certificate of that very
pair.  A certificate is an opaque identity `α`. -/

/-- `createServer`: the certificate of the listener's key pair (none: plaintext) -/
def refServerCert {α : Type} (useTls : Bool) (file creds : Option α) (fresh : α) : Option α :=
  if !useTls then none else
  match file, creds with
  | some f, _ => some f
  | none, some c => some c
  | none, none => some fresh

/-- the variant that reports the request's credentials first and the file only without them, while
the listener takes the file first (for the witness) -/
def refReportCredsFirst {α : Type} (useTls : Bool) (file creds : Option α) (fresh : α) : Option α :=
  if !useTls then none else
  match creds, file with
  | some c, _ => some c
  | none, some f => some f
  | none, none => some fresh

/-- what a server presents to whoever connects, and what it reports as `PemCert` -/
structure SrvCert (α : Type) where
  served : Option α
  reported : Option α
deriving DecidableEq, Repr

/-- the servers a batch can meet: the reference server, a server under test that uses the credentials
it is sent, one that makes its own key pair, one that reports no certificate -/
inductive SrvKind
  | reference | echo | own | silent
deriving DecidableEq, Repr, Inhabited

def serverCert {α : Type} (k : SrvKind) (useTls : Bool) (file creds : Option α) (fresh : α) : SrvCert α :=
  match k with
  | .reference => ⟨refServerCert useTls file creds fresh, refServerCert useTls file creds fresh⟩
  | .echo => if useTls then ⟨creds, creds⟩ else ⟨none, none⟩
  | .own => if useTls then ⟨some fresh, some fresh⟩ else ⟨none, none⟩
  | .silent => if useTls then ⟨creds, none⟩ else ⟨none, none⟩

/-- `runTestCasesForServer`: "don't send cert info if these tests don't use them" -/
def credsFor {α : Type} (runner : α) (i : Inst) : Option α := if i.tls then some runner else none

/-- one batch: the certificate situation of its server, `none` when the batch is not started (TLS
instance, no certificate reported).  Only the reference server is given the operator's files. -/
def batchCert {α : Type} (k : SrvKind) (opFile : Option α) (runner fresh : α) (i : Inst) : Option (SrvCert α) :=
  let sc := serverCert k i.tls (if k = .reference then opFile else none) (credsFor runner i) fresh
  if i.tls && sc.reported.isNone then none else some sc

/-- `req.ServerTlsCert = resp.PemCert` -/
def handedCert {α : Type} (sc : SrvCert α) : Option α := sc.reported

/-! ### `expandCases`: the request clone of one permutation and the server instance derived from it

`serverInstanceForCase` (and the server-config accounting of `run`) reads a permutation's instance off
the REQUEST: protocol and HTTP version, `len(ServerTlsCert) > 0`, `ClientTlsCreds != nil`.  The request
is a clone of the suite's template; `expandCases` owns those fields. -/

/-- what a suite's request template may carry in the two fields the grouping reads -/
structure Tmpl where
  cert : Bool
  creds : Bool
deriving DecidableEq, Repr, Inhabited

/-- the part of a config case the grouping depends on (`certs` = the suite relies on client certificates) -/
structure CfgCase where
  proto : Nat
  ver : Nat
  tls : Bool
  certs : Bool
deriving DecidableEq, Repr, Inhabited

/-- `expandCases`, the placeholder block: under TLS the certificate placeholder is set and the client
credentials set or CLEARED; without TLS both are CLEARED -/
def expandTmpl (c : CfgCase) (_t : Tmpl) : Tmpl :=
  if c.tls then { cert := true, creds := if c.certs then true else false }
  else { cert := false, creds := false }

/-- witness variant: the placeholders are only ever set, what the template carried stays -/
def expandTmplSetOnly (c : CfgCase) (t : Tmpl) : Tmpl :=
  let t1 := if c.tls then { t with cert := true } else t
  if c.certs then { t1 with creds := true } else t1

/-- `serverInstanceForCase` on a request whose protocol / version were assigned from the config case -/
def instOfReq (c : CfgCase) (t : Tmpl) : Inst := ⟨c.proto, c.ver, t.cert, t.creds⟩

/-- the instance a config case stands for -/
def cfgInst (c : CfgCase) : Inst := ⟨c.proto, c.ver, c.tls, c.tls && c.certs⟩

/-- the instance of a permutation as the name the library gives it says (`TLS:true` / `TLS:false` is a
component of every full name; client certificates: TLS and the suite relies on them) -/
def nameTLS (name : List String) : Option Bool :=
  match name.find? (fun c => c == "TLS:true" || c == "TLS:false") with
  | some c => some (c == "TLS:true")
  | none => none

end ConfModel.Run
