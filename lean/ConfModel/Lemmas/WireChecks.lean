import ConfModel.Spec.WireChecks
namespace ConfModel.WireChecks
open ConfModel.WireChecksSpec
open ConfModel.ServerTimeout (Bytes)

/-! ### percent-encoding -/

theorem hex_facts : ∀ n : Fin 16, isHex (upperHex n.val) = true ∧ unhexVal (upperHex n.val) = n.val ∧
    32 ≤ (upperHex n.val).toNat ∧ (upperHex n.val).toNat ≤ 126 ∧ shouldEscape (upperHex n.val) = false := by
  decide

theorem byte_split (c : UInt8) : UInt8.ofNat (c.toNat / 16 * 16 + c.toNat % 16) = c := by
  rw [Nat.div_add_mod']
  exact UInt8.ofNat_toNat

theorem percentEncode_eq (m : Bytes) : percentEncode m = m.flatMap encodeByte := by
  unfold percentEncode
  split
  · rename_i h
    have h0 : ∀ c ∈ m, shouldEscape c = false := by
      intro c hc
      cases hs : shouldEscape c with
      | false => rfl
      | true =>
        have : c ∈ m.filter shouldEscape := List.mem_filter.2 ⟨hc, hs⟩
        have hl : (m.filter shouldEscape).length = 0 := by simpa using h
        rw [List.length_eq_zero_iff.1 hl] at this
        simp at this
    clear h
    induction m with
    | nil => rfl
    | cons c cs ih =>
      rw [List.flatMap_cons, ← ih (fun x hx => h0 x (by simp [hx]))]
      simp [encodeByte, h0 c (by simp)]
  · rfl

theorem div16_lt (c : UInt8) : c.toNat / 16 < 16 := by
  have := c.toNat_lt; omega

theorem mod16_lt (c : UInt8) : c.toNat % 16 < 16 := Nat.mod_lt _ (by omega)

theorem notEscape_ne37 (c : UInt8) (h : shouldEscape c = false) : (c.toNat == 37) = false := by
  simp [shouldEscape] at h; simp; omega

theorem percentDecode_cons_ne (c : UInt8) (rest : Bytes) (h : (c.toNat == 37) = false) :
    percentDecode (c :: rest) = (percentDecode rest).map (c :: ·) := by
  rw [percentDecode.eq_def]
  simp only [h]
  simp

theorem percentDecode_cons_esc (h1 h2 : UInt8) (rest : Bytes) (a : isHex h1 = true) (b : isHex h2 = true) :
    percentDecode (37 :: h1 :: h2 :: rest) =
      (percentDecode rest).map (UInt8.ofNat (unhexVal h1 * 16 + unhexVal h2) :: ·) := by
  have e37 : ((37 : UInt8).toNat == 37) = true := by decide
  rw [percentDecode.eq_2]
  simp [e37, a, b]

theorem percentDecode_encodeByte (c : UInt8) (rest : Bytes) :
    percentDecode (encodeByte c ++ rest) = (percentDecode rest).map (c :: ·) := by
  unfold encodeByte
  cases hs : shouldEscape c with
  | false =>
    simp only [Bool.false_eq_true, if_false, List.cons_append, List.nil_append]
    exact percentDecode_cons_ne c rest (notEscape_ne37 c hs)
  | true =>
    simp only [if_true, List.cons_append, List.nil_append]
    have h1 := hex_facts ⟨c.toNat / 16, div16_lt c⟩
    have h2 := hex_facts ⟨c.toNat % 16, mod16_lt c⟩
    rw [percentDecode_cons_esc _ _ _ h1.1 h2.1, h1.2.1, h2.2.1, byte_split]

theorem percent_roundtrip_flat (m : Bytes) : percentDecode (m.flatMap encodeByte) = some m := by
  induction m with
  | nil => rfl
  | cons c cs ih => rw [List.flatMap_cons, percentDecode_encodeByte, ih]; rfl

theorem printable_encodeByte (c b : UInt8) (hb : b ∈ encodeByte c) : 32 ≤ b.toNat ∧ b.toNat ≤ 126 := by
  unfold encodeByte at hb
  cases hs : shouldEscape c with
  | false =>
    simp [hs] at hb; subst hb
    simp [shouldEscape] at hs; omega
  | true =>
    have h1 := hex_facts ⟨c.toNat / 16, div16_lt c⟩
    have h2 := hex_facts ⟨c.toNat % 16, mod16_lt c⟩
    simp [hs] at hb
    rcases hb with rfl | rfl | rfl
    · decide
    · exact ⟨h1.2.2.1, h1.2.2.2.1⟩
    · exact ⟨h2.2.2.1, h2.2.2.2.1⟩

theorem validate_cons (c : UInt8) (cs : Bytes) (e : Nat) :
    validateMessage (c :: cs) e =
      if e > 0 then (if isHex c then validateMessage cs (e - 1) else [.hexExpected])
      else if c.toNat == 37 then validateMessage cs 2
      else if shouldEscape c then [.unescaped]
      else validateMessage cs 0 := by
  rw [validateMessage.eq_def]

theorem validate_encodeByte (c : UInt8) (rest : Bytes) :
    validateMessage (encodeByte c ++ rest) 0 = validateMessage rest 0 := by
  unfold encodeByte
  cases hs : shouldEscape c with
  | false =>
    simp only [Bool.false_eq_true, if_false, List.cons_append, List.nil_append]
    rw [validate_cons]
    simp [notEscape_ne37 c hs, hs]
  | true =>
    have h1 := hex_facts ⟨c.toNat / 16, div16_lt c⟩
    have h2 := hex_facts ⟨c.toNat % 16, mod16_lt c⟩
    have e37 : ((37 : UInt8).toNat == 37) = true := by decide
    simp only [if_true, List.cons_append, List.nil_append]
    have i1 : isHex (upperHex (c.toNat / 16)) = true := h1.1
    have i2 : isHex (upperHex (c.toNat % 16)) = true := h2.1
    simp [validate_cons, e37, i1, i2]

theorem validate_flat (m : Bytes) : validateMessage (m.flatMap encodeByte) 0 = [] := by
  induction m with
  | nil => rfl
  | cons c cs ih => rw [List.flatMap_cons, validate_encodeByte, ih]

end ConfModel.WireChecks

namespace ConfModel.WireChecks
open ConfModel.WireChecksSpec
open ConfModel.ServerTimeout (Bytes)

/-! ### splitting a block of LF-free lines -/

theorem splitLF_ne_nil (s : Bytes) : splitLF s ≠ [] := by
  induction s with
  | nil => simp [splitLF]
  | cons c cs ih =>
    rw [splitLF]
    split
    · simp
    · split <;> simp

theorem splitLF_append_lf (l rest : Bytes) (h : ∀ b ∈ l, (b.toNat == 10) = false) :
    splitLF (l ++ 10 :: rest) = l :: splitLF rest := by
  induction l with
  | nil =>
    have : ((10 : UInt8).toNat == 10) = true := by decide
    simp [splitLF, this]
  | cons c cs ih =>
    have hc := h c (by simp)
    rw [List.cons_append, splitLF, ih (fun b hb => h b (by simp [hb]))]
    simp [hc]

end ConfModel.WireChecks

namespace ConfModel.WireChecks
open ConfModel.WireChecksSpec
open ConfModel.ServerTimeout (Bytes)

/-! ### byte facts -/

theorem tchar_facts (b : UInt8) (h : isTchar b = true) :
    b.toNat ≠ 10 ∧ b.toNat ≠ 58 ∧ b.toNat ≠ 32 ∧ b.toNat ≠ 9 ∧ b.toNat ≠ 13 ∧ b.toNat < 128 := by
  simp [isTchar] at h; omega

theorem valueByte_facts (b : UInt8) (h : isValueByte b = true) : b.toNat ≠ 10 ∧ b.toNat ≠ 13 := by
  simp [isValueByte] at h; omega

theorem mem_trimWS (s : Bytes) (b : UInt8) (h : b ∈ trimWS s) : b ∈ s := by
  unfold trimWS at h
  have h1 := List.mem_reverse.1 h
  have h2 := (List.dropWhile_sublist _).mem h1
  have h3 := List.mem_reverse.1 h2
  exact (List.dropWhile_sublist _).mem h3

theorem trimWS_cons_space (v : Bytes) : trimWS (32 :: v) = trimWS v := by
  have : isWS 32 = true := by decide
  simp [trimWS, List.dropWhile_cons, this]

theorem splitColon_append (k rest : Bytes) (h : ∀ b ∈ k, (b.toNat == 58) = false) :
    splitColon (k ++ 58 :: rest) = (k, some rest) := by
  induction k with
  | nil =>
    have : ((58 : UInt8).toNat == 58) = true := by decide
    simp [splitColon, this]
  | cons c cs ih =>
    rw [List.cons_append, splitColon, ih (fun b hb => h b (by simp [hb]))]
    simp [h c (by simp)]

/-- a rendered trailer line: non-empty lower-case token, value of valid bytes -/
structure CleanPair (p : Bytes × Bytes) : Prop where
  name_ne : p.1 ≠ []
  name_tok : ∀ b ∈ p.1, isTchar b = true ∧ isUpper b = false
  val_ok : ∀ b ∈ p.2, isValueByte b = true

def lineOf (p : Bytes × Bytes) : Bytes := (p.1 ++ 58 :: p.2) ++ [13]

def renderPairs (ps : List (Bytes × Bytes)) : Bytes :=
  ps.flatMap (fun p => p.1 ++ [58] ++ p.2 ++ [13, 10])

theorem splitLF_renderPairs (ps : List (Bytes × Bytes)) (h : ∀ p ∈ ps, CleanPair p) :
    splitLF (renderPairs ps) = ps.map lineOf ++ [[]] := by
  induction ps with
  | nil => simp [renderPairs, splitLF]
  | cons p ps ih =>
    have hp := h p (by simp)
    have e : renderPairs (p :: ps) = lineOf p ++ 10 :: renderPairs ps := by
      simp [renderPairs, lineOf, List.append_assoc]
    rw [e, splitLF_append_lf, ih (fun q hq => h q (by simp [hq]))]
    · simp
    · intro b hb
      simp only [lineOf, List.mem_append, List.mem_cons, List.not_mem_nil, or_false] at hb
      have d1 : ((58 : UInt8).toNat == 10) = false := by decide
      have d3 : ((13 : UInt8).toNat == 10) = false := by decide
      rcases hb with (hb | rfl | hb) | rfl
      · have := (tchar_facts b (hp.name_tok b hb).1).1; simpa using this
      · exact d1
      · have := (valueByte_facts b (hp.val_ok b hb)).1; simpa using this
      · exact d3

end ConfModel.WireChecks

namespace ConfModel.WireChecks
open ConfModel.WireChecksSpec
open ConfModel.ServerTimeout (Bytes)

/-! ### the examiner's loop on clean lines -/

theorem clean_name_facts (p : Bytes × Bytes) (hp : CleanPair p) :
    validFieldName p.1 = true ∧ isASCII p.1 = true ∧ lowerASCII p.1 = p.1 ∧
    (p.1.head?.map isWS).getD false = false ∧ (∀ b ∈ p.1, (b.toNat == 58) = false) := by
  refine ⟨?_, ?_, ?_, ?_, ?_⟩
  · have : p.1.isEmpty = false := by cases h : p.1 with | nil => exact absurd h hp.name_ne | cons => rfl
    simp only [validFieldName, this, Bool.not_false, Bool.true_and, List.all_eq_true]
    exact fun b hb => (hp.name_tok b hb).1
  · simp only [isASCII, List.all_eq_true, decide_eq_true_eq]
    exact fun b hb => (tchar_facts b (hp.name_tok b hb).1).2.2.2.2.2
  · unfold lowerASCII
    conv => rhs; rw [← List.map_id p.1]
    apply List.map_congr_left
    intro b hb
    simp [toLowerByte, (hp.name_tok b hb).2]
  · cases h : p.1 with
    | nil => exact absurd h hp.name_ne
    | cons c cs =>
      have hc := tchar_facts c (hp.name_tok c (by simp [h])).1
      simp [isWS]; omega
  · intro b hb
    have := (tchar_facts b (hp.name_tok b hb).1).2.1
    simpa using this

theorem valid_trim (v : Bytes) (h : ∀ b ∈ v, isValueByte b = true) : validFieldValue (trimWS v) = true := by
  simp only [validFieldValue, List.all_eq_true]
  exact fun b hb => h b (mem_trimWS v b hb)

theorem esStep_clean (n i : Nat) (st : EsState) (p : Bytes × Bytes) (hp : CleanPair p) (hi : i + 1 < n) :
    esStep n st i (lineOf p) =
      { st with trailers := happend st.trailers (canonKey p.1) (trimWS p.2), prevKey := canonKey p.1 } := by
  obtain ⟨f1, f2, f3, f4, f5⟩ := clean_name_facts p hp
  have hl : (i + 1 == n) = false := by simp; omega
  have e1 : lineOf p = (p.1 ++ 58 :: p.2) ++ [13] := rfl
  have g1 : (lineOf p).getLast? = some 13 := by rw [e1, List.getLast?_concat]
  have g2 : (lineOf p).dropLast = p.1 ++ 58 :: p.2 := by rw [e1, List.dropLast_concat]
  have g3 : (lineOf p).isEmpty = false := by simp [lineOf]
  have g4 : (p.1 ++ 58 :: p.2).isEmpty = false := by simp
  have g5 := splitColon_append p.1 p.2 f5
  have g6 := valid_trim p.2 hp.val_ok
  simp only [esStep, esLine, hl, g1, g2, g3, g4, g5, f1, f2, f3, f4, g6, Bool.false_and,
    Bool.and_false, Bool.false_eq_true, if_false, Bool.not_false, Bool.true_and, beq_self_eq_true,
    Bool.not_true, if_true, bne_self_eq_false, List.append_nil, Bool.or_false, Bool.and_true]

end ConfModel.WireChecks

namespace ConfModel.WireChecks
open ConfModel.WireChecksSpec
open ConfModel.ServerTimeout (Bytes)

def foldTr (h : Hdrs) (ps : List (Bytes × Bytes)) : Hdrs :=
  ps.foldl (fun h p => happend h (canonKey p.1) (trimWS p.2)) h

def lastKey (k : Bytes) (ps : List (Bytes × Bytes)) : Bytes := ps.foldl (fun _ p => canonKey p.1) k

theorem esLoop_clean (n : Nat) (ps : List (Bytes × Bytes)) (h : ∀ p ∈ ps, CleanPair p) :
    ∀ (st : EsState) (i : Nat), i + ps.length + 1 = n →
    esLoop n st i (ps.map lineOf ++ [[]]) =
      { st with trailers := foldTr st.trailers ps, prevKey := lastKey st.prevKey ps, endsInCRLF := true } := by
  induction ps with
  | nil =>
    intro st i hi
    have hl : (i + 1 == n) = true := by simp at hi; simp; omega
    simp [esLoop, esStep, esLine, hl, foldTr, lastKey]
  | cons p ps ih =>
    intro st i hi
    simp only [List.map_cons, List.cons_append, esLoop]
    rw [esStep_clean n i st p (h p (by simp)) (by simp at hi; omega),
      ih (fun q hq => h q (by simp [hq])) _ (i + 1) (by simp at hi; omega)]
    simp [foldTr, lastKey]

theorem examine_renderPairs (ps : List (Bytes × Bytes)) (h : ∀ p ∈ ps, CleanPair p) :
    examineGRPCEndStream (renderPairs ps) = ([], foldTr [] ps, false) := by
  unfold examineGRPCEndStream
  rw [splitLF_renderPairs ps h]
  simp only []
  rw [esLoop_clean _ ps h {} 0 (by simp)]
  simp [esFinish]

end ConfModel.WireChecks

namespace ConfModel.WireChecks
open ConfModel.WireChecksSpec
open ConfModel.ServerTimeout (Bytes)

/-! ### the trailer map -/

theorem hget_hset (h : Hdrs) (k k' : Bytes) (vals : List Bytes) :
    hget (hset h k vals) k' = if k' = k then vals else hget h k' := by
  induction h with
  | nil =>
    by_cases hk : k' = k
    · subst hk; simp [hset, hget]
    · have : ¬ k = k' := fun h => hk h.symm
      simp [hset, hget, hk, this]
  | cons p t ih =>
    obtain ⟨pk, pv⟩ := p
    by_cases hpk : pk = k
    · subst hpk
      by_cases hk : k' = pk
      · subst hk; simp [hset, hget]
      · have : ¬ pk = k' := fun h => hk h.symm
        simp [hset, hget, hk, this]
    · by_cases hk : k' = k
      · subst hk
        simp [hset, hget, hpk, ih]
      · simp [hset, hget, hpk, ih, hk]

theorem hget_happend (h : Hdrs) (k k' v : Bytes) :
    hget (happend h k v) k' = if k' = k then hget h k ++ [v] else hget h k' := by
  unfold happend; exact hget_hset _ _ _ _

theorem hget_foldTr (ps : List (Bytes × Bytes)) : ∀ (h : Hdrs) (k : Bytes),
    hget (foldTr h ps) k = hget h k ++ (ps.filter (fun p => canonKey p.1 = k)).map (fun p => trimWS p.2) := by
  induction ps with
  | nil => intro h k; simp [foldTr]
  | cons p ps ih =>
    intro h k
    have : foldTr h (p :: ps) = foldTr (happend h (canonKey p.1) (trimWS p.2)) ps := rfl
    rw [this, ih, hget_happend]
    by_cases hk : k = canonKey p.1
    · subst hk; simp
    · have hk' : ¬ canonKey p.1 = k := fun h => hk h.symm
      simp [hk, hk']

end ConfModel.WireChecks

namespace ConfModel.WireChecks
open ConfModel.WireChecksSpec
open ConfModel.ServerTimeout (Bytes parseInt)

/-! ### the reference server's own end-stream message -/

def pairsOf (hs : Hdrs) : List (Bytes × Bytes) :=
  hs.flatMap (fun nv => nv.2.map (fun v => (lowerASCII nv.1, 32 :: v)))

theorem render_eq (hs : Hdrs) : renderTrailerBlock hs = renderPairs (pairsOf hs) := by
  unfold renderTrailerBlock renderPairs pairsOf
  induction hs with
  | nil => rfl
  | cons nv t ih =>
    obtain ⟨n, vs⟩ := nv
    simp only [List.flatMap_cons, List.flatMap_append, ih]
    congr 1
    simp [List.flatMap_map]

set_option maxRecDepth 100000 in
theorem byte_case_facts : ∀ n : Fin 256,
    toLowerByte (toUpperByte (UInt8.ofNat n.val)) = toLowerByte (UInt8.ofNat n.val) ∧
    toLowerByte (toLowerByte (UInt8.ofNat n.val)) = toLowerByte (UInt8.ofNat n.val) ∧
    isUpper (toLowerByte (UInt8.ofNat n.val)) = false ∧
    (isTchar (UInt8.ofNat n.val) = true → isTchar (toLowerByte (UInt8.ofNat n.val)) = true) := by
  decide

theorem byte_case (c : UInt8) :
    toLowerByte (toUpperByte c) = toLowerByte c ∧ toLowerByte (toLowerByte c) = toLowerByte c ∧
    isUpper (toLowerByte c) = false ∧ (isTchar c = true → isTchar (toLowerByte c) = true) := by
  have := byte_case_facts ⟨c.toNat, c.toNat_lt⟩
  simpa [UInt8.ofNat_toNat] using this

theorem lower_canonLoop (x : Bytes) : ∀ up, lowerASCII (canonLoop x up) = lowerASCII x := by
  induction x with
  | nil => intro _; rfl
  | cons c cs ih =>
    intro up
    simp only [canonLoop, lowerASCII, List.map_cons]
    have := ih
    simp only [lowerASCII] at this
    rw [this]
    cases up <;> simp [(byte_case c).1, (byte_case c).2.1]

theorem lower_canonKey (x : Bytes) : lowerASCII (canonKey x) = lowerASCII x := by
  unfold canonKey; split
  · exact lower_canonLoop x true
  · rfl

theorem lower_idem (x : Bytes) : lowerASCII (lowerASCII x) = lowerASCII x := by
  simp [lowerASCII, (byte_case _).2.1]

theorem trimWS_id (s : Bytes) (h1 : (s.head?.map isWS).getD false = false)
    (h2 : (s.getLast?.map isWS).getD false = false) : trimWS s = s := by
  have d1 : s.dropWhile isWS = s := by
    cases s with
    | nil => rfl
    | cons c cs => simp at h1; simp [List.dropWhile_cons, h1]
  have d2 : s.reverse.dropWhile isWS = s.reverse := by
    cases hr : s.reverse with
    | nil => rfl
    | cons c cs =>
      have : s.getLast? = some c := by
        rw [← List.head?_reverse, hr]; rfl
      rw [this] at h2; simp at h2
      simp [List.dropWhile_cons, h2]
  simp [trimWS, d1, d2]

theorem decimal_facts : ∀ c : Fin 17,
    parseInt 64 (decimal c.val) = some (c.val : Int) ∧ (decimal c.val).all isValueByte = true ∧
    trimWS (decimal c.val) = decimal c.val := by
  decide

end ConfModel.WireChecks

namespace ConfModel.WireChecks
open ConfModel.WireChecksSpec
open ConfModel.ServerTimeout (Bytes parseInt)

/-- a header value that survives the block format unchanged: valid bytes, no edge whitespace -/
def cleanValue (d : Bytes) : Bool := validFieldValue d && trimWS d == d

theorem clean_user (trailers : Hdrs) (ht : trailersOK trailers = true) :
    ∀ p ∈ pairsOf trailers, CleanPair p ∧ ¬ reservedNames.contains p.1 = true ∧ lowerASCII p.1 = p.1 := by
  intro p hp
  simp only [pairsOf, List.mem_flatMap, List.mem_map] at hp
  obtain ⟨⟨n, vs⟩, hnv, v, hv, rfl⟩ := hp
  simp only [trailersOK, List.all_eq_true] at ht
  have h := ht (n, vs) hnv
  simp only [Bool.and_eq_true, Bool.not_eq_true', List.all_eq_true] at h
  obtain ⟨⟨⟨h1, _⟩, h3⟩, h4⟩ := h
  simp only [validFieldName, Bool.and_eq_true, Bool.not_eq_true', List.all_eq_true] at h1
  refine ⟨⟨?_, ?_, ?_⟩, ?_, lower_idem n⟩
  · intro he
    have : n = [] := by simpa [lowerASCII] using he
    simp [this] at h1
  · intro b hb
    simp only [lowerASCII, List.mem_map] at hb
    obtain ⟨c, hc, rfl⟩ := hb
    exact ⟨(byte_case c).2.2.2 (h1.2 c hc), (byte_case c).2.2.1⟩
  · intro b hb
    have := h4 v hv
    simp only [validFieldValue, List.all_eq_true] at this
    simp only [List.mem_cons] at hb
    rcases hb with rfl | hb
    · decide
    · exact this b hb
  · simpa using h3

theorem printable_value (m : Bytes) : ∀ b ∈ percentEncode m, isValueByte b = true := by
  intro b hb
  rw [percentEncode_eq, List.mem_flatMap] at hb
  obtain ⟨c, _, hbc⟩ := hb
  have := printable_encodeByte c b hbc
  simp [isValueByte]; omega

def detPairs (db : Option Bytes) : List (Bytes × Bytes) :=
  match db with | some d => [(bs "grpc-status-details-bin", 32 :: d)] | none => []

def detVals (db : Option Bytes) : List Bytes := match db with | some d => [d] | none => []

theorem reserved_clean :
    (bs "grpc-status" ≠ [] ∧ ∀ b ∈ bs "grpc-status", isTchar b = true ∧ isUpper b = false) ∧
    (bs "grpc-message" ≠ [] ∧ ∀ b ∈ bs "grpc-message", isTchar b = true ∧ isUpper b = false) ∧
    (bs "grpc-status-details-bin" ≠ [] ∧
      ∀ b ∈ bs "grpc-status-details-bin", isTchar b = true ∧ isUpper b = false) := by
  decide

theorem hex_not_ws : ∀ n : Fin 16, isWS (upperHex n.val) = false := by decide

theorem encode_head (m : Bytes) (h : m.head? ≠ some 32) :
    ((percentEncode m).head?.map isWS).getD false = false := by
  rw [percentEncode_eq]
  cases m with
  | nil => rfl
  | cons c cs =>
    simp only [List.flatMap_cons, encodeByte]
    cases hs : shouldEscape c with
    | true => simp; decide
    | false =>
      have hc : c ≠ 32 := by simpa using h
      have : c.toNat ≠ 32 := fun h => hc (UInt8.toNat_inj.1 h)
      simp [shouldEscape] at hs
      simp [isWS]; omega

theorem encode_last (m : Bytes) (h : m.getLast? ≠ some 32) :
    ((percentEncode m).getLast?.map isWS).getD false = false := by
  rw [percentEncode_eq]
  rcases List.eq_nil_or_concat m with rfl | ⟨init, l, hm⟩
  · rfl
  · rw [List.concat_eq_append] at hm
    subst hm
    have hl : l ≠ 32 := by simpa using h
    simp only [List.flatMap_append, List.flatMap_cons, List.flatMap_nil, List.append_nil, encodeByte]
    cases hs : shouldEscape l with
    | true =>
      have := hex_not_ws ⟨l.toNat % 16, mod16_lt l⟩
      simp [List.getLast?_append, this]
    | false =>
      have : l.toNat ≠ 32 := fun h => hl (UInt8.toNat_inj.1 h)
      simp [shouldEscape] at hs
      simp [List.getLast?_append, isWS]; omega

end ConfModel.WireChecks

namespace ConfModel.WireChecks
open ConfModel.WireChecksSpec
open ConfModel.ServerTimeout (Bytes parseInt)

/-! ### the validator accepts exactly the grpc-message grammar -/

theorem encodingOK_cons (c : UInt8) (rest : Bytes) :
    encodingOK (c :: rest) =
      if c.toNat == 37 then
        (match rest with
          | h1 :: h2 :: rest' => isHex h1 && isHex h2 && encodingOK rest'
          | _ => false)
      else !shouldEscape c && encodingOK rest := by
  rw [encodingOK.eq_def]
  rfl

theorem validate_iff_len : ∀ (n : Nat) (m : Bytes), m.length ≤ n →
    (validateMessage m 0 = [] ↔ encodingOK m = true) := by
  intro n
  induction n with
  | zero =>
    intro m hm
    have : m = [] := List.length_eq_zero_iff.1 (by omega)
    subst this; simp [validateMessage, encodingOK]
  | succ n ih =>
    intro m hm
    cases m with
    | nil => simp [validateMessage, encodingOK]
    | cons c rest =>
      rw [validate_cons, encodingOK_cons]
      by_cases h37 : (c.toNat == 37) = true
      · simp only [h37, if_true, Nat.lt_irrefl, gt_iff_lt, if_false]
        cases rest with
        | nil => simp [validateMessage]
        | cons h1 r1 =>
          rw [validate_cons]
          cases r1 with
          | nil =>
            by_cases hh : isHex h1 = true <;> simp [hh, validateMessage]
          | cons h2 r2 =>
            rw [validate_cons]
            have := ih r2 (by simp at hm; omega)
            by_cases a : isHex h1 = true <;> by_cases b : isHex h2 = true <;> simp [a, b, this]
      · have h37' : (c.toNat == 37) = false := by simpa using h37
        simp only [h37', Bool.false_eq_true, if_false, Nat.lt_irrefl, gt_iff_lt]
        have := ih rest (by simp at hm; omega)
        by_cases hs : shouldEscape c = true <;> simp [hs, this]

theorem validate_iff_grammar (m : Bytes) : validateMessage m 0 = [] ↔ encodingOK m = true :=
  validate_iff_len m.length m (Nat.le_refl _)

theorem validate_mem (m : Bytes) : ∀ e f, f ∈ validateMessage m e →
    f = .hexExpected ∨ f = .unescaped ∨ f = .incomplete := by
  intro e f _
  cases f <;> simp

end ConfModel.WireChecks

namespace ConfModel.WireChecks
open ConfModel.WireChecksSpec
open ConfModel.ServerTimeout (Bytes parseInt)

/-! ### the status trio: the model meets the specification -/

theorem status_clean_core (dec : Bytes → DetailsDec) (st ms ds : List Bytes)
    (h : statusOKCore dec st ms ds = true) : checkStatusCore dec st ms ds = [] := by
  rcases st with _ | ⟨s, _ | ⟨s2, st'⟩⟩
  · simp [statusOKCore] at h
  · cases hp : parseInt 64 s with
    | none => simp [statusOKCore, hp] at h
    | some code =>
      simp only [statusOKCore, hp, Bool.and_eq_true, decide_eq_true_eq] at h
      obtain ⟨⟨⟨h0, h16⟩, hms⟩, hds⟩ := h
      have hr : ¬ (code < 0 ∨ code > 16) := by omega
      have hw : wrap32 code = code := by simp only [wrap32]; omega
      rcases ms with _ | ⟨m, _ | ⟨m2, ms'⟩⟩
      · -- no grpc-message
        rcases ds with _ | ⟨d, _ | ⟨d2, ds'⟩⟩
        · simp [checkStatusCore, statusPart, messagePart, detailsPart, hp, hr]
        · cases hd : dec d with
          | invalid => simp [hd] at hds
          | decoded padded stp =>
            cases padded with
            | true => simp [hd] at hds
            | false =>
              cases stp with
              | none => simp [hd] at hds
              | some t =>
                obtain ⟨c, msg, hdet⟩ := t
                simp only [hd, Bool.and_eq_true, beq_iff_eq, Bool.not_eq_true', Bool.and_eq_false_iff,
                  Bool.and_true] at hds
                obtain ⟨rfl, h2⟩ := hds
                simp only [checkStatusCore, statusPart, messagePart, detailsPart, hp, hd, hw]
                rcases h2 with h2 | h2 <;> simp [hr, h2, hw]
        · simp at hds
      · -- one grpc-message
        simp only [Bool.and_eq_true, Bool.or_eq_true, bne_iff_ne, ne_eq, List.isEmpty_iff] at hms
        have hv := (validate_iff_grammar m).2 hms.1
        have hok : (code == 0 && !m.isEmpty) = false := by
          rcases hms.2 with h1 | h1
          · simp [h1]
          · simp [h1]
        rcases ds with _ | ⟨d, _ | ⟨d2, ds'⟩⟩
        · simp [checkStatusCore, statusPart, messagePart, detailsPart, hp, hr, hv, hok]
        · cases hd : dec d with
          | invalid => simp [hd] at hds
          | decoded padded stp =>
            cases padded with
            | true => simp [hd] at hds
            | false =>
              cases stp with
              | none => simp [hd] at hds
              | some t =>
                obtain ⟨c, msg, hdet⟩ := t
                simp only [hd, Bool.and_eq_true, beq_iff_eq, Bool.not_eq_true', Bool.and_eq_false_iff] at hds
                obtain ⟨⟨rfl, h2⟩, h3⟩ := hds
                simp only [checkStatusCore, statusPart, messagePart, detailsPart, hp, hd, hw, h3]
                rcases h2 with h2 | h2 <;> simp [hr, h2, hv, hok, hw]
        · simp at hds
      · simp at hms
  · simp [statusOKCore] at h

end ConfModel.WireChecks

namespace ConfModel.WireChecks
open ConfModel.WireChecksSpec
open ConfModel.ServerTimeout (Bytes parseInt)

theorem statusPart_code (st : List Bytes) :
    (statusPart st).2 = (match st with | [s] => parseInt 64 s | _ => none) := by
  rcases st with _ | ⟨s, _ | ⟨s2, st'⟩⟩
  · rfl
  · simp only [statusPart, List.length_singleton, Nat.lt_irrefl, gt_iff_lt, if_false]
    cases parseInt 64 s <;> rfl
  · simp [statusPart]

theorem messagePart_msg (code : Option Int) (ms : List Bytes) :
    (messagePart code ms).2 = ms.head?.bind percentDecode := by
  cases ms <;> simp [messagePart]

theorem status_flags (st : List Bytes) :
    ∀ alts ∈ mustStatus st, ∃ f ∈ alts, f ∈ (statusPart st).1 := by
  intro alts h
  rcases st with _ | ⟨s, _ | ⟨s2, st'⟩⟩
  · simp [mustStatus] at h; subst h; simp [statusPart]
  · simp only [mustStatus, List.length_singleton, Nat.lt_irrefl, gt_iff_lt, if_false, List.isEmpty_cons,
      Bool.false_eq_true, List.nil_append] at h
    simp only [statusPart, List.length_singleton, Nat.lt_irrefl, gt_iff_lt, if_false]
    cases hp : parseInt 64 s with
    | none => simp [hp] at h; subst h; simp
    | some c =>
      simp only [hp] at h
      by_cases hr : (c < 0 || c > 16) = true
      · simp [hr] at h; subst h; simp [hr]
      · simp [hr] at h
  · simp [mustStatus] at h; subst h; simp [statusPart]

theorem message_flags (code : Option Int) (ms : List Bytes) :
    ∀ alts ∈ mustMessage ms, ∃ f ∈ alts, f ∈ (messagePart code ms).1 := by
  intro alts h
  simp only [mustMessage, List.mem_append] at h
  rcases h with h | h
  · by_cases hl : ms.length > 1
    · simp [hl] at h; subst h
      rcases ms with _ | ⟨m, ms'⟩
      · simp at hl
      · have : 0 < ms'.length := by simp at hl; omega
        simp [messagePart, this]
    · simp [hl] at h
  · rcases ms with _ | ⟨m, ms'⟩
    · simp at h
    · simp only [List.head?_cons] at h
      by_cases he : encodingOK m = true
      · simp [he] at h
      · have he' : encodingOK m = false := by simpa using he
        simp [he'] at h; subst h
        have hne : validateMessage m 0 ≠ [] := fun hv => he ((validate_iff_grammar m).1 hv)
        obtain ⟨f, fs, hf⟩ : ∃ f fs, validateMessage m 0 = f :: fs := by
          cases hv : validateMessage m 0 with
          | nil => exact absurd hv hne
          | cons f fs => exact ⟨f, fs, rfl⟩
        refine ⟨.msg f, ?_, ?_⟩
        · cases f <;> simp
        · simp [messagePart, hf]

theorem details_flags (dec : Bytes → DetailsDec) (code : Option Int) (msg : Option Bytes) (ds : List Bytes) :
    ∀ alts ∈ mustDetails dec code msg ds, ∃ f ∈ alts, f ∈ detailsPart dec code msg ds := by
  intro alts h
  simp only [mustDetails, List.mem_append] at h
  rcases h with h | h
  · by_cases hl : ds.length > 1
    · simp [hl] at h; subst h; simp [detailsPart, hl]
    · simp [hl] at h
  · rcases ds with _ | ⟨d, ds'⟩
    · simp at h
    · simp only [List.head?_cons] at h
      simp only [detailsPart]
      cases hd : dec d with
      | invalid => simp [hd] at h; subst h; simp
      | decoded padded stp =>
        simp only [hd, List.mem_append] at h
        rcases h with h | h
        · cases padded <;> simp at h
          subst h; simp
        · cases stp with
          | none => simp at h; subst h; simp
          | some t =>
            obtain ⟨c, m, hdet⟩ := t
            simp only [List.mem_append] at h
            rcases h with h | h
            · cases code with
              | none => simp at h
              | some sc =>
                by_cases hc : (c != wrap32 sc) = true
                · simp [hc] at h; subst h; simp [hc]
                · simp [hc] at h
            · cases msg with
              | none => simp at h
              | some m' =>
                by_cases hm : (m != m') = true
                · simp [hm] at h; subst h; simp [hm]
                · simp [hm] at h

/-- every malformation class the specification names is reported by the model -/
theorem status_flags_core (dec : Bytes → DetailsDec) (st ms ds : List Bytes) :
    ∀ alts ∈ mustFlagStatusCore dec st ms ds, ∃ f ∈ alts, f ∈ checkStatusCore dec st ms ds := by
  intro alts h
  simp only [mustFlagStatusCore, List.mem_append] at h
  simp only [checkStatusCore, List.mem_append]
  rcases h with (h | h) | h
  · obtain ⟨f, hf, hm⟩ := status_flags st alts h
    exact ⟨f, hf, Or.inl (Or.inl hm)⟩
  · obtain ⟨f, hf, hm⟩ := message_flags (statusPart st).2 ms alts h
    exact ⟨f, hf, Or.inl (Or.inr hm)⟩
  · have e1 := statusPart_code st
    have e2 := messagePart_msg (statusPart st).2 ms
    obtain ⟨f, hf, hm⟩ := details_flags dec (statusPart st).2 (messagePart (statusPart st).2 ms).2 ds alts
      (by rw [e2, e1]; exact h)
    exact ⟨f, hf, Or.inr hm⟩

end ConfModel.WireChecks

namespace ConfModel.WireChecks
open ConfModel.WireChecksSpec
open ConfModel.ServerTimeout (Bytes parseInt)

/-! ### every well-formed block is a sequence of clean lines -/

def joinCRLF (ls : List Bytes) : Bytes := ls.flatMap (· ++ [13, 10])

theorem crlfLines_sound : ∀ (s acc : Bytes) (cr : Bool) (ls : List Bytes),
    crlfLines s acc cr = some ls →
    acc.reverse ++ (if cr then [13] else []) ++ s = joinCRLF ls := by
  intro s
  induction s with
  | nil =>
    intro acc cr ls h
    simp only [crlfLines] at h
    by_cases hc : (acc.isEmpty && !cr) = true
    · simp only [hc, if_true, Option.some.injEq] at h
      subst h
      simp only [Bool.and_eq_true, List.isEmpty_iff, Bool.not_eq_true'] at hc
      simp [hc.1, hc.2, joinCRLF]
    · simp [hc] at h
  | cons c t ih =>
    intro acc cr ls h
    rw [crlfLines] at h
    cases cr with
    | true =>
      simp only [if_true] at h
      by_cases h10 : (c.toNat == 10) = true
      · simp only [h10, if_true, Option.map_eq_some_iff] at h
        obtain ⟨ls', hl, rfl⟩ := h
        have := ih [] false ls' hl
        have hc : c = 10 := UInt8.toNat_inj.1 (by simpa using h10)
        subst hc
        simp only [List.reverse_nil, Bool.false_eq_true, if_false, List.append_nil, List.nil_append] at this
        simp [joinCRLF, this]
      · simp only [h10, Bool.false_eq_true, if_false] at h
        by_cases h13 : (c.toNat == 13) = true
        · simp only [h13, if_true] at h
          have := ih (13 :: acc) true ls h
          have hc : c = 13 := UInt8.toNat_inj.1 (by simpa using h13)
          subst hc
          simpa using this
        · simp only [h13, Bool.false_eq_true, if_false] at h
          have := ih (c :: 13 :: acc) false ls h
          simpa using this
    | false =>
      simp only [Bool.false_eq_true, if_false] at h
      by_cases h13 : (c.toNat == 13) = true
      · simp only [h13, if_true] at h
        have := ih acc true ls h
        have hc : c = 13 := UInt8.toNat_inj.1 (by simpa using h13)
        subst hc
        simpa using this
      · simp only [h13, Bool.false_eq_true, if_false] at h
        have := ih (c :: acc) false ls h
        simpa using this

theorem splitColon_spec : ∀ (l k v : Bytes), splitColon l = (k, some v) →
    l = k ++ 58 :: v ∧ ∀ b ∈ k, (b.toNat == 58) = false := by
  intro l
  induction l with
  | nil => intro k v h; simp [splitColon] at h
  | cons c cs ih =>
    intro k v h
    rw [splitColon] at h
    by_cases h58 : (c.toNat == 58) = true
    · simp only [h58, if_true, Prod.mk.injEq, Option.some.injEq] at h
      obtain ⟨rfl, rfl⟩ := h
      have hc : c = 58 := UInt8.toNat_inj.1 (by simpa using h58)
      subst hc; simp
    · simp only [h58, Bool.false_eq_true, if_false] at h
      cases hs : splitColon cs with
      | mk k' v' =>
        simp only [hs, Prod.mk.injEq] at h
        obtain ⟨rfl, rfl⟩ := h
        obtain ⟨e, hk⟩ := ih k' v hs
        refine ⟨by rw [e]; simp, ?_⟩
        intro b hb
        simp only [List.mem_cons] at hb
        rcases hb with rfl | hb
        · simpa using h58
        · exact hk b hb

theorem mem_takeWhile_sat {α} (p : α → Bool) : ∀ (l : List α) (b : α), b ∈ l.takeWhile p → p b = true := by
  intro l
  induction l with
  | nil => intro b h; simp at h
  | cons a t ih =>
    intro b h
    rw [List.takeWhile_cons] at h
    by_cases ha : p a = true
    · simp only [ha, if_true, List.mem_cons] at h
      rcases h with rfl | h
      · exact ha
      · exact ih b h
    · simp [ha] at h

theorem mem_trim_or_ws (v : Bytes) (b : UInt8) (h : b ∈ v) : isWS b = true ∨ b ∈ trimWS v := by
  rw [← List.takeWhile_append_dropWhile (p := isWS) (l := v), List.mem_append] at h
  rcases h with h | h
  · exact Or.inl (mem_takeWhile_sat _ _ _ h)
  · have h' : b ∈ (v.dropWhile isWS).reverse := List.mem_reverse.2 h
    rw [← List.takeWhile_append_dropWhile (p := isWS) (l := (v.dropWhile isWS).reverse), List.mem_append] at h'
    rcases h' with h' | h'
    · exact Or.inl (mem_takeWhile_sat _ _ _ h')
    · exact Or.inr (by unfold trimWS; exact List.mem_reverse.2 h')

theorem fieldLine_clean (l : Bytes) (h : fieldLineOK l = true) :
    ∃ p : Bytes × Bytes, l = p.1 ++ 58 :: p.2 ∧ CleanPair p := by
  unfold fieldLineOK at h
  cases hs : splitColon l with
  | mk k r =>
    cases r with
    | none => simp [hs] at h
    | some v =>
      simp only [hs, Bool.and_eq_true, lowerToken, Bool.not_eq_true', List.all_eq_true] at h
      obtain ⟨⟨hne, htok⟩, hv⟩ := h
      obtain ⟨e, _⟩ := splitColon_spec l k v hs
      refine ⟨(k, v), e, ⟨?_, ?_, ?_⟩⟩
      · intro hk
        have hk' : k = [] := hk
        simp [hk'] at hne
      · intro b hb
        have := htok b hb
        simpa using this
      · intro b hb
        rcases mem_trim_or_ws v b hb with hw | ht
        · simp [isWS] at hw; simp [isValueByte]; omega
        · simp only [validFieldValue, List.all_eq_true] at hv
          exact hv b ht

theorem block_clean (s : Bytes) (h : blockOK s = true) : (examineGRPCEndStream s).1 = [] := by
  unfold blockOK at h
  cases hl : crlfLines s [] false with
  | none => simp [hl] at h
  | some ls =>
    simp only [hl, List.all_eq_true] at h
    have hs := crlfLines_sound s [] false ls hl
    simp only [List.reverse_nil, Bool.false_eq_true, if_false, List.append_nil, List.nil_append] at hs
    -- choose the clean pair of every line
    have hex : ∃ ps : List (Bytes × Bytes), ls = ps.map (fun p => p.1 ++ 58 :: p.2) ∧ ∀ p ∈ ps, CleanPair p := by
      clear hl hs
      induction ls with
      | nil => exact ⟨[], rfl, by simp⟩
      | cons l t ih =>
        obtain ⟨p, hp, hc⟩ := fieldLine_clean l (h l (by simp))
        obtain ⟨ps, hps, hcs⟩ := ih (fun x hx => h x (by simp [hx]))
        refine ⟨p :: ps, by simp [hp, hps], ?_⟩
        intro q hq
        simp only [List.mem_cons] at hq
        rcases hq with rfl | hq
        · exact hc
        · exact hcs q hq
    obtain ⟨ps, hps, hclean⟩ := hex
    have : s = renderPairs ps := by
      rw [hs, hps]
      simp [joinCRLF, renderPairs, List.flatMap_map, List.append_assoc]
    rw [this, examine_renderPairs ps hclean]

end ConfModel.WireChecks

namespace ConfModel.WireChecks
open ConfModel.WireChecksSpec
open ConfModel.ServerTimeout (Bytes parseInt)

/-! ### every malformation of the block is reported -/

/-- what is already certain to be reported for the alternatives `alts` -/
def sat (st : EsState) (alts : List EsFb) : Prop :=
  (∃ f ∈ alts, f ∈ st.fb) ∨ (EsFb.obsFold ∈ alts ∧ st.obsLineFolds > 0) ∨
  (EsFb.blankLines ∈ alts ∧ EsFb.extraBlankAtEnd ∈ alts ∧ st.blankLines > 0) ∨
  (EsFb.lfOnly ∈ alts ∧ st.linesWithoutCR > 0)

def le (a b : EsState) : Prop :=
  (∀ f ∈ a.fb, f ∈ b.fb) ∧ a.obsLineFolds ≤ b.obsLineFolds ∧ a.blankLines ≤ b.blankLines ∧
  a.linesWithoutCR ≤ b.linesWithoutCR

theorem le_refl (a : EsState) : le a a := ⟨fun _ h => h, Nat.le_refl _, Nat.le_refl _, Nat.le_refl _⟩

theorem le_trans {a b c : EsState} (h1 : le a b) (h2 : le b c) : le a c :=
  ⟨fun f h => h2.1 f (h1.1 f h), Nat.le_trans h1.2.1 h2.2.1, Nat.le_trans h1.2.2.1 h2.2.2.1,
    Nat.le_trans h1.2.2.2 h2.2.2.2⟩

theorem sat_mono {a b : EsState} (h : le a b) (alts : List EsFb) (hs : sat a alts) : sat b alts := by
  rcases hs with ⟨f, hf, hm⟩ | ⟨h1, h2⟩ | ⟨h1, h2, h3⟩ | ⟨h1, h2⟩
  · exact Or.inl ⟨f, hf, h.1 f hm⟩
  · exact Or.inr (Or.inl ⟨h1, Nat.lt_of_lt_of_le h2 h.2.1⟩)
  · exact Or.inr (Or.inr (Or.inl ⟨h1, h2, Nat.lt_of_lt_of_le h3 h.2.2.1⟩))
  · exact Or.inr (Or.inr (Or.inr ⟨h1, Nat.lt_of_lt_of_le h2 h.2.2.2⟩))

theorem sat_finish (st : EsState) (alts : List EsFb) (hs : sat st alts) : ∃ f ∈ alts, f ∈ esFinish st := by
  unfold esFinish
  rcases hs with ⟨f, hf, hm⟩ | ⟨h1, h2⟩ | ⟨h1, h2, h3⟩ | ⟨h1, h2⟩
  · exact ⟨f, hf, by simp [hm]⟩
  · exact ⟨_, h1, by simp [h2]⟩
  · by_cases hb : (st.blankLines == 1 && st.blankLineAtEnd) = true
    · exact ⟨_, h2, by simp [h3, hb]⟩
    · exact ⟨_, h1, by simp [h3, hb]⟩
  · exact ⟨_, h1, by simp [h2]⟩

end ConfModel.WireChecks

namespace ConfModel.WireChecks
open ConfModel.WireChecksSpec
open ConfModel.ServerTimeout (Bytes parseInt)

theorem esLine_le (n : Nat) (st : EsState) (i : Nat) (l : Bytes) : le st (esLine n st i l) := by
  unfold esLine le
  simp only []
  repeat' split
  all_goals (refine ⟨?_, ?_, ?_, ?_⟩ <;> simp <;> try omega)
  all_goals (intro f hf; simp [hf])

theorem esStep_le (n : Nat) (st : EsState) (i : Nat) (l : Bytes) : le st (esStep n st i l) := by
  unfold esStep
  simp only []
  split
  · exact ⟨fun _ h => h, Nat.le_refl _, Nat.le_refl _, Nat.le_refl _⟩
  · refine le_trans ?_ (esLine_le _ _ _ _)
    split
    · exact ⟨fun _ h => h, Nat.le_refl _, Nat.le_refl _, Nat.le_succ _⟩
    · exact le_refl _

theorem esLoop_le (n : Nat) : ∀ (ls : List Bytes) (st : EsState) (i : Nat), le st (esLoop n st i ls) := by
  intro ls
  induction ls with
  | nil => intro st i; exact le_refl _
  | cons l t ih => intro st i; exact le_trans (esStep_le n st i l) (ih _ _)

theorem splitColon_head (l : Bytes) :
    ((splitColon l).1.head?.map isWS).getD false = (l.head?.map isWS).getD false := by
  cases l with
  | nil => rfl
  | cons c cs =>
    rw [splitColon]
    by_cases h58 : (c.toNat == 58) = true
    · have : isWS c = false := by
        have : c.toNat = 58 := by simpa using h58
        simp [isWS, this]
      simp [h58, this]
    · simp only [h58, Bool.false_eq_true, if_false]
      cases splitColon cs with
      | mk k v => simp

theorem ws_head_invalid (k : Bytes) (h : (k.head?.map isWS).getD false = true) : validFieldName k = false := by
  cases k with
  | nil => simp at h
  | cons c cs =>
    have hc : isWS c = true := by simpa using h
    have : isTchar c = false := by
      cases ht : isTchar c with
      | false => rfl
      | true =>
        have := tchar_facts c ht
        simp [isWS] at hc; omega
    simp [validFieldName, this]

set_option maxRecDepth 100000 in
theorem upper_facts : ∀ n : Fin 256, (toLowerByte (UInt8.ofNat n.val) = UInt8.ofNat n.val) = (isUpper (UInt8.ofNat n.val) = false) := by
  decide

theorem lower_eq_iff (k : Bytes) : (k != lowerASCII k) = k.any isUpper := by
  induction k with
  | nil => rfl
  | cons c cs ih =>
    have hc : (toLowerByte c = c) = (isUpper c = false) := by
      have := upper_facts ⟨c.toNat, c.toNat_lt⟩
      simpa [UInt8.ofNat_toNat] using this
    simp only [lowerASCII, List.map_cons, List.any_cons] at *
    cases hu : isUpper c with
    | true =>
      have : ¬ toLowerByte c = c := by rw [hc]; simp [hu]
      have hne : ¬ c = toLowerByte c := fun h => this h.symm
      simp [bne, hne]
    | false =>
      have : toLowerByte c = c := by rw [hc]; exact hu
      rw [this]
      simp only [Bool.false_or]
      rw [← ih]
      simp [bne]

/-- the reports a non-final line forces, as recorded right after that line was processed -/
theorem line_sat (n : Nat) (st : EsState) (i : Nat) (l : Bytes) :
    ∀ alts ∈ mustFlagLine l, sat (esLine n st i l) alts := by
  intro alts h
  unfold mustFlagLine at h
  unfold esLine
  by_cases he : l.isEmpty = true
  · simp only [he, if_true, List.mem_singleton] at h
    subst h
    simp only [he, if_true]
    exact Or.inr (Or.inr (Or.inl ⟨by simp, by simp, by simp⟩))
  · simp only [he, Bool.false_eq_true, if_false] at h ⊢
    have hh := splitColon_head l
    cases hs : splitColon l with
    | mk key rest =>
      rw [hs] at hh
      simp only [] at hh
      simp only [hs] at h ⊢
      by_cases hw : (l.head?.map isWS).getD false = true
      · -- the line starts with white space
        simp only [hw, if_true, List.mem_singleton] at h
        subst h
        rw [hw] at hh
        by_cases hf : (decide (i > st.blankLines) && (key.head?.map isWS).getD false) = true
        · simp only [hf, if_true]
          exact Or.inr (Or.inl ⟨by simp, by simp⟩)
        · simp only [hf, Bool.false_eq_true, if_false]
          cases rest with
          | none => exact Or.inl ⟨.missingColon, by simp, by simp⟩
          | some r =>
            have := ws_head_invalid key hh
            exact Or.inl ⟨.invalidName, by simp, by simp [this]⟩
      · have hw' : (l.head?.map isWS).getD false = false := by simpa using hw
        rw [hw'] at hh
        simp only [hw', Bool.false_eq_true, if_false] at h
        simp only [hh, Bool.and_false, Bool.false_eq_true, if_false]
        cases rest with
        | none =>
          simp only [List.mem_singleton] at h; subst h
          exact Or.inl ⟨.missingColon, by simp, by simp⟩
        | some r =>
          simp only [List.mem_append] at h
          rcases h with (h | h) | h
          · by_cases hv : (!(!key.isEmpty && key.all isTchar)) = true
            · simp only [hv, if_true, List.mem_singleton] at h; subst h
              have : validFieldName key = false := by
                cases hvn : validFieldName key with
                | false => rfl
                | true => simp only [validFieldName] at hvn; rw [hvn] at hv; simp at hv
              exact Or.inl ⟨.invalidName, by simp, by simp [this]⟩
            · simp [hv] at h
          · by_cases hv : (isASCII key && key.any isUpper) = true
            · simp only [hv, if_true, List.mem_singleton] at h; subst h
              have : (isASCII key && key != lowerASCII key) = true := by rw [lower_eq_iff]; exact hv
              exact Or.inl ⟨.nonLowerKey, by simp, by simp [this]⟩
            · simp [hv] at h
          · by_cases hv : (!validFieldValue (trimWS r)) = true
            · simp only [hv, if_true, List.mem_singleton] at h; subst h
              exact Or.inl ⟨.invalidValue, by simp, by simp [hv]⟩
            · simp [hv] at h

end ConfModel.WireChecks

namespace ConfModel.WireChecks
open ConfModel.WireChecksSpec
open ConfModel.ServerTimeout (Bytes parseInt)

def stripCR (l : Bytes) : Bytes := if l.getLast? == some 13 then l.dropLast else l

theorem esStep_nonlast (n : Nat) (st : EsState) (i : Nat) (l : Bytes) (hi : i + 1 < n) :
    esStep n st i l =
      esLine n (if l.getLast? == some 13 then st else { st with linesWithoutCR := st.linesWithoutCR + 1 })
        i (stripCR l) := by
  have hl : (i + 1 == n) = false := by simp; omega
  unfold esStep stripCR
  simp only [hl, Bool.false_and, Bool.false_eq_true, if_false, Bool.not_false, Bool.true_and]
  cases l.getLast? == some 13 <;> simp

theorem esLine_ends (n : Nat) (st : EsState) (i : Nat) (l : Bytes) :
    (esLine n st i l).endsInCRLF = st.endsInCRLF := by
  unfold esLine
  simp only []
  repeat' split
  all_goals rfl

theorem loop_sat (n : Nat) : ∀ (ls : List Bytes) (st : EsState) (i : Nat), i + ls.length = n →
    ∀ l ∈ ls.dropLast, ∀ alts ∈ mustFlagLine (stripCR l), sat (esLoop n st i ls) alts := by
  intro ls
  induction ls with
  | nil => intro st i _ l hl; simp at hl
  | cons a t ih =>
    intro st i hn l hl alts ha
    cases t with
    | nil => simp at hl
    | cons b t' =>
      have hi : i + 1 < n := by simp at hn; omega
      rw [List.dropLast_cons₂] at hl
      simp only [List.mem_cons] at hl
      simp only [esLoop]
      rcases hl with rfl | hl
      · have h1 : sat (esStep n st i l) alts := by
          rw [esStep_nonlast n st i l hi]; exact line_sat n _ i _ alts ha
        exact sat_mono (esLoop_le n (b :: t') _ _) alts h1
      · exact ih (esStep n st i a) (i + 1) (by simp at hn ⊢; omega) l (by simpa using hl) alts ha

theorem loop_lf (n : Nat) : ∀ (ls : List Bytes) (st : EsState) (i : Nat), i + ls.length = n →
    (∃ l ∈ ls.dropLast, (l.getLast? != some 13) = true) → (esLoop n st i ls).linesWithoutCR > 0 := by
  intro ls
  induction ls with
  | nil => intro st i _ h; simp at h
  | cons a t ih =>
    intro st i hn h
    cases t with
    | nil => simp at h
    | cons b t' =>
      have hi : i + 1 < n := by simp at hn; omega
      obtain ⟨l, hl, hcr⟩ := h
      rw [List.dropLast_cons₂] at hl
      simp only [List.mem_cons] at hl
      simp only [esLoop]
      rcases hl with rfl | hl
      · have h1 : (esStep n st i l).linesWithoutCR > 0 := by
          rw [esStep_nonlast n st i l hi]
          have hcr' : (l.getLast? == some 13) = false := by simpa [bne] using hcr
          have := (esLine_le n { st with linesWithoutCR := st.linesWithoutCR + 1 } i (stripCR l)).2.2.2
          simp only [hcr', Bool.false_eq_true, if_false]
          simp at this; omega
        exact Nat.lt_of_lt_of_le h1 (esLoop_le n (b :: t') _ _).2.2.2
      · exact ih (esStep n st i a) (i + 1) (by simp at hn ⊢; omega) ⟨l, by simpa using hl, hcr⟩

theorem loop_ends (n : Nat) : ∀ (ls : List Bytes) (st : EsState) (i : Nat), i + ls.length = n →
    st.endsInCRLF = false → (esLoop n st i ls).endsInCRLF = true → ls.getLast? = some [] := by
  intro ls
  induction ls with
  | nil => intro st i _ h0 h1; simp [esLoop, h0] at h1
  | cons a t ih =>
    intro st i hn h0 h1
    cases t with
    | nil =>
      simp only [esLoop] at h1
      have hl : (i + 1 == n) = true := by simp at hn; simp; omega
      unfold esStep at h1
      simp only [hl, Bool.true_and] at h1
      by_cases he : a.isEmpty = true
      · have : a = [] := by simpa using he
        simp [this]
      · simp only [he, Bool.false_eq_true, if_false, Bool.not_true, Bool.false_and] at h1
        rw [esLine_ends] at h1
        simp [h0] at h1
    | cons b t' =>
      have hi : i + 1 < n := by simp at hn; omega
      simp only [esLoop] at h1
      have h0' : (esStep n st i a).endsInCRLF = false := by
        rw [esStep_nonlast n st i a hi, esLine_ends]
        split <;> simp [h0]
      have := ih (esStep n st i a) (i + 1) (by simp at hn ⊢; omega) h0' h1
      simpa using this

/-- every malformation class the specification names for the block is reported by the model -/
theorem block_flags (s : Bytes) :
    ∀ alts ∈ mustFlag s, ∃ f ∈ alts, f ∈ (examineGRPCEndStream s).1 := by
  intro alts h
  simp only [mustFlag, List.mem_append, List.mem_flatMap] at h
  unfold examineGRPCEndStream
  simp only []
  have hn : 0 + (splitLF s).length = (splitLF s).length := by simp
  rcases h with h | ⟨l', hl', ha⟩
  · by_cases hw : wrongLineEnding s = true
    · simp only [hw, if_true, List.mem_singleton] at h
      subst h
      simp only [wrongLineEnding, Bool.or_eq_true, List.any_eq_true] at hw
      rcases hw with ⟨l, hl, hcr⟩ | hlast
      · have := loop_lf _ (splitLF s) {} 0 hn ⟨l, hl, hcr⟩
        exact ⟨.lfOnly, by simp, by simp [esFinish, this]⟩
      · have hne : (esLoop (splitLF s).length {} 0 (splitLF s)).endsInCRLF = false := by
          cases he : (esLoop (splitLF s).length {} 0 (splitLF s)).endsInCRLF with
          | false => rfl
          | true =>
            have := loop_ends _ (splitLF s) {} 0 hn rfl he
            simp [this] at hlast
        exact ⟨.noFinalCRLF, by simp, by simp [esFinish, hne]⟩
    · simp [hw] at h
  · simp only [terminatedLines, List.mem_map] at hl'
    obtain ⟨l, hl, rfl⟩ := hl'
    have := loop_sat _ (splitLF s) {} 0 hn l hl alts (by simpa [stripCR] using ha)
    exact sat_finish _ alts this

end ConfModel.WireChecks
