//go:build verif

package connectconformance

import (
	"sort"

	conformancev1 "connectrpc.com/conformance/internal/gen/proto/go/connectrpc/conformance/v1"
)

// VerifC05Perm describes one permutation as the library computed it.
type VerifC05Perm struct {
	Name   string `json:"name"`
	Proto  int    `json:"proto"`
	Ver    int    `json:"ver"`
	TLS    bool   `json:"tls"`
	Certs  bool   `json:"certs"`
	Codec  int    `json:"codec"`
	Comp   int    `json:"comp"`
	RawReq bool   `json:"rawReq"`
	// only in VerifC05Library: the test case's own name as written in the suite, and whether one of
	// its request messages defines a raw response
	Simple  string `json:"simple,omitempty"`
	RawResp bool   `json:"rawResp,omitempty"`
}

// VerifC05Perms loads suites and config exactly as Run does and returns all permutations
// (including the gRPC-peer ones under their marked names) with their server instance.
func VerifC05Perms(files map[string][]byte, cfgYAML string, mode conformancev1.TestSuite_TestMode, clientIsGRPC, serverIsGRPC bool) ([]VerifC05Perm, error) {
	suites, err := parseTestSuites(files)
	if err != nil {
		return nil, err
	}
	cases, err := parseConfig("cfg.yaml", []byte(cfgYAML))
	if err != nil {
		return nil, err
	}
	lib, err := newTestCaseLibrary(suites, cases, mode)
	if err != nil {
		return nil, err
	}
	var out []VerifC05Perm
	for _, tc := range lib.allPermutations(clientIsGRPC, serverIsGRPC) {
		inst := serverInstanceForCase(tc)
		out = append(out, VerifC05Perm{
			Name: tc.Request.TestName, Proto: int(inst.protocol), Ver: int(inst.httpVersion), TLS: inst.useTLS, Certs: inst.useTLSClientCerts,
			Codec: int(tc.Request.Codec), Comp: int(tc.Request.Compression), RawReq: tc.Request.RawRequest != nil,
		})
	}
	sort.Slice(out, func(i, j int) bool { return out[i].Name < out[j].Name })
	return out, nil
}

// VerifC05Library returns the library itself (no gRPC-peer permutations): every permutation under
// its full name together with the test case's simple name, from which the names of the gRPC-peer
// permutations are derived.
func VerifC05Library(files map[string][]byte, cfgYAML string, mode conformancev1.TestSuite_TestMode) ([]VerifC05Perm, error) {
	suites, err := parseTestSuites(files)
	if err != nil {
		return nil, err
	}
	cases, err := parseConfig("cfg.yaml", []byte(cfgYAML))
	if err != nil {
		return nil, err
	}
	lib, err := newTestCaseLibrary(suites, cases, mode)
	if err != nil {
		return nil, err
	}
	var out []VerifC05Perm
	for name, tc := range lib.testCases {
		inst := serverInstanceForCase(tc)
		out = append(out, VerifC05Perm{
			Name: name, Proto: int(inst.protocol), Ver: int(inst.httpVersion), TLS: inst.useTLS, Certs: inst.useTLSClientCerts,
			Codec: int(tc.Request.Codec), Comp: int(tc.Request.Compression), RawReq: tc.Request.RawRequest != nil,
			Simple: lib.testCaseNames[name], RawResp: hasRawResponse(tc.Request.RequestMessages),
		})
	}
	sort.Slice(out, func(i, j int) bool { return out[i].Name < out[j].Name })
	return out, nil
}
