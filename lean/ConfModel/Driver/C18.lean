import ConfModel.Driver.Common
import ConfModel.Model.Convert
import ConfModel.Model.Base64
import ConfModel.Spec.Convert
import ConfModel.Model.ProtoWire
import ConfModel.Spec.GetQuery
namespace ConfModel.Driver.C18
open Lean ConfModel.Driver ConfModel.Convert ConfModel.ConvertSpec

/-- the base64 instance the model is run with (connect's binary-header encoding) -/
def b64 : B64 := { enc := ConfModel.Base64.encode, dec := ConfModel.Base64.decode }

def parseHs (j : Json) : List Header :=
  (arr j).map fun h => { name := (str (field h "n")).toList, values := (strList (field h "v")).map unhex }

def parseMD (j : Json) : MD :=
  (arr j).map fun h => ((str (field h "k")).toList, (strList (field h "v")).map unhex)

abbrev Canon := List (String × List String)

def canonMD (md : MD) : Canon :=
  ((md.map fun kv => (String.ofList kv.1, kv.2.map hex)).toArray.qsort (fun a b => a.1 < b.1)).toList

def hsAsMD (hs : List Header) : MD := hs.map fun h => (h.name, h.values)

def canonJson (key : String) (c : Canon) : Json :=
  Json.arr (c.map fun kv => Json.mkObj [(key, kv.1), ("v", toJson kv.2)]).toArray

def parseErr (j : Json) : ProtoErr :=
  { code := int (field j "code"),
    message := if isNull (field j "msg") then none else some (str (field j "msg")),
    details := (arr (field j "details")).map fun d => { url := (str (field d "url")).toList, value := unhex (str (field d "val")) } }

def parseErr? (j : Json) : Option ProtoErr := if isNull j then none else some (parseErr j)

def errJson : Option ProtoErr → Json
  | none => Json.null
  | some e => Json.mkObj [("code", toJson e.code), ("msg", match e.message with | none => Json.null | some m => m),
      ("details", Json.arr (e.details.map fun d => Json.mkObj [("url", String.ofList d.url), ("val", hex d.value)]).toArray)]

structure Mid where
  code : Int
  msg : String
  types : List String
deriving BEq

def parseMid? (j : Json) : Option Mid :=
  if isNull j then none else some { code := int (field j "code"), msg := str (field j "msg"), types := strList (field j "types") }

def viaConnect (e : ProtoErr) : ProtoErr := connectToProto (protoToConnect e)
def viaGrpc (e : ProtoErr) : Option ProtoErr := grpcToProto (protoToGrpc e)

def panicked (impl : Json) : Bool := !(isNull (field impl "panic"))

def handle : Handler := fun op inp impl =>
  if panicked impl then { agree := false, holds := false, why := "panic: " ++ str (field impl "panic") } else
  match op with
  | "err" =>
    let e := parseErr inp
    let via := str (field inp "via")
    let implOut := parseErr? (field impl "out")
    let implMid := parseMid? (field impl "mid")
    let mOut : Option ProtoErr := match via with
      | "connect" => some (viaConnect e)
      | "grpc" => viaGrpc e
      | "cg" => viaGrpc (viaConnect e)
      | _ => (viaGrpc e).map viaConnect
    let mMid : Option Mid :=
      if via == "connect" || via == "cg" then
        let c := protoToConnect e
        some { code := c.code, msg := c.message, types := c.details.map (fun d => String.ofList (typeName d.url)) }
      else (protoToGrpc e).map fun s => { code := s.code, msg := s.message, types := s.details.map (fun d => String.ofList d.url) }
    -- the property: code, message and every detail survive (default-prefixed type URLs where
    -- the Connect form is involved; non-OK code where the gRPC form is involved)
    let claimed := (via == "grpc" || DefaultPrefixed e) && (via == "connect" || e.code != 0)
    -- other type URL prefixes through the Connect form: the type each URL names and the bytes
    let claimedTypes := !claimed && (via == "connect" || e.code != 0)
    let holds := (!claimed || (match implOut with | some o => sameError o e | none => false)) &&
      (!claimedTypes || (match implOut with | some o => sameErrorTypes o e | none => false))
    { agree := implOut == mOut && implMid == mMid, holds := holds,
      nontrivial := claimed && !e.details.isEmpty, model := errJson mOut, cls := via,
      why := if holds then "" else "error not preserved via " ++ via }
  | "anyerr" =>
    let e := parseErr (field inp "err")
    let kind := str (field inp "kind")
    let text := str (field inp "text")
    let implOut := parseErr? impl
    let mOut := errorToProto (match kind with
      | "nil" => none
      | "plain" => some (.plain text)
      | "connect" => some (.connect (protoToConnect e))
      | _ => some (.wrapped (protoToConnect e)))
    let holds := match kind with
      | "nil" => implOut.isNone
      | "plain" => (match implOut with | some o => o.code == codeUnknown && o.getMessage == text | none => false)
      | _ => match implOut with
        | some o => if DefaultPrefixed e then sameError o e else sameErrorTypes o e
        | none => false
    { agree := implOut == mOut, holds := holds, nontrivial := kind != "nil", model := errJson mOut, cls := kind,
      why := if holds then "" else "error not preserved by ConvertErrorToProtoError (" ++ kind ++ ")" }
  | "h2md" =>
    let hs := parseHs (field inp "hs")
    let implMD := parseMD (field impl "md")
    let m := headersToMD b64 hs
    let holds := preserves lower (decIfBin b64) hs implMD
    { agree := canonMD implMD == canonMD m, holds := holds,
      nontrivial := hs.length > 1, model := canonJson "k" (canonMD m),
      why := if holds then "" else "metadata does not hold every key with every value in order" }
  | "outgoing" =>
    let hs := parseHs (field inp "hs")
    let implMD := parseMD (field impl "md")
    let m := fromOutgoing (appendOutgoing b64 hs)
    let holds := preservesValues lower (decIfBin b64) hs implMD
    { agree := canonMD implMD == canonMD m, holds := holds,
      nontrivial := hs.any (fun h => isBin (lower h.name) && !h.values.isEmpty), model := canonJson "k" (canonMD m),
      why := if holds then "" else "outgoing metadata is not the given headers with -bin values decoded once" }
  | "rt" =>
    let hs := parseHs (field inp "hs")
    let implHs := parseHs (field impl "hs")
    let m := mdToHeaders b64 (headersToMD b64 hs)
    -- every value decoded once and encoded once (identity on canonical -bin values)
    let holds := preserves lower (fun k v => encIfBin b64 k (decIfBin b64 k v)) hs (hsAsMD implHs)
    { agree := canonMD (hsAsMD implHs) == canonMD (hsAsMD m), holds := holds,
      nontrivial := hs.any (fun h => isBin (lower h.name) && !h.values.isEmpty), model := canonJson "n" (canonMD (hsAsMD m)),
      why := if holds then "" else "headers -> metadata -> headers lost or re-encoded a value" }
  | "md2h" =>
    let md := parseMD (field inp "md")
    let first := parseHs (field impl "first")
    let second := parseHs (field impl "second")
    let after := parseMD (field impl "after")
    let (m1, mdAfter) := mdToHeadersSt b64 md
    let (m2, _) := mdToHeadersSt b64 mdAfter
    let once := encodedOnce b64 md first
    let same := canonMD (hsAsMD second) == canonMD (hsAsMD first)
    let untouched := canonMD after == canonMD md
    let holds := once && same && untouched
    { agree := canonMD (hsAsMD first) == canonMD (hsAsMD m1) && canonMD (hsAsMD second) == canonMD (hsAsMD m2)
        && canonMD after == canonMD mdAfter,
      holds := holds, nontrivial := md.any (fun kv => isBin kv.1 && !kv.2.isEmpty),
      model := canonJson "n" (canonMD (hsAsMD m1)),
      why := if holds then "" else
        if !once then "-bin values not encoded exactly once"
        else if !same then "second conversion of the same metadata differs (encoded twice)"
        else "conversion altered the caller's metadata" }
  | "addh" =>
    let hs := parseHs (field inp "hs")
    let trailer := bool (field inp "trailer")
    let implHs := parseHs (field impl "hs")
    let m := convertToProtoHeader (if trailer then addTrailers hs else addHeaders hs)
    let norm : Str → Str := if trailer then trailerNorm else canon
    let holds := preservesValues norm (fun _ v => v) hs (hsAsMD implHs)
    { agree := canonMD (hsAsMD implHs) == canonMD (hsAsMD m), holds := holds,
      nontrivial := hs.length > 1, model := canonJson "n" (canonMD (hsAsMD m)),
      why := if holds then "" else "http.Header does not hold every given value in order" }
  | "percent" =>
    let msg := unhex (str (field inp "msg"))
    let out := unhex (str (field impl "out"))
    let unesc := if isNull (field impl "unesc") then none else some (unhex (str (field impl "unesc")))
    let m := percentEncode msg
    let holds := out.all printable && percentDecode out == some msg
    { agree := out == m && unesc == some msg, holds := holds, nontrivial := msg.any shouldEscape,
      model := hex m, why := if holds then "" else "percent-encoding not printable or not invertible" }
  | "codec" =>
    let unk := str (field inp "unk")
    let b (k : String) := bool (field impl k)
    let rtAll := b "marshalOk" && b "rt" && b "stableRt" && b "appendOk"
    let holds := rtAll && (unk == "" || (b "rejected" && !b "shorter"))
    { agree := holds && (unk != "" || (!b "rejected" && !b "shorter")), holds := holds, nontrivial := true,
      cls := str (field inp "codec") ++ (if unk == "" then "" else "+unknown"),
      why := if holds then "" else
        if !rtAll then "strict " ++ str (field inp "codec") ++ " codec does not decode what it encodes"
        else "unknown field accepted" }
  | "codecseq" =>
    let steps := arr (field inp "steps")
    let isteps := arr (field impl "steps")
    let isEnc (j : Json) : Bool := str (field j "m") != "decode"
    let b (j : Json) (k : String) := bool (field j k)
    let snaps : List (Option Bytes) := (steps.zip isteps).map fun p =>
      if isEnc p.1 && b p.2 "ok" then some (unhex (str (field p.2 "snap"))) else none
    -- the marshaller parameter of the model, instantiated with what the implementation returned
    -- for the message of step i (the message is named by its step)
    let c : Codec Nat :=
      { enc := fun i => (snaps[i]?).join,
        dec := fun d => (snaps.findIdx? (· == some d)).map fun i => (i, []) }
    let calls : List (Call Nat) := steps.zipIdx.map fun p =>
      if isEnc p.1 then Call.encode p.2 else Call.decode (nat (field p.1 "of"))
    let m := runCalls c calls {}
    let implFinals : List (Option Bytes) := (steps.zip isteps).map fun p =>
      if isEnc p.1 && b p.2 "ok" then some (unhex (str (field p.2 "final"))) else none
    let mDecOk : List Bool := m.msgs.map fun r => match r with | some (.ok _) => true | _ => false
    let implDecOk : List Bool := (steps.zip isteps).map fun p => !isEnc p.1 && b p.2 "ok" && b p.2 "eqNow" && b p.2 "eqEnd"
    -- the property: every encode call succeeds and its result is kept and decodes to its own
    -- message after all later calls; every decode of such a result returns that message
    let holds := isteps.length == steps.length && (steps.zip isteps).all fun p =>
      if isEnc p.1 then
        b p.2 "ok" && encodingKept (unhex (str (field p.2 "snap"))) (unhex (str (field p.2 "final"))) (b p.2 "dec")
          && (str (field p.1 "m") != "append" || b p.2 "pfxKept")
      else
        b p.2 "ok" && decodingKept (b p.2 "eqNow") (b p.2 "eqEnd")
    let firstBad : Nat := ((steps.zip isteps).findIdx? fun p =>
      if isEnc p.1 then !(b p.2 "ok" && encodingKept (unhex (str (field p.2 "snap"))) (unhex (str (field p.2 "final"))) (b p.2 "dec")
          && (str (field p.1 "m") != "append" || b p.2 "pfxKept"))
      else !(b p.2 "ok" && decodingKept (b p.2 "eqNow") (b p.2 "eqEnd"))).getD 0
    { agree := holds && implFinals == m.bufs && implDecOk == mDecOk, holds := holds,
      nontrivial := (steps.filter isEnc).length > 1,
      cls := "seq:" ++ str (field inp "codec"),
      model := toJson (m.bufs.map fun o => match o with | some x => hex x | none => ""),
      why := if holds then "" else
        s!"strict {str (field inp "codec")} codec, call #{firstBad} ({str (field (steps.getD firstBad Json.null) "m")}) of a sequence of {steps.length}: its result is not kept / does not decode to its own message after the later calls of the sequence (a codec result must not depend on later calls)" }
  | "codechist" =>
    let steps := arr (field inp "steps")
    let isteps := arr (field impl "steps")
    let codecName := str (field inp "codec")
    let kindOf (j : Json) : String := str (field j "k")
    let isEnc (j : Json) : Bool := kindOf j == "marshal" || kindOf j == "stable" || kindOf j == "append"
    let b (j : Json) (k : String) := bool (field j k)
    let hx (j : Json) (k : String) : Bytes := unhex (str (field j k))
    let ps := steps.zip isteps
    -- the history as the model sees it: values are named by their canonical encoding; a change
    -- of the caller's is the function the harness performed (its result is reported per step)
    let hsteps : List (HStep Bytes) := ps.map fun p =>
      if isEnc p.1 then HStep.encode
      else if kindOf p.1 == "size" then HStep.size
      else if kindOf p.1 == "clone" then HStep.clone
      else HStep.mutate (fun _ => hx p.2 "val")
    -- the marshaller parameter, per entry point: the encoding of a value is what that entry
    -- point returns for an object WITHOUT a past (a fresh copy) holding the value
    let table (kind : String) : List (Bytes × Bytes) := ps.filterMap fun p =>
      if kindOf p.1 == kind && b p.2 "freshOk" then some (hx p.2 "val", hx p.2 "fresh") else none
    let codecOf (kind : String) : Codec Bytes :=
      let t := table kind
      { enc := fun v => t.lookup v, dec := fun d => (t.find? (·.2 == d)).map fun e => (e.1, []) }
    let v0 := unhex (str (field inp "msg"))
    let run (kind : String) := (runHist (codecOf kind) hsteps { value := v0 }).outs
    let outsM := run "marshal"
    let outsS := run "stable"
    let outsA := run "append"
    let modelOut (i : Nat) (kind : String) : Option Bytes :=
      ((if kind == "marshal" then outsM else if kind == "stable" then outsS else outsA)[i]?).join.join
    -- byte-for-byte where the encoder is deterministic (MarshalStable; protojson), else same length
    -- (the binary encoder orders map entries at random)
    let sameEnc (kind : String) (x y : Bytes) : Bool :=
      if kind == "stable" || codecName == "json" then x == y else x.length == y.length
    let agreeAt (i : Nat) (p : Json × Json) : Bool :=
      !isEnc p.1 || (match modelOut i (kindOf p.1) with
        | some m => b p.2 "ok" && sameEnc (kindOf p.1) (hx p.2 "out") m
        | none => !b p.2 "ok")
    let holdsAt (p : Json × Json) : Bool :=
      !isEnc p.1 || histEncodeHolds (b p.2 "ok") (b p.2 "pfxKept") (b p.2 "eqOwn") (b p.2 "eqPlain")
        (hx p.2 "val") (hx p.2 "backOwn") (hx p.2 "backPlain")
    let holds := isteps.length == steps.length && ps.all holdsAt
    let agree := isteps.length == steps.length && (ps.zipIdx.all fun q => agreeAt q.2 q.1)
    let firstBad : Nat := (ps.findIdx? fun p => !holdsAt p).getD 0
    let badStep := steps.getD firstBad Json.null
    let badImpl := isteps.getD firstBad Json.null
    let encBefore := ((steps.take firstBad).filter fun j => isEnc j || kindOf j == "size").length
    { agree := agree, holds := holds,
      nontrivial := encBefore > 0 || ((ps.filter fun p => isEnc p.1).length > 1 && ps.any fun p => b p.2 "changed"),
      cls := "hist:" ++ codecName,
      model := toJson ((List.range steps.length).map fun i =>
        match steps[i]? with | some j => (match modelOut i (kindOf j) with | some x => hex x | none => "") | none => ""),
      why := if holds then "" else
        s!"strict {codecName} codec, step #{firstBad} ({kindOf badStep}) of the history of one {str (field inp "type")} object ({encBefore} earlier encode/size steps, then changed): " ++
        (if !b badImpl "ok" then s!"encoding a valid message failed ({str (field badImpl "err")})"
         else if !b badImpl "pfxKept" then "the caller's prefix was overwritten"
         else "the bytes do not decode to the value the object has now") ++
        " (an encoding is a function of the message's current value, not of what was done with the object before)" }
  | "srvtrailers" =>
    let code := int (field inp "code")
    let msg := unhex (str (field inp "msg"))
    let web := bool (field inp "web")
    -- the Connect error the server renders: details carry the default prefix + type name
    let details : List Detail := (arr (field inp "details")).map fun d =>
      { url := anyPrefix ++ (str (field d "type")).toList, value := unhex (str (field d "val")) }
    let e : ProtoErr := { code := code, message := some ((String.fromUTF8? ⟨msg.toArray⟩).getD ""), details := details }
    let m := grpcStatusTrailers (protoToConnect e)
    -- the implementation's trailers, parsed back
    let statuses := (strList (field impl "status")).map unhex
    let messages := (strList (field impl "message")).map unhex
    let bins := nat (field impl "bins")
    let jb := field impl "bin"
    let bin : Option StatusBin := if isNull jb then none else some
      { code := int (field jb "code"), message := unhex (str (field jb "msg")),
        details := (arr (field jb "details")).map fun d => { url := (str (field d "url")).toList, value := unhex (str (field d "val")) } }
    let decimal (b : Bytes) : Option Int := (String.ofList (b.map fun c => Char.ofNat c.toNat)).toInt?
    let t? : Option StatusTrailers := match statuses, messages with
      | [st], [mg] => (decimal st).bind fun c =>
          if bins == 0 then some { status := c, message := mg, bin := none }
          else if bins == 1 then bin.map fun b => { status := c, message := mg, bin := some b }
          else none
      | _, _ => none
    let claimed := DefaultPrefixed e && e.getMessage.toUTF8.toList == msg
    let holds := !claimed || (match t? with | some t => trailersPreserve code msg details t | none => false)
    -- custom trailers follow the status trailers (end-of-stream block), one line per value
    let other := (parseHs (field impl "other")).map fun h => (h.name, h.values)
    let mOther := if web then (parseHs (field inp "trailers")).flatMap fun h => h.values.map fun v => (lower h.name, [v]) else []
    { agree := t? == some m && other == mOther, holds := holds,
      nontrivial := claimed && (msg.any shouldEscape || !details.isEmpty),
      model := Json.mkObj [("status", toJson m.status), ("message", hex m.message),
        ("bin", match m.bin with | none => Json.null | some b => Json.mkObj [("code", toJson b.code), ("msg", hex b.message)])],
      cls := if web then "endstream-block" else "trailers",
      why := if holds then "" else "reference server's status trailers do not carry the error's code, message and details (grpc-status / grpc-message / grpc-status-details-bin read back)" }
  | "srve2e" =>
    let fail := str (field impl "fail")
    if fail != "" then { agree := false, holds := true, why := "harness: " ++ fail } else
    let code := int (field inp "code")
    let msg := str (field inp "msg")
    let dets (j : Json) : List (String × String) := (arr j).map fun d => (str (field d "type"), str (field d "val"))
    let want := dets (field inp "details")
    let got := dets (field impl "details")
    -- the server appends the request info as one more detail (unary errors)
    let reqInfo := "connectrpc.conformance.v1.ConformancePayload.RequestInfo"
    let detailsOk := got.length == want.length + 1 && got.take want.length == want && ((got.drop want.length).map (·.1)) == [reqInfo]
    -- the RequestInfo the server packed into an Any unpacks on the client side (after the
    -- Connect -> proto conversion) and is the one of this request
    let reqInfoOk := bool (field impl "reqInfo") && str (field impl "reqInfoName") == "verif/c18/srve2e"
    let holds := bool (field impl "isErr") && int (field impl "code") == code && str (field impl "msg") == msg && detailsOk && reqInfoOk
    let hdrOk := strList (field impl "header") == (if bool (field inp "headers") then ["h1", "h2"] else [])
      && strList (field impl "trailer") == (if bool (field inp "trailers") then ["t1"] else [])
    { agree := holds && hdrOk, holds := holds, nontrivial := bool (field inp "headers"),
      cls := "e2e:" ++ str (field inp "proto") ++ (if bool (field inp "headers") then "+headers" else ""),
      why := if holds then "" else "the error a connect-go client receives from the reference server is not the error of the response definition (code, message, details)" }
  | "statusrt" =>
    let code := int (field inp "code")
    let msg := unhex (str (field inp "msg"))
    let style := str (field inp "style")
    let nDetails := (arr (field inp "details")).length
    let esc := boolList (field inp "esc")
    let low := boolList (field inp "low")
    -- the way every byte is written, by style
    let cs : List (UInt8 × Esc) := match style with
      | "own" => ownChoice msg
      | "upper" => msg.map (·, Esc.upper)
      | "lower" => msg.map (·, Esc.lower)
      | _ => msg.zipIdx.map fun (b, i) =>
          if shouldEscape b || esc.getD i false then (b, if low.getD i false then Esc.lower else Esc.upper) else (b, Esc.plain)
    let wire := unhex (str (field impl "wire"))
    let hasBin := bool (field impl "bin")
    let fb := strList (field impl "fb")
    let optHex (k : String) : Option Bytes := if isNull (field impl k) then none else some (unhex (str (field impl k)))
    -- the model: the trailers as the encoder model writes them, read by the client model
    let mWire := encodeWith cs
    let mBin := if style == "own" then nDetails > 0 else true
    let t : StatusTrailers :=
      { status := code, message := mWire, bin := if mBin then some { code := code, message := msg, details := [] } else none }
    let d := clientCheckStatus t
    let mFb := (if d.code then ["st:details-code"] else []) ++ (if d.message then ["st:details-msg"] else [])
    -- the property, on the implementation's output: the trailers are an encoding of the error
    -- (grpc-message percent-decodes to the message by the specification's decoder) and the
    -- repository's own reader finds code and message in agreement - and nothing else to report
    let claimed := percentDecode wire == some msg && conformant cs && 1 ≤ code && code ≤ 16
    let implD : StatusDisagreement := { code := fb.contains "st:details-code", message := fb.contains "st:details-msg" }
    let holds := !claimed || (readBackAgrees implD && fb.isEmpty)
    let decodedOk := match optHex "decoded" with
      | some dec => some dec == pathUnescape wire && optHex "binMsg" == some msg
      | none => true
    { agree := wire == mWire && hasBin == mBin && fb == mFb && decodedOk, holds := holds,
      nontrivial := claimed && hasBin && (msg.any shouldEscape || cs.any (fun be => be.2 != Esc.plain) || msg.contains 0x2B),
      model := Json.mkObj [("wire", hex mWire), ("fb", toJson mFb)], cls := style,
      why := if holds then "" else
        s!"status trailers of code {code}, message {hex msg} (grpc-message {hex wire}, style {style}) read back by the reference client: feedback {fb}" ++
          (match optHex "decoded" with
           | some dec => s!"; its decoder of grpc-message returned {hex dec}, which is not the message that was encoded (decoder is not the inverse of the encoder)"
           | none => "") }
  | "mdrt" =>
    let md := parseMD (field inp "md")
    let implHs := parseHs (field impl "hs")
    let back := parseMD (field impl "back")
    let out := parseMD (field impl "out")
    let binFb := nat (field impl "binFb")
    let mHs := mdToHeaders b64 md
    let mBack := headersToMD b64 mHs
    let mOut := fromOutgoing (appendOutgoing b64 mHs)
    let nonEmpty (m : MD) : MD := m.filter (fun kv => !kv.2.isEmpty)
    let claimed := lowerDistinct md
    -- every key and every value (bytes) of the metadata is back after the header form, for
    -- both decoders, and the validator of binary metadata accepts what the encoder wrote
    let holds := !claimed || (canonMD back == canonMD md && sameValues out md && binFb == 0)
    { agree := canonMD (hsAsMD implHs) == canonMD (hsAsMD mHs) && canonMD back == canonMD mBack
        && canonMD (nonEmpty out) == canonMD (nonEmpty mOut) && binFb == 0,
      holds := holds, nontrivial := md.any (fun kv => isBin kv.1 && !kv.2.isEmpty),
      model := canonJson "k" (canonMD mBack),
      why := if holds then "" else
        if binFb != 0 then "checkBinaryMetadata rejects a -bin value written by ConvertMetadataToProtoHeader"
        else if canonMD back != canonMD md then "metadata -> headers -> metadata (ConvertProtoHeaderToMetadata) is not the metadata"
        else "metadata -> headers -> outgoing context (AppendToOutgoingContext) does not carry the metadata's values" }
  | "hdrrt" =>
    let h := parseMD (field inp "h")
    let back := parseMD (field impl "back")
    let implHs := parseHs (field impl "hs")
    let mHs := convertToProtoHeader h
    let m := addHeaders mHs
    let claimed := canonDistinct h
    let holds := !claimed || sameValues back h
    let nonEmpty (m : MD) : MD := m.filter (fun kv => !kv.2.isEmpty)
    { agree := canonMD (hsAsMD implHs) == canonMD (hsAsMD mHs) && canonMD (nonEmpty back) == canonMD (nonEmpty m),
      holds := holds, nontrivial := claimed && h.length > 1, model := canonJson "k" (canonMD m),
      why := if holds then "" else "http.Header -> ConvertToProtoHeader -> AddHeaders does not hold every value of every key" }
  | "anyconn" =>
    let e := parseErr (field inp "err")
    let kind := str (field inp "kind")
    let text := str (field inp "text")
    let implOut := parseErr? impl
    let g : Option GoErr := match kind with
      | "nil" => none
      | "plain" => some (.plain text)
      | "connect" => some (.connect (protoToConnect e))
      | _ => some (.wrapped (protoToConnect e))
    let mOut := (errorToConnect g).map connectToProto
    let holds := match kind with
      | "nil" => implOut.isNone
      | "plain" => (match implOut with | some o => o.code == codeUnknown && o.getMessage == text && o.details.isEmpty | none => false)
      | _ => match implOut with
        | some o => if DefaultPrefixed e then sameError o e else sameErrorTypes o e
        | none => false
    { agree := implOut == mOut, holds := holds, nontrivial := kind != "nil", model := errJson mOut, cls := kind,
      why := if holds then "" else "error not preserved by ConvertErrorToConnectError (" ++ kind ++ ")" }
  | "nilconv" =>
    let all := ["protoToConnect", "connectToProto", "protoToGrpc", "grpcToProto", "errToConnect", "errToProto"]
    let bad := all.filter (fun k => !bool (field impl k))
    { agree := bad.isEmpty, holds := bad.isEmpty, nontrivial := true,
      why := if bad.isEmpty then "" else s!"a nil error is not converted to nil by {bad}" }
  | "getrt" =>
    let fail := str (field impl "fail")
    if fail != "" then { agree := false, holds := false, why := "GET message round trip: " ++ fail } else
    let data := unhex (str (field inp "data"))
    let b64p := bool (field inp "base64")
    let sent := unhex (str (field impl "sent"))
    let param := unhex (str (field impl "param"))
    -- the parameter the server received is the sender's encoding of the message bytes, and reads back to them
    let mParam := if b64p then ConfModel.Base64.encodeURLPadded sent else sent
    let paramReads := if b64p then ConfModel.Base64.decodeURLPadded param == some sent else param == sent
    let holds := nat (field impl "status") == 200 && bool (field impl "decoded") && unhex (str (field impl "data")) == data && paramReads
    { agree := param == mParam && holds, holds := holds, nontrivial := !data.isEmpty, model := hex mParam,
      cls := (if bool (field inp "json") then "json" else "proto") ++ (if b64p then "+base64" else ""),
      why := if holds then "" else
        s!"the request message of a Connect GET ({hex sent}) sent by the reference client's raw request sender does not reach the reference server's handler unchanged: status {nat (field impl "status")}, message parameter received {hex param}, decoded request data {str (field impl "data")}" }
  | "getwire" =>
    let fail := str (field impl "fail")
    if fail != "" then { agree := false, holds := false, why := "GET message parameter: " ++ fail } else
    let msg := unhex (str (field inp "msg"))
    let b64p := bool (field inp "b64")
    let wire := unhex (str (field impl "wire"))
    let status := nat (field impl "status")
    let got : Option (List UInt8) := if status == 200 then some (unhex (str (field impl "got"))) else none
    let one := nat (field impl "found") == 1
    let mWire := ConfModel.GetQuery.getWire b64p msg
    let mGot := ConfModel.GetQuery.getRead b64p mWire
    let holds := one && str (field impl "method") == "GET" && ConfModel.GetQuerySpec.getHolds b64p msg wire got
    { agree := wire == mWire && got == mGot && one, holds := holds,
      nontrivial := msg.any ConfModel.GetQuery.querySensitive || (b64p && !msg.isEmpty),
      model := hex mWire, cls := (if b64p then "base64" else "plain") ++ ":" ++ toString (msg.length % 3),
      why := if holds then "" else
        s!"the message of a Connect GET ({hex msg}, base64={b64p}) as the reference client's raw request sender writes it into the URI (message={String.mk (wire.map (fun b => Char.ofNat b.toNat))}, {nat (field impl "found")} such pair(s), query {str (field impl "query")}) is not carried without loss: reads back per specification = {ConfModel.GetQuerySpec.wireReads b64p msg wire}, stays in its pair = {ConfModel.GetQuerySpec.wireClosed wire}, status {status}, the handler received {str (field impl "got")}" }
  | "getdec" =>
    let p := unhex (str (field inp "param"))
    let b64p := bool (field inp "b64")
    let status := nat (field impl "status")
    let got : Option (List UInt8) := if status == 200 then some (unhex (str (field impl "got"))) else none
    let m := ConfModel.GetQuery.readParam b64p p
    -- claimed only for values that are an encoding in use of some bytes x: then the handler must receive x
    let claim : Option (List UInt8) :=
      if b64p then
        match ConfModel.Base64.decodeURLPadded p with
        | some x => if ConfModel.GetQuerySpec.encodes true p x then some x else none
        | none => none
      else some p
    let holds := match claim with
      | some x => got == some x
      | none => true
    { agree := got == m, holds := holds, nontrivial := claim.isSome && !p.isEmpty,
      model := match m with | some x => hex x | none => "refused",
      cls := if claim.isSome then "encoding" else "other",
      why := if holds then "" else
        s!"connect-go's reading of the GET message parameter {hex p} (base64={b64p}), a URL-safe base64 encoding of {match claim with | some x => hex x | none => ""}: status {status}, the handler received {str (field impl "got")}" }
  | "codecbad" =>
    let codec := str (field inp "codec")
    let kind := str (field inp "kind")
    let data := unhex (str (field inp "data"))
    let known : ProtoWire.Known := (arr (field inp "known")).map fun e => (nat (field e "num"), (arr (field e "wt")).map nat)
    let cls := str (field impl "class")
    let parses := bool (field impl "parses")
    let unkAny := bool (field impl "unknownAny")
    let wtName (n : Nat) : String := match n with
      | 0 => "varint" | 1 => "fixed64" | 2 => "bytes" | 3 => "start-group" | 5 => "fixed32" | _ => "?"
    if codec.startsWith "notproto" then
      let holds := cls == "not-proto"
      { agree := holds, holds := holds, nontrivial := true, cls := "bad:" ++ codec,
        why := if holds then "" else "a message that is not a proto.Message is not refused by the strict codec: " ++ cls } else
    -- the property: accepted => the bytes are a well-formed message of the type without unknown
    -- fields at any depth, decoded to that message; rejected => they are not (no spurious refusal)
    let accepted := cls == "ok"
    let clean := parses && !unkAny
    let holdsCore := if accepted then clean && bool (field impl "equal") else !clean
    if codec.startsWith "stream" then
      -- the stdin / stdout stream codecs are not the strict ones: the binary one keeps unknown
      -- fields, the JSON one reads the first value of the stream; no crash, nothing well-formed refused,
      -- and what is accepted is the message the library reads
      let refusedOk := if codec == "stream-proto" then !parses else !clean
      let holdsS := if accepted then (!parses || bool (field impl "equal")) else refusedOk
      { agree := holdsS, holds := holdsS, nontrivial := kind != "valid", cls := "bad:" ++ codec ++ ":" ++ kind,
        why := if holdsS then "" else s!"{codec} decoder on {kind} input {hex data}: outcome {cls}, but the library says parses={parses}, unknown fields={unkAny}" } else
    if codec != "proto" then
      { agree := holdsCore && (accepted || cls == "malformed"), holds := holdsCore, nontrivial := kind != "valid", cls := "bad:" ++ codec ++ ":" ++ kind,
        why := if holdsCore then "" else s!"strict {codec} codec on {kind} input {hex data}: outcome {cls}, but the library says parses={parses}, unknown fields={unkAny}" } else
    -- binary: the model of the wire walk into nested messages (tables regenerated from the
    -- descriptor), with the library's verdict on the contents of known scalar fields
    let tables : ProtoWire.Tables := (arr (field inp "tables")).map fun t =>
      { lenient := bool (field t "lenient"),
        entries := (arr (field t "entries")).map fun e =>
          { num := nat (field e "num"), wts := (arr (field e "wt")).map nat, isMessage := bool (field e "msg"), sub := nat (field e "sub") } }
    let us := ProtoWire.unknownsIn (data.length + 2) tables 0 data
    let m := ProtoWire.strictDeep tables data
    let mTop := ProtoWire.strictTop known data
    let mCls : String := if !parses then "malformed" else match m with
      | .ok => "ok" | .malformed => "malformed" | .unknown _ _ => "unknown"
    -- the reported field: the message's own first unknown field, else an unknown field of a nested message
    let reported := (nat (field impl "num"), str (field impl "wt"))
    let reportOk := cls != "unknown" || (match mTop with
      | .unknown num wt => reported == (num, wtName wt)
      | _ => (us.getD []).any (fun x => reported == (x.1, wtName x.2)))
    -- a message the library parses is well formed at every depth the model looks at
    let consistent := !parses || us.isSome
    let holds := holdsCore && (cls != "unknown" || !parses || reportOk)
    { agree := cls == mCls && reportOk && consistent && (bool (field impl "unknownTop") == (parses && mTop != .ok))
        && (!parses || unkAny == (m != .ok)),
      holds := holds, nontrivial := kind != "valid", cls := "bad:proto:" ++ (if kind.startsWith "deep-unknown-" then "deep-unknown" else kind),
      model := toJson mCls,
      why := if holds then "" else
        (if accepted && parses && !bool (field impl "unknownTop") && unkAny then "F30: StrictProtoCodec accepts a message with an unknown field inside a nested message (only the top-level unknown-field set is looked at): " else "") ++
        s!"strict proto codec on {kind} input {hex data}: outcome {cls} (field {nat (field impl "num")}), but the library says parses={parses}, unknown fields at the top level={bool (field impl "unknownTop")}, at any depth={unkAny}; wire walk of the model: {reprStr m}, unknown fields at any depth {reprStr (us.getD [])}" }
  | _ => bad ("C18: unknown op " ++ op)

end ConfModel.Driver.C18
