/-
Helper lemmas about the WaitGroup of a batch over the client-runner model (C05) and about the
model of `waitForResponses` (C10).
-/
import ConfModel.Lemmas.ClientRunner
namespace ConfModel.ClientRunner
open Spec

/-! ### per request: what the batch's WaitGroup is owed -/

/-- at any moment a request has not been counted down more often than it was counted up -/
theorem done_le_added (names : Nat → Name) (s : State) (h : Inv names s) (i : Nat) :
    firedCount s i + refusedDone (s.spc i) ≤ started (s.spc i) := by
  have hc := h.cnt i
  cases hp : s.spc i with
  | idle => simp only [hp, expected] at hc; simp [refusedDone, started]; omega
  | waitLock => simp only [hp, expected] at hc; simp [refusedDone, started]; omega
  | locked => simp only [hp, expected] at hc; simp [refusedDone, started]; omega
  | writing => simp only [hp, expected] at hc; simp [refusedDone, started]; omega
  | failed => simp only [hp, expected] at hc; simp [refusedDone, started]; omega
  | ret r =>
    cases r with
    | ok => simp only [hp, expected] at hc; simp [refusedDone, started]; omega
    | dup => simp only [hp, expected] at hc; simp [refusedDone, started]; omega
    | err e => simp only [hp, expected] at hc; simp [refusedDone, started]; omega

/-- in a terminal state every request that was counted up has been counted down -/
theorem done_eq_added (names : Nat → Name) (s : State) (h : Inv names s) (ht : Terminal s) (i : Nat) :
    firedCount s i + refusedDone (s.spc i) = started (s.spc i) := by
  obtain ⟨hd, hpc⟩ := ht
  have hp : s.pending = [] := h.drained (Or.inr hd)
  have hc := h.cnt i
  simp only [pendCount, hp, idCount_nil, firingCount, hd, Nat.add_zero] at hc
  rcases hpc i with hi | ⟨r, hi⟩
  · simp only [hi, expected] at hc; simp [hi, refusedDone, started]; omega
  · cases r with
    | ok => simp only [hi, expected] at hc; simp [hi, refusedDone, started]; omega
    | dup => simp only [hi, expected] at hc; simp [hi, refusedDone, started]; omega
    | err e => simp only [hi, expected] at hc; simp [hi, refusedDone, started]; omega

theorem wg_le (names : Nat → Name) (s : State) (h : Inv names s) (ids : List Nat) : wgDones s ids ≤ wgAdds s ids := by
  induction ids with
  | nil => simp [wgDones, wgAdds]
  | cons i is ih =>
    have := done_le_added names s h i
    simp only [wgDones, wgAdds, List.map_cons, List.sum_cons] at ih ⊢
    omega

theorem wg_eq (names : Nat → Name) (s : State) (h : Inv names s) (ht : Terminal s) (ids : List Nat) :
    wgDones s ids = wgAdds s ids := by
  induction ids with
  | nil => simp [wgDones, wgAdds]
  | cons i is ih =>
    have := done_eq_added names s h ht i
    simp only [wgDones, wgAdds, List.map_cons, List.sum_cons] at ih ⊢
    omega

/-! ### the reader's shutdown after a failure of the output stream -/

theorem run_append (names : Nat → Name) (a b : List Event) : ∀ s, run names s (a ++ b) = run names (run names s a) b := by
  induction a with
  | nil => intro s; rfl
  | cons e es ih =>
    intro s
    simp only [List.cons_append, run]
    split <;> exact ih _

theorem failSeq_state (names : Nat → Name) (s : State) (hinv : Inv names s) (hr : s.rpc = .reading)
    (hq : ∀ i, s.spc i = .idle ∨ ∃ r, s.spc i = .ret r) :
    let s' := run names s failSeq
    s'.rpc = .done ∧ s'.spc = s.spc ∧ s'.terminated = true ∧ s'.aborted = true ∧ s'.err = casErr s.err .fail := by
  have hmu : s.sendMu = none := by
    cases h : s.sendMu with
    | none => rfl
    | some i =>
      have := (hinv.mu i).mpr h
      rcases hq i with h' | ⟨r, h'⟩ <;> simp [h', holds] at this
  simp [failSeq, run, step, hr, hmu]

/-! ### the callback log only grows: what was handed over is never rewritten -/

theorem step_fired_suffix (names : Nat → Name) (s s' : State) (e : Event) (h : step names s e = some s') :
    ∃ l, s'.fired = l ++ s.fired := by
  cases e <;> simp only [step] at h <;> (repeat' split at h) <;>
    first
    | (simp only [Option.some.injEq, reduceCtorEq] at h; subst h; first | exact ⟨[], rfl⟩ | exact ⟨[_], rfl⟩ | exact ⟨_, rfl⟩)
    | cases h
theorem run_fired_suffix (names : Nat → Name) (evs : List Event) : ∀ s, ∃ l, (run names s evs).fired = l ++ s.fired := by
  induction evs with
  | nil => intro s; exact ⟨[], rfl⟩
  | cons e es ih =>
    intro s
    simp only [run]
    split
    · rename_i s' hs
      obtain ⟨l1, h1⟩ := step_fired_suffix names s s' e hs
      obtain ⟨l2, h2⟩ := ih s'
      exact ⟨l2 ++ l1, by rw [h2, h1, List.append_assoc]⟩
    · exact ih s
/-! ### `waitForResponses` -/

/-- inside the select `result()` has been called; after the prod the process was aborted -/
def WInv (s : WSt) : Prop :=
  ((s.wpc = .waitProc ∨ s.wpc = .prodded) → s.resultCalled = true) ∧ (s.wpc = .prodded → s.aborted = true) ∧ s.abortStage ≤ 2

theorem winv_init : WInv winit := by simp [WInv, winit]

theorem winv_step (cfg : WaitCfg) (s s' : WSt) (e : WEv) (h : WInv s) (hs : wstep cfg s e = some s') : WInv s' := by
  unfold WInv at *
  cases e <;> simp only [wstep] at hs <;> split at hs <;> simp only [Option.some.injEq, reduceCtorEq] at hs <;> subst hs <;>
    simp_all <;> omega

theorem winv_run (cfg : WaitCfg) (evs : List WEv) : ∀ s, WInv s → WInv (wrun cfg s evs) := by
  induction evs with
  | nil => intro s h; exact h
  | cons e es ih =>
    intro s h
    simp only [wrun]
    split
    · rename_i s' hs; exact ih s' (winv_step cfg s s' e h hs)
    · exact ih s h

theorem wown_internal : ∀ e ∈ wown, e.internal = true := by
  intro e he; simp only [wown, List.mem_cons, List.not_mem_nil, or_false] at he
  rcases he with rfl | rfl | rfl | rfl | rfl | rfl | rfl <;> rfl

/-- once the output reader has finished, `waitForResponses` is never left waiting for the process:
until it has returned, a step of its own (a goroutine or one of the timers it relies on) is enabled -/
theorem wprogress (cfg : WaitCfg) (hb : cfg.localResultBounded = true) (s : WSt) (h : WInv s)
    (hd : s.readerDone = true) (hr : s.wpc ≠ .returned) : ∃ e ∈ wown, (wstep cfg s e).isSome = true := by
  obtain ⟨h1, h2, h3⟩ := h
  cases hw : s.wpc with
  | returned => exact absurd hw hr
  | waitDone => exact ⟨.passDone, by simp [wown], by simp [wstep, hw, hd]⟩
  | waitProc => exact ⟨.t3s, by simp [wown], by simp [wstep, hw]⟩
  | prodded =>
    have hc : s.resultCalled = true := h1 (Or.inr hw)
    have ha : s.aborted = true := h2 hw
    by_cases ho : s.resultOut = true
    · exact ⟨.gotResult, by simp [wown], by simp [wstep, hw, ho]⟩
    · have ho' : s.resultOut = false := by simpa using ho
      cases hk : cfg.kind with
      | inProcess =>
        by_cases hg : s.graceElapsed = true
        · exact ⟨.deliver, by simp [wown], by simp [wstep, hc, ho', resultReady, hk, hb, hg]⟩
        · have hg' : s.graceElapsed = false := by simpa using hg
          exact ⟨.tGrace, by simp [wown], by simp [wstep, hc, hg']⟩
      | osProcess =>
        have : s.abortStage = 0 ∨ s.abortStage = 1 ∨ s.abortStage = 2 := by omega
        rcases this with h0 | h0 | h0
        · exact ⟨.aForce, by simp [wown], by simp [wstep, hk, ha, h0]⟩
        · exact ⟨.aGiveUp, by simp [wown], by simp [wstep, hk, ha, h0]⟩
        · exact ⟨.deliver, by simp [wown], by simp [wstep, hc, ho', resultReady, hk, h0]⟩

theorem wstep_lt (cfg : WaitCfg) (s s' : WSt) (e : WEv) (hi : e.internal = true) (hinv : WInv s)
    (hs : wstep cfg s e = some s') : wmu s' < wmu s := by
  obtain ⟨_, _, h3⟩ := hinv
  cases e <;> simp only [WEv.internal, Bool.false_eq_true] at hi <;> simp only [wstep] at hs <;> split at hs <;>
    simp only [Option.some.injEq, reduceCtorEq] at hs <;> subst hs <;> rename_i h <;> simp [wmu, h] <;>
    first
    | omega
    | (rcases h.1 with hw | hw <;> simp [hw])

theorem wrun_internal_le (cfg : WaitCfg) (es : List WEv) (hall : ∀ e ∈ es, e.internal = true) :
    ∀ s, WInv s → wmu (wrun cfg s es) ≤ wmu s := by
  induction es with
  | nil => intro s _; exact Nat.le_refl _
  | cons e rest ih =>
    intro s hinv
    have hrest : ∀ e ∈ rest, e.internal = true := fun e' he' => hall e' (by simp [he'])
    simp only [wrun]
    split
    · rename_i s' hs
      exact Nat.le_trans (ih hrest s' (winv_step cfg s s' e hinv hs)) (Nat.le_of_lt (wstep_lt cfg s s' e (hall e (by simp)) hinv hs))
    · exact ih hrest s hinv

theorem wrun_internal_lt (cfg : WaitCfg) (es : List WEv) (hall : ∀ e ∈ es, e.internal = true) :
    ∀ s, WInv s → (∃ e ∈ es, (wstep cfg s e).isSome = true) → wmu (wrun cfg s es) < wmu s := by
  induction es with
  | nil => intro s _ ⟨e, he, _⟩; simp at he
  | cons e rest ih =>
    intro s hinv ⟨e', he', hen⟩
    have hrest : ∀ e ∈ rest, e.internal = true := fun x hx => hall x (by simp [hx])
    simp only [wrun]
    split
    · rename_i s' hs
      exact Nat.lt_of_le_of_lt (wrun_internal_le cfg rest hrest s' (winv_step cfg s s' e hinv hs)) (wstep_lt cfg s s' e (hall e (by simp)) hinv hs)
    · rename_i hs
      rcases List.mem_cons.mp he' with rfl | hmem
      · rw [hs] at hen; simp at hen
      · exact ih hrest s hinv ⟨e', hmem, hen⟩

theorem wstep_keeps_done (cfg : WaitCfg) (s s' : WSt) (e : WEv) (hs : wstep cfg s e = some s') (hp : s.readerDone = true) : s'.readerDone = true := by
  cases e <;> simp only [wstep] at hs <;> split at hs <;> simp only [Option.some.injEq, reduceCtorEq] at hs <;> subst hs <;> simp_all

theorem wrun_keeps_done (cfg : WaitCfg) (es : List WEv) : ∀ s, s.readerDone = true → (wrun cfg s es).readerDone = true := by
  induction es with
  | nil => intro s h; exact h
  | cons e rest ih =>
    intro s h
    simp only [wrun]
    split
    · rename_i s' hs; exact ih s' (wstep_keeps_done cfg s s' e hs h)
    · exact ih s h

theorem wstep_keeps_returned (cfg : WaitCfg) (s s' : WSt) (e : WEv) (hs : wstep cfg s e = some s') (hp : s.wpc = .returned) : s'.wpc = .returned := by
  cases e <;> simp only [wstep] at hs <;> split at hs <;> simp only [Option.some.injEq, reduceCtorEq] at hs <;> subst hs <;> simp_all

theorem wrun_keeps_returned (cfg : WaitCfg) (es : List WEv) : ∀ s, s.wpc = .returned → (wrun cfg s es).wpc = .returned := by
  induction es with
  | nil => intro s h; exact h
  | cons e rest ih =>
    intro s h
    simp only [wrun]
    split
    · rename_i s' hs; exact ih s' (wstep_keeps_returned cfg s s' e hs h)
    · exact ih s h

theorem wsettle_returns (cfg : WaitCfg) (hb : cfg.localResultBounded = true) (fuel : Nat) :
    ∀ s, WInv s → s.readerDone = true → wmu s ≤ fuel → (wsettle cfg s fuel).wpc = .returned := by
  induction fuel with
  | zero =>
    intro s hinv _ hm
    simp only [wsettle]
    simp only [wmu] at hm
    cases hw : s.wpc <;> simp [hw] at hm ⊢
  | succ n ih =>
    intro s hinv hd hm
    simp only [wsettle]
    have hinv' := winv_run cfg wown s hinv
    have hd' := wrun_keeps_done cfg wown s hd
    by_cases hw : s.wpc = .returned
    · have h0 := wrun_keeps_returned cfg wown s hw
      have : ∀ k t, t.wpc = .returned → (wsettle cfg t k).wpc = .returned := by
        intro k
        induction k with
        | zero => intro t ht; exact ht
        | succ k ihk => intro t ht; simp only [wsettle]; exact ihk _ (wrun_keeps_returned cfg wown t ht)
      exact this n _ h0
    · have hlt := wrun_internal_lt cfg wown wown_internal s hinv (wprogress cfg hb s hinv hd hw)
      exact ih _ hinv' hd' (by omega)

end ConfModel.ClientRunner
