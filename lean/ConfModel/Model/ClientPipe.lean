/-
C05 — the way a request travels to a client under test that is a real OS process
(process.go `runCommand` + os/exec), as a labelled transition system.

```
sendRequest ── Write, Write ──▶ io.Pipe ──▶ exec's copier goroutine ──▶ OS pipe ──▶ the process
                 (holds sendMu)   (synchronous)   io.Copy(pw, cmd.Stdin)      (buffered)
```
* `WriteDelimitedMessage` is two `Write` calls (length prefix, body).  A `Write` on an `io.Pipe`
  completes when a reader has taken the bytes, and fails once the READ end is closed; nothing else
  ends it.
* The copier takes a chunk out of the `io.Pipe` and pushes it into the OS pipe.  While the process
  lives the push completes when there is room; once the process has exited it fails (EPIPE) and the
  copier stops — for good: nobody reads the `io.Pipe` any more.  A copier that sits in its read is
  ended only by the pipe being closed (either end).
* The goroutine started by `runCommand` calls `cmd.Wait()`, which returns when the process has exited
  AND the copier has stopped (the `WaitDelay` only closes the OS pipe, which does not wake a copier
  that sits in a read of the `io.Pipe`), and then closes the read end of the `io.Pipe` ("so any
  goroutines that are blocked reading/writing can wake up") — `closeOnExit`.
* `closeSend` (the runner's reader after the end of the client's output, or the user of the runner)
  closes the write end; it needs `sendMu`, which the sender holds until its writes are over.

The process (when it reads, when it exits) is the environment.  Core Lean only.
-/
namespace ConfModel.ClientPipe

structure Cfg where
  /-- the goroutine that waits for the process closes the read end of the stdin `io.Pipe` when
  `cmd.Wait()` has returned (process.go: "Also close pipes when the process exits") -/
  closeOnExit : Bool
  /-- room in the OS pipe, in chunks -/
  cap : Nat
deriving Repr

inductive Copier | reading | holding | stopped
  deriving DecidableEq, Repr

inductive Waiter | waiting | closing | finished
  deriving DecidableEq, Repr

structure St where
  procUp : Bool
  copier : Copier
  waiter : Waiter
  rdClosed : Bool
  wrClosed : Bool
  /-- `Write` calls the sender still has to get through (it holds `sendMu` while this is positive) -/
  toWrite : Nat
  /-- a `Write` of the sender returned an error (it gives up: `sendRequest` returns that error) -/
  failed : Bool
  room : Nat
deriving DecidableEq, Repr

def init (cfg : Cfg) (writes : Nat) : St :=
  { procUp := true, copier := .reading, waiter := .waiting, rdClosed := false, wrClosed := false,
    toWrite := writes, failed := false, room := cfg.cap }

inductive Ev
  | wHand    -- the sender's current Write hands its bytes to the copier
  | wErr     -- the sender's current Write fails: the read end is closed
  | cPush    -- the copier gets its chunk into the OS pipe
  | cEpipe   -- the copier's write to the OS pipe fails: the process is gone; the copier stops
  | cEnd     -- the copier's read of the io.Pipe ends (a pipe end was closed); the copier stops
  | wDone    -- cmd.Wait() returns
  | wClose   -- the waiting goroutine closes the pipes
  | uClose   -- closeSend: the write end is closed (needs sendMu)
  | pRead    -- the process takes a chunk out of the OS pipe        (environment)
  | pExit    -- the process exits                                    (environment)
  deriving DecidableEq, Repr

def Ev.internal : Ev → Bool
  | .pRead | .pExit | .uClose => false
  | _ => true

def step (cfg : Cfg) (s : St) : Ev → Option St
  | .wHand => if 0 < s.toWrite ∧ s.copier = .reading ∧ s.rdClosed = false then
      some { s with toWrite := s.toWrite - 1, copier := .holding } else none
  | .wErr => if 0 < s.toWrite ∧ s.rdClosed = true then some { s with toWrite := 0, failed := true } else none
  | .cPush => if s.copier = .holding ∧ s.procUp = true ∧ 0 < s.room then
      some { s with copier := .reading, room := s.room - 1 } else none
  | .cEpipe => if s.copier = .holding ∧ s.procUp = false then some { s with copier := .stopped } else none
  | .cEnd => if s.copier = .reading ∧ (s.rdClosed = true ∨ s.wrClosed = true) then some { s with copier := .stopped } else none
  | .wDone => if s.waiter = .waiting ∧ s.procUp = false ∧ s.copier = .stopped then some { s with waiter := .closing } else none
  | .wClose => if s.waiter = .closing then
      some { s with waiter := .finished, rdClosed := s.rdClosed || cfg.closeOnExit } else none
  | .uClose => if s.toWrite = 0 ∧ s.wrClosed = false then some { s with wrClosed := true } else none
  | .pRead => if s.procUp = true ∧ s.room < cfg.cap then some { s with room := s.room + 1 } else none
  | .pExit => if s.procUp = true then some { s with procUp := false } else none

/-- run an event list, skipping events that are not enabled -/
def run (cfg : Cfg) : St → List Ev → St
  | s, [] => s
  | s, e :: es => match step cfg s e with
    | some s' => run cfg s' es
    | none => run cfg s es

/-- the sender is out of `WriteDelimitedMessage` (`sendRequest` returns, `sendMu` is free) -/
def senderOut (s : St) : Bool := s.toWrite == 0

/-- the steps of the runner's own goroutines (everything but the process and `closeSend`) -/
def own : List Ev := [.wHand, .wErr, .cPush, .cEpipe, .cEnd, .wDone, .wClose]

/-- no step of the runner's own goroutines is enabled -/
def stuck (cfg : Cfg) (s : St) : Bool := own.all (fun e => (step cfg s e).isNone)

/-- remaining own steps: every step of the runner's goroutines lowers it -/
def mu (s : St) : Nat :=
  4 * s.toWrite + (match s.copier with | .holding => 2 | .reading => 1 | .stopped => 0) +
    (match s.waiter with | .waiting => 2 | .closing => 1 | .finished => 0)

/-- the own steps in a fixed order, `fuel` rounds: what happens when the goroutines just run on -/
def settle (cfg : Cfg) (s : St) : Nat → St
  | 0 => s
  | fuel + 1 => settle cfg (run cfg s own) fuel

/-- the code as it is -/
def code : Cfg := { closeOnExit := true, cap := 16 }
/-- the variant in which the waiting goroutine leaves the stdin pipe alone -/
def withoutClose : Cfg := { closeOnExit := false, cap := 16 }

end ConfModel.ClientPipe
