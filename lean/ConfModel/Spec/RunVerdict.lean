/-
Specification of property C04 in the words of its statement: an assignment gives every selected
case what happened to it (`Kind`), how it is marked (`Mark`) and whether a reference peer
reported feedback about it.  The run must succeed exactly when every selected case ran and met
its expectation; every failing case is named; the totals account for every case exactly once.
Core Lean only.
-/
namespace ConfModel.RunVerdict

/-- what happened to a selected case -/
inductive Kind where
  | pass          -- the client's result matched the expectation
  | assertFail    -- the client's result did not match
  | clientErr     -- the client reported an error instead of a result
  | setupErr      -- the server for the batch could not be started / set up
  | noResult      -- no result arrived before the batch ended (peer died, timed out)
  | couldNotRun   -- the request could not even be handed to the client (it had exited)
  | missing       -- nothing at all was recorded (its batch never started)
  deriving DecidableEq, Repr, Inhabited

inductive Mark where
  | unmarked | failing | flaky
  deriving DecidableEq, Repr, Inhabited

structure Case where
  name : String
  kind : Kind
  mark : Mark
  feedback : Bool
  deriving Repr, Inhabited

namespace Case

/-- the case really ran: the client answered, or (nothing recorded by the runner but) a
reference peer saw it and reported feedback about it -/
def ran (c : Case) : Bool :=
  match c.kind with
  | .pass | .assertFail | .clientErr => true
  | .missing => c.feedback
  | _ => false

/-- it ran and failed: a non-matching result, a client error, or peer feedback -/
def failedRun (c : Case) : Bool := c.ran && (c.kind != .pass || c.feedback)

/-- it ran and passed (and no peer complained) -/
def passedRun (c : Case) : Bool := c.kind == .pass && !c.feedback

/-- the case ran and met its expectation -/
def meets (c : Case) : Bool :=
  c.ran && (match c.mark with
    | .unmarked => c.passedRun
    | .failing => c.failedRun
    | .flaky => true)

/-- nothing whatsoever is known about the case -/
def absent (c : Case) : Bool := c.kind == .missing && !c.feedback

/-- counted under "could not be run" -/
def notRun (c : Case) : Bool := c.kind == .couldNotRun || c.absent

/-- must be named on a `FAILED` line and counted as failed -/
def countsFailed (c : Case) : Bool := !c.meets && !c.notRun

/-- named on an `INFO` line: failed as expected -/
def countsExpected (c : Case) : Bool := c.meets && c.failedRun

def countsPassed (c : Case) : Bool := c.meets && !c.failedRun

end Case

/-- The rule of the property: success iff every selected case (the listed ones and `extra`
further selected cases about which nothing is known) ran and met its expectation. -/
def specOk (cases : List Case) (extra : Nat) : Bool := extra == 0 && cases.all Case.meets

structure Totals where
  passed : Nat
  failed : Nat
  expected : Nat
  notRun : Nat
  deriving DecidableEq, Repr

def specTotals (cases : List Case) (extra : Nat) : Totals :=
  { passed := cases.countP Case.countsPassed
    failed := cases.countP Case.countsFailed
    expected := cases.countP Case.countsExpected
    notRun := cases.countP Case.notRun + extra }

def specFailedNames (cases : List Case) : List String := (cases.filter Case.countsFailed).map (·.name)
def specInfoNames (cases : List Case) : List String := (cases.filter Case.countsExpected).map (·.name)

end ConfModel.RunVerdict
