package main

// C13, bodies of every size: "silent on well-formed, vocal on malformed" must not depend on how
// large the examined payload is. The examiners see what the capture path hands them: the
// wireReader's buffer (unary Connect error bodies) or the tracer's end-stream event (Connect
// end-stream messages, gRPC-Web trailer frames).
//
// ops
//   capture : {size, chunks, buf}  the real wireReader over a body of that size delivered in the
//             given chunk sizes to a caller reading buf bytes at a time: lengths of what the caller
//             received and of what was captured, and whether both equal the body
//   zbig    : {what, size, details, comp, enc, chunk, mut}  a large well-formed payload (or one with
//             a single malformation at its very END, or a truncated one) through the complete
//             exchange (VerifC13Exchange: tracing round tripper, wireReader, examineWireDetails),
//             next to the examiner's verdict on the plain payload. The payload is built by the op
//             from its abstract description (it is too large to travel through the line protocol).

import (
	"bytes"
	"encoding/base64"
	"encoding/json"
	"net/http"
	"strings"

	rc "connectrpc.com/conformance/internal/app/referenceclient"
	rs "connectrpc.com/conformance/internal/app/referenceserver"
	"connectrpc.com/conformance/internal/verifharness/gen"
	"google.golang.org/protobuf/proto"
	"google.golang.org/protobuf/types/known/wrapperspb"
)

func init() {
	gen.RegisterOp("c13", "capture", func(_ *gen.Ctx, raw json.RawMessage) any { return c13Capture(gen.Into[c13CaptureIn](raw)) })
	gen.RegisterOp("c13", "zbig", func(c *gen.Ctx, raw json.RawMessage) any { return c13ZBig(c, gen.Into[c13BigIn](raw)) })
}

type c13CaptureIn struct {
	Size   int   `json:"size"`
	Chunks []int `json:"chunks"`
	Buf    int   `json:"buf"`
}
type c13CaptureOut struct {
	Received int  `json:"received"`
	Captured int  `json:"captured"`
	Same     bool `json:"same"` // received = captured = the body, byte for byte
}

func c13BigBytes(n int) []byte {
	b := make([]byte, n)
	for i := range b {
		b[i] = byte('a' + (i*7+i/251)%26)
	}
	return b
}

func c13Capture(in c13CaptureIn) c13CaptureOut {
	body := c13BigBytes(in.Size)
	recv, capt := rc.VerifC13Capture(body, in.Chunks, in.Buf)
	return c13CaptureOut{Received: len(recv), Captured: len(capt), Same: bytes.Equal(recv, body) && bytes.Equal(capt, body)}
}

type c13BigIn struct {
	What    string  `json:"what"`    // cerr | cend | grpcweb
	Size    int     `json:"size"`    // total size of the detail values (bytes before base64)
	Details int     `json:"details"` // number of details the size is spread over
	Comp    int     `json:"comp"`
	Enc     *string `json:"enc"`
	Chunk   int     `json:"chunk"`
	Mut     string  `json:"mut"` // "" | tail (one malformation at the very end) | truncated
}
type c13BigOut struct {
	Len    int      `json:"len"` // size of the plain payload
	Fb     []string `json:"fb"`  // feedback of the exchange
	Direct []string `json:"direct"`
	OK     bool     `json:"ok"`
}

func c13BigDetails(in c13BigIn) []rs.VerifC13Detail {
	var out []rs.VerifC13Detail
	n := in.Details
	if n < 1 {
		n = 1
	}
	for i := 0; i < n; i++ {
		sz := in.Size / n
		if i == n-1 {
			sz = in.Size - sz*(n-1)
		}
		b, err := proto.Marshal(wrapperspb.Bytes(c13BigBytes(sz)))
		if err != nil {
			panic(err)
		}
		out = append(out, rs.VerifC13Detail{Type: "google.protobuf.BytesValue", Value: b})
	}
	return out
}

func c13BigPayload(in c13BigIn) []byte {
	details := c13BigDetails(in)
	if in.What == "grpcweb" {
		block := rs.VerifC13GrpcWebEndStream(13, "big", details, c13Headers([]c13HdrIn{c13Hdr("x-custom", "v")}))
		switch in.Mut {
		case "tail":
			block += "X-Upper: v\r\n"
		case "truncated":
			block = block[:len(block)-1]
		}
		return []byte(block)
	}
	var sb strings.Builder
	sb.WriteString(`{"code":"internal","message":"big","details":[`)
	for i, d := range details {
		if i > 0 {
			sb.WriteString(",")
		}
		v := base64.RawStdEncoding.EncodeToString(d.Value)
		if in.Mut == "tail" && i == len(details)-1 && in.What == "cerr" {
			v += "=" // padded: not the unpadded base64 the protocol demands
		}
		sb.WriteString(`{"type":"` + d.Type + `","value":"` + v + `"}`)
	}
	sb.WriteString(`]}`)
	doc := sb.String()
	if in.What == "cend" {
		md := `{"x-a":["v"]}`
		if in.Mut == "tail" {
			md = `{"x-a":["v"],"bad name":["v"]}`
		}
		doc = `{"error":` + doc + `,"metadata":` + md + `}`
	}
	if in.Mut == "truncated" {
		doc = doc[:len(doc)-1]
	}
	return []byte(doc)
}

func c13ZBig(c *gen.Ctx, in c13BigIn) c13BigOut {
	payload := c13BigPayload(in)
	out := c13BigOut{Len: len(payload)}
	r := rc.VerifC13Response{StatusCode: http.StatusOK, Header: http.Header{}, Chunk: in.Chunk}
	zin := c13ZIn{Comp: in.Comp, Flag: in.Comp != 0, DataBefore: true}
	var direct []string
	switch in.What {
	case "cerr":
		r.StatusCode = http.StatusInternalServerError
		r.Header.Set("Content-Type", "application/json")
		if in.Enc != nil {
			r.Header.Set("Content-Encoding", *in.Enc)
		}
		r.Body = c13Compress(in.Comp, payload)
		direct = rc.VerifC13ExamineConnectError(payload)
	case "cend":
		r.Header.Set("Content-Type", "application/connect+proto")
		if in.Enc != nil {
			r.Header.Set("Connect-Content-Encoding", *in.Enc)
		}
		r.Body = c13ZStreamBody(zin, 0x02, payload)
		direct = rc.VerifC13ExamineConnectEndStream(payload)
	default:
		r.Header.Set("Content-Type", "application/grpc-web+proto")
		if in.Enc != nil {
			r.Header.Set("Grpc-Encoding", *in.Enc)
		}
		r.Body = c13ZStreamBody(zin, 0x80, payload)
		h, m1 := rc.VerifC13ExamineGRPCEndStream(string(payload))
		direct = append(m1, rc.VerifC13CheckGRPCStatus(h)...)
	}
	out.Direct = c13Classes(c, direct)
	out.Fb, out.OK = c13ZExchange(c, r)
	c.E.Count("zbig:" + in.What)
	return out
}

func c13BigGen(c *gen.Ctx) {
	th := c.Thorough()
	n := 0
	gz := "gzip"
	// the capturing reader alone: sizes around every power of two up to 4 MiB, several chunkings
	sizes := []int{0, 1, 4095, 4096, 32768, 65535, 65536, 65537, 100000, 131071, 131072, 131073, 1 << 20, 1<<20 + 1}
	if th {
		for s := 60 << 10; s <= 70<<10; s += 512 {
			sizes = append(sizes, s)
		}
		sizes = append(sizes, 2<<20, 2<<20+1, 4<<20)
	}
	for _, s := range sizes {
		for _, ch := range [][]int{{0}, {1, 4096}, {65536}, {65535, 2}, {7, 64, 100000}, {32 << 10}} {
			for _, buf := range []int{512, 32 << 10, 1 << 20} {
				if !th && s > 200000 && (buf == 512 || len(ch) == 1 && ch[0] != 0) {
					continue
				}
				c.Do("capture", c13CaptureIn{Size: s, Chunks: ch, Buf: buf})
				n++
			}
		}
	}
	// the complete exchange: a handful of large payloads in the quick tier
	type cs struct {
		what    string
		size, d int
		comp    int
		mut     string
	}
	var cases []cs
	for _, s := range []int{48000, 49151, 49152, 65537, 98304, 1 << 20} { // 48 KiB of value = 64 KiB of base64
		cases = append(cases, cs{"cerr", s, 1, 0, ""})
	}
	cases = append(cases,
		cs{"cerr", 70000, 3, 0, ""}, cs{"cerr", 70000, 3, 1, ""}, cs{"cerr", 1 << 20, 2, 1, ""},
		cs{"cerr", 70000, 3, 0, "tail"}, cs{"cerr", 1 << 20, 1, 0, "tail"}, cs{"cerr", 70000, 2, 1, "tail"},
		cs{"cerr", 70000, 1, 0, "truncated"}, cs{"cerr", 200000, 1, 1, "truncated"},
		cs{"cend", 70000, 2, 0, ""}, cs{"cend", 1 << 20, 1, 1, ""}, cs{"cend", 70000, 2, 0, "tail"}, cs{"cend", 200000, 1, 1, "tail"}, cs{"cend", 70000, 1, 0, "truncated"},
		cs{"grpcweb", 70000, 2, 0, ""}, cs{"grpcweb", 1 << 20, 1, 1, ""}, cs{"grpcweb", 70000, 2, 0, "tail"}, cs{"grpcweb", 200000, 1, 1, "tail"}, cs{"grpcweb", 70000, 1, 0, "truncated"},
	)
	if th {
		for s := 44 << 10; s <= 52<<10; s += 256 { // dense around 64 KiB of body
			cases = append(cases, cs{"cerr", s, 1 + s%3, (s / 256) % 6, ""})
		}
		for _, s := range []int{96 << 10, 96<<10 + 1, 98000, 128 << 10, 768 << 10, 1<<20 - 1, 1<<20 + 1, 3 << 19, 2 << 20} {
			for comp := 0; comp < 6; comp++ {
				for _, what := range []string{"cerr", "cend", "grpcweb"} {
					cases = append(cases, cs{what, s, 1 + comp%3, comp, ""}, cs{what, s, 1 + comp%3, comp, "tail"})
				}
			}
		}
	}
	for i, k := range cases {
		in := c13BigIn{What: k.what, Size: k.size, Details: k.d, Comp: k.comp, Chunk: []int{0, 4096, 65536, 7}[i%4], Mut: k.mut}
		if k.comp != 0 {
			name := c13Codings[k.comp]
			in.Enc = &name
		}
		if k.comp == 1 {
			in.Enc = &gz
		}
		c.Do("zbig", in)
		n++
	}
	c.E.Add("big", n)
}
