/-
Helper lemmas about `ConfModel.Model.Report` (association lists as maps, class counts).
-/
import ConfModel.Model.ReportScript
namespace ConfModel.Report

/-- an outcome is good when `report` counts it as succeeded or as an expected failure -/
def goodClass : Class → Bool
  | .info | .succeeded => true
  | _ => false

theorem count_partition (os : Outcomes) :
    count .succeeded os + (count .failed os + count .unexpectedPass os) + count .info os + count .couldNotRun os
      = os.length := by
  induction os with
  | nil => simp [count]
  | cons e t ih =>
    simp only [count, List.countP_cons, List.length_cons] at ih ⊢
    cases h : classify e.2 <;> simp <;> omega

theorem count_eq_zero_iff (c : Class) (os : Outcomes) :
    count c os = 0 ↔ ∀ e ∈ os, classify e.2 ≠ c := by
  simp [count, List.countP_eq_zero]

theorem namesOf_length (p : Class → Bool) (os : Outcomes) :
    (namesOf p os).length = os.countP (fun e => p (classify e.2)) := by
  simp [namesOf, List.countP_eq_length_filter]

theorem namesOf_length_failed (os : Outcomes) :
    (namesOf isFailedClass os).length = count .failed os + count .unexpectedPass os := by
  rw [namesOf_length]
  induction os with
  | nil => simp [count]
  | cons e t ih =>
    simp only [count, List.countP_cons] at ih ⊢
    rw [ih]
    cases h : classify e.2 <;> simp [isFailedClass] <;> omega

theorem namesOf_length_info (os : Outcomes) :
    (namesOf isInfoClass os).length = count .info os := by
  rw [namesOf_length]
  induction os with
  | nil => simp [count]
  | cons e t ih =>
    simp only [count, List.countP_cons] at ih ⊢
    rw [ih]
    cases h : classify e.2 <;> simp [isInfoClass]

theorem mem_namesOf (p : Class → Bool) (os : Outcomes) (n : String) :
    n ∈ namesOf p os ↔ ∃ o, (n, o) ∈ os ∧ p (classify o) = true := by
  simp only [namesOf, List.mem_map, List.mem_filter]
  constructor
  · rintro ⟨⟨m, o⟩, ⟨hm, hp⟩, rfl⟩; exact ⟨o, hm, hp⟩
  · rintro ⟨o, hm, hp⟩; exact ⟨(n, o), ⟨hm, hp⟩, rfl⟩

/-! ### `put` / `get?` as a map -/

theorem mem_put_self {β} (l : List (String × β)) (n : String) (v : β) : (n, v) ∈ put l n v := by
  induction l with
  | nil => simp [put]
  | cons e t ih =>
    obtain ⟨m, w⟩ := e
    by_cases h : m = n <;> simp [put, h, ih]

theorem mem_put_of_ne {β} (l : List (String × β)) (n m : String) (v w : β) (h : m ≠ n)
    (hm : (m, w) ∈ l) : (m, w) ∈ put l n v := by
  induction l with
  | nil => cases hm
  | cons e t ih =>
    obtain ⟨k, u⟩ := e
    by_cases hk : k = n
    · simp only [put, hk, if_true, List.mem_cons] at hm ⊢
      rcases hm with hm | hm
      · exact absurd (by cases hm; rfl) h
      · exact Or.inr hm
    · simp only [put, hk, if_false, List.mem_cons] at hm ⊢
      rcases hm with hm | hm
      · exact Or.inl hm
      · exact Or.inr (ih hm)

theorem mem_of_mem_put {β} (l : List (String × β)) (n m : String) (v w : β)
    (hm : (m, w) ∈ put l n v) : (m = n ∧ w = v) ∨ (m, w) ∈ l := by
  induction l with
  | nil => simp [put] at hm; exact Or.inl hm
  | cons e t ih =>
    obtain ⟨k, u⟩ := e
    by_cases hk : k = n
    · simp only [put, hk, if_true, List.mem_cons] at hm ⊢
      rcases hm with hm | hm
      · left; cases hm; exact ⟨rfl, rfl⟩
      · right; right; exact hm
    · simp only [put, hk, if_false, List.mem_cons] at hm ⊢
      rcases hm with hm | hm
      · right; left; exact hm
      · rcases ih hm with h | h
        · left; exact h
        · right; right; exact h

theorem get?_some_mem {β} (l : List (String × β)) (n : String) (v : β) (h : get? l n = some v) :
    (n, v) ∈ l := by
  induction l with
  | nil => simp [get?] at h
  | cons e t ih =>
    obtain ⟨k, u⟩ := e
    by_cases hk : k = n
    · simp [get?, hk] at h; subst hk; subst h; simp
    · simp [get?, hk] at h; exact List.mem_cons_of_mem _ (ih h)

theorem get?_none_not_mem {β} (l : List (String × β)) (n : String) (h : get? l n = none) (v : β) :
    (n, v) ∉ l := by
  induction l with
  | nil => simp
  | cons e t ih =>
    obtain ⟨k, u⟩ := e
    by_cases hk : k = n
    · simp [get?, hk] at h
    · simp only [get?, hk, if_false] at h
      simp only [List.mem_cons, not_or]
      exact ⟨fun he => hk (by cases he; rfl), ih h⟩

end ConfModel.Report

namespace ConfModel.Report
open ConfModel.RunVerdict

/-! ### per-case facts: the declarative reading of a case = the class `report` gives its outcome
(complete case analysis over kind × mark × feedback) -/

def classOf (c : Case) : Option Class := (finalOutcome c).map classify

theorem meets_eq (c : Case) : c.meets = (match classOf c with | some k => goodClass k | none => false) := by
  obtain ⟨n, k, m, fb⟩ := c
  cases k <;> cases m <;> cases fb <;> rfl

theorem countsFailed_eq (c : Case) :
    c.countsFailed = (match classOf c with | some k => isFailedClass k | none => false) := by
  obtain ⟨n, k, m, fb⟩ := c
  cases k <;> cases m <;> cases fb <;> rfl

theorem countsExpected_eq (c : Case) :
    c.countsExpected = (match classOf c with | some k => isInfoClass k | none => false) := by
  obtain ⟨n, k, m, fb⟩ := c
  cases k <;> cases m <;> cases fb <;> rfl

theorem countsPassed_eq (c : Case) :
    c.countsPassed = (match classOf c with | some k => decide (k = .succeeded) | none => false) := by
  obtain ⟨n, k, m, fb⟩ := c
  cases k <;> cases m <;> cases fb <;> rfl

theorem notRun_eq (c : Case) :
    c.notRun = (match classOf c with | some k => decide (k = .couldNotRun) | none => true) := by
  obtain ⟨n, k, m, fb⟩ := c
  cases k <;> cases m <;> cases fb <;> rfl

theorem finalOutcome_wf (c : Case) (o : Outcome) (h : finalOutcome c = some o) :
    o.setupError = true → o.failure ≠ .none := by
  obtain ⟨n, k, m, fb⟩ := c
  cases k <;> cases fb <;> simp [finalOutcome, baseOutcome] at h <;> subst h <;> simp

end ConfModel.Report
