/-
C15 — HTTP/2 connection tracing is transparent and attributes frames to the right call.
Property theorems only; helper lemmas live in `ConfModel.Lemmas.H2*`.
-/
import ConfModel.Generated.C15Facts
import ConfModel.Lemmas.H2Frame
import ConfModel.Lemmas.H2FrameW
import ConfModel.Lemmas.H2Retry
import ConfModel.Lemmas.H2FrameSpec
import ConfModel.Lemmas.H2Once
import ConfModel.Lemmas.H2DataSpec
import ConfModel.Lemmas.H2E2EConn
import ConfModel.Lemmas.H2E2EExamples
import ConfModel.Spec.H2
import ConfModel.Model.H2CallerBuf
import ConfModel.Lemmas.CallerBuf
namespace ConfModel.Props.C15
open ConfModel.H2 ConfModel.H2.Machine

/-! ### facts regenerated from the tree -/

theorem preface_fact : ConfModel.Generated.C15Facts.clientPreface = clientPreface := by decide
theorem header_len_fact : ConfModel.Generated.C15Facts.frameHeaderLen = frameHeaderLen := by decide
/-- a refused attempt that is not retried is still delivered within the time a consumer waits -/
theorem retry_wait_lt_trace_timeout :
    ConfModel.Generated.C15Facts.retryWaitMs < ConfModel.Generated.C15Facts.traceTimeoutMs := by decide

/-! ### layer 1: frame reassembly -/

variable {σ : Type}

/-- **Chunk independence.**  For every decoder, every reachable tracer state and every way
of cutting a direction's bytes into `Read`/`Write` calls, the frames handed to `handleFrame`
and the final state (in particular whether and where the tracer gave up, `broken`) are those
of the single call on the concatenation. -/
theorem reassembly_chunk_independent (dec : Bytes → σ → Option (Frame × σ)) (s : FSt σ) (hs : FInv s)
    (chunks : List Bytes) :
    (frameMachine dec).runChunks s chunks = frameTrace dec s chunks.flatten :=
  runChunks_eq_run (frame_lawful dec) chunks s hs

/-- two-call form -/
theorem reassembly_split (dec : Bytes → σ → Option (Frame × σ)) (s : FSt σ) (hs : FInv s) (a b : Bytes) :
    frameTrace dec s (a ++ b) = comb (frameTrace dec s a) (fun s' => frameTrace dec s' b) :=
  run_append (frame_lawful dec) s a b hs

/-- the invariant holds initially and is kept by every call, so the two theorems above apply
to every state a connection's tracer can be in -/
theorem reassembly_inv_init (isReq : Bool) (hp : σ) : FInv (FSt.init isReq hp) := FInv_init isReq hp
theorem reassembly_inv_step (dec : Bytes → σ → Option (Frame × σ)) (s : FSt σ) (hs : FInv s) (d : Bytes) :
    FInv (frameTrace dec s d).1 :=
  inv_run' (frame_lawful dec) s d hs

/-- **Reassembly = the frames.**  If a direction's bytes are the client preface (request
direction only) followed by the encodings of raw frames `fs` (any types, flags, stream ids,
payloads below 2^24 bytes), the tracer hands to the decoder exactly those frames in order,
with header blocks (HEADERS/CONTINUATION… up to END_HEADERS) joined, and stops for good at
the first unit the decoder rejects (`specFrames`). -/
theorem reassembly_eq_frames (dec : Bytes → σ → Option (Frame × σ)) (isReq : Bool) (hp : σ)
    (fs : List RawFrame) (hok : ∀ f ∈ fs, f.ok) :
    (frameTrace dec (FSt.init isReq hp) ((if isReq then clientPreface else []) ++ (fs.map RawFrame.enc).flatten)).2
      = (specFrames dec [] hp fs).1 ∧
    (frameTrace dec (FSt.init isReq hp) ((if isReq then clientPreface else []) ++ (fs.map RawFrame.enc).flatten)).1.broken
      = (specFrames dec [] hp fs).2 := by
  cases isReq with
  | false =>
    have hs : AtB (FSt.init false hp) := ⟨fun h => (by cases h.1), rfl, rfl, rfl, rfl⟩
    simpa [FSt.init] using run_frames dec fs (FSt.init false hp) hs hok
  | true =>
    have hs : AtB ({ FSt.init true hp with preface := clientPreface } : FSt σ) :=
      ⟨fun h => (by have := h.2; simp [clientPreface, prefaceLen] at this), rfl, rfl, rfl, rfl⟩
    have h := run_frames dec fs _ hs hok
    simp only [if_true]
    unfold frameTrace at h ⊢
    rw [run_append (frame_lawful dec) _ clientPreface _ (FInv_init true hp)]
    have hpre := run_preface dec hp
    unfold frameTrace at hpre
    rw [hpre]
    simpa [comb, FSt.init] using h

/-- … and therefore the same holds for every way of cutting those bytes into calls. -/
theorem reassembly_eq_frames_chunked (dec : Bytes → σ → Option (Frame × σ)) (isReq : Bool) (hp : σ)
    (fs : List RawFrame) (hok : ∀ f ∈ fs, f.ok) (chunks : List Bytes)
    (hc : chunks.flatten = (if isReq then clientPreface else []) ++ (fs.map RawFrame.enc).flatten) :
    ((frameMachine dec).runChunks (FSt.init isReq hp) chunks).2 = (specFrames dec [] hp fs).1 ∧
    ((frameMachine dec).runChunks (FSt.init isReq hp) chunks).1.broken = (specFrames dec [] hp fs).2 := by
  rw [reassembly_chunk_independent dec _ (FInv_init isReq hp), hc]
  exact reassembly_eq_frames dec isReq hp fs hok

/-- non-vacuity: SETTINGS, then HEADERS without END_HEADERS + CONTINUATION (one unit of
9+2+9+1 bytes), then DATA; the decoder here reports the unit's length as a stream id. -/
example :
    let dec : Bytes → Nat → Option (Frame × Nat) := fun b n => some (Frame.rst b.length n, n + 1)
    let fs : List RawFrame := [⟨4, 0, [0, 0, 0, 0], []⟩, ⟨1, 0, [0, 0, 0, 1], [0x82, 0x86]⟩, ⟨9, 4, [0, 0, 0, 1], [0x84]⟩,
      ⟨0, 1, [0, 0, 0, 1], [1, 2, 3]⟩]
    (∀ f ∈ fs, f.ok) ∧ (specFrames dec [] 0 fs) = ([Frame.rst 9 0, Frame.rst 21 1, Frame.rst 12 2], false) ∧
    (frameTrace dec (FSt.init true 0) (clientPreface ++ (fs.map RawFrame.enc).flatten)).2
      = [Frame.rst 9 0, Frame.rst 21 1, Frame.rst 12 2] := by
  decide

/-- non-vacuity: a SETTINGS frame after the preface, cut in the middle of the preface and of
the frame header, is decoded once (decoder: every unit is `other`) -/
example :
    ((frameMachine (fun _ (n : Nat) => some (Frame.other, n + 1))).runChunks (FSt.init true 0)
      [clientPreface.take 10, clientPreface.drop 10 ++ [0, 0, 0, 4], [0, 0, 0, 0, 0]]).2 = [Frame.other] := by
  decide


/-! ### layer 1 at the code's own widths: no frame length wraps a counter -/

/-- The widths the fixed-width machine (`Model/H2FrameW.lean`: `expecting : UInt32`,
`actual : UInt64`) is written for are those of the fields of `http2FrameTracer` and of
`http2.FrameHeader.Length`, read off the compiled struct types on every run; the largest length
the real `http2.ReadFrameHeader` reads from three length bytes is 2^24 - 1 (what a peer that
raised SETTINGS_MAX_FRAME_SIZE to its maximum may send). -/
theorem frame_width_facts :
    Generated.C15Facts.ftExpectingBits = ftExpectingBits ∧ Generated.C15Facts.ftActualBits = ftActualBits ∧
    Generated.C15Facts.frameLengthBits = frameLengthBits ∧
    (Generated.C15Facts.ftExpectingSigned || Generated.C15Facts.ftActualSigned || Generated.C15Facts.frameLengthSigned) = false ∧
    Generated.C15Facts.maxWireFrameLen = 2 ^ (8 * wireLengthBytes) - 1 ∧
    Generated.C15Facts.maxWireFrameLen < 2 ^ Generated.C15Facts.ftExpectingBits ∧
    UInt32.size = 2 ^ ftExpectingBits ∧ UInt64.size = 2 ^ ftActualBits := by decide

/-- every frame length the model reads from a header has 24 bits (it fits `expecting`) -/
theorem frame_length_24bit (h : Bytes) : hdrLen h < 2 ^ 24 ∧ hdrLen h ≤ Generated.C15Facts.maxWireFrameLen := by
  have := hdrLen_lt h
  exact ⟨this, by simp only [Generated.C15Facts.maxWireFrameLen]; omega⟩

/-- … and every 24-bit length is announced by some header: the bound is sharp -/
theorem frame_length_onto (n : Nat) (hn : n < 2 ^ 24) :
    hdrLen [UInt8.ofNat (n / 65536), UInt8.ofNat (n / 256 % 256), UInt8.ofNat (n % 256)] = n := by
  simp only [hdrLen, UInt8.toNat_ofNat']
  omega

/-- **No wrap in `need := int(h.expecting - uint32(h.actual))`** for every 24-bit frame length
(indeed every `uint32` one) and every number of payload bytes already seen: Go's `uint32(…)`
truncation of the 64-bit counter and the wrapping `uint32` subtraction give the exact number of
missing bytes. -/
theorem frame_need_no_wrap (len seen : Nat) (hlen : len < 2 ^ 24) (hseen : seen ≤ len) :
    needPayloadW (UInt32.ofNat len) (UInt64.ofNat seen) = len - seen := by
  have h1 : (UInt32.ofNat len).toNat = len := u32_ofNat_toNat len (by omega)
  have h2 : (UInt64.ofNat seen).toNat = seen := by
    rw [UInt64.toNat_ofNat']; exact Nat.mod_eq_of_lt (by omega)
  rw [needPayloadW_eq _ _ (by rw [h1, h2]; exact hseen), h1, h2]

example : needPayloadW (UInt32.ofNat (2 ^ 24 - 1)) (UInt64.ofNat 16384) = 2 ^ 24 - 1 - 16384 := by decide
example : needPayloadW (UInt32.ofNat 65536) (UInt64.ofNat 65535) = 1 := by decide

/-- why the width of `expecting` matters: with 16 bits a frame of 65536 bytes (legal once the peer
raised SETTINGS_MAX_FRAME_SIZE) would look empty and one of 65537 bytes like a 1-byte frame -/
theorem frame_narrow_expecting_wraps :
    needPayload16 65536 0 = 0 ∧ needPayload16 65537 0 = 1 ∧ needPayload16 65535 0 = 65535 ∧
    needPayloadW (UInt32.ofNat 65536) 0 = 65536 ∧ needPayloadW (UInt32.ofNat 65537) 0 = 65537 := by decide

/-- **The fixed-width machine simulates the `Nat` machine**: from the initial state, for every
decoder and every bytes cut into calls in every way — frames of any announced length, well-formed
or not —, after every call the states correspond (`FStW.abs`) and the same frames have been handed
to `handleFrame`.  No hypothesis on sizes: `actual < expecting < 2^24` on every reachable state. -/
theorem frame_widths_simulate (dec : Bytes → σ → Option (Frame × σ)) (isReq : Bool) (hp : σ) (chunks : List Bytes) :
    (((frameMachineW dec).runChunks (FStW.init isReq hp) chunks).1.abs,
     ((frameMachineW dec).runChunks (FStW.init isReq hp) chunks).2)
      = (frameMachine dec).runChunks (FSt.init isReq hp) chunks := by
  have := runChunks_sim (frame_lawful dec) (frameW_sim dec) chunks (FStW.init isReq hp)
    (by rw [abs_initW]; exact FInv_init isReq hp)
  rw [this, abs_initW]

/-- one call from any state that stands for a reachable one -/
theorem frame_widths_simulate_call (dec : Bytes → σ → Option (Frame × σ)) (s : FStW σ) (hs : FInv s.abs) (d : Bytes) :
    ((frameTraceW dec s d).1.abs, (frameTraceW dec s d).2) = frameTrace dec s.abs d :=
  run_sim (frame_lawful dec) (frameW_sim dec) s d hs

/-- **Frames of every legal length are reassembled by the code's arithmetic.**  If a direction's
bytes are the preface (request direction) and the encodings of raw frames with payloads of up to
2^24 - 1 bytes, cut into calls in any way, the fixed-width machine hands the decoder exactly those
frames (header blocks joined) and gives up exactly where the decoder rejects one. -/
theorem frame_widths_eq_frames (dec : Bytes → σ → Option (Frame × σ)) (isReq : Bool) (hp : σ)
    (fs : List RawFrame) (hok : ∀ f ∈ fs, f.ok) (chunks : List Bytes)
    (hc : chunks.flatten = (if isReq then clientPreface else []) ++ (fs.map RawFrame.enc).flatten) :
    ((frameMachineW dec).runChunks (FStW.init isReq hp) chunks).2 = (specFrames dec [] hp fs).1 ∧
    ((frameMachineW dec).runChunks (FStW.init isReq hp) chunks).1.broken = (specFrames dec [] hp fs).2 := by
  have hsim := frame_widths_simulate dec isReq hp chunks
  have h1 := congrArg Prod.fst hsim
  have h2 := congrArg Prod.snd hsim
  simp only at h1 h2
  have h := reassembly_eq_frames_chunked dec isReq hp fs hok chunks hc
  rw [← h1, ← h2] at h
  exact h

/-- non-vacuity: a DATA frame of 3 bytes behind a SETTINGS frame, cut inside the header and inside
the payload, run by the fixed-width machine -/
example :
    ((frameMachineW (fun b (n : Nat) => some (Frame.rst b.length n, n + 1))).runChunks (FStW.init false 0)
      [[0, 0, 0, 4, 0], [0, 0, 0, 0, 0, 0, 3, 0], [1, 0, 0, 0, 1, 7], [8, 9]]).2 = [Frame.rst 9 0, Frame.rst 12 1] := by
  decide

/-! ### layer 2: streams -/

/-- the frames of one `Read`/`Write` call are handled one after the other -/
theorem handleFrames_eq_runL2 (c : L2) (isReq : Bool) (fs : List Frame) :
    handleFrames c isReq fs = runL2 c (fs.map (fun f => (isReq, f))) := by
  induction fs generalizing c with
  | nil => rfl
  | cons f fs ih => simp only [handleFrames, List.map_cons, runL2, ih]

/-- **The trace of a stream is the trace of its projection.**  For every connection state
and every sequence of frames of both directions, what the collector receives from stream
`i` (and what the table holds for `i` afterwards) is what the one-stream machine `viewStep`
produces from the frames that concern `i` (its own HEADERS/DATA/RST_STREAM and every
GOAWAY) — frames of other streams, wherever they are interleaved, do not matter. -/
theorem stream_is_projection (c : L2) (hc : TOK c.streams) (i : Nat) (l : List (Bool × Frame)) :
    opsFor i (runL2 c l).2 = (runView i (view i c) (l.filter (fun df => concernsStream i df.2))).2 ∧
    view i (runL2 c l).1 = (runView i (view i c) (l.filter (fun df => concernsStream i df.2))).1 := by
  have h := runL2_view i l c hc
  rw [h.1, h.2, runView_filter i l]
  exact ⟨rfl, rfl⟩

/-- **Interleaving independence.**  Two frame sequences that contain the frames concerning
stream `i` in the same order — i.e. any two interleavings of the same streams that respect
the order within stream `i` (and its order relative to GOAWAY frames) — give stream `i` the
same completed trace(s). -/
theorem streams_interleaving_independent (c : L2) (hc : TOK c.streams) (i : Nat) (l l' : List (Bool × Frame))
    (h : l.filter (fun df => concernsStream i df.2) = l'.filter (fun df => concernsStream i df.2)) :
    opsFor i (runL2 c l).2 = opsFor i (runL2 c l').2 ∧ view i (runL2 c l).1 = view i (runL2 c l').1 := by
  have h1 := stream_is_projection c hc i l
  have h2 := stream_is_projection c hc i l'
  rw [h1.1, h1.2, h2.1, h2.2, h]
  exact ⟨rfl, rfl⟩

/-- non-vacuity of the hypothesis: two different interleavings of streams 1 and 3 -/
example :
    let a1 : Bool × Frame := (true, .headers 1 [(":method", "POST"), ("x-test-case-name", "a")] false)
    let a2 : Bool × Frame := (true, .data 1 [0, 0, 0, 0, 1, 7] true)
    let a3 : Bool × Frame := (false, .headers 1 [(":status", "200")] true)
    let b1 : Bool × Frame := (true, .headers 3 [(":method", "POST"), ("x-test-case-name", "b")] true)
    let b2 : Bool × Frame := (false, .rst 3 7)
    [a1, a2, b1, a3, b2].filter (fun df => concernsStream 1 df.2) = [b1, a1, b2, a2, a3].filter (fun df => concernsStream 1 df.2)
    ∧ [a1, a2, b1, a3, b2] ≠ [b1, a1, b2, a2, a3] := by
  decide

/-- **Exactly one completed trace, at the frame.**  A frame makes the collector see a
`Complete` from stream `i` exactly when it removes a *named* stream `i` from the table
(END_STREAM on the response, RST_STREAM from either side, GOAWAY with a lower last id). -/
theorem complete_iff_named_stream_leaves (c : L2) (hc : TOK c.streams) (i : Nat) (isReq : Bool) (f : Frame) :
    completesIn (opsFor i (handleFrame c isReq f).2) =
      (if curLive (tGet i c.streams) = true ∧ tGet i (handleFrame c isReq f).1.streams = none then 1 else 0) := by
  have hv := handleFrame_view c hc i isReq f
  have ho := viewStep_once i (view i c) isReq f
  rw [hv.2.1, ho.1, ← hv.1]
  rfl

/-- **Attribution.**  A trace handed to the collector on behalf of stream id `i` always comes
from a stream that is open under `i` and carries that stream's test name — the one taken
from the request HEADERS that opened it (`newStream_name`; `stream_keeps_name`: the name
does not change while the stream is open). -/
theorem completed_trace_attributed (c : L2) (hc : TOK c.streams) (i : Nat) (isReq : Bool) (f : Frame) (t : Trace)
    (h : (i, COp.complete t) ∈ (handleFrame c isReq f).2) :
    ∃ st, tGet i c.streams = some st ∧ t.name = st.name := by
  have hv := handleFrame_view c hc i isReq f
  have hm : COp.complete t ∈ opsFor i (handleFrame c isReq f).2 := (mem_opsFor i _ _).mpr h
  rw [hv.2.1] at hm
  exact viewStep_names i (view i c) isReq f t hm

theorem stream_keeps_name (c : L2) (hc : TOK c.streams) (i : Nat) (isReq : Bool) (f : Frame) (st st' : Stream)
    (h : tGet i c.streams = some st) (h' : tGet i (handleFrame c isReq f).1.streams = some st') : st'.name = st.name := by
  have hv := handleFrame_view c hc i isReq f
  have ho := (viewStep_once i (view i c) isReq f).2 st st' h
  apply ho
  rw [← hv.1]; exact h'

theorem opened_stream_name (fields : Fields) : (newStream fields).name = getHeader fields testNameHeader :=
  newStream_name fields

/-- **One trace per named stream** (conservation law): along any frame sequence, the number
of `Complete`s from stream id `i` plus one if a named stream is still open under `i` equals
the number of named streams opened under `i` (plus one if one was open initially): every
named stream yields exactly one completed trace, no later than when it leaves the table. -/
theorem one_trace_per_named_stream (c : L2) (hc : TOK c.streams) (i : Nat) (l : List (Bool × Frame)) :
    completesIn (opsFor i (runL2 c l).2) + b2n (curLive (tGet i (runL2 c l).1.streams)) =
      b2n (curLive (tGet i c.streams)) + opens i (view i c) l := by
  have h := runL2_view i l c hc
  have hcons := runView_conservation i l (view i c)
  rw [h.2]
  have : tGet i (runL2 c l).1.streams = (view i (runL2 c l).1).cur := rfl
  rw [this, h.1]
  exact hcons

/-- **Connection loss completes all open streams**: `cancelAll` (failed `Read`/`Write`,
`Close`) yields exactly one `Complete` for every open named stream and empties the table. -/
theorem connection_loss_completes_open_streams (c : L2) (hc : TOK c.streams) (err : Err) (i : Nat) :
    completesIn (opsFor i (cancelAll c err).2) = b2n (curLive (tGet i c.streams)) ∧ (cancelAll c err).1.streams = [] :=
  cancelAll_once c hc err i

/-- the table invariant used above holds initially and is kept by every frame -/
theorem table_inv_init : TOK ([] : Tbl) := by simp [TOK]
theorem table_inv_run (c : L2) (hc : TOK c.streams) (l : List (Bool × Frame)) : TOK (runL2 c l).1.streams :=
  TOK_runL2 l c hc

/-! ### messages of a stream (the per-stream `dataTracer`) -/

/-- Cutting a body into DATA frames differently does not change the message events: for every
tracer configuration, reachable state and payloads `a`, `b`, tracing `a` then `b` is tracing
`a ++ b`. -/
theorem data_frames_split_independent (c : DCfg) (s : DSt) (hs : DInv s) (a b : Bytes) :
    dataTrace c s (a ++ b) = comb (dataTrace c s a) (fun s' => dataTrace c s' b) :=
  dataTrace_append c s hs a b

/-- **Messages in order = envelope parse of the concatenation.**  Whatever way a request or
response body is cut into DATA frames, tracing the payloads one after the other and flushing
at the end of the stream reports exactly the messages of the body (`specMsgs`: 5-byte
envelopes, payloads, the end-stream message's content, a cut last message with the bytes
actually seen; for non-enveloped protocols the body as one item). -/
theorem messages_eq_envelope_parse (c : DCfg) (payloads : List Bytes) :
    (dataTraceAll c DSt.init payloads).2.map DEv.msg ++ (dataFlush (dataTraceAll c DSt.init payloads).1).2.map DEv.msg
      = specMsgs c payloads.flatten := by
  rw [dataTraceAll_eq c payloads DSt.init (fun _ => DInv_init)]
  exact tracedMsgs_eq_spec c payloads.flatten

/-- non-vacuity: a gRPC response body with two messages cut into three DATA frames in the
middle of an envelope prefix and of a payload -/
example :
    let c : DCfg := { isReq := false, isStream := true, dec := .identity }
    (dataTraceAll c DSt.init [[0, 0, 0], [0, 2, 7, 8, 1, 0, 0], [0, 1, 9]]).2 =
      [DEv.data (some ⟨0, 2⟩) 2, DEv.data (some ⟨1, 1⟩) 1] ∧
    specMsgs c [0, 0, 0, 0, 2, 7, 8, 1, 0, 0, 0, 1, 9] = [Msg.data (some ⟨0, 2⟩) 2, Msg.data (some ⟨1, 1⟩) 1] := by
  decide

/-! ### layer 3: the retry collector -/

/-- What reaches the downstream collector for a test name is exactly the retry rule
(`deliveriesFor`: a refused attempt is held back; a retry drops it; the timer or the end of
the connection delivers it), whatever is going on for other test names — for every sequence
of `Complete` / `newAttempt` / `timesUp` / `cancel` operations. -/
theorem retry_rule (ops : List COp) (n : String) :
    (Coll.init.run ops).outFor n = deliveriesFor n none ops := by
  have := run_for ops Coll.init trivial n
  simpa [Coll.init, Coll.outFor, findName] using this

/-- … and only the operations that concern the name matter. -/
theorem retry_rule_local (ops : List COp) (n : String) :
    (Coll.init.run ops).outFor n = deliveriesFor n none (ops.filter (concerns n)) := by
  rw [retry_rule, deliveriesFor_filter]

/-- **A stream refused and retried yields the trace of the retry**: from any collector state,
after `Complete(t₁)` with a retryable error, a `newAttempt` for the same name and the
`Complete(t₂)` of the retry — with arbitrary operations for other names in between — exactly
`t₂` has been delivered for that name. -/
theorem retry_yields_retry (c : Coll) (hc : WOK c.waiting) (n : String) (t₁ t₂ : Trace)
    (h₁ : t₁.name = n) (h₂ : t₂.name = n) (hr₁ : t₁.err.retryable = true) (hr₂ : t₂.err.retryable = false)
    (mid mid' : List COp) (hm : ∀ op ∈ mid, concerns n op = false) (hm' : ∀ op ∈ mid', concerns n op = false) :
    (c.run (COp.complete t₁ :: (mid ++ COp.newAttempt n :: (mid' ++ [COp.complete t₂])))).outFor n
      = c.outFor n ++ [t₂] := by
  rw [run_for _ c hc n, deliveriesFor_cons, stepFor_refused n _ t₁ h₁ hr₁, deliveriesFor_skip n _ mid _ hm,
    deliveriesFor_cons, stepFor_newAttempt, deliveriesFor_skip n _ mid' _ hm', deliveriesFor_cons,
    stepFor_final n t₂ h₂ hr₂]
  simp [deliveriesFor]

/-- Without a retry the refused attempt is delivered when the retry timer fires … -/
theorem refused_delivered_at_timesUp (c : Coll) (hc : WOK c.waiting) (n : String) (t₁ : Trace)
    (h₁ : t₁.name = n) (hr₁ : t₁.err.retryable = true) (mid : List COp) (hm : ∀ op ∈ mid, concerns n op = false) :
    (c.run (COp.complete t₁ :: (mid ++ [COp.timesUp n]))).outFor n = c.outFor n ++ [t₁] := by
  rw [run_for _ c hc n, deliveriesFor_cons, stepFor_refused n _ t₁ h₁ hr₁, deliveriesFor_skip n _ mid _ hm,
    deliveriesFor_cons, stepFor_timesUp]
  simp [deliveriesFor]

/-- … or when the connection ends. -/
theorem refused_delivered_at_cancel (c : Coll) (hc : WOK c.waiting) (n : String) (t₁ : Trace)
    (h₁ : t₁.name = n) (hr₁ : t₁.err.retryable = true) (mid : List COp) (hm : ∀ op ∈ mid, concerns n op = false) :
    (c.run (COp.complete t₁ :: (mid ++ [COp.cancel]))).outFor n = c.outFor n ++ [t₁] := by
  rw [run_for _ c hc n, deliveriesFor_cons, stepFor_refused n _ t₁ h₁ hr₁, deliveriesFor_skip n _ mid _ hm,
    deliveriesFor_cons, stepFor_cancel]
  simp [deliveriesFor]

/-- **Never twice**: for every operation sequence, no trace is delivered more often than it
was completed (so a trace completed once is delivered at most once, by the timer *or* by
`cancel` *or* at once — never by two of them). -/
theorem never_twice (ops : List COp) (t : Trace) : (Coll.init.run ops).out.count t ≤ completions t ops := by
  have h := count_run ops Coll.init t
  have e1 : Coll.init.out.count t = 0 := by simp [Coll.init]
  have e2 : valuesCount t Coll.init.waiting = 0 := by simp [Coll.init, valuesCount]
  omega

/-- **Never both**: once the retry has started, the refused attempt is gone for good — it is
not delivered by any later operation sequence (unless it is completed again). -/
theorem refused_then_retried_never_delivered (c : Coll) (hc : WOK c.waiting) (n : String) (t₁ : Trace)
    (h₁ : t₁.name = n) (hr₁ : t₁.err.retryable = true) (hfresh : t₁ ∉ c.out)
    (mid rest : List COp) (hm : ∀ op ∈ mid, concerns n op = false) (hrest : completions t₁ rest = 0) :
    t₁ ∉ (c.run ((COp.complete t₁ :: (mid ++ [COp.newAttempt n])) ++ rest)).out := by
  rw [ConfModel.H2.run_append]
  generalize hc' : c.run (COp.complete t₁ :: (mid ++ [COp.newAttempt n])) = c'
  have hw : WOK c'.waiting := by rw [← hc']; exact WOK_run _ c hc
  have hout : c'.outFor n = c.outFor n := by
    rw [← hc', run_for _ c hc n, deliveriesFor_cons, stepFor_refused n _ t₁ h₁ hr₁, deliveriesFor_skip n _ mid _ hm,
      deliveriesFor_cons, stepFor_newAttempt]
    simp [deliveriesFor]
  have hheld : findName n c'.waiting = none := by
    rw [← hc', held_run _ c hc n, List.foldl_cons, stepFor_refused n _ t₁ h₁ hr₁, held_skip n _ mid _ hm,
      List.foldl_cons, stepFor_newAttempt]
    rfl
  have h0 : c'.out.count t₁ = 0 := by
    apply not_mem_out_of_outFor
    rw [h₁, hout]
    intro hm
    exact hfresh (List.mem_filter.mp hm).1
  have hv : valuesCount t₁ c'.waiting = 0 := valuesCount_zero_of_not_held t₁ _ hw (by rw [h₁]; exact hheld)
  have := count_run rest c' t₁
  have hz : (c'.run rest).out.count t₁ = 0 := by omega
  exact List.count_eq_zero.mp hz

/-- non-vacuity (all hypotheses of the three theorems above, on a concrete run): stream 1 of
test `a` is refused while test `b` completes, the retry starts and completes: only the
retry's trace is delivered for `a`. -/
example :
    let t₁ : Trace := { Trace.empty with name := "a", err := .stream 1 7 }
    let t₂ : Trace := { Trace.empty with name := "a", err := .none, events := [.reqStart] }
    let tb : Trace := { Trace.empty with name := "b" }
    (Coll.init.run [.complete t₁, .complete tb, .newAttempt "a", .newAttempt "b", .complete t₂, .timesUp "a", .cancel]).out
      = [tb, t₂] := by
  decide

/-! ### end to end: layers 1 + 2 + 3 against the property's predicate -/

/-- **Running the calls is running layers 2 + 3 on the wire events of the calls**: the stream
table and the retry collector after any sequence of `Read`/`Write`/`Close` calls (and timer
expiries) are those obtained by feeding `handleFrame` / `cancelAll` / the retry timers with
`Conn.wireEvents` — the frames layer 1 completes call by call, each tagged with its
direction, and the ends of the connection. -/
theorem conn_run_eq_runW (decR decW : Bytes → σ → Option (Frame × σ)) (c : Conn σ) (calls : List Call) :
    ((c.run decR decW calls).l2, (c.run decR decW calls).coll) = runW (c.l2, c.coll) (c.wireEvents decR decW calls) :=
  conn_run_eq decR decW calls c

/-- **Partition independence, on the connection.**  The request (response) frames among the
wire events of a run are the frames layer 1 makes of *all* bytes read (written), in order —
whatever the partition of either direction into calls, whatever the interleaving of reads
and writes, errors, timeouts and timer expiries in between. -/
theorem wire_events_partition_independent (decR decW : Bytes → σ → Option (Frame × σ)) (isServer : Bool) (hpR hpW : σ)
    (calls : List Call) :
    dirFrames isServer ((Conn.init isServer hpR hpW).wireEvents decR decW calls)
      = (frameTrace decR (FSt.init isServer hpR) (readBytes calls)).2 ∧
    dirFrames (!isServer) ((Conn.init isServer hpR hpW).wireEvents decR decW calls)
      = (frameTrace decW (FSt.init (!isServer) hpW) (writeBytes calls)).2 := by
  have hne : (Conn.init isServer hpR hpW).wr.isReq ≠ (Conn.init isServer hpR hpW).rd.isReq := by
    cases isServer <;> simp [Conn.init, FSt.init]
  exact ⟨wire_frames_read decR decW calls (Conn.init isServer hpR hpW) (FInv_init _ _) hne,
    wire_frames_write decR decW calls (Conn.init isServer hpR hpW) (FInv_init _ _) hne⟩

/-- … so if the bytes read are (the client preface and) the encodings of raw frames `fs`, the
frames of that direction among the wire events are exactly those frames (`specFrames`). -/
theorem wire_events_eq_frames (decR decW : Bytes → σ → Option (Frame × σ)) (isServer : Bool) (hpR hpW : σ)
    (calls : List Call) (fs : List RawFrame) (hok : ∀ f ∈ fs, f.ok)
    (hb : readBytes calls = (if isServer then clientPreface else []) ++ (fs.map RawFrame.enc).flatten) :
    dirFrames isServer ((Conn.init isServer hpR hpW).wireEvents decR decW calls) = (specFrames decR [] hpR fs).1 := by
  rw [(wire_events_partition_independent decR decW isServer hpR hpW calls).1, hb]
  exact (reassembly_eq_frames decR isServer hpR fs hok).1

/-- non-vacuity: server side, the preface and a SETTINGS frame read in two calls that cut the
preface, a write in between -/
example :
    let calls : List Call := [.read (clientPreface.take 10) .ok, .write [0, 0, 0] 3 .ok,
      .read (clientPreface.drop 10 ++ [0, 0, 0, 4, 0, 0, 0, 0, 0]) .ok]
    let fs : List RawFrame := [⟨4, 0, [0, 0, 0, 0], []⟩]
    (∀ f ∈ fs, f.ok) ∧ readBytes calls = (if true then clientPreface else []) ++ (fs.map RawFrame.enc).flatten := by
  decide

/-- **End to end, layers 2 + 3, every interleaving.**  For *every* sequence of wire events
(frames of both directions in any interleaving, connection ends, timer expiries) that is
well-formed (`Spec.wellFormed`: per-stream order respected, ids not reused, no new stream
after GOAWAY, test names unique except for retry chains) and in which the connection only
ends with an I/O error or `Close`, what the model delivers downstream satisfies the
property's predicate `Spec.deliveredOK` — the predicate the driver evaluates on the
implementation's traces: only traces with a test name that some stream carries; for every
test name exactly one trace per stream that is due (ended; not held back for a retry; not
superseded by a retry), and that trace satisfies `Spec.traceOK` for its stream: request line
and headers, request and response messages in order = envelope parse of the concatenated
DATA payloads, response status / headers / trailers, its end or reset. -/
theorem traces_ok_every_interleaving (isServer : Bool) (ws : List WEv) (hwf : wellFormed ws = true) (hl : lossesOK ws = true) :
    deliveredOK isServer (expects [] ws)
      ((runW ({ isServer := isServer, streams := [], maxId := 0 }, Coll.init) ws).2.out.map Trace.obs) = true := by
  obtain ⟨g, hinv⟩ := wf_inv isServer ws hwf hl
  exact deliveredOK_of_inv hinv

/-- non-vacuity: a refused stream (test `a`, stream 1, RST_STREAM REFUSED_STREAM) and its
retry on stream 3 are well-formed traffic; stream 1 is superseded, stream 3 is due -/
example : wellFormed Ex.wsRetry = true ∧ lossesOK Ex.wsRetry = true ∧
    (expects [] Ex.wsRetry).map (fun e => (e.id, e.name, e.superseded, e.due)) = [(1, "a", true, false), (3, "a", false, true)] := by
  simp [wellFormed, Ex.wsRetry, expects, Expect.see, supersede, Ex.name_a, Expect.isOpen, Expect.name, Expect.held, Ending.err,
    Err.retryable, nodupNat, noOpenAfterGoaway, lossesOK, WEv.lossOK, Expect.due]

/-- **Exactly one completed trace for a stream that is due**, and it is the promised one
(`Spec.traceOK`); a refused stream that was retried is superseded, hence never due: the one
trace delivered under its test name is the retry's. -/
theorem due_stream_exactly_one_trace (isServer : Bool) (ws : List WEv) (hwf : wellFormed ws = true) (hl : lossesOK ws = true)
    (e : Expect) (he : e ∈ expects [] ws) (hn : e.name ≠ "") (hd : e.due = true) :
    ∃ t, (runW ({ isServer := isServer, streams := [], maxId := 0 }, Coll.init) ws).2.outFor e.name = [t] ∧
      traceOK isServer e t.obs = true := by
  obtain ⟨g, hinv⟩ := wf_inv isServer ws hwf hl
  exact due_has_trace hinv e he hn hd

/-- non-vacuity: the retry of the example above is a member of `expects`, named and due -/
example : ∃ e ∈ expects [] Ex.wsRetry, e.name ≠ "" ∧ e.due = true ∧ e.id = 3 := by
  simp [Ex.wsRetry, expects, Expect.see, supersede, Ex.name_a, Expect.isOpen, Expect.name, Expect.held, Ending.err,
    Err.retryable, Expect.due]

/-- Nothing is delivered under a test name while none of its streams is due (still open, held
back for a possible retry, or superseded by a retry that is still running). -/
theorem nothing_before_due (isServer : Bool) (ws : List WEv) (hwf : wellFormed ws = true) (hl : lossesOK ws = true)
    (n : String) (hn : n ≠ "") (hnd : ∀ e ∈ expects [] ws, e.name = n → e.due = false) :
    (runW ({ isServer := isServer, streams := [], maxId := 0 }, Coll.init) ws).2.outFor n = [] := by
  obtain ⟨g, hinv⟩ := wf_inv isServer ws hwf hl
  exact not_due_nothing hinv n hn hnd

/-- non-vacuity: while the refused stream is held back for a retry, no stream of `a` is due -/
example : wellFormed (Ex.wsRetry.take 2) = true ∧ lossesOK (Ex.wsRetry.take 2) = true ∧
    (∀ e ∈ expects [] (Ex.wsRetry.take 2), e.name = "a" → e.due = false) := by
  simp [wellFormed, Ex.wsRetry, expects, Expect.see, supersede, Ex.name_a, Expect.isOpen, Expect.name, Expect.held, Ending.err,
    Err.retryable, nodupNat, noOpenAfterGoaway, lossesOK, WEv.lossOK, Expect.due]

/-- **End to end, all three layers.**  For every decoder pair, every side, and every sequence
of `Read`/`Write`/`Close` calls and timer expiries — i.e. every partition of each direction's
bytes into calls and every interleaving of the two directions — whose wire events are
well-formed, the traces the model has delivered downstream satisfy `Spec.deliveredOK`.
(`lossesOK` needs no hypothesis here: `Read`/`Write`/`Close` only end a connection with an
I/O error or "closed".)  By `wire_events_partition_independent` the frame sequence of each
direction among those wire events depends only on the direction's bytes. -/
theorem end_to_end (decR decW : Bytes → σ → Option (Frame × σ)) (isServer : Bool) (hpR hpW : σ) (calls : List Call)
    (hwf : wellFormed ((Conn.init isServer hpR hpW).wireEvents decR decW calls) = true) :
    deliveredOK isServer (expects [] ((Conn.init isServer hpR hpW).wireEvents decR decW calls))
      (((Conn.init isServer hpR hpW).run decR decW calls).coll.out.map Trace.obs) = true := by
  have hrun := conn_run_eq decR decW calls (Conn.init isServer hpR hpW)
  have hc : ((Conn.init isServer hpR hpW).run decR decW calls).coll =
      (runW ((Conn.init isServer hpR hpW).l2, (Conn.init isServer hpR hpW).coll)
        ((Conn.init isServer hpR hpW).wireEvents decR decW calls)).2 := by rw [← hrun]
  rw [hc]
  exact traces_ok_every_interleaving isServer _ hwf (wireEvents_lossesOK decR decW calls _)

/-- non-vacuity: a client-side run whose two directions are cut into calls in the middle of
frames and interleaved; its wire events are the request HEADERS (test `a`), the response
HEADERS and the loss of the connection at `Close`; they are well-formed -/
example :
    (Conn.init false 0 0).wireEvents Ex.decP Ex.decQ Ex.callsX = Ex.wsX ∧ wellFormed Ex.wsX = true ∧
    (expects [] Ex.wsX).map (fun e => (e.id, e.name, e.due)) = [(1, "a", true)] := by
  refine ⟨by decide, ?_⟩
  simp [wellFormed, Ex.wsX, expects, Expect.see, supersede, Ex.name_a, Expect.isOpen, Expect.name, Expect.held, Ending.err,
    Err.retryable, nodupNat, noOpenAfterGoaway, Expect.due]

/-! ### bytes and errors of one call -/

/-- **A `Read` that returns bytes together with an error is traced like the `Read` of those
bytes followed by a `Read` of nothing with that error** — for every error kind (`io.EOF`,
timeout, any other), every decoder and every connection state.  In particular the error never
hides the bytes from the tracer: the frames they complete are handled before `cancelAll`. -/
theorem read_data_with_error (decR decW : Bytes → σ → Option (Frame × σ)) (c : Conn σ) (data : Bytes) (err : IOErr) :
    c.step decR decW (.read data err) = (c.step decR decW (.read data .ok)).step decR decW (.read [] err) ∧
    c.callEvents decR decW (.read data err) =
      c.callEvents decR decW (.read data .ok) ++ (c.step decR decW (.read data .ok)).callEvents decR decW (.read [] err) := by
  have hnil : ∀ s : FSt σ, frameTrace decR s [] = (s, []) := fun s => by simp [frameTrace, run_nil]
  constructor
  · cases err <;> simp [Conn.step, hnil, handleFrames, applyOps, Coll.run, Conn.cancelAll]
  · cases err <;> simp [Conn.callEvents, Conn.step, hnil, lostAfterRead]

/-- **`Write(data)` with any result `(n, err)` of the inner connection — short or not — is
traced like the complete `Write(data)` followed by an empty `Write` with that error**: the
tracer is handed the whole argument before the inner `Write` runs. -/
theorem write_data_with_error (decR decW : Bytes → σ → Option (Frame × σ)) (c : Conn σ) (data : Bytes) (n : Nat) (err : IOErr) :
    c.step decR decW (.write data n err) =
      (c.step decR decW (.write data data.length .ok)).step decR decW (.write [] 0 err) ∧
    c.callEvents decR decW (.write data n err) =
      c.callEvents decR decW (.write data data.length .ok) ++
        (c.step decR decW (.write data data.length .ok)).callEvents decR decW (.write [] 0 err) := by
  have hnil : ∀ s : FSt σ, frameTrace decW s [] = (s, []) := fun s => by simp [frameTrace, run_nil]
  constructor
  · cases err <;> simp [Conn.step, hnil, handleFrames, applyOps, Coll.run, Conn.cancelAll]
  · cases err <;> simp [Conn.callEvents, Conn.step, hnil, lostAfterWrite]

/-- The bytes a run hands to the two frame tracers are the bytes of the calls, error or not:
`readBytes` / `writeBytes` (the arguments of `wire_events_partition_independent`) collect
`Call.traced` of every `Read` / `Write`. -/
theorem traced_bytes (calls : List Call) :
    readBytes calls = (calls.map (fun c => match c with | .read d _ => d | _ => [])).flatten ∧
    writeBytes calls = (calls.map (fun c => match c with | .write d _ _ => d | _ => [])).flatten := by
  induction calls with
  | nil => exact ⟨rfl, rfl⟩
  | cons c cs ih => cases c <;> simp [readBytes, writeBytes, ih.1, ih.2]

/-- non-vacuity: client side, the response HEADERS (END_STREAM) arrive in the same `Read` as
`io.EOF`: the frame is handled first, the stream's trace is complete before the loss of the
connection (`Ex.wsEOF` is well-formed, stream 1 of test `a` is due). -/
example :
    (Conn.init false 0 0).wireEvents Ex.decP Ex.decQ Ex.callsEOF = Ex.wsEOF ∧ wellFormed Ex.wsEOF = true ∧
    (expects [] Ex.wsEOF).map (fun e => (e.id, e.name, e.due)) = [(1, "a", true)] := by
  refine ⟨by decide, ?_⟩
  simp [wellFormed, Ex.wsEOF, expects, Expect.see, supersede, Ex.name_a, Expect.isOpen, Expect.name, Expect.held, Ending.err,
    Err.retryable, nodupNat, noOpenAfterGoaway, Expect.due]

/-! ### transparency -/

/-- `Read`/`Write`/`Close` hand the inner connection's result (count, error, bytes) to the
caller unchanged; every model step is a total function (no crash) on any byte string. -/
theorem transparent (inner : Nat × IOErr × Bytes) : Conn.result inner = inner := rfl

/-- … for every call of the extended alphabet: bytes together with any error on `Read`, any
count `n` (short or not) together with any error on `Write`. -/
theorem transparent_call (call : Call) : Conn.result call.inner = call.inner := rfl

/-! ### a caller that reuses one array per direction -/

open ConfModel.CallerBuf in
/-- **Chunk values suffice.**  A caller that reuses one array for all its `Read`s (and one for
all its `Write`s) — refilling it arbitrarily between calls, handing the wrapper a window at any
offset, with spare capacity — drives the three-layer model exactly like a caller that passes a
fresh slice per call: final state (stream table, collector, both frame tracers) and wire events
depend on the *values* in the windows only, i.e. on the chunks.  This is the aliasing-freedom
contract `http2FrameTracer` has to keep (copy what it remembers of `data`; never write through
it); the harness observes it by running every script in the reusing discipline as well. -/
theorem reused_buffer_values_suffice (decR decW : H2.Bytes → σ → Option (Frame × σ)) (c : Conn σ)
    (calls : List BufCall) (hf : ∀ b ∈ calls, b.fits) :
    Conn.run decR decW c (calls.map BufCall.toCall) = Conn.run decR decW c (calls.map BufCall.plain) ∧
    Conn.wireEvents decR decW c (calls.map BufCall.toCall) = Conn.wireEvents decR decW c (calls.map BufCall.plain) := by
  have : calls.map BufCall.toCall = calls.map BufCall.plain := by
    apply List.map_congr_left
    intro b hb
    have h := hf b hb
    cases b with
    | read b err => simp only [BufCall.toCall, BufCall.plain, window_eq_chunk b h]
    | write b n err => simp only [BufCall.toCall, BufCall.plain, window_eq_chunk b h]
    | close err => rfl
    | timers => rfl
  rw [this]
  exact ⟨rfl, rfl⟩

open ConfModel.CallerBuf in
/-- … and after every call the caller finds in its whole array (in front of the window, in it,
beyond `n`, in the capacity region) what the inner connection / it itself had put there, next to
the inner connection's own `(n, err)` -/
theorem caller_array_untouched (b : BCall) (h : b.fits) (err : IOErr) :
    (BufCall.read b err).callerSees = b.before.take b.off ++ b.chunk ++ b.before.drop (b.off + b.chunk.length) ∧
    (BufCall.read b err).callerSees.length = b.before.length ∧
    Conn.result (BufCall.read b err).plain.inner = (b.chunk.length, err, b.chunk) :=
  ⟨rfl, array_length b h, rfl⟩

open ConfModel.CallerBuf in
/-- non-vacuity: the second `Read` lands where the first one's header fragment was; the array
was refilled with 0xEE in between -/
example :
    (⟨[0xA5, 0xA5, 0xA5, 0xA5, 0xA5, 0xA5], 1, [0, 0, 4]⟩ : BCall).fits ∧
    (⟨[0xEE, 0xEE, 0xEE, 0xEE, 0xEE, 0xEE], 0, [8, 0, 0, 0, 0, 1]⟩ : BCall).fits ∧
    (BufCall.read ⟨[0xA5, 0xA5, 0xA5, 0xA5, 0xA5, 0xA5], 1, [0, 0, 4]⟩ .ok).toCall = .read [0, 0, 4] .ok ∧
    (BufCall.read ⟨[0xEE, 0xEE, 0xEE, 0xEE, 0xEE, 0xEE], 0, [8, 0, 0, 0, 0, 1]⟩ .ok).toCall = .read [8, 0, 0, 0, 0, 1] .ok ∧
    (BufCall.read ⟨[0xA5, 0xA5, 0xA5, 0xA5, 0xA5, 0xA5], 1, [0, 0, 4]⟩ .ok).callerSees = [0xA5, 0, 0, 4, 0xA5, 0xA5] := by
  decide

end ConfModel.Props.C15
