/-
Helper lemmas for property C07, third part: the modelled `path.Join` on clean components, and
when full names identify (suite, open-axes projection of the case, test).
-/
import ConfModel.Lemmas.LibraryAccept
namespace ConfModel.Library
open ConfModel.Config

/-! ### split / join on '/' -/

theorem splitSlash_ne_nil : ∀ s : List Char, splitSlash s ≠ []
  | [] => by simp [splitSlash]
  | c :: cs => by
    unfold splitSlash
    split
    · simp
    · split <;> simp

theorem splitSlash_cons_of_ne (c : Char) (cs : List Char) (h : c ≠ '/') :
    ∃ seg rest, splitSlash cs = seg :: rest ∧ splitSlash (c :: cs) = (c :: seg) :: rest := by
  cases hs : splitSlash cs with
  | nil => exact absurd hs (splitSlash_ne_nil cs)
  | cons seg rest =>
    refine ⟨seg, rest, rfl, ?_⟩
    rw [splitSlash, if_neg h, hs]

theorem joinSlash_cons_cons (a b : List Char) (rest : List (List Char)) :
    joinSlash (a :: b :: rest) = a ++ '/' :: joinSlash (b :: rest) := rfl

theorem joinSlash_cons_of_ne_nil (a : List Char) (m : List (List Char)) (h : m ≠ []) :
    joinSlash (a :: m) = a ++ '/' :: joinSlash m := by
  cases m with
  | nil => exact absurd rfl h
  | cons b rest => rfl

/-- `strings.Join(strings.Split(s, "/"), "/") = s` -/
theorem joinSlash_splitSlash : ∀ s : List Char, joinSlash (splitSlash s) = s
  | [] => by simp [splitSlash, joinSlash]
  | c :: cs => by
    by_cases h : c = '/'
    · subst h
      rw [splitSlash, if_pos rfl, joinSlash_cons_of_ne_nil _ _ (splitSlash_ne_nil cs), joinSlash_splitSlash cs]
      rfl
    · obtain ⟨seg, rest, h1, h2⟩ := splitSlash_cons_of_ne c cs h
      have ih := joinSlash_splitSlash cs
      rw [h1] at ih
      rw [h2]
      cases rest with
      | nil => simp only [joinSlash] at ih ⊢; rw [ih]
      | cons b rest => rw [joinSlash_cons_cons] at ih ⊢; rw [← ih]; rfl

theorem not_slash_mem_splitSlash : ∀ (s : List Char), ∀ seg ∈ splitSlash s, '/' ∉ seg
  | [] => by simp [splitSlash]
  | c :: cs => by
    have ih := not_slash_mem_splitSlash cs
    by_cases h : c = '/'
    · subst h
      rw [splitSlash, if_pos rfl]
      intro seg hseg
      rcases List.mem_cons.1 hseg with rfl | hseg
      · simp
      · exact ih seg hseg
    · obtain ⟨seg0, rest, h1, h2⟩ := splitSlash_cons_of_ne c cs h
      rw [h1] at ih
      rw [h2]
      intro seg hseg
      rcases List.mem_cons.1 hseg with rfl | hseg
      · intro hm
        rcases List.mem_cons.1 hm with e | hm
        · exact h e.symm
        · exact ih seg0 List.mem_cons_self hm
      · exact ih seg (List.mem_cons_of_mem _ hseg)

theorem splitSlash_append_slash (a : List Char) (h : '/' ∉ a) (m : List Char) :
    splitSlash (a ++ '/' :: m) = a :: splitSlash m := by
  induction a with
  | nil => simp [splitSlash]
  | cons c a ih =>
    have hc : c ≠ '/' := fun e => h (by rw [e]; exact List.mem_cons_self)
    have ha : '/' ∉ a := fun hm => h (List.mem_cons_of_mem _ hm)
    rw [List.cons_append, splitSlash, if_neg hc, ih ha]

theorem splitSlash_of_no_slash (a : List Char) (h : '/' ∉ a) : splitSlash a = [a] := by
  induction a with
  | nil => simp [splitSlash]
  | cons c a ih =>
    have hc : c ≠ '/' := fun e => h (by rw [e]; exact List.mem_cons_self)
    have ha : '/' ∉ a := fun hm => h (List.mem_cons_of_mem _ hm)
    rw [splitSlash, if_neg hc, ih ha]

/-- `strings.Split(strings.Join(segs, "/"), "/") = segs` when no segment contains a slash -/
theorem splitSlash_joinSlash : ∀ (segs : List (List Char)), segs ≠ [] → (∀ seg ∈ segs, '/' ∉ seg) →
    splitSlash (joinSlash segs) = segs
  | [], h, _ => absurd rfl h
  | [a], _, h => by
    simp only [joinSlash]
    exact splitSlash_of_no_slash a (h a List.mem_cons_self)
  | a :: b :: rest, _, h => by
    rw [joinSlash_cons_cons, splitSlash_append_slash a (h a List.mem_cons_self),
      splitSlash_joinSlash (b :: rest) (by simp) (fun seg hs => h seg (List.mem_cons_of_mem _ hs))]

theorem joinSlash_append : ∀ (a m : List (List Char)), a ≠ [] → m ≠ [] →
    joinSlash (a ++ m) = joinSlash a ++ '/' :: joinSlash m
  | [], _, h, _ => absurd rfl h
  | [x], m, _, hm => by
    simp only [List.singleton_append, joinSlash]
    exact joinSlash_cons_of_ne_nil x m hm
  | x :: y :: rest, m, _, hm => by
    rw [List.cons_append, joinSlash_cons_of_ne_nil x _ (by simp), joinSlash_append (y :: rest) m (by simp) hm,
      joinSlash_cons_cons]
    simp

/-- joining the joined pieces = joining all the segments -/
theorem joinSlash_map_joinSlash : ∀ (ls : List (List (List Char))), (∀ l ∈ ls, l ≠ []) →
    joinSlash (ls.map joinSlash) = joinSlash ls.flatten
  | [], _ => by simp [joinSlash]
  | [a], _ => by simp [joinSlash]
  | a :: b :: rest, h => by
    have ha : a ≠ [] := h a List.mem_cons_self
    have hb : b ≠ [] := h b (List.mem_cons_of_mem _ List.mem_cons_self)
    have hne : (b :: rest).flatten ≠ [] := by
      intro e
      rw [List.flatten_cons] at e
      exact hb (List.append_eq_nil_iff.1 e).1
    have e : (a :: b :: rest).flatten = a ++ (b :: rest).flatten := List.flatten_cons
    rw [e, joinSlash_append a _ ha hne, List.map_cons, List.map_cons, joinSlash_cons_cons, ← List.map_cons,
      joinSlash_map_joinSlash (b :: rest) (fun l hl => h l (List.mem_cons_of_mem _ hl))]

/-! ### path.Clean / path.Join on clean segments -/

theorem cleanComps_clean (rooted : Bool) : ∀ (segs stack : List (List Char)), (∀ seg ∈ segs, CleanSeg seg) →
    cleanComps rooted stack segs = stack.reverse ++ segs
  | [], stack, _ => by simp [cleanComps]
  | c :: cs, stack, h => by
    obtain ⟨h1, h2, h3⟩ := h c List.mem_cons_self
    have n1 : ¬ (c = [] ∨ c = ['.']) := fun x => x.elim h1 h2
    have ih := cleanComps_clean rooted cs (c :: stack) (fun seg hs => h seg (List.mem_cons_of_mem _ hs))
    simp only [cleanComps, n1, h3, if_false]
    rw [ih]
    simp

theorem joinSlash_ne_nil (a : List Char) (rest : List (List Char)) (h : a ≠ []) : joinSlash (a :: rest) ≠ [] := by
  cases rest with
  | nil => simpa [joinSlash] using h
  | cons b rest => rw [joinSlash_cons_cons]; simp [h]

theorem head_joinSlash (a : List Char) (rest : List (List Char)) (h : a ≠ []) :
    (joinSlash (a :: rest)).head? = a.head? := by
  cases a with
  | nil => exact absurd rfl h
  | cons x xs =>
    cases rest with
    | nil => rfl
    | cons b rest => rw [joinSlash_cons_cons]; rfl

/-- `path.Clean` leaves a path of clean segments alone -/
theorem pathCleanL_clean (segs : List (List Char)) (hne : segs ≠ [])
    (h1 : ∀ seg ∈ segs, CleanSeg seg) (h2 : ∀ seg ∈ segs, '/' ∉ seg) :
    pathCleanL (joinSlash segs) = joinSlash segs := by
  cases segs with
  | nil => exact absurd rfl hne
  | cons a rest =>
    have ha : a ≠ [] := (h1 a List.mem_cons_self).1
    have hnn := joinSlash_ne_nil a rest ha
    have hroot : ¬ ((joinSlash (a :: rest)).head? = some '/') := by
      rw [head_joinSlash a rest ha]
      intro e
      cases a with
      | nil => exact ha rfl
      | cons x xs =>
        simp only [List.head?_cons, Option.some.injEq] at e
        exact h2 (x :: xs) List.mem_cons_self (by rw [e]; exact List.mem_cons_self)
    have e : cleanComps false [] (splitSlash (joinSlash (a :: rest))) = a :: rest := by
      rw [splitSlash_joinSlash _ hne h2, cleanComps_clean false _ [] h1]; simp
    simp only [pathCleanL, hnn, hroot, decide_false, if_false, e]

/-- components every segment of which is clean -/
def CleanComp (x : List Char) : Prop := ∀ seg ∈ splitSlash x, CleanSeg seg

theorem cleanComp_ne_nil (x : List Char) (h : CleanComp x) : x ≠ [] := by
  intro e; subst e
  exact (h [] (by simp [splitSlash])).1 rfl

/-- `path.Join` of clean components: the segments of the components, joined -/
theorem pathJoinL_clean (comps : List (List Char)) (hne : comps ≠ []) (h : ∀ x ∈ comps, CleanComp x) :
    pathJoinL comps = joinSlash (comps.flatMap splitSlash) := by
  have hf : comps.filter (fun e => e ≠ []) = comps := by
    apply List.filter_eq_self.2
    intro x hx
    simpa using cleanComp_ne_nil x (h x hx)
  unfold pathJoinL
  simp only [hf]
  have hemp : ¬ (comps.isEmpty = true) := fun e => hne (List.isEmpty_iff.1 e)
  rw [if_neg hemp]
  have e1 : joinSlash comps = joinSlash (comps.flatMap splitSlash) := by
    have : comps = (comps.map splitSlash).map joinSlash := by
      rw [List.map_map]
      conv => lhs; rw [← List.map_id comps]
      apply List.map_congr_left
      intro x _
      simp [joinSlash_splitSlash]
    conv => lhs; rw [this]
    rw [joinSlash_map_joinSlash _ (by
      intro l hl
      obtain ⟨x, _, rfl⟩ := List.mem_map.1 hl
      exact splitSlash_ne_nil x)]
    rw [List.flatMap_def]
  rw [e1]
  apply pathCleanL_clean
  · cases comps with
    | nil => exact absurd rfl hne
    | cons x xs =>
      rw [List.flatMap_cons]
      intro e
      exact splitSlash_ne_nil x (List.append_eq_nil_iff.1 e).1
  · intro seg hs
    obtain ⟨x, hx, hseg⟩ := List.mem_flatMap.1 hs
    exact h x hx seg hseg
  · intro seg hs
    obtain ⟨x, _, hseg⟩ := List.mem_flatMap.1 hs
    exact not_slash_mem_splitSlash x seg hseg

/-- **The segments of a joined name are the segments of its (clean) components, in order.** -/
theorem segments_pathJoin (comps : List String) (hne : comps ≠ []) (h : ∀ x ∈ comps, CleanName x) :
    segments (pathJoin comps) = comps.flatMap segments := by
  unfold segments pathJoin
  rw [String.toList_ofList, pathJoinL_clean (comps.map String.toList) (by simpa using hne) (by
    intro x hx
    obtain ⟨y, hy, rfl⟩ := List.mem_map.1 hx
    exact h y hy)]
  rw [splitSlash_joinSlash]
  · simp [List.flatMap_map]
  · cases comps with
    | nil => exact absurd rfl hne
    | cons x xs =>
      rw [List.map_cons, List.flatMap_cons]
      intro e
      exact splitSlash_ne_nil _ (List.append_eq_nil_iff.1 e).1
  · intro seg hs
    obtain ⟨x, _, hseg⟩ := List.mem_flatMap.1 hs
    exact not_slash_mem_splitSlash x seg hseg

/-- a name is determined by its segments -/
theorem eq_of_segments_eq (x y : String) (h : segments x = segments y) : x = y := by
  unfold segments at h
  have := congrArg joinSlash h
  rw [joinSlash_splitSlash, joinSlash_splitSlash] at this
  exact String.toList_inj.1 this

/-! ### the name components -/

theorem openAxes_eq (s : Suite) (c : Case) :
    openAxes s c =
      (if s.versions.length ≠ 1 then ["HTTPVersion:" ++ toString c.v.num] else []) ++
      (if s.protocols.length ≠ 1 then ["Protocol:" ++ c.p.str] else []) ++
      (if s.codecs.length ≠ 1 then ["Codec:" ++ c.c.str] else []) ++
      (if s.comps.length ≠ 1 then ["Compression:" ++ c.z.str] else []) ++
      (if s.reliesOnTls = false then ["TLS:" ++ boolStr c.tls] else []) := by
  have := namePrefix_eq s c
  unfold namePrefix at this
  simp only [List.cons_append, List.nil_append, List.cons.injEq, true_and] at this
  rw [← this]

/-- an axis component is one clean segment -/
def OneSeg (a : String) : Prop := segments a = [a.toList] ∧ CleanSeg a.toList

instance (a : String) : Decidable (OneSeg a) := by unfold OneSeg; infer_instance

theorem oneSeg_ver (v : Ver) : OneSeg ("HTTPVersion:" ++ toString v.num) := by cases v <;> decide
theorem oneSeg_proto (p : Proto) : OneSeg ("Protocol:" ++ p.str) := by cases p <;> decide
theorem oneSeg_codec (c : Codec) : OneSeg ("Codec:" ++ c.str) := by cases c <;> decide
theorem oneSeg_comp (z : Comp) : OneSeg ("Compression:" ++ z.str) := by cases z <;> decide
theorem oneSeg_tls (b : Bool) : OneSeg ("TLS:" ++ boolStr b) := by cases b <;> decide

theorem eq_of_mem_ifSingleton {p : Prop} [Decidable p] {x a : String} (h : a ∈ (if p then [x] else [])) : a = x := by
  split at h
  · exact List.mem_singleton.1 h
  · cases h

theorem oneSeg_openAxes (s : Suite) (c : Case) : ∀ a ∈ openAxes s c, OneSeg a := by
  intro a ha
  rw [openAxes_eq] at ha
  simp only [List.mem_append] at ha
  rcases ha with (((ha | ha) | ha) | ha) | ha
  · rw [eq_of_mem_ifSingleton ha]; exact oneSeg_ver _
  · rw [eq_of_mem_ifSingleton ha]; exact oneSeg_proto _
  · rw [eq_of_mem_ifSingleton ha]; exact oneSeg_codec _
  · rw [eq_of_mem_ifSingleton ha]; exact oneSeg_comp _
  · rw [eq_of_mem_ifSingleton ha]; exact oneSeg_tls _

theorem openAxes_length (s : Suite) (c₁ c₂ : Case) : (openAxes s c₁).length = (openAxes s c₂).length := by
  rw [openAxes_eq, openAxes_eq]
  simp only [List.length_append]
  by_cases h1 : s.versions.length = 1 <;> by_cases h2 : s.protocols.length = 1 <;>
  by_cases h3 : s.codecs.length = 1 <;> by_cases h4 : s.comps.length = 1 <;>
  cases h5 : s.reliesOnTls <;> simp [h1, h2, h3, h4]

theorem flatMap_segments_axes (l : List String) (h : ∀ a ∈ l, OneSeg a) :
    l.flatMap segments = l.map String.toList := by
  induction l with
  | nil => rfl
  | cons a l ih =>
    rw [List.flatMap_cons, List.map_cons, (h a List.mem_cons_self).1,
      ih (fun b hb => h b (List.mem_cons_of_mem _ hb))]
    rfl

theorem cleanName_of_oneSeg (a : String) (h : OneSeg a) : CleanName a := by
  intro seg hs
  rw [h.1, List.mem_singleton] at hs
  subst hs; exact h.2

/-- the segments of a full name: the suite's, one per open axis, the test's -/
theorem segments_specName (s : Suite) (c : Case) (t : Test) (hs : CleanName s.name) (ht : CleanName t.name) :
    segments (specName pathJoin s c t) =
      segments s.name ++ (openAxes s c).map String.toList ++ segments t.name := by
  unfold specName
  rw [segments_pathJoin _ (by simp)]
  · rw [List.flatMap_append, List.flatMap_append, List.flatMap_singleton, List.flatMap_singleton,
      flatMap_segments_axes _ (oneSeg_openAxes s c)]
  · intro x hx
    simp only [List.mem_append, List.mem_singleton] at hx
    rcases hx with (rfl | hx) | rfl
    · exact hs
    · exact cleanName_of_oneSeg x (oneSeg_openAxes s c x hx)
    · exact ht

/-- the name `expandCases` builds is the specified name -/
theorem mkPerm_fullName (s : Suite) (c : Case) (t : Test) :
    (mkPerm pathJoin s c (namePrefix s c) t).fullName = specName pathJoin s c t := by
  unfold mkPerm specName
  simp only
  rw [namePrefix_eq, List.cons_append, pathJoin_cons_empty]
  rfl

/-- **Full names identify definitions** (one suite): equal names ⇒ the same open-axes projection
of the case and the same test name. -/
theorem specName_inj_same (s : Suite) (c₁ c₂ : Case) (t₁ t₂ : Test)
    (hs : CleanName s.name) (h1 : CleanName t₁.name) (h2 : CleanName t₂.name)
    (h : specName pathJoin s c₁ t₁ = specName pathJoin s c₂ t₂) :
    openAxes s c₁ = openAxes s c₂ ∧ t₁.name = t₂.name := by
  have e := congrArg segments h
  rw [segments_specName s c₁ t₁ hs h1, segments_specName s c₂ t₂ hs h2, List.append_assoc, List.append_assoc] at e
  have e' := List.append_cancel_left e
  obtain ⟨ea, et⟩ := List.append_inj e' (by simp [openAxes_length s c₁ c₂])
  exact ⟨(List.map_inj_right (fun x y hxy => String.toList_inj.1 hxy)).1 ea, eq_of_segments_eq _ _ et⟩

/-- equal names ⇒ one suite name is a segment-wise prefix of the other -/
theorem specName_prefix (s₁ s₂ : Suite) (c₁ c₂ : Case) (t₁ t₂ : Test)
    (hs1 : CleanName s₁.name) (hs2 : CleanName s₂.name) (h1 : CleanName t₁.name) (h2 : CleanName t₂.name)
    (h : specName pathJoin s₁ c₁ t₁ = specName pathJoin s₂ c₂ t₂) :
    segments s₁.name <+: segments s₂.name ∨ segments s₂.name <+: segments s₁.name := by
  have e := congrArg segments h
  rw [segments_specName s₁ c₁ t₁ hs1 h1, segments_specName s₂ c₂ t₂ hs2 h2, List.append_assoc, List.append_assoc] at e
  apply List.prefix_or_prefix_of_prefix (l₃ := segments s₁.name ++ ((openAxes s₁ c₁).map String.toList ++ segments t₁.name))
  · exact List.prefix_append _ _
  · rw [e]; exact List.prefix_append _ _

/-- **Full names identify definitions**: with clean names, no suite name a segment-wise proper
prefix of another and suites named distinctly, equal full names come from the same suite, the
same open-axes projection of the config case and the same test name. -/
theorem specName_inj (suites : List Suite) (hn : NamesClean suites) (hd : (suites.map (·.name)).Nodup)
    (s₁ : Suite) (hs₁ : s₁ ∈ suites) (s₂ : Suite) (hs₂ : s₂ ∈ suites) (c₁ c₂ : Case)
    (t₁ : Test) (ht₁ : t₁ ∈ s₁.tests) (t₂ : Test) (ht₂ : t₂ ∈ s₂.tests)
    (h : specName pathJoin s₁ c₁ t₁ = specName pathJoin s₂ c₂ t₂) :
    s₁ = s₂ ∧ openAxes s₁ c₁ = openAxes s₂ c₂ ∧ t₁.name = t₂.name := by
  obtain ⟨a1, b1⟩ := hn.1 s₁ hs₁
  obtain ⟨a2, b2⟩ := hn.1 s₂ hs₂
  have hname : s₁.name = s₂.name := by
    rcases specName_prefix s₁ s₂ c₁ c₂ t₁ t₂ a1 a2 (b1 t₁ ht₁) (b2 t₂ ht₂) h with hp | hp
    · exact hn.2 s₁ hs₁ s₂ hs₂ hp
    · exact (hn.2 s₂ hs₂ s₁ hs₁ hp).symm
  have hs : s₁ = s₂ := nodup_map_inj (fun x : Suite => x.name) suites hd s₁ hs₁ s₂ hs₂ hname
  subst hs
  exact ⟨rfl, specName_inj_same s₁ c₁ c₂ t₁ t₂ a1 (b1 t₁ ht₁) (b1 t₂ ht₂) h⟩


/-! ### the open axes and the pinned axes determine the config case -/

theorem ver_axis_inj (a b : Ver) (h : "HTTPVersion:" ++ toString a.num = "HTTPVersion:" ++ toString b.num) : a = b := by
  cases a <;> cases b <;> first | rfl | (revert h; decide)
theorem proto_axis_inj (a b : Proto) (h : "Protocol:" ++ a.str = "Protocol:" ++ b.str) : a = b := by
  cases a <;> cases b <;> first | rfl | (revert h; decide)
theorem codec_axis_inj (a b : Codec) (h : "Codec:" ++ a.str = "Codec:" ++ b.str) : a = b := by
  cases a <;> cases b <;> first | rfl | (revert h; decide)
theorem comp_axis_inj (a b : Comp) (h : "Compression:" ++ a.str = "Compression:" ++ b.str) : a = b := by
  cases a <;> cases b <;> first | rfl | (revert h; decide)
theorem tls_axis_inj (a b : Bool) (h : "TLS:" ++ boolStr a = "TLS:" ++ boolStr b) : a = b := by
  cases a <;> cases b <;> first | rfl | (revert h; decide)

theorem ifSingleton_append_inj {p : Prop} [Decidable p] {x y : String} {r₁ r₂ : List String}
    (h : (if p then [x] else []) ++ r₁ = (if p then [y] else []) ++ r₂) : (p → x = y) ∧ r₁ = r₂ := by
  by_cases hp : p
  · simp only [hp, if_true, List.singleton_append, List.cons.injEq] at h
    exact ⟨fun _ => h.1, h.2⟩
  · simp only [hp, if_false, List.nil_append] at h
    exact ⟨fun x => absurd x hp, h⟩

theorem axes_components (s : Suite) (c₁ c₂ : Case) (h : openAxes s c₁ = openAxes s c₂) :
    (s.versions.length ≠ 1 → c₁.v = c₂.v) ∧ (s.protocols.length ≠ 1 → c₁.p = c₂.p) ∧
    (s.codecs.length ≠ 1 → c₁.c = c₂.c) ∧ (s.comps.length ≠ 1 → c₁.z = c₂.z) ∧
    (s.reliesOnTls = false → c₁.tls = c₂.tls) := by
  rw [openAxes_eq, openAxes_eq] at h
  simp only [List.append_assoc] at h
  obtain ⟨a1, h⟩ := ifSingleton_append_inj h
  obtain ⟨a2, h⟩ := ifSingleton_append_inj h
  obtain ⟨a3, h⟩ := ifSingleton_append_inj h
  obtain ⟨a4, h⟩ := ifSingleton_append_inj h
  obtain ⟨a5, _⟩ := ifSingleton_append_inj (r₁ := []) (r₂ := []) (by simpa using h)
  exact ⟨fun x => ver_axis_inj _ _ (a1 x), fun x => proto_axis_inj _ _ (a2 x), fun x => codec_axis_inj _ _ (a3 x),
    fun x => comp_axis_inj _ _ (a4 x), fun x => tls_axis_inj _ _ (a5 x)⟩

theorem relevant_single {α} (l all : List α) (x y : α) (hl : l.length = 1)
    (hx : Relevant l all x) (hy : Relevant l all y) : x = y := by
  match l, hl with
  | [a], _ =>
    unfold Relevant at hx hy
    simp only [List.cons_ne_nil, if_false, List.mem_singleton] at hx hy
    rw [hx, hy]

/-- two config cases a suite looks up, of the same stream type, with the same open-axes
projection are the same case -/
theorem case_eq_of_axes (s : Suite) (c₁ c₂ : Case) (h1 : c₁ ∈ suiteCases s) (h2 : c₂ ∈ suiteCases s)
    (hst : c₁.s = c₂.s) (h : openAxes s c₁ = openAxes s c₂) : c₁ = c₂ := by
  obtain ⟨p1, v1, k1, z1, t1, f1, g1, l1, m1, _⟩ := (mem_suiteCases s c₁).1 h1
  obtain ⟨p2, v2, k2, z2, t2, f2, g2, l2, m2, _⟩ := (mem_suiteCases s c₂).1 h2
  obtain ⟨av, ap, ac, az, at'⟩ := axes_components s c₁ c₂ h
  have ev : c₁.v = c₂.v := by
    by_cases hl : s.versions.length = 1
    · exact relevant_single _ _ _ _ hl v1 v2
    · exact av hl
  have ep : c₁.p = c₂.p := by
    by_cases hl : s.protocols.length = 1
    · exact relevant_single _ _ _ _ hl p1 p2
    · exact ap hl
  have ec : c₁.c = c₂.c := by
    by_cases hl : s.codecs.length = 1
    · exact relevant_single _ _ _ _ hl k1 k2
    · exact ac hl
  have ez : c₁.z = c₂.z := by
    by_cases hl : s.comps.length = 1
    · exact relevant_single _ _ _ _ hl z1 z2
    · exact az hl
  have et : c₁.tls = c₂.tls := by
    cases hr : s.reliesOnTls
    · exact at' hr
    · rw [t1 hr, t2 hr]
  obtain ⟨v, p, c, z, st, tls, certs, get, limit, cvm⟩ := c₁
  obtain ⟨v', p', c', z', st', tls', certs', get', limit', cvm'⟩ := c₂
  simp only at ev ep ec ez et hst f1 f2 g1 g2 l1 l2 m1 m2
  subst ev ep ec ez et hst
  rw [f1, f2, g1, g2, l1, l2, m1, m2]

/-! ### without duplicated definitions, all inserted names differ -/

/-- every case a suite taking part looks up in the set and that carries a permutation has its
values listed once in the relevant lists -/
def LookupNoRepeat (inCases : Case → Bool) (mode : Mode) (suites : List Suite) : Prop :=
  ∀ s ∈ suites, ModeAdmits s mode → ∀ c ∈ suiteCases s, inCases c = true →
    (∃ t ∈ s.tests, t.st = c.s) → NoRepeat s c

theorem names_allPerms_nodup (suites : List Suite) (inCases : Case → Bool) (mode : Mode)
    (hn : NamesClean suites) (hd : DefinitionsDistinct suites) (hr : LookupNoRepeat inCases mode suites) :
    (names (allPerms pathJoin inCases mode suites)).Nodup := by
  have hE : (allPerms pathJoin inCases mode suites).Nodup := by
    apply allPerms_nodup _ _ _ _ hd.1
    intro s hs hadm c hc1 hc2
    refine ⟨?_, fun hex => count_suiteCases_le_one s c (hr s hs hadm c hc1 hc2 hex)⟩
    unfold casePerms
    apply nodup_map_of_inj_on
    · exact List.Pairwise.filter _ (nodup_of_nodup_map _ _ (hd.2 s hs))
    · intro a _ b _ hab
      have := congrArg Perm.test hab
      simpa [mkPerm] using this
  apply nodup_map_of_inj_on _ _ hE
  intro a ha b hb hab
  obtain ⟨s₁, hs₁, _, c₁, hc₁, _, t₁, ht₁, hst₁, rfl⟩ := (mem_allPerms _ _ _ _ _).1 ha
  obtain ⟨s₂, hs₂, _, c₂, hc₂, _, t₂, ht₂, hst₂, rfl⟩ := (mem_allPerms _ _ _ _ _).1 hb
  rw [mkPerm_fullName, mkPerm_fullName] at hab
  obtain ⟨es, ea, et⟩ := specName_inj suites hn hd.1 s₁ hs₁ s₂ hs₂ c₁ c₂ t₁ ht₁ t₂ ht₂ hab
  subst es
  have et' : t₁ = t₂ := nodup_map_inj (fun x : Test => x.name) s₁.tests (hd.2 s₁ hs₁) t₁ ht₁ t₂ ht₂ et
  subst et'
  have ec : c₁ = c₂ := case_eq_of_axes s₁ c₁ c₂ hc₁ hc₂ (by rw [← hst₁, ← hst₂]) ea
  subst ec
  rfl

/-! ### the "duplicate definition" error means two insertions share a name -/

theorem expandCases_dup (join : List String → String) (s : Suite) (c : Case) (pre : List String) (ts : List Test) :
    ∀ (i : Nat) (acc : List Perm) (n : String), expandCases join s c pre ts i acc = .error (.duplicateName n) →
      ¬ (names ((casePerms join s c pre ts).reverse ++ acc)).Nodup := by
  induction ts with
  | nil => intro i acc n h; simp only [expandCases] at h; cases h
  | cons t ts ih =>
    intro i acc n h
    unfold expandCases at h
    split at h
    · cases h
    split at h
    · cases h
    split at h
    · rename_i h3
      rw [casePerms_cons, if_neg h3]; exact ih _ _ _ h
    rename_i h3
    split at h
    · cases h
    split at h
    · cases h
    have h3' : t.st = c.s := Decidable.of_not_not h3
    have e : (mkPerm join s c pre t :: casePerms join s c pre ts).reverse ++ acc =
        (casePerms join s c pre ts).reverse ++ (mkPerm join s c pre t :: acc) := by simp
    rw [casePerms_cons, if_pos h3', e]
    simp only at h
    split at h
    · rename_i hany
      intro hnd
      simp only [List.any_eq_true, decide_eq_true_eq] at hany
      obtain ⟨q, hq, hqn⟩ := hany
      simp only [names, List.map_append, List.map_cons] at hnd
      have h' := (List.nodup_append.1 hnd).2.1
      rw [List.nodup_cons] at h'
      exact h'.1 (List.mem_map.2 ⟨q, hq, hqn⟩)
    · exact ih _ _ _ h

theorem not_nodup_of_suffix {α} (x y : List α) (h : ¬ y.Nodup) : ¬ (x ++ y).Nodup :=
  fun hnd => h (List.nodup_append.1 hnd).2.1

theorem expandAll_dup (join : List String → String) (s : Suite) (cs : List Case) :
    ∀ (acc : List Perm) (n : String), expandAll join s cs acc = .error (.duplicateName n) →
      ¬ (names ((suitePerms join s cs).reverse ++ acc)).Nodup := by
  induction cs with
  | nil => intro acc n h; simp only [expandAll] at h; cases h
  | cons c cs ih =>
    intro acc n h
    have e : (suitePerms join s (c :: cs)).reverse ++ acc =
        (suitePerms join s cs).reverse ++ ((casePerms join s c (namePrefix s c) s.tests).reverse ++ acc) := by
      simp [suitePerms]
    rw [e]
    unfold expandAll at h
    split at h
    · rename_i e' h1
      injection h with h; subst h
      have := expandCases_dup join s c _ _ _ _ _ h1
      simp only [names, List.map_append] at this ⊢
      exact not_nodup_of_suffix _ _ this
    · rename_i acc' h1
      rw [← expandCases_exact join s c _ _ _ _ _ h1]
      exact ih _ _ h

theorem expandSuites_dup (join : List String → String) (inCases : Case → Bool) (mode : Mode) (ss : List Suite) :
    ∀ (seen : List String) (acc : List Perm) (n : String),
      expandSuites join inCases mode ss seen acc = .error (.duplicateName n) →
      ¬ (names ((allPerms join inCases mode ss).reverse ++ acc)).Nodup := by
  induction ss with
  | nil => intro seen acc n h; simp only [expandSuites] at h; cases h
  | cons s ss ih =>
    intro seen acc n h
    unfold expandSuites at h
    split at h
    · cases h
    split at h
    · cases h
    split at h
    · cases h
    rw [allPerms_cons]
    split at h
    · rename_i h4
      have hnot : ¬ ModeAdmits s mode := fun hx => (modeAdmits_iff s mode).1 hx h4
      rw [if_neg hnot]
      simp only [List.nil_append]
      exact ih _ _ _ h
    · rename_i h4
      have hadm : ModeAdmits s mode := (modeAdmits_iff s mode).2 h4
      rw [if_pos hadm]
      have e : (suitePerms join s ((suiteCases s).filter inCases) ++ allPerms join inCases mode ss).reverse ++ acc =
          (allPerms join inCases mode ss).reverse ++ ((suitePerms join s ((suiteCases s).filter inCases)).reverse ++ acc) := by
        simp
      rw [e]
      split at h
      · rename_i e' h5
        injection h with h; subst h
        unfold expandSuite at h5
        split at h5
        · cases h5
        have := expandAll_dup join s _ _ _ h5
        simp only [names, List.map_append] at this ⊢
        exact not_nodup_of_suffix _ _ this
      · rename_i acc' h5
        unfold expandSuite at h5
        split at h5
        · cases h5
        rw [← expandAll_exact join s _ _ _ h5]
        exact ih _ _ _ h

/-- a "duplicate definition" error means two of the insertions share a name -/
theorem newLibrary_dup (join : List String → String) (suites : List Suite) (inCases : Case → Bool) (mode : Mode)
    (n : String) (h : newLibrary join suites inCases mode = .error (.duplicateName n)) :
    ¬ (names (allPerms join inCases mode suites)).Nodup := by
  unfold newLibrary at h
  split at h
  · rename_i e h1
    injection h with h; subst h
    have := expandSuites_dup join inCases mode suites _ _ _ h1
    intro hnd
    apply this
    simp only [List.append_nil, names, List.map_reverse]
    exact (nodup_reverse_iff _).2 hnd
  · split at h <;> cases h


/-- with clean names and no duplicated definition, no two specified permutations share a name -/
theorem names_specList_nodup (suites : List Suite) (cases : List Case) (mode : Mode)
    (hn : NamesClean suites) (hd : DefinitionsDistinct suites) (hc : cases.Nodup) :
    ((specList pathJoin suites cases mode).map (·.fullName)).Nodup := by
  have hsl : (specList pathJoin suites cases mode).Nodup := by
    apply specList_nodup _ _ _ _ hd.1 hc
    intro s hs c _ _
    apply nodup_map_of_inj_on
    · exact List.Pairwise.filter _ (nodup_of_nodup_map _ _ (hd.2 s hs))
    · intro a _ b _ hab
      have := congrArg Perm.test hab
      simpa [specPerm] using this
  apply nodup_map_of_inj_on _ _ hsl
  intro a ha b hb hab
  obtain ⟨s₁, hs₁, c₁, _, ha₁, t₁, ht₁, hst₁, rfl⟩ := (mem_specList _ _ _ _ _).1 ha
  obtain ⟨s₂, hs₂, c₂, _, ha₂, t₂, ht₂, hst₂, rfl⟩ := (mem_specList _ _ _ _ _).1 hb
  have hab' : specName pathJoin s₁ c₁ t₁ = specName pathJoin s₂ c₂ t₂ := hab
  obtain ⟨es, ea, et⟩ := specName_inj suites hn hd.1 s₁ hs₁ s₂ hs₂ c₁ c₂ t₁ ht₁ t₂ ht₂ hab'
  subst es
  have et' : t₁ = t₂ := nodup_map_inj (fun x : Test => x.name) s₁.tests (hd.2 s₁ hs₁) t₁ ht₁ t₂ ht₂ et
  subst et'
  have ec : c₁ = c₂ := case_eq_of_axes s₁ c₁ c₂ ((admits_iff _ _ _).1 ha₁).2 ((admits_iff _ _ _).1 ha₂).2
    (by rw [← hst₁, ← hst₂]) ea
  subst ec
  rfl

end ConfModel.Library
