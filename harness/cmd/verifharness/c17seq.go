package main

// C17, histories and the status range.
//
// The property speaks about *every* raw payload a process writes, so the operations here are
// sequences in one process: raw bodies written to destinations that fail at a chosen byte offset
// (a writer that takes k bytes and then refuses; net/http refusing a body for 204/304/HEAD or
// beyond a declared Content-Length; a transport that closes the request pipe after k bytes), each
// followed by further raw bodies whose bytes are compared with the model. And every status code a
// raw response may prescribe goes through the real rawResponseWriter.finish behind real net/http
// servers (HTTP/1.1 and h2c).

import (
	"context"
	"encoding/json"
	"errors"
	"fmt"
	"io"
	"net/http"
	"net/http/httptrace"
	"net/textproto"
	"os"
	"runtime"
	"strconv"
	"strings"
	"sync"
	"time"

	"connectrpc.com/conformance/internal"
	"connectrpc.com/conformance/internal/app/referenceclient"
	"connectrpc.com/conformance/internal/app/referenceserver"
	conformancev1 "connectrpc.com/conformance/internal/gen/proto/go/connectrpc/conformance/v1"
	"connectrpc.com/conformance/internal/verifharness/gen"
)

func init() {
	areas["c17facts"] = runC17Facts
	gen.RegisterOp("c17", "seq", func(_ *gen.Ctx, raw json.RawMessage) any { return c17SeqRun(gen.Into[c17SeqIn](raw)) })
	gen.RegisterOp("c17", "respseq", func(_ *gen.Ctx, raw json.RawMessage) any { return c17RespSeq(gen.Into[c17RespSeqIn](raw)) })
	gen.RegisterOp("c17", "reqseq", func(_ *gen.Ctx, raw json.RawMessage) any { return c17ReqSeq(gen.Into[c17ReqSeqIn](raw)) })
	gen.RegisterOp("c17", "status", func(_ *gen.Ctx, raw json.RawMessage) any { return c17Status(gen.Into[c17StatusIn](raw)) })
}

// ---------------------------------------------------------------- seq: encoder histories

// c17SeqStep is one call of an encoder: WriteRawMessageContents(msg) if Unary, else
// WriteRawStreamContents(items); the destination takes Budget bytes in total and fails every
// write beyond that (the write that crosses the limit is cut: n < len(p) and an error); null =
// the destination never fails.
type c17SeqStep struct {
	Unary  bool        `json:"unary"`
	Msg    *c17Payload `json:"msg"`
	Items  []c17Item   `json:"items"`
	Budget *int        `json:"budget"`
}
type c17SeqIn struct {
	Steps []c17SeqStep `json:"steps"`
}
type c17SeqObs struct {
	Out string `json:"out"`
	Err bool   `json:"err"`
}
type c17SeqOut struct {
	Steps  []c17SeqObs `json:"steps"`
	Oracle []c17Enc    `json:"oracle"`
}

var errC17Budget = errors.New("destination full")

type c17BudgetWriter struct {
	got     []byte
	limited bool
	room    int
}

func (w *c17BudgetWriter) Write(p []byte) (int, error) {
	if !w.limited {
		w.got = append(w.got, p...)
		return len(p), nil
	}
	if len(p) <= w.room {
		w.got = append(w.got, p...)
		w.room -= len(p)
		return len(p), nil
	}
	n := w.room
	w.got = append(w.got, p[:n]...)
	w.room = 0
	return n, errC17Budget
}

func c17StepPayloads(steps []c17SeqStep) []*c17Payload {
	var ps []*c17Payload
	for _, st := range steps {
		if st.Unary {
			ps = append(ps, st.Msg)
			continue
		}
		for _, it := range st.Items {
			ps = append(ps, it.Payload)
		}
	}
	return ps
}

func c17SeqRun(in c17SeqIn) c17SeqOut {
	out := c17SeqOut{Steps: []c17SeqObs{}, Oracle: c17Oracle(c17StepPayloads(in.Steps))}
	for _, st := range in.Steps {
		w := &c17BudgetWriter{}
		if st.Budget != nil {
			w.limited, w.room = true, *st.Budget
		}
		var err error
		if st.Unary {
			err = internal.WriteRawMessageContents(c17Contents(st.Msg), w)
		} else {
			err = internal.WriteRawStreamContents(c17Stream(st.Items), w)
		}
		out.Steps = append(out.Steps, c17SeqObs{Out: gen.Hex(w.got), Err: err != nil})
	}
	return out
}

// ---------------------------------------------------------------- exchanges with the raw responder behind real net/http

type c17Seen struct {
	Err    string `json:"err"` // "" | do (no response) | read (response, body cut short)
	Info   []int  `json:"info"`
	Status int    `json:"status"`
	Body   string `json:"body"`
}

// c17Exchange: one request to the raw responder (a handler that sets a header and chooses raw)
// over proto, read like a plain client incl. informational responses.
//
// ownConn: the exchange gets an HTTP/1.1 connection of its own (a server that has refused part of
// a body closes the connection after the response; the next request must not race with that).
func c17Exchange(proto, method string, raw *conformancev1.RawHTTPResponse, ownConn bool) c17Seen {
	c17SrvOnce.Do(c17StartServer)
	var results []string
	id := fmt.Sprint(c17Seq.Add(1))
	ops := []referenceserver.VerifC17Op{{K: "raw", Raw: raw}, {K: "w", Data: []byte("handler-body")}}
	c17Reg.Store(id, &c17Served{handler: referenceserver.VerifC17RawHandler(c17Headers([]c17Hdr{{N: "X-Handler-Set", V: []string{"h"}}}), ops, &results)})
	defer c17Reg.Delete(id)
	seen := c17Seen{Info: []int{}}
	var mu sync.Mutex
	ctx, cancel := context.WithTimeout(context.Background(), 60*time.Second)
	defer cancel()
	ctx = httptrace.WithClientTrace(ctx, &httptrace.ClientTrace{Got1xxResponse: func(code int, _ textproto.MIMEHeader) error {
		mu.Lock()
		seen.Info = append(seen.Info, code)
		mu.Unlock()
		return nil
	}})
	var body io.Reader
	if method != http.MethodHead {
		body = strings.NewReader("ignored")
	}
	req, _ := http.NewRequestWithContext(ctx, method, c17SrvURL+"/raw", body)
	req.Header.Set("X-Verif-Id", id)
	client := c17H1
	if proto == "h2c" {
		client = c17H2
	} else if ownConn {
		tr := &http.Transport{DisableCompression: true, DisableKeepAlives: true}
		defer tr.CloseIdleConnections()
		client = &http.Client{Transport: tr}
	}
	resp, err := client.Do(req)
	if err != nil {
		seen.Err = "do"
		return seen
	}
	defer resp.Body.Close()
	b, err := io.ReadAll(resp.Body)
	if err != nil {
		seen.Err = "read"
	}
	mu.Lock()
	defer mu.Unlock()
	seen.Status, seen.Body = resp.StatusCode, gen.Hex(b)
	return seen
}

// respseq: a sequence of raw responses served by one process.
type c17RespStep struct {
	Proto  string  `json:"proto"`  // h1 | h2c
	Method string  `json:"method"` // POST | HEAD
	Status uint32  `json:"status"`
	CLen   *int    `json:"clen"` // the definition lists a Content-Length header with this value
	Body   c17Body `json:"body"`
	// Stack: "" = the raw responder alone behind net/http; Unary | ClientStream | ServerStream = the
	// complete reference server (createServer), the raw response requested by that Connect RPC
	Stack string `json:"stack,omitempty"`
}
type c17RespSeqIn struct {
	Steps []c17RespStep `json:"steps"`
}
type c17RespSeqOut struct {
	Steps  []c17Seen `json:"steps"`
	Oracle []c17Enc  `json:"oracle"`
}

func c17RespSeq(in c17RespSeqIn) c17RespSeqOut {
	var ps []*c17Payload
	out := c17RespSeqOut{Steps: []c17Seen{}}
	for _, st := range in.Steps {
		ps = append(ps, c17BodyPayloads(st.Body)...)
		raw := &conformancev1.RawHTTPResponse{StatusCode: st.Status}
		if st.CLen != nil {
			raw.Headers = c17Headers([]c17Hdr{{N: "Content-Length", V: []string{strconv.Itoa(*st.CLen)}}})
		}
		c17RawBody(st.Body, raw)
		if st.Stack != "" {
			out.Steps = append(out.Steps, c17StackExchange(st, raw))
			continue
		}
		out.Steps = append(out.Steps, c17Exchange(st.Proto, st.Method, raw, st.CLen != nil))
	}
	out.Oracle = c17Oracle(ps)
	return out
}

func c17StackExchange(st c17RespStep, raw *conformancev1.RawHTTPResponse) c17Seen {
	c17SrvOnce.Do(c17StartServer) // the plain clients
	c17Real.once.Do(c17StartReal)
	seen := c17Seen{Info: []int{}}
	if c17Real.err != nil {
		seen.Err = "start"
		return seen
	}
	status, _, _, body, err := c17RawExchange(c17RawSrvIn{Proto: st.Proto, Proc: st.Stack, Codec: "proto"}, raw, "C17/raw response in a sequence")
	if err != nil && status == 0 {
		seen.Err = "do"
		return seen
	}
	if err != nil {
		seen.Err = "read"
	}
	seen.Status, seen.Body = status, gen.Hex(body)
	return seen
}

// status: one raw response with the given status code.
type c17StatusIn struct {
	Proto  string  `json:"proto"`
	Status uint32  `json:"status"`
	Body   c17Body `json:"body"`
}
type c17StatusOut struct {
	c17Seen
	Oracle []c17Enc `json:"oracle"`
}

func c17Status(in c17StatusIn) c17StatusOut {
	raw := &conformancev1.RawHTTPResponse{StatusCode: in.Status}
	c17RawBody(in.Body, raw)
	return c17StatusOut{c17Seen: c17Exchange(in.Proto, http.MethodPost, raw, in.Status < 100 || in.Status > 999), Oracle: c17Oracle(c17BodyPayloads(in.Body))}
}

// ---------------------------------------------------------------- reqseq: raw requests whose pipe is closed early

// c17ReqStep: the real rawRequestSender in front of a transport that reads Close bytes of the
// request body and then closes it (null: reads to the end).
type c17ReqStep struct {
	Body  c17Body `json:"body"`
	Close *int    `json:"close"`
}
type c17ReqSeqIn struct {
	Steps []c17ReqStep `json:"steps"`
}
type c17ReqObs struct {
	Err  string `json:"err"`
	Body string `json:"body"`
}
type c17ReqSeqOut struct {
	Steps  []c17ReqObs `json:"steps"`
	Oracle []c17Enc    `json:"oracle"`
}

type c17ClosingTransport struct {
	k   *int
	got []byte
}

func (t *c17ClosingTransport) RoundTrip(req *http.Request) (*http.Response, error) {
	if t.k == nil {
		t.got, _ = io.ReadAll(req.Body)
	} else {
		buf := make([]byte, *t.k)
		n, _ := io.ReadFull(req.Body, buf)
		t.got = buf[:n]
	}
	_ = req.Body.Close()
	return &http.Response{StatusCode: 200, Status: "200 OK", Proto: "HTTP/1.1", ProtoMajor: 1, ProtoMinor: 1, Header: http.Header{}, Body: http.NoBody, Request: req}, nil
}

func c17ReqSeq(in c17ReqSeqIn) c17ReqSeqOut {
	var ps []*c17Payload
	out := c17ReqSeqOut{Steps: []c17ReqObs{}}
	for _, st := range in.Steps {
		ps = append(ps, c17BodyPayloads(st.Body)...)
		raw := &conformancev1.RawHTTPRequest{Verb: "POST", Uri: "/x.Service/Method"}
		switch st.Body.Kind {
		case "unary":
			raw.Body = &conformancev1.RawHTTPRequest_Unary{Unary: c17Contents(st.Body.Unary)}
		case "stream":
			raw.Body = &conformancev1.RawHTTPRequest_Stream{Stream: c17Stream(st.Body.Stream)}
		}
		tr := &c17ClosingTransport{k: st.Close}
		orig, _ := http.NewRequest(http.MethodPost, "http://127.0.0.1:1/stub", strings.NewReader("stub"))
		var obs c17ReqObs
		resp, err := referenceclient.VerifC17RawRequestSender(tr, raw).RoundTrip(orig)
		if err != nil {
			obs.Err = "roundtrip"
		} else {
			resp.Body.Close()
		}
		obs.Body = gen.Hex(tr.got)
		out.Steps = append(out.Steps, obs)
		if st.Close != nil {
			// the goroutine that writes the body sees the closed pipe and ends on its own; give it
			// the processor (nothing is asserted about when it ends)
			for i := 0; i < 20; i++ {
				runtime.Gosched()
			}
		}
	}
	out.Oracle = c17Oracle(ps)
	return out
}

// ---------------------------------------------------------------- facts: the status rule of finish, by behaviour

// c17FinishStatus: the code the real rawResponseWriter.finish passes to WriteHeader for a raw
// response that prescribes status (recording ResponseWriter: nothing panics, nothing is sent);
// 0 if it does not call WriteHeader at all.
func c17FinishStatus(status uint32) (int, error) {
	_, wire := referenceserver.VerifC17Arbitrate([]referenceserver.VerifC17Op{{K: "raw", Raw: &conformancev1.RawHTTPResponse{StatusCode: status}}})
	for _, w := range wire {
		if strings.HasPrefix(w, "h:") {
			return strconv.Atoi(w[2:])
		}
	}
	return 0, nil // WriteHeader was not called (0 is never passed on: the table then differs from the model's)
}

const c17FactsDomain = 1100

func runC17Facts(c *gen.Ctx) error {
	// the whole domain 0..1100 (every code net/http can transmit, 100..999, and both sides of
	// it), run-length encoded: (lo, hi, none) = passed on unchanged, (lo, hi, some v) = replaced by v
	type run struct {
		lo, hi int
		v      int // -1: identity
	}
	var runs []run
	for c := 0; c <= c17FactsDomain; c++ {
		got, err := c17FinishStatus(uint32(c))
		if err != nil {
			return err
		}
		v := got
		if got == c {
			v = -1
		}
		if n := len(runs); n > 0 && runs[n-1].v == v && runs[n-1].hi == c-1 {
			runs[n-1].hi = c
		} else {
			runs = append(runs, run{c, c, v})
		}
	}
	var rs, probes []string
	for _, r := range runs {
		v := "none"
		if r.v >= 0 {
			v = fmt.Sprintf("some %d", r.v)
		}
		rs = append(rs, fmt.Sprintf("(%d, %d, %s)", r.lo, r.hi, v))
	}
	// values far outside (a uint32 field): truncation or wrap-around slips
	for _, c := range []uint32{1101, 4096, 65535, 65536, 65536 + 200, 65536 + 404, 1 << 24, 1<<31 - 1, 1 << 31, 1<<32 - 1, 1<<32 - 200} {
		got, err := c17FinishStatus(c)
		if err != nil {
			return err
		}
		probes = append(probes, fmt.Sprintf("(%d, %d)", c, got))
	}
	var sb strings.Builder
	sb.WriteString("-- GENERATED by `verifharness c17facts` from the repository tree; do not edit.\n")
	sb.WriteString("namespace ConfModel.Generated.C17Facts\n\n")
	fmt.Fprintf(&sb, "/-- referenceserver.rawResponseWriter.finish, called for every prescribed status 0..%d: the code it passes to WriteHeader, run-length encoded - (lo, hi, none): unchanged, (lo, hi, some v): replaced by v -/\n", c17FactsDomain)
	fmt.Fprintf(&sb, "def statusRuns : List (Nat × Nat × Option Nat) := [%s]\n\n", strings.Join(rs, ", "))
	sb.WriteString("/-- the same for values far outside the range: (prescribed, passed to WriteHeader) -/\n")
	fmt.Fprintf(&sb, "def statusProbes : List (Nat × Nat) := [%s]\n\n", strings.Join(probes, ", "))
	// how rawRequestSender.RoundTrip makes the request it hands to the transport
	ctor, assigned, err := c17SubReqFacts(c.RepoDir)
	if err != nil {
		return err
	}
	var qs []string
	for _, a := range assigned {
		qs = append(qs, strconv.Quote(a))
	}
	sb.WriteString("/-- rawRequestSender.RoundTrip (go/ast): the expression that creates the request handed to r.transport.RoundTrip -/\n")
	fmt.Fprintf(&sb, "def subReqCtor : String := %s\n\n", strconv.Quote(ctor))
	sb.WriteString("/-- ... and the fields of that request the function assigns afterwards -/\n")
	fmt.Fprintf(&sb, "def subReqAssigned : List String := [%s]\n\n", strings.Join(qs, ", "))
	var ps []string
	for _, row := range c17SubReqProbe() {
		ps = append(ps, fmt.Sprintf("(%s, %s, %s)", strconv.Quote(row[0]), row[1], row[2]))
	}
	sb.WriteString("/-- the request the real RoundTrip hands to a (capturing) transport: (verb/body/original request can rewind, GetBody != nil, Body is the pipe the raw body is written to) -/\n")
	fmt.Fprintf(&sb, "def subReqProbe : List (String × Bool × Bool) := [%s]\n\n", strings.Join(ps, ", "))
	sb.WriteString("end ConfModel.Generated.C17Facts\n")
	out := ""
	for i, a := range os.Args {
		if a == "--out" && i+1 < len(os.Args) {
			out = os.Args[i+1]
		}
	}
	if out == "" {
		fmt.Print(sb.String())
		return nil
	}
	return os.WriteFile(out, []byte(sb.String()), 0o644)
}

// ---------------------------------------------------------------- generators

func c17IntP(v int) *int { return &v }

// c17EncodedLen: bytes the stream encoder writes for well-formed items (prefixes + encoded payloads)
func c17EncodedLen(items []c17Item) int {
	n := 0
	for _, it := range items {
		n += 5 + c17PayloadLen(it.Payload)
	}
	return n
}

// c17FreshItems: 1-3 well-formed items, most of them with a computed length, payloads that name
// their position (so that a byte of an earlier write is recognisable in a later one)
func c17FreshItems(r *gen.Rand, tag string) []c17Item {
	items := make([]c17Item, r.Range(1, 3))
	for i := range items {
		data := []byte(fmt.Sprintf("%s/%d:%s", tag, i, strings.Repeat("x", r.Intn(12))))
		p := &c17Payload{Kind: gen.Pick(r, []string{"binary", "text", "any"}), Data: gen.Hex(data), Comp: int32(gen.Pick(r, []int{0, 1, 1, 1, 2, 3, 4, 5, 6}))}
		items[i] = c17Item{Flags: uint32(r.Intn(256)), Payload: p}
		switch r.Intn(8) {
		case 0:
			n := uint32(c17PayloadLen(p))
			items[i].Length = &n
		case 1:
			n := uint32(r.Intn(40))
			items[i].Length = &n
		case 2:
			items[i].Payload = nil
		}
	}
	return items
}

func runC17Seq(c *gen.Ctx) {
	r := c.R
	e := c.E
	th := c.Thorough()
	u32 := func(v uint32) *uint32 { return &v }
	bin := func(s string, comp int32) *c17Payload {
		return &c17Payload{Kind: "binary", Data: gen.Hex([]byte(s)), Comp: comp}
	}
	// ---- (h) every failure offset: a body written to a destination that takes k bytes, for every
	//      k from 0 to its full length (and one beyond), followed by two further bodies to
	//      destinations that never fail
	bases := [][]c17Item{
		{{Flags: 0, Payload: bin("first-payload", 1)}},
		{{Flags: 2, Payload: bin("stale?", 0)}, {Flags: 0, Payload: bin("second", 1)}},
		{{Flags: 1, Length: u32(4), Payload: bin("abcd", 1)}, {Flags: 0, Payload: bin("computed", 1)}},
		{{Flags: 0, Payload: &c17Payload{Kind: "text", Data: gen.Hex([]byte("gzip me gzip me gzip me")), Comp: 2}}},
		{{Flags: 0, Payload: nil}, {Flags: 255, Payload: bin("after-empty", 1)}, {Flags: 3, Length: u32(9), Payload: bin("x", 1)}},
		{{Flags: 0, Payload: &c17Payload{Kind: "any", Data: gen.Hex([]byte("zstd zstd zstd")), Comp: 4}}, {Flags: 0, Payload: bin("tail", 6)}},
	}
	if th {
		for i := 0; i < 30; i++ {
			bases = append(bases, c17FreshItems(r, fmt.Sprintf("b%d", i)))
		}
	}
	for bi, base := range bases {
		total := c17EncodedLen(base)
		for k := 0; k <= total+1; k++ {
			steps := []c17SeqStep{{Items: base, Budget: c17IntP(k)},
				{Items: []c17Item{{Flags: 0, Payload: bin(fmt.Sprintf("fresh-%d-%d", bi, k), 1)}}},
				{Items: c17FreshItems(r, "f")}}
			c.Do("seq", c17SeqIn{steps})
			e.Count("kind:seq-every-offset")
		}
	}
	// unary bodies to failing destinations, then a stream
	for _, comp := range []int32{1, 2, 3, 4, 5, 6} {
		p := bin("unary body unary body", comp)
		total := c17PayloadLen(p)
		for k := 0; k <= total+1; k++ {
			c.Do("seq", c17SeqIn{[]c17SeqStep{{Unary: true, Msg: p, Budget: c17IntP(k)}, {Items: c17FreshItems(r, "u")}, {Unary: true, Msg: p}}})
			e.Count("kind:seq-unary-offset")
		}
	}
	// ---- (i) random histories: 2-8 writes, about half of the destinations fail somewhere
	nHist := 1200
	if th {
		nHist = 20000
	}
	for i := 0; i < nHist; i++ {
		steps := make([]c17SeqStep, r.Range(2, 8))
		for k := range steps {
			if r.Chance(1, 6) {
				p := c17RandPayload(r)
				steps[k] = c17SeqStep{Unary: true, Msg: p}
				if r.Bool() {
					steps[k].Budget = c17IntP(r.Intn(c17PayloadLen(p) + 2))
				}
				continue
			}
			var items []c17Item
			if r.Chance(1, 5) {
				items = make([]c17Item, r.Intn(4))
				for j := range items {
					items[j] = c17RandItem(r, true)
				}
			} else {
				items = c17FreshItems(r, fmt.Sprintf("h%d.%d", i, k))
			}
			steps[k] = c17SeqStep{Items: items}
			if r.Bool() {
				steps[k].Budget = c17IntP(r.Intn(c17EncodedLen(items) + 2))
				e.Count("kind:seq-failing-destination")
			}
		}
		c.Do("seq", c17SeqIn{steps})
	}
}

func runC17Status(c *gen.Ctx) {
	r := c.R
	e := c.E
	// ---- (j) every status code a raw response may prescribe, HTTP/1.1 and h2c: unset, everything
	//      net/http can transmit (100..999), both sides of that range, values far outside
	var jobs []any
	codes := []uint32{}
	for s := uint32(0); s <= 1010; s++ {
		codes = append(codes, s)
	}
	codes = append(codes, 4096, 65535, 65536+200, 1<<31, 1<<32-1)
	bodies := []c17Body{
		{Kind: "none"},
		{Kind: "unary", Unary: &c17Payload{Kind: "text", Data: gen.Hex([]byte("raw-unary")), Comp: 1}},
		{Kind: "stream", Stream: []c17Item{{Flags: 0, Payload: &c17Payload{Kind: "binary", Data: gen.Hex([]byte("raw-item")), Comp: 1}}, {Flags: 2, Payload: nil}}},
	}
	for _, s := range codes {
		for _, p := range []string{"h1", "h2c"} {
			b := bodies[r.Intn(len(bodies))]
			if c.Thorough() {
				for _, b := range bodies {
					jobs = append(jobs, c17StatusIn{Proto: p, Status: s, Body: b})
				}
				continue
			}
			jobs = append(jobs, c17StatusIn{Proto: p, Status: s, Body: b})
		}
	}
	e.Add("status-codes", len(codes))
	c.DoParallel("status", jobs, 8)
}

func runC17RespSeq(c *gen.Ctx) {
	r := c.R
	e := c.E
	// ---- (k) sequences of raw responses from one server process: responses whose body net/http
	//      refuses (204, 304), swallows (HEAD) or cuts (a listed Content-Length smaller than the
	//      body), each followed by ordinary stream responses
	n := 150
	if c.Thorough() {
		n = 2500
	}
	var jobs []any
	for i := 0; i < n; i++ {
		proto := gen.Pick(r, []string{"h1", "h2c"})
		var steps []c17RespStep
		for k := r.Range(1, 2); k > 0; k-- {
			st := c17RespStep{Proto: proto, Method: "POST", Status: 200, Body: c17Body{Kind: "stream", Stream: c17FreshItems(r, fmt.Sprintf("refused%d", i))}}
			switch r.Intn(5) {
			case 0, 1:
				st.Status = 204
				e.Count("kind:respseq-204")
			case 2:
				st.Status = 304
				e.Count("kind:respseq-304")
			case 3:
				st.Method = "HEAD"
				e.Count("kind:respseq-HEAD")
			case 4:
				st.CLen = c17IntP(r.Intn(c17EncodedLen(st.Body.Stream) + 1))
				e.Count("kind:respseq-short-content-length")
			}
			if r.Chance(1, 8) {
				st.Body = c17Body{Kind: "unary", Unary: &c17Payload{Kind: "text", Data: gen.Hex([]byte("refused-unary")), Comp: 1}}
			}
			steps = append(steps, st)
		}
		for k := r.Range(1, 3); k > 0; k-- {
			steps = append(steps, c17RespStep{Proto: gen.Pick(r, []string{proto, proto, "h1", "h2c"}), Method: "POST", Status: gen.Pick(r, []uint32{0, 200, 201, 500, 799}),
				Body: c17Body{Kind: "stream", Stream: c17FreshItems(r, fmt.Sprintf("sent%d", i))}})
		}
		if i%3 == 2 { // the whole sequence through the complete reference server
			proc := gen.Pick(r, []string{"Unary", "Unary", "ServerStream", "ClientStream"})
			for k := range steps {
				steps[k].Stack, steps[k].Method = proc, "POST"
				if steps[k].CLen != nil {
					steps[k].CLen, steps[k].Status = nil, 204
				}
			}
			e.Count("kind:respseq-full-stack")
		}
		jobs = append(jobs, c17RespSeqIn{steps})
	}
	c.DoParallel("respseq", jobs, 4)
	// ---- (l) sequences of raw requests from one client process: the transport closes the request
	//      pipe after k bytes (every k for a fixed body, random ones else), then further requests
	jobs = nil
	fixed := []c17Item{{Flags: 0, Payload: &c17Payload{Kind: "binary", Data: gen.Hex([]byte("request-item-one")), Comp: 1}}, {Flags: 2, Payload: &c17Payload{Kind: "text", Data: gen.Hex([]byte("two")), Comp: 2}}}
	for k := 0; k <= c17EncodedLen(fixed); k++ {
		jobs = append(jobs, c17ReqSeqIn{[]c17ReqStep{{Body: c17Body{Kind: "stream", Stream: fixed}, Close: c17IntP(k)},
			{Body: c17Body{Kind: "stream", Stream: c17FreshItems(r, "q")}}, {Body: c17Body{Kind: "stream", Stream: c17FreshItems(r, "q2")}}}})
		e.Count("kind:reqseq-every-offset")
	}
	n = 100
	if c.Thorough() {
		n = 2000
	}
	for i := 0; i < n; i++ {
		steps := make([]c17ReqStep, r.Range(2, 5))
		for k := range steps {
			steps[k] = c17ReqStep{Body: c17Body{Kind: "stream", Stream: c17FreshItems(r, fmt.Sprintf("r%d.%d", i, k))}}
			if r.Chance(1, 6) {
				steps[k].Body = c17Body{Kind: "unary", Unary: &c17Payload{Kind: "binary", Data: gen.Hex(r.Bytes(r.Intn(30))), Comp: int32(r.Range(1, 6))}}
			}
			if r.Bool() && k < len(steps)-1 {
				total := c17EncodedLen(steps[k].Body.Stream) + c17PayloadLen(steps[k].Body.Unary)
				steps[k].Close = c17IntP(r.Intn(total + 1))
			}
		}
		jobs = append(jobs, c17ReqSeqIn{steps})
	}
	c.DoParallel("reqseq", jobs, 4)
}
