package main

// C18, round trips through every decoder of the repository that undoes one of its encoders
// (the conversions are lossless only if BOTH ends of each pair are: the ops of c18.go drive
// the encoders and judge them with the specification's decoder; these ops hand the encoders'
// output to the repository's own decoders).
//
//   encoder                                             decoder in the repository
//   grpcutil.PercentEncodeMessage (grpc-message)        referenceclient.checkGRPCStatus (the message is decoded
//                                                       and compared with the one in grpc-status-details-bin)
//   referenceserver.grpcStatusTrailers                  referenceclient.checkGRPCStatus (base64 raw/padded,
//     (base64 of google.rpc.Status)                     google.rpc.Status: code and message compared)
//   grpcutil.ConvertMetadataToProtoHeader (-bin base64) grpcutil.ConvertProtoHeaderToMetadata, AppendToOutgoingContext,
//                                                       referenceclient.checkBinaryMetadata (validator)
//   internal.ConvertToProtoHeader                       internal.AddHeaders (and back: op addh of c18.go)
//
// ops
//   statusrt : {code,msg,details,style}  the status trailers of that error - written by the reference
//              server's grpcStatusTrailers (style own) or as another spec-conformant server writes them
//              (every byte %XX-escaped, upper / lower / mixed case hex digits, printable bytes escaped
//              at random; padded base64 never) - read by the reference client's checkGRPCStatus
//   mdrt     : {md}  metadata -> ConvertMetadataToProtoHeader -> ConvertProtoHeaderToMetadata, and
//              -> AppendToOutgoingContext -> metadata.FromOutgoingContext, and -> checkBinaryMetadata
//   hdrrt    : {h}   http.Header -> ConvertToProtoHeader -> AddHeaders into a fresh http.Header

import (
	"context"
	"encoding/base64"
	"encoding/hex"
	"encoding/json"
	"errors"
	"fmt"
	"io"
	"net/http"
	"net/http/httptest"
	"sort"
	"strconv"
	"strings"
	"unicode/utf8"

	"connectrpc.com/conformance/internal"
	rc "connectrpc.com/conformance/internal/app/referenceclient"
	"connectrpc.com/conformance/internal/app/referenceserver"
	conformancev1 "connectrpc.com/conformance/internal/gen/proto/go/connectrpc/conformance/v1"
	"connectrpc.com/conformance/internal/grpcutil"
	"connectrpc.com/conformance/internal/verifharness/gen"
	statuspb "google.golang.org/genproto/googleapis/rpc/status"
	"google.golang.org/grpc/metadata"
	"google.golang.org/protobuf/proto"
	"google.golang.org/protobuf/types/known/anypb"
)

func init() {
	gen.RegisterOp("c18", "statusrt", func(c *gen.Ctx, raw json.RawMessage) any { return c18StatusRT(c, gen.Into[c18StatusRTIn](raw)) })
	gen.RegisterOp("c18", "mdrt", func(_ *gen.Ctx, raw json.RawMessage) any { return c18MDRT(gen.Into[c18MDIn](raw)) })
	gen.RegisterOp("c18", "hdrrt", func(_ *gen.Ctx, raw json.RawMessage) any { return c18HdrRT(gen.Into[c18HdrRTIn](raw)) })
	gen.RegisterOp("c18", "anyconn", func(_ *gen.Ctx, raw json.RawMessage) any { return c18AnyConn(gen.Into[c18AnyErrIn](raw)) })
	gen.RegisterOp("c18", "nilconv", func(_ *gen.Ctx, _ json.RawMessage) any { return c18NilConv() })
	gen.RegisterOp("c18", "getrt", func(_ *gen.Ctx, raw json.RawMessage) any { return c18GetRT(gen.Into[c18GetRTIn](raw)) })
}

// ---------------------------------------------------------------- status trailers: server -> client

type c18StatusRTIn struct {
	Code    int32          `json:"code"`
	Msg     string         `json:"msg"` // hex of a valid UTF-8 string
	Details []c18SrvDetail `json:"details"`
	// own: referenceserver.grpcStatusTrailers; otherwise the harness writes the trailers the way another
	// conformant server may: "upper" / "lower" every byte escaped with upper- / lower-case hex digits,
	// "mixed": the bytes that must be escaped plus the printable ones selected by Esc, digit case by Low
	Style string `json:"style"`
	Esc   []bool `json:"esc,omitempty"` // mixed: escape byte i although it is printable
	Low   []bool `json:"low,omitempty"` // mixed: lower-case hex digits for byte i
}
type c18StatusRTOut struct {
	Wire string   `json:"wire"` // hex of the grpc-message value handed to the client
	Bin  bool     `json:"bin"`  // a grpc-status-details-bin value was handed to the client
	Fb   []string `json:"fb"`   // feedback classes of checkGRPCStatus
	// Decoded: what the client made of grpc-message, when its feedback tells (the message it prints
	// when that differs from the message of the details); BinMsg: the other side of that comparison
	Decoded *string `json:"decoded"`
	BinMsg  *string `json:"binMsg"`
}

const c18Hexdigits = "0123456789ABCDEF"

func c18EncodeStyle(in c18StatusRTIn, msg string) string {
	var sb strings.Builder
	for i := 0; i < len(msg); i++ {
		b := msg[i]
		must := b < 0x20 || b > 0x7e || b == '%'
		esc, low := true, in.Style == "lower"
		if in.Style == "mixed" {
			esc = must || (i < len(in.Esc) && in.Esc[i])
			low = i < len(in.Low) && in.Low[i]
		}
		if !esc {
			sb.WriteByte(b)
			continue
		}
		d := string([]byte{'%', c18Hexdigits[b>>4], c18Hexdigits[b&15]})
		if low {
			d = strings.ToLower(d)
		}
		sb.WriteString(d)
	}
	return sb.String()
}

// c18ParseDisagreement extracts the two %q-quoted strings of the client's message
// "...disagrees with 'grpc-message' value: %q != %q" (details' message, decoded grpc-message).
func c18ParseDisagreement(m string) (binMsg, decoded string, ok bool) {
	const marker = "'grpc-message' value: "
	i := strings.Index(m, marker)
	if i < 0 {
		return "", "", false
	}
	rest := m[i+len(marker):]
	q1, err := strconv.QuotedPrefix(rest)
	if err != nil {
		return "", "", false
	}
	rest = rest[len(q1):]
	if !strings.HasPrefix(rest, " != ") {
		return "", "", false
	}
	q2, err := strconv.QuotedPrefix(rest[4:])
	if err != nil {
		return "", "", false
	}
	a, err1 := strconv.Unquote(q1)
	b, err2 := strconv.Unquote(q2)
	if err1 != nil || err2 != nil {
		return "", "", false
	}
	return a, b, true
}

func c18StatusRT(c *gen.Ctx, in c18StatusRTIn) c18StatusRTOut {
	raw, _ := hex.DecodeString(in.Msg)
	msg := string(raw)
	h := http.Header{}
	if in.Style == "own" {
		for _, t := range referenceserver.VerifC13GrpcStatusTrailers(in.Code, msg, c18SrvDetails(in.Details)) {
			k := http.CanonicalHeaderKey(t.Name)
			h[k] = append(h[k], t.Value...)
		}
	} else {
		h["Grpc-Status"] = []string{strconv.Itoa(int(in.Code))}
		h["Grpc-Message"] = []string{c18EncodeStyle(in, msg)}
		st := &statuspb.Status{Code: in.Code, Message: msg}
		for _, d := range in.Details {
			v, _ := hex.DecodeString(d.Val)
			st.Details = append(st.Details, &anypb.Any{TypeUrl: internal.DefaultAnyResolverPrefix + d.Type, Value: v})
		}
		if data, err := proto.Marshal(st); err == nil {
			h["Grpc-Status-Details-Bin"] = []string{base64.RawStdEncoding.EncodeToString(data)}
		}
	}
	out := c18StatusRTOut{Fb: []string{}, Bin: len(h["Grpc-Status-Details-Bin"]) > 0}
	if v := h["Grpc-Message"]; len(v) > 0 {
		out.Wire = gen.Hex([]byte(v[0]))
	}
	for _, m := range rc.VerifC13CheckGRPCStatus(h) {
		cls := c13Class(m)
		out.Fb = append(out.Fb, cls)
		c.E.Count("statusrt-fb:" + strings.SplitN(cls, " ", 2)[0])
		if cls == "st:details-msg" {
			if a, b, ok := c18ParseDisagreement(m); ok {
				ha, hb := gen.Hex([]byte(a)), gen.Hex([]byte(b))
				out.BinMsg, out.Decoded = &ha, &hb
			}
		}
	}
	return out
}

// ---------------------------------------------------------------- metadata -> headers -> metadata

type c18MDRTOut struct {
	Hs    []c18H  `json:"hs"`    // ConvertMetadataToProtoHeader(md)
	Back  []c18KV `json:"back"`  // ConvertProtoHeaderToMetadata of that
	Out   []c18KV `json:"out"`   // FromOutgoingContext(AppendToOutgoingContext(that))
	BinFb int     `json:"binFb"` // number of messages of checkBinaryMetadata on the headers
}

func c18MDRT(in c18MDIn) c18MDRTOut {
	md := metadata.MD{}
	for _, e := range in.MD {
		md[e.K] = c18Unhex(e.V)
	}
	hs := grpcutil.ConvertMetadataToProtoHeader(md)
	out := c18MDRTOut{Hs: c18CanonHs(hs)}
	out.BinFb = len(rc.VerifC13CheckBinaryMetadata("response headers", hs))
	out.Back = c18CanonMD(grpcutil.ConvertProtoHeaderToMetadata(hs))
	// sort: Go's map order must not decide the order in which keys reach grpc-go
	sorted := append([]*conformancev1.Header{}, hs...)
	sort.SliceStable(sorted, func(i, j int) bool { return sorted[i].Name < sorted[j].Name })
	omd, _ := metadata.FromOutgoingContext(grpcutil.AppendToOutgoingContext(context.Background(), sorted))
	out.Out = c18CanonMD(omd)
	return out
}

// ---------------------------------------------------------------- http.Header -> proto headers -> http.Header

type c18HdrRTIn struct {
	H []c18KV `json:"h"`
}
type c18HdrRTOut struct {
	Hs   []c18H  `json:"hs"`   // ConvertToProtoHeader(h)
	Back []c18KV `json:"back"` // AddHeaders(that, fresh http.Header)
}

func c18HdrRT(in c18HdrRTIn) c18HdrRTOut {
	h := http.Header{}
	for _, e := range in.H {
		h[e.K] = c18Unhex(e.V)
	}
	hs := internal.ConvertToProtoHeader(h)
	dest := http.Header{}
	internal.AddHeaders(hs, dest)
	return c18HdrRTOut{Hs: c18CanonHs(hs), Back: c18CanonMD(dest)}
}

// ---------------------------------------------------------------- generator

// c18UTF8Alphabet: strings that together contain every byte value that can occur in valid UTF-8
// (0x00..0x7F as themselves, every lead byte C2..F4 and every continuation byte 80..BF).
func c18UTF8Alphabet() []string {
	var out []string
	for b := 0; b < 0x80; b++ {
		out = append(out, string([]byte{byte(b)}))
	}
	for lead := 0xC2; lead <= 0xDF; lead++ { // 2-byte runes, continuation varies with the lead
		out = append(out, string([]byte{byte(lead), byte(0x80 + (lead*7)%64)}))
	}
	for cont := 0x80; cont <= 0xBF; cont++ {
		out = append(out, string([]byte{0xC3, byte(cont)}))
	}
	for lead := 0xE0; lead <= 0xEF; lead++ {
		second := byte(0xA0) // valid for E0 (A0..BF) and, below D800, for ED (80..9F)
		if lead == 0xED {
			second = 0x9F
		}
		out = append(out, string([]byte{byte(lead), second, 0xBF}))
	}
	for lead := 0xF0; lead <= 0xF4; lead++ {
		second := byte(0x90) // valid for F0 (90..BF); F4 needs 80..8F
		if lead == 0xF4 {
			second = 0x8F
		}
		out = append(out, string([]byte{byte(lead), second, 0x80, 0xBF}))
	}
	return out
}

func c18StatusRTGen(c *gen.Ctx) {
	r := c.R
	th := c.Thorough()
	one := []c18SrvDetail{{Type: "connectrpc.conformance.v1.Header", Val: "0a0178"}}
	none := []c18SrvDetail{}
	n := 0
	do := func(in c18StatusRTIn) {
		if !utf8.ValidString(string(c18MustUnhex(in.Msg))) {
			panic("statusrt: generator produced a message that is not UTF-8")
		}
		c.Do("statusrt", in)
		n++
	}
	// every byte of the UTF-8 alphabet alone and between two plain letters, every style
	for _, s := range c18UTF8Alphabet() {
		for _, m := range []string{s, "a" + s + "z"} {
			hx := gen.Hex([]byte(m))
			do(c18StatusRTIn{Code: 2, Msg: hx, Details: one, Style: "own"})
			do(c18StatusRTIn{Code: 2, Msg: hx, Details: none, Style: "upper"})
			do(c18StatusRTIn{Code: 2, Msg: hx, Details: one, Style: "lower"})
			do(c18StatusRTIn{Code: 2, Msg: hx, Details: none, Style: "mixed", Esc: []bool{false, false, false, false, false, false}, Low: []bool{true, false, true, false, true, false}})
		}
	}
	// every pair of special bytes (thorough: every pair of ASCII bytes), the server's own encoder
	special := []byte{0, 1, 0x1f, ' ', '!', '%', '$', '&', '0', '9', 'A', 'F', 'G', 'a', 'f', 'g', '~', 0x7f, '+', '/', '\n', '\r', '=', '?', '#', ';'}
	if th {
		special = special[:0]
		for b := 0; b < 0x80; b++ {
			special = append(special, byte(b))
		}
	}
	for _, a := range special {
		for _, b := range special {
			do(c18StatusRTIn{Code: 13, Msg: gen.Hex([]byte{a, b}), Details: one, Style: "own"})
		}
	}
	// the message shapes of srvtrailers x every code x 0..3 details, own encoder
	detailSets := [][]c18SrvDetail{none, one,
		{{Type: "google.rpc.RetryInfo", Val: ""}, {Type: "a.B", Val: "ff00"}},
		{{Type: "connectrpc.conformance.v1.Header", Val: "0a0178"}, {Type: "connectrpc.conformance.v1.Header", Val: "0a0178"}, {Type: "x", Val: "00"}}}
	for code := int32(1); code <= 16; code++ {
		for mi, m := range c18SrvMsgs() {
			if !utf8.ValidString(m) {
				continue
			}
			do(c18StatusRTIn{Code: code, Msg: gen.Hex([]byte(m)), Details: detailSets[(int(code)+mi)%len(detailSets)], Style: "own"})
		}
	}
	// random messages, random styles
	nRand := 2500
	if th {
		nRand = 40000
	}
	alphabet := c18UTF8Alphabet()
	for i := 0; i < nRand; i++ {
		var sb strings.Builder
		switch r.Intn(3) {
		case 0:
			sb.WriteString(c18RandText(r, 24))
		case 1:
			for k := r.Intn(16); k > 0; k-- {
				sb.WriteString(gen.Pick(r, alphabet))
			}
		default:
			for k := r.Intn(16); k > 0; k-- {
				sb.WriteByte(gen.Pick(r, special))
			}
		}
		m := sb.String()
		in := c18StatusRTIn{Code: int32(r.Range(1, 16)), Msg: gen.Hex([]byte(m)), Details: gen.Pick(r, detailSets), Style: gen.Pick(r, []string{"own", "own", "upper", "lower", "mixed"})}
		if in.Style == "mixed" {
			in.Esc, in.Low = make([]bool, len(m)), make([]bool, len(m))
			for k := range in.Esc {
				in.Esc[k], in.Low[k] = r.Chance(1, 3), r.Bool()
			}
		}
		do(in)
	}
	c.E.Add("statusrt", n)
}

func c18MustUnhex(s string) []byte {
	b, err := hex.DecodeString(s)
	if err != nil {
		panic(err)
	}
	return b
}

func c18MDRTGen(c *gen.Ctx) {
	r := c.R
	th := c.Thorough()
	n := 0
	do := func(md []c18KV) {
		if md == nil {
			md = []c18KV{}
		}
		c.Do("mdrt", c18MDIn{md})
		n++
	}
	// every single byte (and every byte after / before a plain letter) as a binary and as a text value
	for b := 0; b < 256; b++ {
		for _, v := range [][]byte{{byte(b)}, {'a', byte(b)}, {byte(b), 'z', 'z'}} {
			do([]c18KV{{K: "x-bin", V: []string{gen.Hex(v)}}, {K: "x-text", V: []string{gen.Hex(v)}}})
		}
	}
	// values that look like base64 themselves, empty values, empty lists, several keys
	looks := []string{"", "AAEC", "QUFFQw", "AA==", "AA", "A", "=", "====", "Zm9v", "Zm9v\n", "-_-_", "+/+/"}
	for _, a := range looks {
		for _, b := range looks {
			do([]c18KV{{K: "a-bin", V: []string{gen.Hex([]byte(a)), gen.Hex([]byte(b))}}, {K: "bin", V: []string{gen.Hex([]byte(a))}}, {K: "-bin", V: []string{gen.Hex([]byte(b))}}})
		}
	}
	do([]c18KV{})
	do([]c18KV{{K: "x-bin", V: []string{}}, {K: "y", V: []string{}}})
	nRand := 3000
	if th {
		nRand = 60000
	}
	keys := []string{"x-a", "x-b", "x-bin", "y-bin", "bin", "-bin", "x-bin-x", "grpc-x-bin", "a", "content-type", "x-bin ", "grpc-status-details-bin"}
	for i := 0; i < nRand; i++ {
		seen := map[string]bool{}
		var md []c18KV
		for k := r.Intn(5); k > 0; k-- {
			key := gen.Pick(r, keys)
			if seen[key] {
				continue
			}
			seen[key] = true
			vs := make([]string, r.Intn(4))
			for j := range vs {
				switch r.Intn(3) {
				case 0:
					vs[j] = gen.Hex(r.Bytes(r.Intn(9)))
				case 1:
					vs[j] = gen.Hex([]byte(gen.Pick(r, looks)))
				default:
					vs[j] = c18TextValue(r)
				}
			}
			md = append(md, c18KV{K: key, V: vs})
		}
		do(md)
	}
	c.E.Add("mdrt", n)
}

func c18HdrRTGen(c *gen.Ctx) {
	r := c.R
	n := 0
	do := func(h []c18KV) {
		if h == nil {
			h = []c18KV{}
		}
		c.Do("hdrrt", c18HdrRTIn{h})
		n++
	}
	for b := 0; b < 256; b++ {
		do([]c18KV{{K: "X-A", V: []string{gen.Hex([]byte{byte(b)}), gen.Hex([]byte{'a', byte(b), 'z'})}}})
	}
	// keys as net/http stores them (canonical) and as a caller may have set them directly
	keys := []string{"X-A", "X-B", "X-A-B", "Content-Type", "X-Bin", "Trailer:x", "x a", "X_a", "0a-1b", "Grpc-Status", "x-a", "X-a", "é"}
	nRand := 1500
	if c.Thorough() {
		nRand = 30000
	}
	for i := 0; i < nRand; i++ {
		seen := map[string]bool{}
		var h []c18KV
		for k := r.Intn(5); k > 0; k-- {
			key := gen.Pick(r, keys)
			// two spellings of one canonical key would be merged in Go's random map order
			if seen[http.CanonicalHeaderKey(key)] {
				continue
			}
			seen[http.CanonicalHeaderKey(key)] = true
			vs := make([]string, r.Intn(4))
			for j := range vs {
				if r.Bool() {
					vs[j] = gen.Hex(r.Bytes(r.Intn(6)))
				} else {
					vs[j] = c18TextValue(r)
				}
			}
			h = append(h, c18KV{K: key, V: vs})
		}
		do(h)
	}
	c.E.Add("hdrrt", n)
}

// ---------------------------------------------------------------- the GET `message` query parameter

// getrt: the request message of a Connect GET travels in the `message` query parameter. The
// reference client's raw request sender encodes it (base64.URLEncoding when base64_encode is set,
// then url.Values.Encode); the reference server (connect-go's GET handling in front of the
// repository's handler) decodes it and echoes both the decoded request (RequestInfo.requests) and
// the query parameters as received (ConnectGetInfo.query_params).
type c18GetRTIn struct {
	Data   string `json:"data"`   // hex: UnaryRequest.request_data
	JSON   bool   `json:"json"`   // encoding=json (else proto)
	Base64 bool   `json:"base64"` // base64_encode / base64=1 (always for proto)
}
type c18GetRTOut struct {
	Fail    string `json:"fail,omitempty"`
	Status  int    `json:"status"`
	Sent    string `json:"sent"`    // hex: the encoded message handed to the sender
	Param   string `json:"param"`   // hex: the `message` parameter the server echoed
	Decoded bool   `json:"decoded"` // the echoed request is an IdempotentUnaryRequest
	Data    string `json:"data"`    // hex: its request_data
}

type c18HandlerTransport struct{ h http.Handler }

func (t c18HandlerTransport) RoundTrip(req *http.Request) (*http.Response, error) {
	rec := httptest.NewRecorder()
	t.h.ServeHTTP(rec, req)
	return rec.Result(), nil
}

var c18GetHandler = referenceserver.VerifC13Handler()

func c18GetRT(in c18GetRTIn) c18GetRTOut {
	data := c18MustUnhex(in.Data)
	reqMsg := &conformancev1.IdempotentUnaryRequest{RequestData: data}
	var encoded []byte
	var err error
	enc := "proto"
	if in.JSON {
		enc = "json"
		encoded, err = internal.StrictJSONCodec{}.MarshalStable(reqMsg)
	} else {
		encoded, err = proto.Marshal(reqMsg)
	}
	if err != nil {
		return c18GetRTOut{Fail: "marshal: " + err.Error()}
	}
	uri := "/connectrpc.conformance.v1.ConformanceService/IdempotentUnary?connect=v1&encoding=" + enc
	if in.Base64 {
		uri += "&base64=1"
	}
	raw := &conformancev1.RawHTTPRequest{
		Verb: http.MethodGet, Uri: uri,
		EncodedQueryParams: []*conformancev1.RawHTTPRequest_EncodedQueryParam{{
			Name: "message", Base64Encode: in.Base64,
			Value: &conformancev1.MessageContents{Data: &conformancev1.MessageContents_Binary{Binary: encoded}},
		}},
	}
	rt := rc.VerifC17RawRequestSender(c18HandlerTransport{c18GetHandler}, raw)
	orig, _ := http.NewRequestWithContext(context.Background(), http.MethodGet, "http://verif.test/", http.NoBody)
	resp, err := rt.RoundTrip(orig)
	out := c18GetRTOut{Sent: gen.Hex(encoded)}
	if err != nil {
		out.Fail = "round trip: " + err.Error()
		return out
	}
	body, _ := io.ReadAll(resp.Body)
	_ = resp.Body.Close()
	out.Status = resp.StatusCode
	if resp.StatusCode != http.StatusOK {
		return out
	}
	var respMsg conformancev1.IdempotentUnaryResponse
	if in.JSON {
		err = internal.StrictJSONCodec{}.Unmarshal(body, &respMsg)
	} else {
		err = proto.Unmarshal(body, &respMsg)
	}
	if err != nil {
		out.Fail = "response: " + err.Error()
		return out
	}
	info := respMsg.GetPayload().GetRequestInfo()
	for _, p := range info.GetConnectGetInfo().GetQueryParams() {
		if p.Name == "message" && len(p.Value) == 1 {
			out.Param = gen.Hex([]byte(p.Value[0]))
		}
	}
	if len(info.GetRequests()) == 1 {
		var got conformancev1.IdempotentUnaryRequest
		if info.Requests[0].UnmarshalTo(&got) == nil {
			out.Decoded = true
			out.Data = gen.Hex(got.RequestData)
		}
	}
	return out
}

func c18GetRTGen(c *gen.Ctx) {
	r := c.R
	n := 0
	do := func(data []byte, json, b64 bool) {
		c.Do("getrt", c18GetRTIn{Data: gen.Hex(data), JSON: json, Base64: b64})
		n++
	}
	// every byte value, in each of the three positions of a base64 quantum (so that every URL-safe
	// character and both kinds of padding occur), proto and JSON, with and without base64
	for b := 0; b < 256; b++ {
		for _, d := range [][]byte{{byte(b)}, {0xfb, byte(b)}, {0xff, 0xfe, byte(b)}} {
			do(d, false, true)
			if b%4 == 0 || c.Thorough() {
				do(d, true, true)
				do(d, true, false)
			}
		}
	}
	for l := 0; l <= 12; l++ {
		do(make([]byte, l), false, true)
		do(r.Bytes(l), true, false)
	}
	nRand := 300
	if c.Thorough() {
		nRand = 10000
	}
	for i := 0; i < nRand; i++ {
		js := r.Intn(3) == 0
		do(r.Bytes(r.Intn(40)), js, !js || r.Bool())
	}
	c.E.Add("getrt", n)
}

// ---------------------------------------------------------------- ConvertErrorToConnectError, nil branches

// anyconn: ConvertErrorToConnectError on nil / a plain error / a Connect error / a wrapped Connect
// error; the result is shown in proto form (ConvertConnectToProtoError), null for nil.
func c18AnyConn(in c18AnyErrIn) *c18PErr {
	var err error
	switch in.Kind {
	case "nil":
	case "plain":
		err = errors.New(in.Text)
	case "connect":
		err = internal.ConvertProtoToConnectError(c18Proto(in.Err))
	case "wrapped":
		err = fmt.Errorf("%s: %w", in.Text, internal.ConvertProtoToConnectError(c18Proto(in.Err)))
	}
	return c18FromProto(internal.ConvertConnectToProtoError(internal.ConvertErrorToConnectError(err)))
}

type c18NilOut struct {
	ProtoToConnect bool `json:"protoToConnect"` // ConvertProtoToConnectError(nil) == nil
	ConnectToProto bool `json:"connectToProto"`
	ProtoToGrpc    bool `json:"protoToGrpc"`
	GrpcToProto    bool `json:"grpcToProto"`
	ErrToConnect   bool `json:"errToConnect"`
	ErrToProto     bool `json:"errToProto"`
}

func c18NilConv() c18NilOut {
	return c18NilOut{
		ProtoToConnect: internal.ConvertProtoToConnectError(nil) == nil,
		ConnectToProto: internal.ConvertConnectToProtoError(nil) == nil,
		ProtoToGrpc:    grpcutil.ConvertProtoToGrpcError(nil) == nil,
		GrpcToProto:    grpcutil.ConvertGrpcToProtoError(nil) == nil,
		ErrToConnect:   internal.ConvertErrorToConnectError(nil) == nil,
		ErrToProto:     internal.ConvertErrorToProtoError(nil) == nil,
	}
}
