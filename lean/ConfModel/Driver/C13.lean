import ConfModel.Driver.Common
namespace ConfModel.Driver.C13
open Lean ConfModel.Driver

def handle : Handler := fun op _inp _impl => bad ("C13: unknown op " ++ op)

end ConfModel.Driver.C13
