/-
The call sequence of `ConfModel.Model.ReportScript` (what the wrapper `VerifC04Report` issues on
the real `testResults`) amounts to the outcome map `finalMap` of the assignment, up to the order
of the entries: for cases with distinct names, the recorded outcomes with the sideband merged in
are a permutation of `finalMap`.
-/
import ConfModel.Lemmas.Report
namespace ConfModel.Report
open ConfModel.RunVerdict

/-! ### `put` / `get?` as a map, with distinct keys -/

def mkeys {β : Type} (m : List (String × β)) : List String := m.map (·.1)

theorem get?_put {β} (m : List (String × β)) (k : String) (v : β) (n : String) :
    get? (put m k v) n = if k = n then some v else get? m n := by
  induction m with
  | nil => simp [put, get?]
  | cons e t ih =>
    obtain ⟨p, w⟩ := e
    by_cases hp : p = k
    · subst hp; by_cases hn : p = n <;> simp [put, get?, hn]
    · by_cases hn : p = n
      · subst hn
        have hne : ¬ k = p := fun e => hp e.symm
        simp [put, get?, hp, hne]
      · simp [put, get?, hp, hn, ih]

theorem mkeys_put {β} (m : List (String × β)) (k : String) (v : β) :
    mkeys (put m k v) = if k ∈ mkeys m then mkeys m else mkeys m ++ [k] := by
  induction m with
  | nil => simp [put, mkeys]
  | cons e t ih =>
    obtain ⟨p, w⟩ := e
    simp only [mkeys] at ih
    by_cases hp : p = k
    · subst hp; simp [put, mkeys]
    · have hne : ¬ k = p := fun e => hp e.symm
      by_cases hn : k ∈ List.map (·.1) t
      · simp [put, mkeys, hp, ih, hn]
      · simp [put, mkeys, hp, ih, hn, hne]

theorem nodup_put {β} (m : List (String × β)) (k : String) (v : β) (h : (mkeys m).Nodup) :
    (mkeys (put m k v)).Nodup := by
  rw [mkeys_put]; split
  · exact h
  · next hn =>
    rw [List.nodup_append]
    refine ⟨h, by simp, ?_⟩
    intro x hx y hy
    simp only [List.mem_singleton] at hy
    subst hy
    intro e; subst e; exact hn hx

theorem mem_iff_get? {β} (m : List (String × β)) (hn : (mkeys m).Nodup) (k : String) (v : β) :
    (k, v) ∈ m ↔ get? m k = some v := by
  induction m with
  | nil => simp [get?]
  | cons e t ih =>
    obtain ⟨n, w⟩ := e
    simp only [mkeys, List.map_cons, List.nodup_cons] at hn
    simp only [List.mem_cons, get?, Prod.mk.injEq]
    by_cases h : n = k
    · subst h
      simp only [if_true, Option.some.injEq]
      constructor
      · rintro (⟨_, rfl⟩ | hm)
        · rfl
        · exact absurd (List.mem_map.2 ⟨(n, v), hm, rfl⟩) hn.1
      · rintro rfl; exact Or.inl ⟨trivial, rfl⟩
    · simp only [h, if_false]
      rw [← ih hn.2]
      constructor
      · rintro (⟨hk, _⟩ | hm)
        · exact absurd hk.symm h
        · exact hm
      · exact Or.inr

theorem nodup_of_mkeys {β} (m : List (String × β)) (h : (mkeys m).Nodup) : m.Nodup := by
  unfold mkeys at h
  exact List.Pairwise.of_map (fun e => e.1) (fun a b hab e => hab (by rw [e])) h

/-! ### the three phases, as lookups -/

/-- first of two options -/
def orD {α} (a b : Option α) : Option α := match a with | some x => some x | none => b

/-- the outcome written by the outcome call of a case (none: no call) -/
def kindOutcome (mk : Marks) (c : Case) : Option Outcome :=
  let o (f : Fail) (s : Bool) : Option Outcome :=
    some { failure := f, setupError := s, knownFailing := mk.failing c.name, knownFlaky := mk.flaky c.name }
  match c.kind with
  | .pass => o .none false
  | .assertFail => o .assertion false
  | .clientErr => o .clientError false
  | .setupErr => o .other true
  | .couldNotRun => o .couldNotRun true
  | .noResult => none
  | .missing => none

theorem applyKind_eq (mk : Marks) (os : Outcomes) (c : Case) :
    applyKind mk os c = (match kindOutcome mk c with | some o => put os c.name o | none => os) := by
  unfold applyKind kindOutcome
  cases c.kind <;> rfl

def names (cs : List Case) : List String := cs.map (·.name)

def phase1 (mk : Marks) (cs : List Case) (os : Outcomes) : Outcomes := cs.foldl (applyKind mk) os

theorem phase1_nodup (mk : Marks) (cs : List Case) (os : Outcomes) (h : (mkeys os).Nodup) :
    (mkeys (phase1 mk cs os)).Nodup := by
  induction cs generalizing os with
  | nil => exact h
  | cons c t ih =>
    apply ih
    rw [applyKind_eq]
    cases kindOutcome mk c with
    | none => exact h
    | some o => exact nodup_put _ _ _ h

theorem phase1_other (mk : Marks) (cs : List Case) (os : Outcomes) (n : String) (hn : n ∉ names cs) :
    get? (phase1 mk cs os) n = get? os n := by
  induction cs generalizing os with
  | nil => rfl
  | cons c t ih =>
    simp only [names, List.map_cons, List.mem_cons, not_or] at hn
    have hne : ¬ c.name = n := fun e => hn.1 e.symm
    show get? (phase1 mk t (applyKind mk os c)) n = _
    rw [ih _ hn.2, applyKind_eq]
    cases kindOutcome mk c with
    | none => rfl
    | some o => simp [get?_put, hne]

theorem phase1_self (mk : Marks) (cs : List Case) (hd : (names cs).Nodup) (os : Outcomes) (c : Case) (hc : c ∈ cs) :
    get? (phase1 mk cs os) c.name = orD (kindOutcome mk c) (get? os c.name) := by
  induction cs generalizing os with
  | nil => cases hc
  | cons x t ih =>
    simp only [names, List.map_cons, List.nodup_cons] at hd
    show get? (phase1 mk t (applyKind mk os x)) c.name = _
    rcases List.mem_cons.1 hc with rfl | hc
    · rw [phase1_other mk t _ _ hd.1, applyKind_eq]
      cases kindOutcome mk c with
      | none => rfl
      | some o => simp [get?_put, orD]
    · have hne : ¬ x.name = c.name := fun e => hd.1 (e ▸ List.mem_map.2 ⟨c, hc, rfl⟩)
      rw [ih hd.2 _ hc, applyKind_eq]
      cases kindOutcome mk x with
      | none => rfl
      | some o => simp [get?_put, hne]

/-- the outcome `failRemaining` writes -/
def remOutcome (mk : Marks) (n : String) : Outcome :=
  { failure := .other, setupError := true, knownFailing := mk.failing n, knownFlaky := mk.flaky n }

theorem failRemaining_nodup (mk : Marks) (ns : List String) (os : Outcomes) (h : (mkeys os).Nodup) :
    (mkeys (failRemaining mk os ns .other)).Nodup := by
  unfold failRemaining
  induction ns generalizing os with
  | nil => exact h
  | cons k t ih =>
    apply ih
    dsimp only
    split
    · exact h
    · exact nodup_put _ _ _ h

theorem failRemaining_get (mk : Marks) (ns : List String) (hd : ns.Nodup) (os : Outcomes) (n : String) :
    get? (failRemaining mk os ns .other) n =
      if n ∈ ns then orD (get? os n) (some (remOutcome mk n)) else get? os n := by
  unfold failRemaining
  induction ns generalizing os with
  | nil => simp
  | cons k t ih =>
    simp only [List.nodup_cons] at hd
    simp only [List.foldl_cons]
    rw [ih hd.2]
    by_cases hk : n = k
    · subst hk
      simp only [hd.1, if_false, List.mem_cons, true_or, if_true]
      cases hg : get? os n with
      | some o => simp [orD, hg]
      | none => simp [setOutcome, get?_put, orD, remOutcome]
    · have hne : ¬ k = n := fun e => hk e.symm
      cases hgk : get? os k with
      | some _ => simp [hk]
      | none => simp [hk, setOutcome, get?_put, hne]

/-- what `mergeOne` leaves for the name it merges -/
def mergeVal (mk : Marks) (n : String) : Option Outcome → Outcome
  | some o => { o with failure := if o.failure = .none then .feedback else o.failure }
  | none => { failure := .feedback, setupError := false, knownFailing := mk.failing n, knownFlaky := mk.flaky n }

theorem mergeOne_get (mk : Marks) (os : Outcomes) (k n : String) :
    get? (mergeOne mk os k) n = if k = n then some (mergeVal mk k (get? os k)) else get? os n := by
  unfold mergeOne
  cases hg : get? os k with
  | some o => simp [get?_put, mergeVal]
  | none => simp [setOutcome, get?_put, mergeVal]

theorem mergeOne_nodup (mk : Marks) (os : Outcomes) (k : String) (h : (mkeys os).Nodup) :
    (mkeys (mergeOne mk os k)).Nodup := by
  unfold mergeOne
  cases get? os k with
  | some o => exact nodup_put _ _ _ h
  | none => exact nodup_put _ _ _ h

def mergeAll (mk : Marks) (ks : List String) (os : Outcomes) : Outcomes := ks.foldl (mergeOne mk) os

theorem processSideband_eq (mk : Marks) (os : Outcomes) (sb : Sideband) :
    processSideband mk os sb = mergeAll mk (mkeys sb) os := by
  unfold processSideband mergeAll mkeys
  rw [List.foldl_map]

theorem mergeAll_nodup (mk : Marks) (ks : List String) (os : Outcomes) (h : (mkeys os).Nodup) :
    (mkeys (mergeAll mk ks os)).Nodup := by
  induction ks generalizing os with
  | nil => exact h
  | cons k t ih => exact ih _ (mergeOne_nodup mk os k h)

theorem mergeAll_get (mk : Marks) (ks : List String) (hd : ks.Nodup) (os : Outcomes) (n : String) :
    get? (mergeAll mk ks os) n = if n ∈ ks then some (mergeVal mk n (get? os n)) else get? os n := by
  induction ks generalizing os with
  | nil => simp [mergeAll]
  | cons k t ih =>
    simp only [List.nodup_cons] at hd
    show get? (mergeAll mk t (mergeOne mk os k)) n = _
    rw [ih hd.2, mergeOne_get]
    by_cases hk : k = n
    · subst hk; simp [hd.1]
    · have hne : ¬ n = k := fun e => hk e.symm
      simp [hk, hne]

/-! ### the sideband recorded by the step loop -/

def sbOf (cs : List Case) : Sideband := (cs.filter (·.feedback)).map (fun c => (c.name, feedbackMsg))

theorem put_fresh {β} (m : List (String × β)) (k : String) (v : β) (h : k ∉ mkeys m) :
    put m k v = m ++ [(k, v)] := by
  induction m with
  | nil => rfl
  | cons e t ih =>
    obtain ⟨p, w⟩ := e
    simp only [mkeys, List.map_cons, List.mem_cons, not_or] at h
    have hne : ¬ p = k := fun e => h.1 e.symm
    simp only [put, hne, if_false, List.cons_append]
    rw [ih h.2]

theorem steps_fold (mk : Marks) (steps : List Step) (os : Outcomes) (sb : Sideband) :
    steps.foldl (stepOne mk) (os, sb) =
      (phase1 mk (steps.map (·.c)) os,
       (steps.map (·.c)).foldl (fun sb c => if c.feedback then recordSideband sb c.name feedbackMsg else sb) sb) := by
  induction steps generalizing os sb with
  | nil => rfl
  | cons s t ih =>
    simp only [List.foldl_cons, List.map_cons, phase1]
    rw [ih]
    simp only [phase1]
    congr 1
    simp only [stepOne]
    cases s.c.feedback <;> cases s.sbFirst <;> rfl

theorem sb_fold (cs : List Case) (hd : (names cs).Nodup) (sb : Sideband)
    (hfresh : ∀ c ∈ cs, c.name ∉ mkeys sb) :
    cs.foldl (fun sb c => if c.feedback then recordSideband sb c.name feedbackMsg else sb) sb = sb ++ sbOf cs := by
  induction cs generalizing sb with
  | nil => simp [sbOf]
  | cons c t ih =>
    simp only [names, List.map_cons, List.nodup_cons] at hd
    simp only [List.foldl_cons]
    have hc := hfresh c List.mem_cons_self
    show List.foldl _ (if c.feedback = true then recordSideband sb c.name feedbackMsg else sb) t = _
    cases hf : c.feedback with
    | false =>
      simp only [Bool.false_eq_true, if_false]
      rw [ih hd.2 sb (fun x hx => hfresh x (List.mem_cons_of_mem _ hx))]
      simp [sbOf, hf]
    | true =>
      have e : (if true = true then recordSideband sb c.name feedbackMsg else sb) = sb ++ [(c.name, feedbackMsg)] := by
        simp only [if_true, recordSideband]; exact put_fresh sb c.name feedbackMsg hc
      rw [e, ih hd.2]
      · simp [sbOf, hf]
      · intro x hx
        simp only [mkeys, List.map_append, List.map_cons, List.map_nil, List.mem_append, List.mem_singleton, not_or]
        refine ⟨hfresh x (List.mem_cons_of_mem _ hx), ?_⟩
        intro e
        exact hd.1 (e ▸ List.mem_map.2 ⟨x, hx, rfl⟩)

/-! ### marks of an assignment with distinct names -/

theorem marksOf_failing (cs : List Case) (hd : (names cs).Nodup) (c : Case) (hc : c ∈ cs) :
    (marksOf cs).failing c.name = markFailing c ∧ (marksOf cs).flaky c.name = markFlaky c := by
  induction cs with
  | nil => cases hc
  | cons x t ih =>
    simp only [names, List.map_cons, List.nodup_cons] at hd
    simp only [marksOf, List.any_cons] at ih ⊢
    rcases List.mem_cons.1 hc with rfl | hc
    · have hnone : ∀ (q : Case → Bool), (t.any fun y => y.name == c.name && q y) = false := by
        intro q
        rw [List.any_eq_false]
        intro y hy
        have : ¬ y.name = c.name := fun e => hd.1 (e ▸ List.mem_map.2 ⟨y, hy, rfl⟩)
        simp [this]
      simp [hnone, markFailing, markFlaky]
    · have hne : ¬ x.name = c.name := fun e => hd.1 (e ▸ List.mem_map.2 ⟨c, hc, rfl⟩)
      have := ih hd.2 hc
      simp [hne, this]

/-! ### the merged outcome map of the script, as a lookup -/

/-- the outcomes `report` looks at after the script ran -/
def scriptMap (steps : List Step) : Outcomes :=
  let mk := marksOf (steps.map (·.c))
  let st := runSteps mk steps
  processSideband mk st.1 st.2

theorem eq_of_name_eq (cs : List Case) (hd : (names cs).Nodup) (c c' : Case) (hc : c ∈ cs) (hc' : c' ∈ cs)
    (hn : c'.name = c.name) : c' = c := by
  induction cs with
  | nil => cases hc
  | cons x t ih =>
    simp only [names, List.map_cons, List.nodup_cons] at hd
    rcases List.mem_cons.1 hc with rfl | hcc <;> rcases List.mem_cons.1 hc' with rfl | hct
    · rfl
    · exact absurd (List.mem_map.2 ⟨c', hct, hn⟩) hd.1
    · exact absurd (List.mem_map.2 ⟨c, hcc, hn.symm⟩) hd.1
    · exact ih hd.2 hcc hct

theorem mem_filter_names (cs : List Case) (hd : (names cs).Nodup) (p : Case → Bool) (c : Case) (hc : c ∈ cs) :
    c.name ∈ (cs.filter p).map (·.name) ↔ p c = true := by
  constructor
  · intro h
    obtain ⟨y, hy, hn⟩ := List.mem_map.1 h
    have hy' := List.mem_filter.1 hy
    have : y = c := eq_of_name_eq cs hd c y hc hy'.1 hn
    rw [← this]; exact hy'.2
  · intro h
    exact List.mem_map.2 ⟨c, List.mem_filter.2 ⟨hc, h⟩, rfl⟩

theorem nodup_filter_names (cs : List Case) (hd : (names cs).Nodup) (p : Case → Bool) :
    ((cs.filter p).map (·.name)).Nodup := by
  induction cs with
  | nil => simp
  | cons x t ih =>
    simp only [names, List.map_cons, List.nodup_cons] at hd
    simp only [List.filter_cons]
    split
    · simp only [List.map_cons, List.nodup_cons]
      refine ⟨?_, ih hd.2⟩
      intro h
      obtain ⟨y, hy, hn⟩ := List.mem_map.1 h
      exact hd.1 (hn ▸ List.mem_map.2 ⟨y, (List.mem_filter.1 hy).1, rfl⟩)
    · exact ih hd.2

theorem scriptMap_eq (steps : List Step) (hd : (names (steps.map (·.c))).Nodup) :
    scriptMap steps =
      mergeAll (marksOf (steps.map (·.c))) (((steps.map (·.c)).filter (·.feedback)).map (·.name))
        (failRemaining (marksOf (steps.map (·.c))) (phase1 (marksOf (steps.map (·.c))) (steps.map (·.c)) [])
          (((steps.map (·.c)).filter (fun c => c.kind != .missing)).map (·.name)) .other) := by
  unfold scriptMap runSteps
  simp only [steps_fold]
  rw [processSideband_eq, sb_fold _ hd [] (by simp [mkeys])]
  congr 1
  · simp [mkeys, sbOf, List.map_map, Function.comp_def]
  · congr 1
    simp only [List.map_map, List.filter_map, Function.comp_def]

theorem scriptMap_nodup (steps : List Step) (hd : (names (steps.map (·.c))).Nodup) :
    (mkeys (scriptMap steps)).Nodup := by
  rw [scriptMap_eq steps hd]
  exact mergeAll_nodup _ _ _ (failRemaining_nodup _ _ _ (phase1_nodup _ _ _ (by simp [mkeys])))

theorem finalOutcome_script (mk : Marks) (c : Case) (h1 : mk.failing c.name = markFailing c)
    (h2 : mk.flaky c.name = markFlaky c) :
    (let o2 := if (c.kind != .missing) = true then orD (orD (kindOutcome mk c) none) (some (remOutcome mk c.name))
               else orD (kindOutcome mk c) none
     if c.feedback = true then some (mergeVal mk c.name o2) else o2) = finalOutcome c := by
  obtain ⟨n, k, m, fb⟩ := c
  simp only at h1 h2
  cases k <;> cases fb <;>
    simp [kindOutcome, orD, remOutcome, mergeVal, finalOutcome, baseOutcome, h1, h2]

theorem scriptMap_get_self (steps : List Step) (hd : (names (steps.map (·.c))).Nodup) (c : Case)
    (hc : c ∈ steps.map (·.c)) : get? (scriptMap steps) c.name = finalOutcome c := by
  have hm := marksOf_failing _ hd c hc
  rw [scriptMap_eq steps hd, mergeAll_get _ _ (nodup_filter_names _ hd _),
    failRemaining_get _ _ (nodup_filter_names _ hd _), phase1_self _ _ hd _ _ hc]
  simp only [mem_filter_names _ hd _ c hc, get?]
  exact finalOutcome_script _ c hm.1 hm.2

theorem scriptMap_get_other (steps : List Step) (hd : (names (steps.map (·.c))).Nodup) (n : String)
    (hn : n ∉ names (steps.map (·.c))) : get? (scriptMap steps) n = none := by
  have h1 : ∀ p : Case → Bool, n ∉ ((steps.map (·.c)).filter p).map (·.name) := by
    intro p h
    obtain ⟨y, hy, rfl⟩ := List.mem_map.1 h
    exact hn (List.mem_map.2 ⟨y, (List.mem_filter.1 hy).1, rfl⟩)
  rw [scriptMap_eq steps hd, mergeAll_get _ _ (nodup_filter_names _ hd _),
    failRemaining_get _ _ (nodup_filter_names _ hd _), phase1_other _ _ _ _ hn]
  simp [h1, get?]

/-! ### `finalMap` as a lookup -/

theorem finalMap_mkeys_sub (cs : List Case) (n : String) (h : n ∈ mkeys (finalMap cs)) : n ∈ names cs := by
  simp only [mkeys, List.mem_map] at h
  obtain ⟨⟨k, o⟩, hm, rfl⟩ := h
  obtain ⟨c, hc, hn, _⟩ := (mem_finalMap cs k o).1 hm
  exact List.mem_map.2 ⟨c, hc, hn⟩

theorem finalMap_nodup (cs : List Case) (hd : (names cs).Nodup) : (mkeys (finalMap cs)).Nodup := by
  induction cs with
  | nil => simp [finalMap, mkeys]
  | cons c t ih =>
    simp only [names, List.map_cons, List.nodup_cons] at hd
    cases h : finalOutcome c with
    | none => rw [finalMap_cons_none c t h]; exact ih hd.2
    | some o =>
      rw [finalMap_cons_some c t o h]
      simp only [mkeys, List.map_cons, List.nodup_cons]
      exact ⟨fun hm => hd.1 (finalMap_mkeys_sub t _ hm), ih hd.2⟩

/-- **The script amounts to the assignment's outcome map** (up to order). -/
theorem scriptMap_perm (steps : List Step) (hd : (names (steps.map (·.c))).Nodup) :
    (scriptMap steps).Perm (finalMap (steps.map (·.c))) := by
  have n1 := scriptMap_nodup steps hd
  have n2 := finalMap_nodup _ hd
  rw [List.perm_ext_iff_of_nodup (nodup_of_mkeys _ n1) (nodup_of_mkeys _ n2)]
  rintro ⟨n, o⟩
  rw [mem_iff_get? _ n1, mem_finalMap]
  by_cases hn : n ∈ names (steps.map (·.c))
  · obtain ⟨c, hc, rfl⟩ := List.mem_map.1 hn
    rw [scriptMap_get_self steps hd c hc]
    constructor
    · intro h; exact ⟨c, hc, rfl, h⟩
    · rintro ⟨c', hc', hn', h'⟩
      have : c' = c := eq_of_name_eq _ hd c c' hc hc' hn'
      rw [← this]; exact h'
  · rw [scriptMap_get_other steps hd n hn]
    constructor
    · intro h; cases h
    · rintro ⟨c, hc, rfl, _⟩
      exact absurd (List.mem_map.2 ⟨c, hc, rfl⟩) hn

end ConfModel.Report
