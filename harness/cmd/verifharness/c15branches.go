package main

// C15 — generator statistics: which branches of the model (lean/ConfModel/Model/H2Conn.lean,
// H2Frame.lean, H2Retry.lean) a generated case reaches.  This is bookkeeping for the evidence
// file only ("branch:<tag>" counters, one count per case that reaches the branch); nothing
// here is compared with anything.  The replay of the stream table below follows the model's
// `streamStep` / `setMax` / `cancelAll` / `Conn.step` and the collector's `Coll.step` branch by
// branch, on the units the real Framer decoded, in the order the calls complete them.

import (
	"sort"
	"strings"
)

type c15BrStream struct {
	name      string
	gotResp   bool
	earlyData bool // response DATA was traced before the response HEADERS (stale byte count)
	resp      c15BrParser
}

// c15BrParser follows the counters of the response-side dataTracer of a stream, only to know how
// much the tracer under test will pre-allocate for an end-stream message (it allocates the DECLARED
// length as soon as the prefix is complete): see c15MaxEndStreamAlloc.
type c15BrParser struct {
	isStream  bool
	prefix    []byte
	expecting uint32
	actual    uint64
}

func (p *c15BrParser) feed(data []byte, worst *int64) {
	if !p.isStream {
		p.actual += uint64(len(data))
		return
	}
	for len(data) > 0 {
		if p.expecting == 0 {
			need := 5 - len(p.prefix)
			if len(data) < need {
				p.prefix = append(p.prefix, data...)
				return
			}
			p.prefix = append(p.prefix, data[:need]...)
			data = data[need:]
			n := uint32(p.prefix[1])<<24 | uint32(p.prefix[2])<<16 | uint32(p.prefix[3])<<8 | uint32(p.prefix[4])
			if n != 0 && p.prefix[0]&0x82 != 0 && int64(n) > *worst {
				*worst = int64(n)
			}
			p.expecting = n
			p.prefix = p.prefix[:0]
			continue
		}
		need := int(p.expecting - uint32(p.actual))
		if len(data) < need {
			p.actual += uint64(len(data))
			return
		}
		data = data[need:]
		p.expecting, p.actual = 0, 0
	}
}

type c15BrState struct {
	worst   int64 // largest end-stream buffer the tracer pre-allocates on this case
	server  bool
	streams map[uint32]*c15BrStream
	maxID   uint32
	goaway  bool
	waiting map[string]bool
	tags    map[string]bool
}

func (s *c15BrState) tag(t string) { s.tags["branch:"+t] = true }

func c15BrName(f [][2]string) string {
	for _, kv := range f {
		if !strings.HasPrefix(kv[0], ":") && strings.ToLower(kv[0]) == "x-test-case-name" {
			return kv[1]
		}
	}
	return ""
}

// props: `propsOf` / `decOf` on the fields of a request or first response HEADERS
func (s *c15BrState) props(f [][2]string) {
	get := func(name string) string {
		for _, kv := range f {
			if !strings.HasPrefix(kv[0], ":") && strings.ToLower(kv[0]) == name {
				return kv[1]
			}
		}
		return ""
	}
	dec := func(enc string) string {
		if e := strings.ToLower(enc); e == "" || e == "identity" {
			return "identity"
		}
		return "other-encoding"
	}
	ct := strings.ToLower(get("content-type"))
	switch {
	case get("content-encoding") != "":
		s.tag("props:content-encoding-not-enveloped")
	case strings.HasPrefix(ct, "application/connect"):
		s.tag("props:connect-stream-" + dec(get("connect-content-encoding")))
	case strings.HasPrefix(ct, "application/grpc"):
		s.tag("props:grpc-" + dec(get("grpc-encoding")))
	default:
		s.tag("props:not-enveloped")
	}
}

// c15BrIsStream: propertiesFromHeaders' verdict on the fields of a first response HEADERS
func c15BrIsStream(f [][2]string) bool {
	get := func(name string) string {
		for _, kv := range f {
			if !strings.HasPrefix(kv[0], ":") && strings.ToLower(kv[0]) == name {
				return kv[1]
			}
		}
		return ""
	}
	ct := strings.ToLower(get("content-type"))
	return get("content-encoding") == "" && (strings.HasPrefix(ct, "application/connect") || strings.HasPrefix(ct, "application/grpc"))
}

// complete: `Coll.complete`
func (s *c15BrState) complete(st *c15BrStream, retryable bool) {
	if st.name == "" {
		s.tag("complete:unnamed-nothing")
		return
	}
	switch {
	case retryable && s.waiting[st.name]:
		s.tag("coll:complete-retryable-replaces-held")
	case retryable:
		s.tag("coll:complete-retryable-held")
	case s.waiting[st.name]:
		s.tag("coll:complete-dropped-while-held")
	default:
		s.tag("coll:complete-delivered")
	}
	if retryable {
		s.waiting[st.name] = true
	}
}

// closeStream: `closeLocal`
func (s *c15BrState) closeStream(id uint32, st *c15BrStream, isReq bool, errNil bool, retryable bool, what string) {
	if isReq && errNil {
		s.tag(what + ":request-end-stays")
		return
	}
	delete(s.streams, id)
	if !st.gotResp {
		s.tag(what + ":close-before-response")
	} else {
		s.tag(what + ":close-after-response")
	}
	s.complete(st, retryable)
}

func (s *c15BrState) frame(isReq bool, f *c15Frame) {
	dir := "resp"
	if isReq {
		dir = "req"
	}
	switch f.T {
	case "H":
		st := s.streams[f.ID]
		if st == nil {
			switch {
			case !isReq:
				s.tag("headers:response-unknown-stream-ignored")
			case s.maxID != 0 && f.ID > s.maxID:
				s.tag("headers:stream-id-too-high-ignored")
			default:
				t := "headers:new-stream"
				name := c15BrName(f.F)
				if name == "" {
					t += "-unnamed"
				}
				s.tag(t)
				if s.goaway {
					s.tag("headers:new-stream-after-goaway-accepted")
				}
				if name != "" && s.waiting[name] {
					s.tag("coll:newAttempt-drops-held")
					delete(s.waiting, name)
				} else {
					s.tag("coll:newAttempt-nothing-held")
				}
				st = &c15BrStream{name: name}
				s.streams[f.ID] = st
				s.props(f.F)
				if f.ES {
					s.closeStream(f.ID, st, true, true, false, "headers-new")
				}
			}
			return
		}
		switch {
		case !isReq && !st.gotResp:
			s.tag("headers:response-first")
			if st.earlyData {
				s.tag("headers:response-first-after-early-data")
			}
			st.gotResp = true
			s.props(f.F)
			st.resp.isStream = c15BrIsStream(f.F)
		case isReq:
			s.tag("headers:request-trailers")
		case st.name != "":
			s.tag("headers:response-trailers")
		default:
			s.tag("headers:response-trailers-unnamed-skipped")
		}
		if f.ES {
			s.closeStream(f.ID, st, isReq, true, false, "headers-"+dir+"-end-stream")
		}
	case "D":
		st := s.streams[f.ID]
		if st == nil {
			s.tag("data:unknown-stream-ignored")
			return
		}
		switch {
		case isReq:
			s.tag("data:request")
		case !st.gotResp:
			s.tag("data:response-before-headers")
			st.earlyData = true
		default:
			s.tag("data:response")
		}
		if !isReq {
			st.resp.feed(c15Unhex(f.X), &s.worst)
		}
		if len(f.X) == 0 {
			s.tag("data:empty-payload")
		}
		if f.ES {
			s.closeStream(f.ID, st, isReq, true, false, "data-"+dir+"-end-stream")
		}
	case "R":
		st := s.streams[f.ID]
		if st == nil {
			s.tag("rst:unknown-stream-ignored")
			return
		}
		s.closeStream(f.ID, st, isReq, false, f.Code == 7, "rst-"+dir)
	case "G":
		var gone []uint32
		for id := range s.streams {
			if id > f.Last {
				gone = append(gone, id)
			}
		}
		sort.Slice(gone, func(i, j int) bool { return gone[i] < gone[j] })
		if len(gone) == 0 {
			s.tag("goaway:no-stream-above-last")
		} else {
			s.tag("goaway:streams-above-last")
		}
		if len(gone) < len(s.streams) {
			s.tag("goaway:streams-kept")
		}
		if s.goaway {
			s.tag("goaway:second")
		}
		for _, id := range gone {
			s.closeStream(id, s.streams[id], false, false, f.Code == 0, "goaway")
		}
		s.maxID = f.Last
		s.goaway = true
	default:
		s.tag("frame:other-ignored")
	}
}

// lost: `cancelAll` + `collector.cancel()`
func (s *c15BrState) lost(what string) {
	side := "client"
	if s.server {
		side = "server"
	}
	if len(s.streams) == 0 {
		s.tag(what + ":no-open-stream")
	} else {
		s.tag(what + ":" + side + "-open-streams")
	}
	ids := make([]uint32, 0, len(s.streams))
	for id := range s.streams {
		ids = append(ids, id)
	}
	for _, id := range ids {
		st := s.streams[id]
		delete(s.streams, id)
		s.complete(st, false)
	}
	if len(s.waiting) > 0 {
		s.tag("coll:cancel-delivers-held")
	} else {
		s.tag("coll:cancel-nothing-held")
	}
	s.waiting = map[string]bool{}
}

// c15Branches replays the units of a case in the order the calls complete them.
func c15Branches(in *c15In, units map[string][]c15Unit) []string {
	s := c15BrReplay(in, units)
	out := make([]string, 0, len(s.tags))
	for t := range s.tags {
		out = append(out, t)
	}
	sort.Strings(out)
	return out
}

// c15MaxEndStreamAlloc: the largest buffer the tracer under test would pre-allocate on this input.
// dataTracer captures the payload of a response-direction end-stream message (flags & 0x82) in a
// buffer of the DECLARED length, allocated (and zeroed) when the prefix is complete, whatever
// follows; scrambled / mutated / random inputs now and then declare gigabytes there.
func c15MaxEndStreamAlloc(in *c15In) int64 {
	q, p, _ := c15Bytes(in)
	return c15BrReplay(in, map[string][]c15Unit{"q": c15Units(q, true), "p": c15Units(p, false)}).worst
}

func c15BrReplay(in *c15In, units map[string][]c15Unit) *c15BrState {
	s := &c15BrState{server: in.Server, streams: map[uint32]*c15BrStream{}, waiting: map[string]bool{}, tags: map[string]bool{}}
	type cursor struct {
		units  []c15Unit
		next   int
		pos    int // bytes handed to the tracer so far
		end    int // offset at which the next unit is complete
		broken bool
	}
	mk := func(d string) *cursor {
		c := &cursor{units: units[d]}
		if d == "q" {
			c.end = len(c15Preface)
		}
		if len(c.units) > 0 {
			c.end += len(c.units[0].B) / 2
		}
		return c
	}
	cur := map[bool]*cursor{true: mk("q"), false: mk("p")} // keyed by isReq
	advance := func(isReq bool, n int) {
		c := cur[isReq]
		c.pos += n
		for !c.broken && c.next < len(c.units) && c.end <= c.pos {
			u := c.units[c.next]
			if c15UnitFrames(u.B) > 1 {
				s.tag("layer1:header-block-continued")
			}
			if u.F == nil {
				s.tag("layer1:decoder-rejects-broken")
				c.broken = true
				break
			}
			s.frame(isReq, u.F)
			c.next++
			if c.next < len(c.units) {
				c.end += len(c.units[c.next].B) / 2
			}
		}
	}
	for _, call := range in.Calls {
		if len(call) == 0 {
			continue
		}
		switch c15Str(call[0]) {
		case "r":
			if len(call) < 4 {
				continue
			}
			advance(in.Server, c15Num(call[1]))
			if c15Num(call[1]) > 0 && c15Str(call[2]) != "ok" {
				s.tag("read-data-with-" + c15Str(call[2]))
			}
			switch c15Str(call[2]) {
			case "fail":
				s.lost("read-fail")
			case "eof":
				s.lost("read-eof")
			case "timeout", "deadline":
				s.tag("read-timeout:ignored")
			}
		case "w":
			if len(call) < 4 {
				continue
			}
			advance(!in.Server, c15Num(call[1]))
			if n := c15Num(call[1]); n > 0 {
				wn := n
				if c15Str(call[2]) != "ok" {
					wn = n / 2
				}
				if len(call) >= 5 {
					wn = n
					if c15Num(call[4]) < n {
						wn = c15Num(call[4])
					}
				}
				switch {
				case wn < n && c15Str(call[2]) == "ok":
					s.tag("write-short-without-error")
				case wn < n:
					s.tag("write-short-with-" + c15Str(call[2]))
				case c15Str(call[2]) != "ok":
					s.tag("write-full-count-with-" + c15Str(call[2]))
				}
			}
			switch c15Str(call[2]) {
			case "fail":
				s.lost("write-fail")
			case "eof":
				s.lost("write-eof")
			case "timeout", "deadline":
				s.lost("write-timeout")
			}
		case "c":
			if len(call) < 3 {
				continue
			}
			if c15Str(call[1]) == "ok" {
				s.lost("close")
			} else {
				s.lost("close-error")
			}
		case "t":
			if len(s.waiting) > 0 {
				s.tag("timers:deliver-held")
			} else {
				s.tag("timers:nothing-held")
			}
			s.waiting = map[string]bool{}
		}
	}
	if len(s.streams) > 0 {
		s.tag("end:streams-still-open")
	}
	if len(s.waiting) > 0 {
		s.tag("end:traces-still-held")
	}
	return s
}

// c15UnitFrames counts the frames in a unit (hex): more than one = HEADERS + CONTINUATION…
func c15UnitFrames(hexUnit string) int {
	b := c15Unhex(hexUnit)
	n := 0
	for len(b) >= 9 {
		l := int(b[0])<<16 | int(b[1])<<8 | int(b[2])
		if len(b) < 9+l {
			break
		}
		b = b[9+l:]
		n++
	}
	return n
}
