/-
C02 — the expectation generator with everything a suite can say about the expected outcome:
besides the `ClientResponseResult` proper (`TC.explicit`, `Result`) a test case may carry
`expected_response.http_status_code` and `other_allowed_error_codes` (suite.proto).

`populateExpectedResponse` (test_case_library.go) has exactly two outcomes for these fields:

* `testCase.ExpectedResponse != nil`  ⇒ return at once: the given response — payloads, error
  with its details, headers, trailers **and its HTTP status** — is kept as it is.  Nothing is
  merged into it: no request info is appended to the error details, no query parameters, no
  headers of the response definition (so a case that restates an error definition must list the
  request-info detail itself).
* otherwise the derived `ClientResponseResult` is a fresh message built from the request only:
  `HttpStatusCode` is never set.

`OtherAllowedErrorCodes` is a field of the `TestCase`, not of the expected response: neither branch
touches it, and `assert` (results.go) reads it from the definition whichever branch was taken.
-/
import ConfModel.Model.Echo
namespace ConfModel.Echo

/-- what the library holds for a permutation when `assert` runs: `ExpectedResponse`,
`ExpectedResponse.HttpStatusCode`, `OtherAllowedErrorCodes` -/
structure Expectation where
  result : Result
  status : Option Nat
  otherCodes : List Nat
deriving DecidableEq, Repr, Inhabited

/-- a test case as the suite states it -/
structure XTC where
  tc : TC
  /-- `expected_response.http_status_code`; part of the explicit expected response (read only when
  `tc.explicit` is given — without an `expected_response` there is no place to write it) -/
  status : Option Nat
  /-- `other_allowed_error_codes` -/
  otherCodes : List Nat
deriving DecidableEq, Repr, Inhabited

/-- `populateExpectedResponse` on the full test case: kept / derived / rejected -/
def populateX (x : XTC) : Option Expectation :=
  match x.tc.explicit with
  | some e => some ⟨e, x.status, x.otherCodes⟩
  | none => if derivable x.tc then some ⟨expected x.tc, none, x.otherCodes⟩ else none

end ConfModel.Echo
