//go:build verif

package tracer

import (
	"context"
	"fmt"
	"io"
	"net/http"
	"reflect"
)

// VerifC14Widths reports, by reflection over the compiled types, the kinds of the counters of
// dataTracer and of the length fields of the events it emits ("uint64", "uint32", ...).  A
// field that no longer exists is reported as "missing".
func VerifC14Widths() map[string]string {
	kind := func(t reflect.Type, field string) string {
		f, ok := t.FieldByName(field)
		if !ok {
			return "missing"
		}
		return f.Type.Kind().String()
	}
	dt := reflect.TypeOf((*dataTracer)(nil)).Elem()
	return map[string]string{
		"expecting":   kind(dt, "expecting"),
		"actual":      kind(dt, "actual"),
		"envLen":      kind(reflect.TypeOf(Envelope{}), "Len"),
		"reqDataLen":  kind(reflect.TypeOf(RequestBodyData{}), "Len"),
		"respDataLen": kind(reflect.TypeOf(ResponseBodyData{}), "Len"),
	}
}

// ---------------------------------------------------------------- bodies too large to write down

// VerifBigSeg describes the bytes of Times (default 1) successive calls: the literal bytes X
// (hex), or Z filler bytes (zeros) each.
type VerifBigSeg struct {
	X string `json:"x,omitempty"`
	Z int64  `json:"z,omitempty"`
	T int    `json:"t,omitempty"`
}

// VerifBigSide is one direction of a big session.
type VerifBigSide struct {
	CT     string        `json:"ct"`
	CE     string        `json:"ce"`
	CCE    string        `json:"cce"`
	GE     string        `json:"ge"`
	Segs   []VerifBigSeg `json:"segs"`
	Ending string        `json:"ending"` // eof | err | close (close: reader sides only)
}

func (s VerifBigSide) header() http.Header {
	h := http.Header{}
	for _, kv := range [][2]string{{"Content-Type", s.CT}, {"Content-Encoding", s.CE}, {"Connect-Content-Encoding", s.CCE}, {"Grpc-Encoding", s.GE}} {
		if kv[1] != "" {
			h.Set(kv[0], kv[1])
		}
	}
	return h
}

type verifBigCall struct {
	lit []byte
	n   int // filler bytes when lit == nil
}

func (s VerifBigSide) calls() (calls []verifBigCall, maxLen int) {
	for _, g := range s.Segs {
		t := g.T
		if t <= 0 {
			t = 1
		}
		var c verifBigCall
		if g.Z > 0 || g.X == "" {
			c = verifBigCall{n: int(g.Z)}
		} else {
			b, _ := hexDecode(g.X)
			c = verifBigCall{lit: b, n: len(b)}
		}
		if c.n > maxLen {
			maxLen = c.n
		}
		for i := 0; i < t; i++ {
			calls = append(calls, c)
		}
	}
	return calls, maxLen
}

// verifBigArray is the ONE array a caller of a big session owns for a direction.  It is all
// zeros between calls: a filler call "delivers" n zero bytes by returning n without touching
// the array; after a literal call the caller clears the bytes again.  Whatever else is found in
// it was written by the wrapper.
type verifBigArray struct {
	b    []byte
	viol string
}

func newVerifBigArray(maxLen int) *verifBigArray {
	return &verifBigArray{b: make([]byte, maxLen+16)}
}

func (a *verifBigArray) note(format string, args ...any) {
	if a.viol == "" {
		a.viol = fmt.Sprintf(format, args...)
	}
}

// after a call that put lit at the front: the array must hold lit and zeros; clear it again
func (a *verifBigArray) afterLit(what string, call int, lit []byte) {
	for i, x := range lit {
		if a.b[i] != x {
			a.note("%s call %d: the caller's array holds other bytes than the inner side delivered (offset %d)", what, call, i)
			break
		}
	}
	lim := len(lit) + 64
	if lim > len(a.b) {
		lim = len(a.b)
	}
	for i := len(lit); i < lim; i++ {
		if a.b[i] != 0 {
			a.note("%s call %d: the caller's array was modified beyond the bytes of the call (offset %d)", what, call, i)
			break
		}
	}
	for i := range lit {
		a.b[i] = 0
	}
}

// at the end of the session: the whole array (length and capacity region) is still zero
func (a *verifBigArray) finish(what string) string {
	if a.viol == "" {
		for i, x := range a.b {
			if x != 0 {
				a.note("%s: the caller's array was modified (offset %d)", what, i)
				break
			}
		}
	}
	return a.viol
}

// verifBigReader is the scripted inner body of a big session.
type verifBigReader struct {
	calls  []verifBigCall
	pos    int
	ending string
	closes int
	total  uint64
}

func (r *verifBigReader) Read(p []byte) (int, error) {
	if r.pos >= len(r.calls) {
		if r.ending == "err" {
			return 0, VerifErrInner
		}
		return 0, io.EOF
	}
	c := r.calls[r.pos]
	r.pos++
	if c.n > len(p) {
		panic("verif: big reader called with a small buffer")
	}
	if c.lit != nil {
		copy(p, c.lit)
	}
	r.total += uint64(c.n)
	return c.n, nil
}

func (r *verifBigReader) Close() error { r.closes++; return nil }

// VerifBigSideOut is what the user of one direction saw.
type VerifBigSideOut struct {
	Total    uint64 `json:"total"`    // bytes the caller got (Read) / the underlying writer got (Write)
	Calls    int    `json:"calls"`    // calls that moved bytes
	Mismatch int    `json:"mismatch"` // calls whose (n, err) differ from what the inner side returned
	End      string `json:"end"`      // error class of the final Read / Close
	Array    string `json:"array"`    // "" or how the caller's array was found modified
}

// VerifBigOut is what one big session produced.
type VerifBigOut struct {
	Events      []string        `json:"events"`
	Completions int             `json:"completions"`
	Req         VerifBigSideOut `json:"req"`
	Resp        VerifBigSideOut `json:"resp"`
}

// readAll drives rd as the scripted caller: one Read per call of the script into the caller's
// one array, then the ending (a Read that meets EOF / the error, or Close).
func verifBigReadAll(what string, rd io.ReadCloser, inner *verifBigReader, arr *verifBigArray) VerifBigSideOut {
	var out VerifBigSideOut
	for i, c := range inner.calls {
		n, err := rd.Read(arr.b[:len(arr.b)-16])
		if n != c.n || err != nil {
			out.Mismatch++
		}
		if c.lit != nil && n == c.n {
			arr.afterLit(what, i, c.lit)
		}
		out.Total += uint64(n)
		out.Calls++
	}
	switch inner.ending {
	case "close":
		out.End = VerifErrClass(rd.Close())
	default:
		n, err := rd.Read(arr.b[:len(arr.b)-16])
		out.End = VerifErrClass(err)
		want := io.EOF
		if inner.ending == "err" {
			want = VerifErrInner
		}
		if n != 0 || err != want { //nolint:errorlint // identity is the point
			out.Mismatch++
		}
	}
	out.Array = arr.finish(what)
	return out
}

// verifBigRW is the underlying ResponseWriter of a big session: it counts.
type verifBigRW struct {
	h     http.Header
	wrote bool
	total uint64
}

func (w *verifBigRW) Header() http.Header { return w.h }
func (w *verifBigRW) WriteHeader(int)     { w.wrote = true }
func (w *verifBigRW) Write(p []byte) (int, error) {
	w.wrote = true
	w.total += uint64(len(p))
	return len(p), nil
}

// VerifBigSession pushes bodies described by segments through the real wrappers:
//
//	path "reader":  newRequestReader (side "req") / newReader+whenDone (side "resp") over the
//	                scripted body of that side, read to its ending;
//	path "handler": TracingHandler; the handler reads the request body to its ending and then
//	                writes the response segments to a counting ResponseWriter;
//	path "rt":      TracingRoundTripper; the transport reads the request body to its ending and
//	                closes it, the caller reads the response body to its ending.
//
// Every direction's caller owns ONE array that is all zeros between calls (see verifBigArray).
func VerifBigSession(path, side string, client bool, req, resp VerifBigSide) VerifBigOut {
	var out VerifBigOut
	coll := &VerifCollector{}
	reqCalls, reqMax := req.calls()
	respCalls, respMax := resp.calls()
	reqInner := &verifBigReader{calls: reqCalls, ending: req.Ending}
	respInner := &verifBigReader{calls: respCalls, ending: resp.Ending}
	reqArr, respArr := newVerifBigArray(reqMax), newVerifBigArray(respMax)
	switch path {
	case "reader":
		var rd io.ReadCloser
		if side == "req" {
			bld, _ := newBuilder(verifRequest(req.header()), client, coll)
			rd = newRequestReader(req.header(), reqInner, true, bld)
			out.Req = verifBigReadAll("request body", rd, reqInner, reqArr)
			bld.build()
		} else {
			bld, _ := newBuilder(verifRequest(req.header()), client, coll)
			rd = newReader(resp.header(), respInner, false, bld, func() {})
			out.Resp = verifBigReadAll("response body", rd, respInner, respArr)
			bld.build()
		}
	case "handler":
		rw := &verifBigRW{h: http.Header{}}
		hreq := verifRequest(req.header())
		hreq.Body = reqInner
		handler := http.HandlerFunc(func(w http.ResponseWriter, r *http.Request) {
			out.Req = verifBigReadAll("request body", r.Body, reqInner, reqArr)
			for k, v := range resp.header() {
				w.Header()[k] = v
			}
			for i, c := range respCalls {
				if c.lit != nil {
					copy(respArr.b, c.lit)
				}
				n, err := w.Write(respArr.b[:c.n])
				if n != c.n || err != nil {
					out.Resp.Mismatch++
				}
				if c.lit != nil {
					respArr.afterLit("response write", i, c.lit)
				}
				out.Resp.Calls++
			}
			out.Resp.End = "nil"
		})
		TracingHandler(handler, coll).ServeHTTP(rw, hreq)
		out.Resp.Total = rw.total
		out.Resp.Array = respArr.finish("response write")
	case "rt":
		transport := roundTripperFunc(func(r *http.Request) (*http.Response, error) {
			out.Req = verifBigReadAll("request body", r.Body, reqInner, reqArr)
			r.Body.Close()
			return &http.Response{
				Status: "200 x", StatusCode: 200, Proto: "HTTP/1.1", ProtoMajor: 1, ProtoMinor: 1,
				Header: resp.header(), Body: respInner, ContentLength: -1, Request: r,
			}, nil
		})
		ctx, cancel := context.WithCancel(context.Background())
		defer cancel()
		hreq := verifRequest(req.header()).WithContext(ctx)
		hreq.Body = reqInner
		r, err := TracingRoundTripper(transport, coll).RoundTrip(hreq)
		if err == nil && r != nil {
			out.Resp = verifBigReadAll("response body", r.Body, respInner, respArr)
		} else {
			out.Resp.Mismatch++
		}
	}
	out.Completions = coll.Count()
	out.Events = []string{}
	if len(coll.Traces) > 0 {
		out.Events = VerifBodyEvents(coll.Traces[0])
	}
	return out
}
