package main

import (
	"encoding/json"
	"time"

	cc "connectrpc.com/conformance/internal/app/connectconformance"
	"connectrpc.com/conformance/internal/verifharness/gen"
)

// C09 op "clientstall" (see verif_export_c09stall.go): reader idle, THEN a request, THEN the client
// stalls — the time-out error must come within the configured period of that call site.
//
//	clientstall  <VerifC09StallSpec>  ->  <VerifC09StallObs>
//
// Every scenario lasts as long as the period (20 s): the quick tier runs one (which one depends on
// the seed), the thorough tier all six; they run beside everything else.

func init() {
	gen.RegisterOp("c09", "clientstall", func(c *gen.Ctx, raw json.RawMessage) any {
		spec := gen.Into[cc.VerifC09StallSpec](raw)
		obs, frozen := c09Steady(3*time.Second, func() cc.VerifC09StallObs { return cc.VerifC09ClientStall(spec) })
		obs.FrozenMs = frozen
		if frozen > 0 {
			c.E.Count("clientstall:set-aside-machine-stalled")
		}
		return obs
	})
}

func c09StallScenarios(c *gen.Ctx) []any {
	names := []string{"Stall/case0", "Stall/case1"}
	var all []any
	for lead := 0; lead <= 1; lead++ {
		frame := cc.VerifC11WireClientFrames(names[lead:], 1)
		for _, partial := range [][]byte{nil, frame[:2], frame[:9]} {
			all = append(all, cc.VerifC09StallSpec{Lead: lead, Partial: gen.Hex(partial), MarginS: 12})
		}
	}
	if c.Thorough() {
		return all
	}
	return []any{all[int(c.Seed%uint64(len(all)))]}
}
