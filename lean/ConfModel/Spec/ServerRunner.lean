/-
C11 — what the property demands of a server batch, as predicates on the observable result
(outcome class per case, abort calls, forwarded stderr lines, side-band records).  Evaluated by the
driver on the implementation's output; conclusions of the theorems in `Props/C11.lean`.
-/
import ConfModel.Model.ServerRunner
namespace ConfModel.ServerRunner.Spec
open ConfModel.ServerRunner

/-- recorded with `setupError = true` -/
def isSetupErr : Class → Bool
  | .setup | .norun | .noresult => true
  | _ => false

/-- a fault before any case could be sent: the server cannot be started, its request cannot be
written, its response is unreadable / empty / oversized / truncated / absent, or carries no
certificate although TLS is used -/
def setupFault (s : Script) : Bool :=
  s.startErr || s.writeErr || s.closeErr ||
    (match respCert s.resp with | none => true | some cert => s.useTLS && !cert)

/-- index of the first case that is *not* handed to the client any more: the server is dead, or
the client refuses the request -/
def stopIdx (dies : Option Nat) : Nat → List Case → Nat
  | i, [] => i
  | i, c :: rest => if dead dies i then i else if c == .refuse then i else stopIdx dies (i + 1) rest

/-- the demanded class of case i: with a set-up fault every case is a set-up error; a case handed
to the client keeps the verdict computed from its own answer; every later case is a set-up error
(never a pass, never missing) -/
def expectedOK (s : Script) (i : Nat) (c : Class) : Bool :=
  if setupFault s then c == .setup
  else if i < stopIdx s.dies 0 s.cases then
    (match s.cases[i]? with | some (.answer k _) => c == verdict k | _ => false)
  else isSetupErr c

/-- the log of `setOutcome` calls names every case of the batch exactly once and nothing else -/
def oneOutcomeEach (n : Nat) (keys : List Nat) : Prop := ∀ i, keys.count i = if i < n then 1 else 0

/-- the server was asked to stop (at least once) iff it was started -/
def stoppedOK (started : Bool) (aborts : Nat) : Bool := if started then aborts ≥ 1 else aborts == 0

/-! ### stderr of a reference server: declarative reading -/

/-- the trimmed line starts with `name: ` for a name of the batch: feedback for that case -/
def feedbackOf (names : List (List Char)) (line : List Char) : Option (List Char × List Char) :=
  let t := trim line
  names.findSome? (fun nm => if (nm ++ [':', ' ']).isPrefixOf t then some (nm, t.drop (nm.length + 2)) else none)

def blank (line : List Char) : Bool := (trim line).isEmpty

/-- lines that must be passed through, in order: not blank, not feedback -/
def expectForwarded (names : List (List Char)) (lines : List (List Char)) : List (List Char) :=
  lines.filter (fun l => !blank l && (feedbackOf names l).isNone)

/-- the side-band records, in order -/
def expectRecords (names : List (List Char)) (lines : List (List Char)) : List (List Char × List Char) :=
  lines.filterMap (feedbackOf names)

/-- names for which the reading is unambiguous: no `": "` inside a test name -/
def noSep (nm : List Char) : Bool := (splitSep nm).isNone

end ConfModel.ServerRunner.Spec
